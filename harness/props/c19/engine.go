package c19

import (
	"fmt"
	"os"
	"sort"
	"strings"

	hms "github.com/smarthome-go/homescript/v3/homescript"
	"github.com/smarthome-go/homescript/v3/homescript/analyzer/ast"
	"github.com/smarthome-go/homescript/v3/homescript/diagnostic"
	"github.com/smarthome-go/homescript/v3/homescript/optimizer"
	pAst "github.com/smarthome-go/homescript/v3/homescript/parser/ast"

	"hv/drive"
	"hv/fw"
	"hv/util"
)

// Modes of a case: which translation of the program is validated.
const (
	ModePAst = "past" // parser-AST printer: pAst.Program.String()
	ModeAAst = "aast" // analysed-tree printer: ast.AnalyzedProgram.String()
	ModeOpt  = "opt"  // optimizer.Optimize on the analysed modules, executed on the VM
	ModeOptT = "optt" // optimizer.Optimize, executed by the tree-walking interpreter
)

// Report is what validating one (program, mode) pair observed.
type Report struct {
	Rejected   string // the ORIGINAL program is not accepted (no verdict about the translation)
	Unstable   string // the original program behaves differently in two runs (no verdict)
	Nontrivial bool
	Evals      int64
	Fails      []fw.SubViolation
	Cover      []string
	// Texts for replay files / samples
	Text1    map[string]string
	Effects0 string
	Outcome0 string
	OptDiags int
	OptCut   bool // the optimizer removed at least one statement
}

func (r *Report) fail(sig, why string, detail any) {
	r.Fails = append(r.Fails, fw.SubViolation{Sig: sig, Why: why, Detail: detail})
}

type behaviour struct {
	Effects string
	Outcome drive.Outcome
}

func (b behaviour) String() string { return b.Outcome.String() }

// run analyses src afresh and runs it on the VM (nothing is shared between two runs).
func runFresh(src map[string]string) (behaviour, drive.AnalyzeOut) {
	ao := drive.Analyze(src, "main", true)
	if ao.Errors > 0 {
		return behaviour{}, ao
	}
	vm := drive.RunVM(ao.Modules, src, "main", drive.VMOpts{})
	return behaviour{Effects: vm.Log.Render(), Outcome: vm.Outcome}, ao
}

func runModules(mods map[string]ast.AnalyzedProgram, src map[string]string) behaviour {
	vm := drive.RunVM(mods, src, "main", drive.VMOpts{})
	return behaviour{Effects: vm.Log.Render(), Outcome: vm.Outcome}
}

// sameBehaviour compares effects and outcome (class, kind, message; spans are layout and are
// not compared).
func sameBehaviour(a, b behaviour) (string, string) {
	if a.Outcome.Class != b.Outcome.Class || a.Outcome.Kind != b.Outcome.Kind {
		return "outcome", fmt.Sprintf("outcomes differ: original %s, translated %s", a.Outcome, b.Outcome)
	}
	if a.Effects != b.Effects {
		return "effects", fmt.Sprintf("effects differ at byte %d", diffAt(a.Effects, b.Effects))
	}
	if a.Outcome.Message != b.Outcome.Message {
		return "outcome-message", fmt.Sprintf("outcome messages differ: original %q, translated %q", a.Outcome.Message, b.Outcome.Message)
	}
	return "", ""
}

func diffAt(a, b string) int {
	n := len(a)
	if len(b) < n {
		n = len(b)
	}
	for i := 0; i < n; i++ {
		if a[i] != b[i] {
			return i
		}
	}
	return n
}

// moduleNames returns the analysed modules in a fixed order (entry first).
func moduleNames(mods map[string]ast.AnalyzedProgram) []string {
	names := drive.SortedKeys(mods)
	sort.SliceStable(names, func(i, j int) bool { return names[i] == "main" && names[j] != "main" })
	return names
}

// normMsg shortens a diagnostic for a signature: text in back quotes or double quotes (program
// identifiers, values) and digits are variable; text in single quotes is kept when it is short
// (the parser names token kinds that way).
func normMsg(s string) string {
	s = drive.FirstLine(s)
	var sb strings.Builder
	rs := []rune(s)
	for i := 0; i < len(rs); i++ {
		r := rs[i]
		switch {
		case r == '\'' || r == '`' || r == '"':
			j := i + 1
			for j < len(rs) && rs[j] != r {
				j++
			}
			inner := string(rs[i+1 : min(j, len(rs))])
			if r == '\'' && len(inner) <= 12 && !strings.ContainsAny(inner, " \t") {
				sb.WriteString("'" + inner + "'")
			} else {
				sb.WriteByte('_')
			}
			i = j
		case r >= '0' && r <= '9':
		default:
			sb.WriteRune(r)
		}
	}
	return util.Clip(strings.TrimSpace(sb.String()), 70)
}

// firstError describes why an analysis was not accepted: (kind, message).
func firstError(ao drive.AnalyzeOut) (string, string) {
	if len(ao.Syntax) > 0 {
		return "syntax", ao.Syntax[0].Message
	}
	for _, d := range ao.Diags {
		if d.Level == diagnostic.DiagnosticLevelError {
			return "semantic", d.Message
		}
	}
	return "?", ""
}

// phase writes a marker to stderr: when the worker dies, the supervisor sees in the stderr tail
// whether the original program or its translation was running.
func phase(p string) { fmt.Fprintf(os.Stderr, "c19-phase: %s\n", p) }

// safely runs f and returns the panic message, if any (step-budget panics are passed on).
func safely(f func()) (msg string) {
	defer func() {
		if r := recover(); r != nil {
			if s, ok := r.(string); ok && s == fw.StepBudgetMsg {
				panic(r)
			}
			msg = util.Clip(fmt.Sprint(r), 300)
		}
	}()
	f()
	return ""
}

// Validate runs one translation of one program and judges it against the original.
func Validate(src map[string]string, mode string) (rep Report) {
	defer func() {
		if r := recover(); r != nil {
			if s, ok := r.(string); ok && s == fw.StepBudgetMsg {
				panic(r)
			}
			msg := fmt.Sprint(r)
			rep.fail(mode+":go-panic:"+util.NormPanic(msg), "Go panic while printing / re-analysing / optimising / compiling: "+util.Clip(msg, 300)+"\n"+repoStack(), nil)
		}
	}()
	if mode == ModeOptT {
		return validateOptTree(src)
	}
	phase("original")
	var b0 behaviour
	var ao drive.AnalyzeOut
	if p := safely(func() { b0, ao = runFresh(src) }); p != "" {
		// a Go panic while analysing/compiling the ORIGINAL is an event of C02/C05, not of C19
		rep.Rejected = "go-panic in the original pipeline: " + p
		return rep
	}
	if ao.Errors > 0 {
		rep.Rejected = ao.ErrorSummary()
		return rep
	}
	if b0.Outcome.Class == "compile-error" {
		rep.Rejected = "compile error: " + b0.Outcome.Message
		return rep
	}
	b0b, _ := runFresh(src)
	phase("translate:" + mode)
	if k, why := sameBehaviour(b0, b0b); k != "" {
		rep.Unstable = why
		return rep
	}
	rep.Effects0, rep.Outcome0 = b0.Effects, b0.Outcome.String()
	rep.Nontrivial = b0.Effects != "" || b0.Outcome.Class != "ok"
	rep.Cover = append(rep.Cover, "outcome:"+b0.Outcome.Class+"/"+b0.Outcome.Kind, "modules:"+fmt.Sprint(len(ao.Modules)))
	names := moduleNames(ao.Modules)

	switch mode {
	case ModeOpt:
		validateOpt(src, ao, b0, &rep)
	case ModePAst:
		// text1 = print(parse(P)) for every module of the program
		text1 := map[string]string{}
		trees0 := map[string]pAst.Program{}
		for _, n := range names {
			tree, soft, hard := hms.Parse(src[n], n)
			if hard != nil || len(soft) > 0 {
				rep.Rejected = "module " + n + " does not parse on its own"
				return rep
			}
			trees0[n] = tree
			text1[n] = tree.String()
		}
		rep.Text1 = text1
		// accepted?
		rep.Evals++
		b1, ao1 := runFresh(text1)
		// the trees of text1 (if it parses) locate the first construct the printer did not preserve
		trees1 := map[string]pAst.Program{}
		parses := true
		for _, n := range names {
			tree, soft, hard := hms.Parse(text1[n], n)
			if hard != nil || len(soft) > 0 {
				parses = false
				break
			}
			trees1[n] = tree
		}
		where := "unparseable"
		if parses {
			where = "same-tree"
			for _, n := range names {
				if d := FirstDiff(trees0[n], trees1[n]); d != "" {
					where = d
					break
				}
			}
		}
		if ao1.Errors > 0 {
			kind, msg := firstError(ao1)
			why := "the text printed from the parse tree is not accepted: " + util.Clip(ao1.ErrorSummary(), 600)
			if !parses {
				// name the constructs whose own printed text does not survive print+parse
				var cs []string
				for _, n := range names {
					cs = append(cs, CulpritsPAst(trees0[n])...)
				}
				cs = dedupe(cs)
				if len(cs) == 0 {
					rep.fail("past:reparse-rejected:syntax@unlocated:"+normMsg(msg), why, detail(src, text1, nil))
				}
				for _, c := range cs {
					rep.fail("past:reparse-rejected:syntax@"+c, why+"\nconstruct that does not survive print+parse on its own: "+c, detail(src, text1, nil))
				}
			} else {
				rep.fail(fmt.Sprintf("past:reparse-rejected:%s:%s@%s", kind, normMsg(msg), where), why, detail(src, text1, nil))
			}
		} else {
			rep.Evals++
			if k, why := sameBehaviour(b0, b1); k != "" {
				if where == "same-tree" {
					// the re-parsed tree is the original tree up to spans: the program observes its own
					// layout (an error value carries line and column); that is not meaning
					rep.Cover = append(rep.Cover, "behaviour-differs-by-layout-only")
				} else {
					rep.fail("past:behaviour:"+k+"@"+where, "the re-parsed printed text behaves differently: "+why+
						"\n--- original\n"+util.Clip(b0.Effects, 800)+"\n--- reparsed\n"+util.Clip(b1.Effects, 800), detail(src, text1, nil))
				}
			}
		}
		// fixed point (needs only the parser)
		if parses {
			for _, n := range names {
				rep.Evals++
				if text2 := trees1[n].String(); text2 != text1[n] {
					rep.fail("past:fixpoint:@"+where, fmt.Sprintf("printing is not a fixed point after one round (module %s, first difference at byte %d)", n, diffAt(text1[n], text2)),
						detail(src, text1, map[string]string{n: text2}))
					break
				}
			}
		}
	case ModeAAst:
		text1 := map[string]string{}
		for _, n := range names {
			text1[n] = ao.Modules[n].String()
		}
		rep.Text1 = text1
		rep.Evals++
		b1, ao1 := runFresh(text1)
		where := "unanalysable"
		if ao1.Errors == 0 {
			where = "same-tree"
			for _, n := range names {
				if d := FirstDiff(ao.Modules[n], ao1.Modules[n]); d != "" {
					where = d
					break
				}
			}
		}
		if ao1.Errors > 0 {
			kind, msg := firstError(ao1)
			why := "the text printed from the analysed tree is not accepted: " + util.Clip(ao1.ErrorSummary(), 600)
			if kind == "syntax" {
				var cs []string
				for _, n := range names {
					cs = append(cs, CulpritsAAst(ao.Modules[n])...)
				}
				cs = dedupe(cs)
				if len(cs) == 0 {
					rep.fail("aast:reparse-rejected:syntax@unlocated:"+normMsg(msg), why, detail(src, text1, nil))
				}
				for _, c := range cs {
					rep.fail("aast:reparse-rejected:syntax@"+c, why+"\nconstruct whose own printed text does not parse: "+c, detail(src, text1, nil))
				}
			} else {
				rep.fail(fmt.Sprintf("aast:reparse-rejected:%s:%s", kind, normMsg(msg)), why, detail(src, text1, nil))
			}
			return rep
		}
		rep.Evals++
		if k, why := sameBehaviour(b0, b1); k != "" {
			if where == "same-tree" {
				rep.Cover = append(rep.Cover, "behaviour-differs-by-layout-only")
			} else {
				rep.fail("aast:behaviour:"+k+"@"+where, "the re-analysed printed text behaves differently: "+why+
					"\n--- original\n"+util.Clip(b0.Effects, 800)+"\n--- reparsed\n"+util.Clip(b1.Effects, 800), detail(src, text1, nil))
			}
		}
		for _, n := range names {
			rep.Evals++
			m2, ok := ao1.Modules[n]
			if !ok {
				rep.fail("aast:fixpoint:module-lost", "module "+n+" is not part of the re-analysed program", detail(src, text1, nil))
				break
			}
			if text2 := m2.String(); text2 != text1[n] {
				rep.fail("aast:fixpoint:@"+where, fmt.Sprintf("printing is not a fixed point after one round (module %s, first difference at byte %d)", n, diffAt(text1[n], text2)),
					detail(src, text1, map[string]string{n: text2}))
				break
			}
		}
	default:
		panic("c19: unknown mode " + mode)
	}
	return rep
}

func validateOpt(src map[string]string, ao drive.AnalyzeOut, b0 behaviour, rep *Report) {
	ao2 := drive.Analyze(src, "main", true)
	opt := optimizer.NewOptimizer()
	mods, diags := opt.Optimize(ao2.Modules)
	rep.OptDiags = len(diags)
	for _, d := range diags {
		if d.Level == diagnostic.DiagnosticLevelError {
			rep.Cover = append(rep.Cover, "opt-error-diagnostic")
		}
	}
	text := map[string]string{}
	for _, n := range moduleNames(mods) {
		text[n] = mods[n].String()
		if CountStatements(mods[n]) != CountStatements(ao.Modules[n]) {
			rep.OptCut = true
		}
	}
	if rep.OptCut {
		rep.Cover = append(rep.Cover, "opt-removed-statements")
	}
	rep.Text1 = text
	rep.Evals++
	if len(mods) != len(ao.Modules) {
		rep.fail("opt:modules-lost", fmt.Sprintf("the optimizer returned %d modules for %d", len(mods), len(ao.Modules)), nil)
		return
	}
	b1 := runModules(mods, src)
	if b1.Outcome.Class == "compile-error" {
		rep.fail("opt:compile-error:"+normMsg(b1.Outcome.Message), "the optimised program does not compile: "+b1.Outcome.Message, detail(src, text, nil))
		return
	}
	if k, why := sameBehaviour(b0, b1); k != "" {
		where := "same-tree"
		for _, n := range moduleNames(mods) {
			if d := FirstDiff(ao.Modules[n], mods[n]); d != "" {
				where = d
				break
			}
		}
		rep.fail("opt:behaviour:"+k+"@"+where, "the optimised program behaves differently: "+why+
			"\n--- original\n"+util.Clip(b0.Effects, 800)+"\n--- optimised\n"+util.Clip(b1.Effects, 800), detail(src, text, nil))
	}
}

func detail(src, text1, text2 map[string]string) map[string]any {
	d := map[string]any{"source": src, "printed": text1}
	if text2 != nil {
		d["printed_again"] = text2
	}
	return d
}

// validateOptTree validates the optimizer with the tree-walking interpreter as the executor. It
// reaches programs whose unoptimised form the VM cannot run (a statement-position match whose
// arms all diverge and which has no default arm crashes the VM when no arm matches).
func validateOptTree(src map[string]string) (rep Report) {
	run := func(optimise bool) (behaviour, drive.AnalyzeOut, string) {
		ao := drive.Analyze(src, "main", true)
		if ao.Errors > 0 {
			return behaviour{}, ao, ""
		}
		mods := ao.Modules
		if optimise {
			o := optimizer.NewOptimizer()
			mods, _ = o.Optimize(ao.Modules)
			for _, n := range moduleNames(mods) {
				if rep.Text1 == nil {
					rep.Text1 = map[string]string{}
				}
				rep.Text1[n] = mods[n].String()
				if CountStatements(mods[n]) != CountStatements(ao.Modules[n]) {
					rep.OptCut = true
				}
			}
		}
		// (bounded by interpreter steps, not by time: a program too long for the interpreter is skipped)
		tr := drive.RunTree(mods, src, "main", drive.TreeOpts{StepBudget: 3_000_000})
		where := ""
		if optimise {
			where = "same-tree"
			for _, n := range moduleNames(mods) {
				if d := FirstDiff(ao.Modules[n], mods[n]); d != "" {
					where = d
					break
				}
			}
		}
		return behaviour{Effects: tr.Log.Render(), Outcome: tr.Outcome}, ao, where
	}
	b0, ao, _ := run(false)
	if ao.Errors > 0 {
		rep.Rejected = ao.ErrorSummary()
		return rep
	}
	if b0.Outcome.Class == "go-panic" || b0.Outcome.Class == "step-budget" {
		// outside the interpreter's fragment (spawn, triggers, …) or not terminating
		rep.Rejected = "the interpreter cannot run the original: " + b0.Outcome.String()
		return rep
	}
	b0b, _, _ := run(false)
	if k, why := sameBehaviour(b0, b0b); k != "" {
		rep.Unstable = why
		return rep
	}
	rep.Effects0, rep.Outcome0 = b0.Effects, b0.Outcome.String()
	rep.Nontrivial = b0.Effects != "" || b0.Outcome.Class != "ok"
	rep.Cover = append(rep.Cover, "outcome:"+b0.Outcome.Class+"/"+b0.Outcome.Kind)
	rep.Evals++
	b1, _, where := run(true)
	if rep.OptCut {
		rep.Cover = append(rep.Cover, "opt-removed-statements")
	}
	if k, why := sameBehaviour(b0, b1); k != "" {
		rep.fail("optt:behaviour:"+k+"@"+where, "the optimised program behaves differently (tree-walking interpreter): "+why+
			"\n--- original\n"+util.Clip(b0.Effects, 800)+"\n--- optimised\n"+util.Clip(b1.Effects, 800), detail(src, rep.Text1, nil))
	}
	return rep
}
