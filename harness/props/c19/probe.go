package c19

import (
	"fmt"
	"os"
	"os/exec"
	"strings"
)

// ProbeMain is a development aid: `hvdev-c19 probe <past|aast|opt|all> file.hms [mod=path …]`
// validates one program outside the supervisor and prints everything; `probe hand [name]` runs
// the hand-written sets in-process and prints one line per failing micro-check.
func ProbeMain(args []string) int {
	if len(args) == 1 && args[0] == "hand" {
		// one subprocess per program: a VM crash must not end the survey
		for _, h := range HandPrograms() {
			for _, m := range []string{ModePAst, ModeAAst, ModeOpt, ModeOptT} {
				cmd := exec.Command(os.Args[0], "probe", "hand", "="+h.Name, m)
				out, err := cmd.CombinedOutput()
				for _, l := range strings.Split(string(out), "\n") {
					if strings.HasPrefix(l, h.Name+" ") && !strings.Contains(l, " ok nontrivial=") {
						fmt.Println(l)
					}
				}
				if err != nil {
					ph := ""
					if i := strings.LastIndex(string(out), "c19-phase: "); i >= 0 {
						ph = strings.SplitN(string(out)[i:], "\n", 2)[0]
					}
					fmt.Printf("%-28s %-4s CRASH %v %s\n", h.Name, m, err, ph)
				}
			}
		}
		return 0
	}
	if len(args) >= 1 && (args[0] == "hand" || args[0] == "family" || args[0] == "family-thorough") {
		bad := 0
		progs := HandPrograms()
		if args[0] == "family" {
			progs = FamilyPrograms("quick", probeSeed())
		} else if args[0] == "family-thorough" {
			progs = FamilyPrograms("thorough", probeSeed())
		}
		for _, h := range progs {
			if len(args) > 1 && !strings.Contains(h.Name, args[1]) && "="+h.Name != args[1] {
				continue
			}
			if len(args) > 1 && strings.HasPrefix(args[1], "=") && "="+h.Name != args[1] {
				continue
			}
			tags, _ := Constructs(h.Source)
			for _, m := range append(append([]string{}, allModes...), ModeOptT) {
				if m == ModeOptT && h.Kind != "optimizer" && !strings.HasPrefix(h.Kind, "divergence") {
					continue
				}
				if len(args) > 2 && args[2] != m {
					continue
				}
				rep := Validate(h.Source, m)
				if rep.Rejected != "" {
					fmt.Printf("%-28s %-4s ORIGINAL REJECTED: %s\n", h.Name, m, rep.Rejected)
					bad++
					continue
				}
				if rep.Unstable != "" {
					fmt.Printf("%-28s %-4s unstable: %s\n", h.Name, m, rep.Unstable)
				}
				for _, f := range rep.Fails {
					fmt.Printf("%-28s %-4s %s\n", h.Name, m, f.Sig)
					if len(args) > 1 {
						fmt.Printf("    %s\n", strings.ReplaceAll(f.Why, "\n", "\n    "))
						for n, t := range rep.Text1 {
							fmt.Printf("--- printed %s\n%s\n", n, t)
						}
					}
				}
				if len(args) > 1 && len(rep.Fails) == 0 {
					fmt.Printf("%-28s %-4s ok nontrivial=%v cut=%v outcome=%s\n", h.Name, m, rep.Nontrivial, rep.OptCut, rep.Outcome0)
				}
			}
			if len(args) > 1 {
				fmt.Println("tags:", tags)
			}
		}
		return bad
	}
	if len(args) < 2 {
		fmt.Fprintln(os.Stderr, "usage: probe <past|aast|opt|all> file.hms [mod=path …] | probe hand [name]")
		return 2
	}
	src := map[string]string{}
	b, err := os.ReadFile(args[1])
	if err != nil {
		fmt.Fprintln(os.Stderr, err)
		return 2
	}
	src["main"] = string(b)
	for _, a := range args[2:] {
		n, p, _ := strings.Cut(a, "=")
		b, err := os.ReadFile(p)
		if err != nil {
			fmt.Fprintln(os.Stderr, err)
			return 2
		}
		src[n] = string(b)
	}
	modes := []string{args[0]}
	if args[0] == "all" {
		modes = allModes
	}
	tags, _ := Constructs(src)
	fmt.Println("tags:", tags)
	for _, m := range modes {
		rep := Validate(src, m)
		fmt.Printf("=== %s: rejected=%q unstable=%q nontrivial=%v evals=%d optcut=%v outcome=%s\n", m, rep.Rejected, rep.Unstable, rep.Nontrivial, rep.Evals, rep.OptCut, rep.Outcome0)
		for n, t := range rep.Text1 {
			fmt.Printf("--- translated module %s\n%s\n", n, t)
		}
		for _, f := range rep.Fails {
			fmt.Printf("FAIL sig=%s\n     %s\n", f.Sig, strings.ReplaceAll(f.Why, "\n", "\n     "))
		}
	}
	return 0
}

func probeSeed() uint64 {
	var n uint64 = 1
	fmt.Sscan(os.Getenv("VERIF_SEED"), &n)
	return n
}
