package c19

import (
	"fmt"
	"strings"

	"hv/fw"
)

// Program families: cross products (construct position) x (content), generated as literal
// programs. They complement the hand-written set (one witness per construct) with the sweep the
// property's quantifier asks for ("every ... form the printer can meet, including string escapes,
// ... object keys that are not identifiers" / "any accepted program" for the optimizer):
//
//   - string family: every position in which the printers write the CONTENT of a string (string
//     literal in a local/global/argument/match arm, object literal key, object type field name in a
//     let annotation and in a type definition) x every ASCII code point and a set of code points of
//     every other class (C1 controls, format/zero-width characters, line separators, astral plane,
//     values that are not valid runes), plus seeded random strings with random legal spellings;
//   - divergence family (optimizer): every expression position (operands of strict and of
//     short-circuit operators, arguments, branches, arms, loop bodies, closures, …) x every kind of
//     diverging (`never`-typed) expression, as a statement of a function's top-level block followed
//     by further statements, driven through both the diverging and the non-diverging path.
//
// FamilyPrograms is a pure function of (tier, seed).
func FamilyPrograms(tier string, seed uint64) []Hand {
	var hs []Hand
	hs = append(hs, stringFamily(tier, seed)...)
	hs = append(hs, divergenceFamily(tier, seed)...)
	return hs
}

// ----------------------------------------------------------------------------- string family

// spelling writes a string VALUE as the inside of a source literal delimited by quote, using
// only what the lexer documents: the named escapes \\ \' \" \b \n \r \t, \xHH, \uHHHH,
// \UHHHHHHHH, three-digit octal, and raw characters. how selects per rune: nil = canonical
// (raw when printable ASCII or above U+009F, named/hex otherwise), else a random legal spelling.
func spelling(value []rune, quote rune, how *fw.Rng) string {
	var sb strings.Builder
	named := map[rune]string{'\\': `\\`, '\'': `\'`, '"': `\"`, '\b': `\b`, '\n': `\n`, '\r': `\r`, '\t': `\t`}
	for _, r := range value {
		var opts []string
		if nm, ok := named[r]; ok {
			opts = append(opts, nm)
		}
		mustEscape := r == quote || r == '\\'
		if r >= 0 && r < 0x100 {
			opts = append(opts, fmt.Sprintf(`\x%02x`, r), fmt.Sprintf(`\x%02X`, r))
		}
		if r >= 0 && r < 0x200 {
			opts = append(opts, fmt.Sprintf(`\%03o`, r))
		}
		if r >= 0 && r < 0x10000 {
			opts = append(opts, fmt.Sprintf(`\u%04x`, r))
		}
		opts = append(opts, fmt.Sprintf(`\U%08x`, uint32(r)))
		rawOK := !mustEscape && r >= 0 && r <= 0x10FFFF && !(r >= 0xD800 && r <= 0xDFFF)
		if how == nil {
			switch {
			case rawOK && (r >= 0x20 && r < 0x7f || r > 0x9f):
				sb.WriteRune(r)
			default:
				sb.WriteString(opts[0])
			}
			continue
		}
		if rawOK && r != '\r' && how.Chance(1, 2) {
			// (a raw CR is left out: line-end handling of the source text is not the printers' business)
			sb.WriteRune(r)
			continue
		}
		sb.WriteString(opts[how.Intn(len(opts))])
	}
	return sb.String()
}

// stringProgram builds the program that puts the strings s (alone) and k ("k"+s+"1": the code
// point between an identifier character and a digit, so that a variable-length or a named escape
// swallowing its successor shows) into every position whose content the printers render.
func stringProgram(s []rune, how *fw.Rng) string {
	k := append(append([]rune{'k'}, s...), '1')
	d := func(v []rune) string { return `"` + spelling(v, '"', how) + `"` }
	q := func(v []rune) string { return `'` + spelling(v, '\'', how) + `'` }
	var sb strings.Builder
	fmt.Fprintf(&sb, "type T = { %s: int, plain: str };\n", d(k))
	fmt.Fprintf(&sb, "let g = %s;\n", d(k))
	sb.WriteString("fn main() {\n")
	fmt.Fprintf(&sb, "    let s = %s;\n", d(s))
	fmt.Fprintf(&sb, "    let w = %s;\n", q(k))
	sb.WriteString("    println(s.len(), w.len(), g.len(), w == g);\n")
	sb.WriteString("    println(s);\n")
	fmt.Fprintf(&sb, "    println(g, %s + s);\n", q(s))
	fmt.Fprintf(&sb, "    println(match w { %s => \"one\", %s => \"hit\", _ => \"miss\" });\n", d(s), d(k))
	fmt.Fprintf(&sb, "    let o = new { %s: 1, plain: 2 };\n", d(k))
	sb.WriteString("    println(o.keys());\n")
	fmt.Fprintf(&sb, "    let t: T = new { %s: 3, plain: \"p\" };\n", q(k))
	fmt.Fprintf(&sb, "    let u: { %s: [int] } = new { %s: [4] };\n", q(k), d(k))
	sb.WriteString("    println(t.keys(), u.keys(), t.plain);\n")
	sb.WriteString("    println(o, u);\n")
	sb.WriteString("}\n")
	return sb.String()
}

// sweepCodePoints: all of ASCII, and representatives of every other class a string escaper
// distinguishes.
func sweepCodePoints() []rune {
	var cps []rune
	for r := rune(0); r < 0x80; r++ {
		cps = append(cps, r)
	}
	cps = append(cps,
		0x80, 0x85, 0x9f, // C1 controls (NEL)
		0xa0, 0xad, 0xe4, 0xff, // Latin-1: no-break space, soft hyphen, letters
		0x100, 0x1ff, 0x3bb, // first beyond \x, last octal, Greek
		0x200b, 0x200d, 0x200e, 0x2028, 0x2029, 0x202e, // zero width, line/paragraph separator, bidi override
		0x20ac, 0x3000, 0xd7ff, 0xe000, 0xfeff, 0xfffd, 0xfffe, 0xffff, // BMP: symbols, private use, BOM, specials
		0x10000, 0x1f600, 0xe0001, 0x10ffff, // astral
		0xd800, 0xdfff, 0x110000, 0x7fffffff, // not valid runes (the lexer computes them from \u / \U escapes)
	)
	return cps
}

// stringAlphabet of the random strings: characters an escaper treats specially, characters that
// are the NAME of an escape (so that `\` followed by them shows), digits and hex digits (that
// extend numeric escapes), and plain ones.
var stringAlphabet = []rune{
	'\\', '\\', '"', '\'', '\n', '\r', '\t', '\b', 0, 1, 7, 0x0b, 0x0c, 0x1b, 0x1f, 0x7f, 0x80, 0x9f, 0xa0, 0xad,
	'a', 'b', 'f', 'n', 'r', 't', 'v', 'x', 'u', 'U', '0', '1', '7', '8', 'e', 'E', 'A', ' ', '$', '{', '}', '%', '/', '*', '#', '?', ':', ';', ',',
	0xe4, 0x200b, 0x2028, 0x20ac, 0xfeff, 0xfffd, 0x1f600,
}

func stringFamily(tier string, seed uint64) []Hand {
	var hs []Hand
	var plain []rune
	flush := func() {
		if len(plain) > 0 {
			hs = append(hs, Hand{Name: fmt.Sprintf("cps-%04x-%04x", uint32(plain[0]), uint32(plain[len(plain)-1])), Kind: "strings",
				Source: map[string]string{"main": stringProgram(plain, nil)}})
			plain = nil
		}
	}
	for _, cp := range sweepCodePoints() {
		// one program per code point, except that printable ASCII characters other than the quotes
		// and the backslash (no escaper singles them out) share a program by six in the quick tier
		if tier != "thorough" && cp > 0x20 && cp < 0x7f && cp != '"' && cp != '\'' && cp != '\\' {
			plain = append(plain, cp)
			if len(plain) == 6 {
				flush()
			}
			continue
		}
		hs = append(hs, Hand{Name: fmt.Sprintf("cp-%04x", uint32(cp)), Kind: "strings",
			Source: map[string]string{"main": stringProgram([]rune{cp}, nil)}})
	}
	flush()
	n := 40
	if tier == "thorough" {
		n = 1500
	}
	r := fw.NewRng(seed ^ 0xC19_57)
	for i := 0; i < n; i++ {
		l := 1 + r.Intn(6)
		v := make([]rune, l)
		for j := range v {
			v[j] = stringAlphabet[r.Intn(len(stringAlphabet))]
		}
		hs = append(hs, Hand{Name: fmt.Sprintf("rnd-%d", i), Kind: "strings",
			Source: map[string]string{"main": stringProgram(v, r.Fork())}})
	}
	return hs
}

// ----------------------------------------------------------------------------- divergence family

// A diverging expression: its type is `never`. {R} is replaced by the value to return.
type diverging struct {
	Name, Expr string
	Loop       bool // only legal inside a loop body
}

var divergings = []diverging{
	{Name: "throw", Expr: `throw("thrown")`},
	{Name: "blk-return", Expr: `{ return {R}; }`},
	{Name: "blk-throw", Expr: `{ throw("thrown-in-block"); }`},
	{Name: "blk-stmts-return", Expr: `{ println("leaving"); return {R}; }`},
	{Name: "if-else", Expr: `if n > 0 { return {R}; } else { throw("n is not positive"); }`},
	{Name: "match-default", Expr: `match n { 1 => { return {R}; }, _ => throw("n is not one") }`},
	{Name: "loop-never", Expr: `{ loop { return {R}; } }`},
	{Name: "try-both", Expr: `try { return {R}; } catch e { return {R}; }`},
	{Name: "nested-block", Expr: `{ { { return {R}; } } }`},
	{Name: "blk-break", Expr: `{ break; }`, Loop: true},
	{Name: "blk-continue", Expr: `{ continue; }`, Loop: true},
}

// A position: a statement (of the top-level block of `fn f(c: bool, n: int) -> int`, or of a loop
// body in it) that contains the diverging expression {D}. Strict = {D} is evaluated whenever the
// statement is; otherwise evaluation depends on c / n and the statements behind stay reachable.
type position struct {
	Name, Stmt string
	Strict     bool
	BlockLike  bool // legal only when {D} ends in a block (no `;` follows)
}

// fits reports whether the pair gives a legal program.
func fits(p position, d diverging) bool {
	if p.BlockLike && !strings.HasSuffix(d.Expr, "}") {
		return false
	}
	if d.Loop && strings.Contains(p.Stmt, "fn(") {
		return false // a closure body is not part of the enclosing loop
	}
	return true
}

var positions = []position{
	// short-circuit operators: the right operand is evaluated conditionally
	{Name: "or-rhs", Stmt: `c || {D};`},
	{Name: "and-rhs", Stmt: `c && {D};`},
	{Name: "not-or-rhs", Stmt: `!c || {D};`},
	{Name: "or-rhs-grouped", Stmt: `(c || {D});`},
	{Name: "or-rhs-group", Stmt: `c || ({D});`},
	{Name: "or-or-rhs", Stmt: `c || n > 100 || {D};`},
	{Name: "or-nested-and-rhs", Stmt: `c || (n < 100 && {D});`},
	{Name: "and-or-rhs", Stmt: `c && n > 100 || {D};`},
	{Name: "cmp-or-rhs", Stmt: `n == 2 || {D};`},
	{Name: "or-rhs-let", Stmt: `let v = c || {D};
    println("v", v);`},
	{Name: "and-rhs-let-typed", Stmt: `let v: bool = c && {D};
    println("v", v);`},
	{Name: "or-rhs-assign", Stmt: `b = c || {D};`},
	{Name: "or-rhs-arg", Stmt: `println("arg", c || {D});`},
	{Name: "or-rhs-if-cond", Stmt: `if c || {D} { println("then"); }`},
	{Name: "and-rhs-while-cond", Stmt: `while x < 1 && (c || {D}) { x += 1; }`},
	{Name: "or-rhs-prefix", Stmt: `!(c || {D});`},
	// branches, arms, bodies: evaluated conditionally
	{Name: "if-then", Stmt: `if c { {D} }`},
	{Name: "if-then-semi", Stmt: `if c { {D}; };`},
	{Name: "if-else-branch", Stmt: `if c { println("then"); } else { {D} }`},
	{Name: "if-value-else", Stmt: `x = if c { 1 } else { {D} };`},
	{Name: "if-value-stmt", Stmt: `if c { 1 } else { {D} };`},
	{Name: "else-if", Stmt: `if c { println("then"); } else if n > 1 { {D} }`},
	{Name: "match-arm", Stmt: `match c { true => {D}, _ => println("default") }`},
	{Name: "match-arm-value", Stmt: `x = match n { 2 => {D}, _ => 5 };`},
	{Name: "match-default-arm", Stmt: `match n { 0 => println("zero"), _ => {D} };`},
	{Name: "match-no-default-arm", Stmt: `match n { 2 => {D} }`},
	// arm ORDER: the type of a branching expression is collected over its branches in the order
	// written, while both back ends try all literal arms first and the default arm last wherever
	// it stands. So the diverging branch comes first / the default arm is not the last arm, and
	// a non-diverging branch behind it is the one taken (n == 2 / c == false).
	{Name: "match-default-first", Stmt: `match n { _ => {D}, 2 => println("two") }`},
	{Name: "match-default-first-semi", Stmt: `match n { _ => {D}, 2 => println("two"), 5 => println("five") };`},
	{Name: "match-default-middle", Stmt: `match n { 0 => {D}, _ => {D}, 2 => println("two") }`},
	{Name: "match-default-first-value", Stmt: `x = match n { _ => {D}, 2 => 5 };`},
	{Name: "match-default-first-let", Stmt: `let v = match n { _ => {D}, 1 | 2 => "one-or-two" };
    println("v", v);`},
	{Name: "match-default-first-bool", Stmt: `match c { _ => {D}, false => println("false") }`},
	{Name: "match-default-first-arg", Stmt: `println("arg", match n { _ => {D}, 2 => "two" });`},
	{Name: "match-first-arms-diverge", Stmt: `match n { 0 => {D}, 1 => {D}, 2 => println("two"), _ => println("default") }`},
	{Name: "match-first-arm-value", Stmt: `x = match n { 0 => {D}, 2 => 7, _ => 5 };`},
	{Name: "match-alternatives-arm", Stmt: `match n { 0 | 1 => {D}, _ => println("default") }`},
	{Name: "if-then-else-live", Stmt: `if c { {D} } else { println("else"); }`},
	{Name: "if-value-then", Stmt: `x = if c { {D} } else { 1 };`},
	{Name: "else-if-then", Stmt: `if c { {D} } else if n > 1 { println("else-if"); } else { {D} }`},
	{Name: "try-body-strict", Stmt: `try { {D} } catch e { println("caught-inside", e.message); }`},
	{Name: "try-value-body", Stmt: `x = try { {D} } catch e { 3 };`},
	{Name: "try-body", Stmt: `try { c || {D}; println("try-end"); } catch e { println("caught-inside", e.message); }`},
	{Name: "try-catch-body", Stmt: `try { if c { throw("inner"); } } catch e { {D} }`},
	{Name: "while-body", Stmt: `while x < n { x += 1; {D} }`},
	{Name: "for-body", Stmt: `for i in 0..n { {D} }`},
	{Name: "for-body-guard", Stmt: `for i in 0..3 { i < n || {D}; println("iter", i); }`},
	{Name: "loop-body-guard", Stmt: `loop { x += 1; if x > 2 { break; } x < n || {D}; println("iter", x); }`},
	{Name: "closure-body", Stmt: `let g = fn(c: bool, n: int) -> int { c || {D}; 1 };
    if c { println("g", g(n > 0, n)); }`},
	{Name: "closure-never-called", Stmt: `let g = fn(n: int) -> int { {D} };`},
	{Name: "block-inner-guard", Stmt: `{ c || {D}; println("inner-live"); }`},
	// strict positions: the statements behind are unreachable (whether or not the optimizer sees it)
	{Name: "stmt", Stmt: `{D};`, Strict: true},
	{Name: "stmt-no-semi", Stmt: `{D}`, Strict: true, BlockLike: true},
	{Name: "grouped", Stmt: `({D});`, Strict: true},
	{Name: "or-lhs", Stmt: `({D}) || c;`, Strict: true},
	{Name: "and-lhs", Stmt: `({D}) && c;`, Strict: true},
	{Name: "plus-rhs", Stmt: `n + {D};`, Strict: true},
	{Name: "plus-lhs", Stmt: `({D}) + n;`, Strict: true},
	{Name: "cmp-rhs", Stmt: `n == {D};`, Strict: true},
	{Name: "prefix-not", Stmt: `!{D};`, Strict: true},
	{Name: "prefix-neg", Stmt: `-{D};`, Strict: true},
	{Name: "cast", Stmt: `({D}) as int;`, Strict: true},
	{Name: "call-arg", Stmt: `id({D});`, Strict: true},
	{Name: "call-arg-second", Stmt: `println("arg", {D});`, Strict: true},
	{Name: "list-element", Stmt: `[n, {D}];`, Strict: true},
	{Name: "object-field", Stmt: `new { a: n, d: {D} };`, Strict: true},
	// (`l[{D}]` is rejected by the analyzer: a list cannot be indexed by never)
	{Name: "range-end", Stmt: `for i in 0..{D} { println(i); }`, Strict: true},
	// (the analysed-tree printer used to write `let v: never = …` here: repaired in /repo)
	{Name: "let", Stmt: `let v = {D};`, Strict: true},
	{Name: "let-typed", Stmt: `let v: int = {D};`, Strict: true},
	{Name: "assign", Stmt: `x = {D};`, Strict: true},
	{Name: "assign-op", Stmt: `x += {D};`, Strict: true},
	{Name: "assign-index", Stmt: `l[0] = {D};`, Strict: true},
	{Name: "return-value", Stmt: `return {D};`, Strict: true},
	{Name: "if-cond", Stmt: `if {D} { println("then"); }`, Strict: true},
	{Name: "while-cond", Stmt: `while {D} { println("body"); }`, Strict: true},
	{Name: "match-scrutinee", Stmt: `match {D} { 1 => println("one"), _ => println("other") }`, Strict: true},
	{Name: "some", Stmt: `?{D};`, Strict: true},
	{Name: "block-tail", Stmt: `{ println("blk"); {D} };`, Strict: true},
	{Name: "both-branches", Stmt: `if c { {D} } else { {D} }`, Strict: true},
}

// divergenceProgram: f runs the statement and then further statements; main drives f through
// both values of c and several n, so that the diverging and the non-diverging path are both taken.
func divergenceProgram(p position, d diverging, variant int) string {
	inMain := variant != 0
	expr := d.Expr
	if strings.Contains(p.Stmt, "fn(") {
		expr = strings.ReplaceAll(expr, "{R}", "n + 40") // the closure returns int, whatever encloses it
	}
	stmt := strings.ReplaceAll(p.Stmt, "{D}", expr)
	if d.Loop {
		// break / continue: the statement sits in a loop body of f's top-level block and in the
		// top-level block of the loop the statements behind it are what is (un)reachable
		stmt = "for k in 0..3 {\n        println(\"round\", k);\n        " + strings.ReplaceAll(stmt, "\n    ", "\n        ") +
			"\n        println(\"round-live\", k, b, x);\n    }"
	}
	if inMain {
		// the same statement in main's own top-level block (null function, no parameters)
		stmt = strings.ReplaceAll(stmt, " {R}", "")
		globals := "let c = false;\nlet n = 2;\n"
		if variant == 2 {
			globals = "let c = true;\nlet n = 0;\n"
		}
		return "fn id(v: int) -> int { v }\n" + globals + "fn main() {\n    println(\"in\", c, n);\n    let b = false;\n    let x = 0;\n    let l = [1, 2];\n    " +
			stmt + "\n    println(\"live1\", b, x, l);\n    println(\"live2\");\n}\n"
	}
	stmt = strings.ReplaceAll(stmt, "{R}", "n + 40")
	return "fn id(v: int) -> int { v }\nfn f(c: bool, n: int) -> int {\n    println(\"in\", c, n);\n    let b = false;\n    let x = 0;\n    let l = [1, 2];\n    " +
		stmt + "\n    println(\"live1\", b, x, l);\n    println(\"live2\");\n    n + 1\n}\n" +
		"fn main() {\n    for c in [true, false] {\n        for n in 0..3 {\n            try {\n                println(\"result\", f(c, n));\n            } catch e {\n                println(\"caught\", e.message);\n            }\n        }\n    }\n}\n"
}

// divergencePairs lists the (position, diverging expression) pairs of a tier: thorough = the full
// cross product; quick = every position with two diverging expressions and every diverging
// expression with at least one position of each class, rotated by the seed.
func divergencePairs(tier string, seed uint64) (out [][3]int) {
	var plain []int
	for i, d := range divergings {
		if !d.Loop {
			plain = append(plain, i)
		}
	}
	rot := int(seed % 1009)
	for pi := range positions {
		for di, d := range divergings {
			if !fits(positions[pi], d) {
				continue
			}
			take := tier == "thorough"
			if !take {
				if d.Loop {
					// break/continue: a fixed share of the positions
					take = (pi+di+rot)%8 == 0
				} else {
					j := -1
					for k, x := range plain {
						if x == di {
							j = k
						}
					}
					a := (pi + rot) % len(plain)
					b := (pi*3 + rot + 1 + len(plain)/2) % len(plain)
					if b == a {
						b = (a + 1) % len(plain)
					}
					take = j == a || j == b
				}
			}
			if take {
				out = append(out, [3]int{pi, di, 0})
				// main's own block: a share of the pairs (every pair in thorough)
				if !d.Loop && !strings.Contains(positions[pi].Stmt, "return {D}") && (tier == "thorough" || (pi+di+rot)%4 == 0) {
					out = append(out, [3]int{pi, di, 1 + (pi+di+rot/4)%2})
					if tier == "thorough" {
						out = append(out, [3]int{pi, di, 2 - (pi+di+rot/4)%2})
					}
				}
			}
		}
	}
	return out
}

func divergenceFamily(tier string, seed uint64) []Hand {
	var hs []Hand
	seen := map[int]bool{}
	for _, t := range divergencePairs(tier, seed) {
		p, d := positions[t[0]], divergings[t[1]]
		name := p.Name + "+" + d.Name
		if t[2] != 0 {
			name += fmt.Sprintf("+main%d", t[2])
		}
		// the optimizer (VM and interpreter as executors) sees every program; the printers see the
		// first program of every position (their input differs from the others' only below {D})
		kind := "divergence-opt"
		if tier == "thorough" || !seen[t[0]] {
			kind = "divergence"
		}
		seen[t[0]] = true
		hs = append(hs, Hand{Name: name, Kind: kind, Source: map[string]string{"main": divergenceProgram(p, d, t[2])}})
	}
	return hs
}
