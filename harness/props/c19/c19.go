// Package c19 checks property C19: printing a parsed or analysed program and parsing the text
// again preserves acceptance and behaviour and is a fixed point after one round; the optimizer's
// output behaves like its input.
package c19

import (
	"fmt"
	"runtime"
	"sort"
	"strings"
	"sync"

	"hv/drive"
	"hv/fw"
	"hv/prog"
	"hv/props/c01"
	"hv/util"
)

type c19 struct{}

func init() { fw.Register(c19{}) }

func (c19) ID() string { return "C19" }

func (c19) Info(tier string) fw.Info {
	return fw.Info{
		Level: "translation_validation",
		Rule: "programs = shipped examples/*.hms and tests/*.hms (every imported module printed too) + seeded well-typed generator programs (hv/prog) + a hand-written printer-coverage set (every expression/statement/type/item form, all string escapes, non-identifier object keys, float shapes, match defaults, pub items, singletons/impl/templates/triggers/annotations) + optimizer programs with code after diverging statements + a string family (every position whose content the printers render: literal, match arm, global, object key, object type field x every ASCII code point, representatives of every other code point class, seeded random strings in random legal spellings) + a divergence family (a never-typed expression in every expression position, strict and conditionally evaluated, as a statement of a top-level block followed by further statements, driven through the diverging and the non-diverging path); " +
			"each accepted program P is translated by one of: parser-AST printer (Program.String), analysed-tree printer (AnalyzedProgram.String), optimizer.Optimize (executed on the VM, and for optimizer/generated programs also by the tree-walking interpreter). The translation must be accepted, run with the same effects and outcome (class, kind, message) as P, and for the printers print(parse(print(P))) must equal print(P). " +
			"non-trivial = P accepted, deterministic in two runs, and producing output or a non-ok outcome; distinct = distinct (source text, translation)",
		Assumptions: []string{
			"behaviour = effect log of the harness host (text written, trigger registrations, singleton loads) + outcome class/kind/message of the VM; spans are layout and are not compared",
			"programs whose two plain runs differ (time, threads) are skipped as unstable",
			"the structural tree comparison only labels failure signatures; it never decides a verdict",
			"while a finding that makes a generator feature unusable (floats, strings, match) is open, the main generated workload leaves the feature out and a small tagged workload keeps exercising it; corpus and hand-written programs always run, tagged by construct, so that only the matching finding can absorb their failures",
		},
		CaseTimeoutS: 60,
		BatchSize:    60,
	}
}

// Payload of a case: a generated program (Gen) or a literal one (Source), and the translation.
type Payload struct {
	Mode   string            `json:"mode"`
	Gen    *c01.Payload      `json:"gen,omitempty"`
	Name   string            `json:"name,omitempty"`
	Source map[string]string `json:"source,omitempty"`
}

// tagsFor computes the tags of many programs in parallel (pure function of the sources).
func tagsFor(srcs []map[string]string) [][]string {
	out := make([][]string, len(srcs))
	var wg sync.WaitGroup
	nw := runtime.NumCPU()
	for w := 0; w < nw; w++ {
		wg.Add(1)
		go func(w int) {
			defer wg.Done()
			for i := w; i < len(srcs); i += nw {
				out[i], _ = Constructs(srcs[i])
			}
		}(w)
	}
	wg.Wait()
	return out
}

var allModes = []string{ModePAst, ModeAAst, ModeOpt}

// corpusSources builds one source set per shipped file: the file as "main" plus every other file
// of the same directory under its module name.
func corpusSources() (names []string, srcs []map[string]string) {
	corpus := util.Corpus()
	keys := drive.SortedKeys(corpus)
	for _, k := range keys {
		dir := strings.SplitN(k, "/", 2)[0]
		src := map[string]string{}
		for _, k2 := range keys {
			if strings.HasPrefix(k2, dir+"/") && k2 != k {
				src[strings.TrimSuffix(strings.SplitN(k2, "/", 2)[1], ".hms")] = corpus[k2]
			}
		}
		src["main"] = corpus[k]
		names = append(names, k)
		srcs = append(srcs, src)
	}
	return
}

// usedModules restricts a source set to the modules the entry module reaches (so that payloads
// and tags only talk about the program itself).
func usedModules(src map[string]string) (out map[string]string) {
	defer func() {
		if recover() != nil {
			out = src // the analyzer panicked on a shipped file: keep everything, the worker will report it
		}
	}()
	ao := drive.Analyze(src, "main", true)
	out = map[string]string{"main": src["main"]}
	for _, n := range ao.Resolved {
		if s, ok := src[n]; ok {
			out[n] = s
		}
	}
	return out
}

func (c19) Cases(tier string, seed uint64) []fw.Case {
	var cases []fw.Case
	add := func(id, kind string, pl Payload, tags []string) {
		modes := allModes
		if kind == "strings" {
			// string content only concerns the printers (the optimizer does not look at literals)
			modes = []string{ModePAst, ModeAAst}
		}
		if kind == "divergence-opt" {
			modes = []string{ModeOpt, ModeOptT}
		}
		if kind == "optimizer" || kind == "divergence" || kind == "gen" || kind == "gen-poisoned" {
			// the optimizer is also validated with the interpreter as executor (optimizer programs
			// go through the printers too: dead code is a printer input like any other)
			modes = append(append([]string{}, allModes...), ModeOptT)
		}
		for _, m := range modes {
			p := pl
			p.Mode = m
			cases = append(cases, fw.MkCase(id+"-"+m, kind, p, tags...))
		}
	}
	// (a) corpus
	cnames, csrcs := corpusSources()
	for i := range csrcs {
		csrcs[i] = usedModules(csrcs[i])
	}
	ctags := tagsFor(csrcs)
	for i, n := range cnames {
		if strings.Contains(csrcs[i]["main"], "time.now") {
			// a program that prints the wall clock differs from its own reprint whenever a minute passes between the runs
			continue
		}
		add("c19-corpus-"+n, "corpus", Payload{Name: n, Source: csrcs[i]}, append([]string{"corpus:" + n}, ctags[i]...))
	}
	// (c)+(d) hand-written printer coverage and optimizer sets
	hs := HandPrograms()
	hsrcs := make([]map[string]string, len(hs))
	for i, h := range hs {
		hsrcs[i] = h.Source
	}
	htags := tagsFor(hsrcs)
	for i, h := range hs {
		tags := append(append([]string{"hand:" + h.Name}, h.Tags...), htags[i]...)
		kind := h.Kind
		if h.Optional {
			kind = "hand-optional"
		}
		add("c19-"+h.Kind+"-"+h.Name, kind, Payload{Name: h.Name, Source: h.Source}, dedupe(tags))
	}
	// (e) program families: string content sweep, diverging expressions in every position
	fs := FamilyPrograms(tier, seed)
	fsrcs := make([]map[string]string, len(fs))
	for i, h := range fs {
		fsrcs[i] = h.Source
	}
	ftags := tagsFor(fsrcs)
	for i, h := range fs {
		add("c19-"+h.Kind+"-"+h.Name, h.Kind, Payload{Name: h.Name, Source: h.Source}, dedupe(append(append([]string{"family:" + h.Kind}, h.Tags...), ftags[i]...)))
	}
	// (b) generated programs
	n := 400
	if tier == "thorough" {
		n = 13000
	}
	r := fw.NewRng(seed ^ 0xC19)
	preset := mainPreset()
	pls := make([]c01.Payload, n)
	gsrcs := make([]map[string]string, n)
	haz := make([][]string, n)
	for i := 0; i < n; i++ {
		pls[i] = c01.Payload{Seed: r.Next(), Size: 4 + r.Intn(14), Preset: preset}
	}
	var wg sync.WaitGroup
	nw := runtime.NumCPU()
	// poisoned workload: while a finding that poisons a generator feature is open, the main
	// workload is generated without that feature and a small workload with all features on keeps
	// exercising it (its failures can only be absorbed through tag + signature)
	np := 0
	if preset != "all" {
		np = 40
		if tier == "thorough" {
			np = 600
		}
	}
	for i := 0; i < np; i++ {
		pls = append(pls, c01.Payload{Seed: r.Next(), Size: 4 + r.Intn(14), Preset: "all"})
	}
	gsrcs = make([]map[string]string, len(pls))
	haz = make([][]string, len(pls))
	for w := 0; w < nw; w++ {
		wg.Add(1)
		go func(w int) {
			defer wg.Done()
			for i := w; i < len(pls); i += nw {
				pr, _ := BuildGen(pls[i])
				gsrcs[i] = pr.Source()
				haz[i] = prog.Hazards(pr)
			}
		}(w)
	}
	wg.Wait()
	gtags := tagsFor(gsrcs)
	for i := range pls {
		pl := pls[i]
		if i < n {
			add(fmt.Sprintf("c19-gen-%d", i), "gen", Payload{Gen: &pl}, dedupe(append(haz[i], gtags[i]...)))
		} else {
			add(fmt.Sprintf("c19-genp-%d", i-n), "gen-poisoned", Payload{Gen: &pl}, dedupe(append(haz[i], gtags[i]...)))
		}
	}
	return cases
}

// BuildGen regenerates the program of a generated case. Preset "all" uses everything C01's main
// workload uses, "all-Floats-…" leaves out the named features (poisoned by open C19 findings).
func BuildGen(p c01.Payload) (*prog.Program, map[string]bool) {
	g := &prog.Gen{R: fw.NewRng(p.Seed), F: genFeatures(p.Preset, c01.Features("main"))}
	pr := g.Program(p.Size)
	return pr, g.Cover
}

func dedupe(xs []string) []string {
	seen := map[string]bool{}
	var out []string
	for _, x := range xs {
		if !seen[x] {
			seen[x] = true
			out = append(out, x)
		}
	}
	return out
}

func (c19) Run(c fw.Case) fw.Result {
	var p Payload
	fw.Decode(c, &p)
	res := fw.Result{Verdict: fw.Held}
	src := p.Source
	if p.Gen != nil {
		pr, cover := BuildGen(*p.Gen)
		src = pr.Source()
		for k := range cover {
			res.Cover = append(res.Cover, "gen:"+k)
		}
	}
	res.Hash = fw.HashOf(src, p.Mode)
	rep := Validate(src, p.Mode)
	res.Cover = append(res.Cover, rep.Cover...)
	res.Cover = append(res.Cover, "mode:"+p.Mode)
	if rep.Rejected != "" && len(rep.Fails) == 0 {
		if c.Kind == "corpus" || c.Kind == "hand-optional" || p.Mode == ModeOptT {
			res.Cover = append(res.Cover, "orig-rejected")
			return res
		}
		// hand-written and generated programs are meant to be accepted: a rejected one would
		// silently shrink the workload
		res.Verdict, res.Sig = fw.Violated, "workload-program-rejected"
		res.Why = "a workload program is not accepted by the unchanged pipeline: " + util.Clip(rep.Rejected, 500)
		res.Detail = src
		return res
	}
	if rep.Unstable != "" {
		res.Cover = append(res.Cover, "orig-unstable")
		return res
	}
	_, nodes := Constructs(src)
	res.Cover = append(res.Cover, nodes...)
	res.Nontrivial = rep.Nontrivial
	res.Evals = rep.Evals
	res.Obs = map[string]int64{"programs": 1}
	if rep.OptCut {
		res.Obs["optimizer_removed_statements"] = 1
	}
	if len(rep.Fails) > 0 {
		res.Verdict = fw.Violated
		res.Why, res.Sig, res.Detail = rep.Fails[0].Why, rep.Fails[0].Sig, rep.Fails[0].Detail
		res.More = rep.Fails[1:]
		res.Obs["disagreements"] = int64(len(rep.Fails))
	}
	if h := fw.HashOf(c.ID); h[0] == '0' && h[1] < '8' {
		res.Sample = map[string]any{"mode": p.Mode, "source": util.Clip(src["main"], 500), "translated": util.Clip(rep.Text1["main"], 500), "outcome": rep.Outcome0}
	}
	return res
}

func (c19) OnCrash(c fw.Case, cr fw.Crash) fw.Result {
	var p Payload
	fw.Decode(c, &p)
	ph := "unknown"
	if i := strings.LastIndex(cr.StderrTail, "c19-phase: "); i >= 0 {
		ph = drive.FirstLine(cr.StderrTail[i+len("c19-phase: "):])
	}
	if ph == "original" {
		// the unchanged program itself kills the VM host: an event of C02, nothing to validate here
		return fw.Result{Verdict: fw.Held, Cover: []string{"orig-crashes"}}
	}
	if cr.Kind == "watchdog" || cr.Kind == "killed" || cr.Kind == "step-budget" || cr.Kind == "oom" {
		// (the original terminated within the budget: a translation that does not is a difference,
		// but it is decided by the step budget only)
		if cr.Kind == "step-budget" && ph != "unknown" {
			return fw.Result{Verdict: fw.Violated, Nontrivial: true, Sig: p.Mode + ":behaviour:step-budget",
				Why: "the original program terminates, its translation exceeds the step budget"}
		}
		return fw.Result{Verdict: fw.Inconclusive, Why: cr.Kind + ": " + cr.Message}
	}
	return fw.Result{Verdict: fw.Violated, Nontrivial: true,
		Sig: fmt.Sprintf("%s:crash:%s:%s:%s", p.Mode, cr.Kind, util.NormPanic(cr.Message), cr.TopFrame),
		Why: fmt.Sprintf("worker died while validating the %s translation (%s: %s) at %s", p.Mode, cr.Kind, util.Clip(cr.Message, 300), cr.TopFrame)}
}

// Finalize adds the translation-validation keys.
func (c19) Finalize(tier string, results []fw.Result, coverage map[string]any) string {
	var programs, dis, cut int64
	modes := map[string]int64{}
	for _, r := range results {
		programs += r.Obs["programs"]
		dis += r.Obs["disagreements"]
		cut += r.Obs["optimizer_removed_statements"]
		if r.Nontrivial {
			for _, k := range r.Cover {
				if strings.HasPrefix(k, "mode:") {
					modes[k]++
				}
			}
		}
	}
	coverage["programs"] = programs
	coverage["disagreements_checked"] = dis
	coverage["optimizer_removed_statements"] = cut
	keys := make([]string, 0, len(modes))
	for k := range modes {
		keys = append(keys, k)
	}
	sort.Strings(keys)
	for _, m := range allModes {
		if modes["mode:"+m] == 0 {
			return "no non-trivial case for translation " + m
		}
	}
	if cut == 0 {
		return "the optimizer never removed a statement: the optimizer workload does not reach dead-code elimination"
	}
	return ""
}
