package c19

import (
	"encoding/json"
	"fmt"
	"regexp"
	"strings"

	"hv/fw"
	"hv/prog"
)

// KF describes one known finding of C19 as this check sees it: the construct tag a case must
// carry, the failure signatures the defect produces, a witness of the hand-written set, and the
// generator feature it poisons (so that, while the finding is open, the main generated workload
// leaves the construct out and a small poisoned workload keeps exercising it).
type KF struct {
	Name    string
	What    string
	Tag     string
	Sig     string // regular expression over failure signatures
	Witness string // name of a hand-written program
	Mode    string
	Poisons string // generator feature: Floats | Strings | MatchExpr | ""
	Fix     string // proposed fix diff ("" = no small fix)
	After   string // the finding is masked on the unchanged tree until this fix is applied
}

// Findings lists the defects of the unchanged tree that this check reports (FINDINGS.md has the
// details). The `open:` lines proposed for known_findings.txt are generated from this table
// (`hvdev-c19 findings`).
var Findings = []KF{
	{Name: "KF-c19-past-string-escape", Tag: "str-dquote", Witness: "str-dquote", Mode: ModePAst, Poisons: "Strings", Fix: "01",
		What: "parser-AST printer writes string literals without escaping: a `\"` ends the literal early (unparseable), a `\\` is re-read as an escape, a line break inside a block is re-indented",
		Sig:  `^past:(reparse-rejected:syntax@StringLiteralExpression|behaviour:[a-z-]+@StringLiteralExpression\.Value|fixpoint:@StringLiteralExpression\.Value)$`},
	{Name: "KF-c19-past-string-escape", Tag: "str-backslash", Witness: "str-backslash-n", Mode: ModePAst, Poisons: "Strings", Fix: "01",
		What: "parser-AST printer writes string literals without escaping (backslash)",
		Sig:  `^past:(reparse-rejected:syntax@StringLiteralExpression|behaviour:[a-z-]+@StringLiteralExpression\.Value|fixpoint:@StringLiteralExpression\.Value)$`},
	{Name: "KF-c19-past-string-escape", Tag: "str-newline", Witness: "str-newline", Mode: ModePAst, Poisons: "Strings", Fix: "01",
		What: "parser-AST printer writes string literals without escaping (a line break inside a string is indented by every enclosing block)",
		Sig:  `^past:(reparse-rejected:syntax@StringLiteralExpression|behaviour:[a-z-]+@StringLiteralExpression\.Value|fixpoint:@StringLiteralExpression\.Value)$`},
	{Name: "KF-c19-aast-string-escape", Tag: "str-tab", Witness: "str-tab", Mode: ModeAAst, Poisons: "Strings", Fix: "02",
		What: "analysed-tree printer escapes a TAB as `\\n` (the string changes)",
		Sig:  `^aast:(reparse-rejected:syntax@AnalyzedStringLiteralExpression|behaviour:[a-z-]+@AnalyzedStringLiteralExpression\.Value|fixpoint:@AnalyzedStringLiteralExpression\.Value)$`},
	{Name: "KF-c19-aast-string-escape", Tag: "str-backslash", Witness: "str-backslash", Mode: ModeAAst, Poisons: "Strings", Fix: "02",
		What: "analysed-tree printer does not escape `\\` (invalid escape sequence / unterminated literal / different string)",
		Sig:  `^aast:(reparse-rejected:syntax@AnalyzedStringLiteralExpression|behaviour:[a-z-]+@AnalyzedStringLiteralExpression\.Value|fixpoint:@AnalyzedStringLiteralExpression\.Value)$`},
	{Name: "KF-c19-object-key-quoting", Tag: "key-needs-quoting", Witness: "obj-key-dquote", Mode: ModePAst, Fix: "03",
		What: "object keys / object type field names that are not plain identifiers: both printers never escape them, the analysed type printer quotes exactly the wrong ones (inverted IsIdent test), and util.IsIdent is false for every name longer than one character",
		Sig:  `^(past|aast):(reparse-rejected:syntax@(ObjectLiteralField|ObjectTypeField|AnalyzedObjectLiteralField)|(behaviour:[a-z-]+|fixpoint:)@SpannedIdent\.ident)$`},
	{Name: "KF-c19-float-exponent", Tag: "float-exponent", Witness: "float-small", Mode: ModePAst, Poisons: "Floats", Fix: "04",
		What: "both printers write floats with Go's %v: values below 1e-4 or from 1e21 print with an exponent (`1e-07`, `1e+21`), which the lexer does not know",
		Sig:  `^(past|aast):reparse-rejected:syntax@(Analyzed)?FloatLiteralExpression$`},
	{Name: "KF-c19-anyobj-literal", Tag: "anyobj-literal", Witness: "anyobj-literal", Mode: ModePAst, Fix: "05",
		What: "both printers write the any-object literal `new { ? }` as `{ ? }` (a block containing `?`): unparseable",
		Sig:  `^(past|aast):reparse-rejected:syntax@(AnyObjectLiteralExpression|AnalyzedAnyObjectExpression)$`},
	{Name: "KF-c19-pub-global", Tag: "pub-global", Witness: "pub-global", Mode: ModePAst, Fix: "06+13",
		What: "`pub` is dropped from global `let` items by both printers (the analysed tree does not even record it): importing modules are rejected",
		Sig:  `^(past|aast):reparse-rejected:semantic:Cannot import private variable: '[^']*' is not declared as 'pub'(@LetStatement\.IsPub)?$`},
	{Name: "KF-c19-past-event-fn", Tag: "event-fn", Witness: "event-fn", Mode: ModePAst, Fix: "07",
		What: "parser-AST printer writes `event fn` as `eventfn`: unparseable",
		Sig:  `^past:reparse-rejected:syntax@FunctionDefinition$`},
	{Name: "KF-c19-singleton-definition", Tag: "singleton-def", Witness: "singleton-def", Mode: ModePAst, Fix: "08",
		What: "both printers write a singleton definition `$S = T;` as `$S` newline `T`: unparseable",
		Sig:  `^(past|aast):reparse-rejected:syntax@(Analyzed)?SingletonTypeDefinition$`},
	{Name: "KF-c19-impl-block", Tag: "impl-block", Witness: "impl-block", Mode: ModePAst, Fix: "09",
		What: "impl blocks are not printed at all by either printer (no String method, Program.String skips them): the methods vanish",
		Sig:  `^(past|aast):reparse-rejected:syntax@(Analyzed)?ImplBlock$`},
	{Name: "KF-c19-aast-annotated-singleton-param", Tag: "field-annotation", Witness: "singleton-annotated-param", Mode: ModeAAst, Fix: "10",
		What: "analysed-tree printer writes a singleton-extractor parameter `self: $S` with the resolved type of the singleton (loses the extraction; with `@setting` field annotations the type is not even legal in that position)",
		Sig:  `^aast:reparse-rejected:syntax@AnalyzedFnParam$`},
	{Name: "KF-c19-aast-match-default", Tag: "match-default", Witness: "match-default", Mode: ModeAAst, Poisons: "MatchExpr", Fix: "11",
		What: "analysed-tree printer omits the default arm `_ => …` of a match: rejected (missing default branch), or the default action silently disappears, or the VM crashes on the arm-less fall-through",
		Sig:  `^aast:(reparse-rejected:semantic:Missing default branch|(behaviour:[a-z-]+|fixpoint:)@AnalyzedMatchExpression\.DefaultArmAction:nil|crash:go-panic:runtime error: index out of range \[-N\]:runtime\.\(\*Core\)\.pop)$`},
	{Name: "KF-c19-aast-empty-import", Tag: "import-type", Witness: "pub-type", Mode: ModeAAst, Fix: "12",
		What: "analysed-tree printer writes `import {  } from m;` when every item of an import was a type (type imports are resolved away by the analyzer): unparseable",
		Sig:  `^aast:reparse-rejected:syntax@AnalyzedImport$`},
	{Name: "KF-c19-aast-fn-type-params", Tag: "fn-literal-params", Witness: "fn-literal", Mode: ModeAAst, Fix: "14",
		What: "analysed-tree printer annotates every let with its inferred type; for a function value that is `fn(x: int) -> int`, whose parameters the analyzer's ConvertType silently drops (Appendix A 8): the re-analysed program is rejected",
		Sig:  `^aast:reparse-rejected:semantic:Expected  parameters \(\), got$`},
	{Name: "KF-c19-aast-let-type-unrepresentable", Tag: "let-vararg-builtin", Witness: "let-vararg-builtin", Mode: ModeAAst, Fix: "",
		What: "analysed-tree printer annotates every let with its inferred type even when that type has no source syntax (`let p = println;` prints `let p: fn(...unknown) -> null = println;`)",
		Sig:  `^aast:reparse-rejected:syntax@FunctionType$`},
	{Name: "KF-c19-aast-let-type-unrepresentable", Tag: "let-singleton-fn", Witness: "singleton-fn-alias", Mode: ModeAAst, Fix: "", After: "08",
		What: "analysed-tree printer annotates every let with its inferred type even when that type has no source syntax (`let f = show;` with `fn show(s: $S)` prints `let f: fn(s: { … }) -> … = show;`: the singleton extraction is lost and `f()` is rejected)",
		Sig:  `^aast:reparse-rejected:semantic:Function requires  argument \(s\), however  were supplied$`},
	{Name: "KF-c19-opt-match-no-default", Tag: "match-no-default", Witness: "after-match-no-default-diverge", Mode: ModeOptT, Fix: "16",
		What: "a statement-position match whose arms all diverge but which has no default arm is typed `never` by the analyzer; the optimizer deletes the statements after it although a non-matching value falls through to them",
		Sig:  `^optt?:behaviour:[a-z-]+@AnalyzedBlock\.Statements:len$`},
}

// poisoned reports whether an open finding makes a generator feature unusable for the main
// workload.
func poisoned(feature string) bool {
	for _, k := range Findings {
		if k.Poisons == feature && fw.KFOpen(k.Name) {
			return true
		}
	}
	return false
}

// mainPreset names the generator preset of the main workload: "all" minus the features that open
// C19 findings poison, e.g. "all-Floats-MatchExpr" (the preset is part of the case payload, so a
// replay does not depend on the findings file).
func mainPreset() string {
	p := "all"
	for _, f := range []string{"Floats", "Strings", "MatchExpr"} {
		if poisoned(f) {
			p += "-" + f
		}
	}
	return p
}

// genFeatures returns the generator features of a preset: everything C01's main workload uses,
// minus the features named in the preset.
func genFeatures(preset string, base prog.Features) prog.Features {
	for _, f := range strings.Split(preset, "-")[1:] {
		switch f {
		case "Floats":
			base.Floats = false
		case "Strings":
			base.Strings = false
		case "MatchExpr":
			base.MatchExpr = false
		}
	}
	return base
}

// FindingsMain prints the `open:` lines for known_findings.txt and checks every witness against
// the tree the binary was built with.
func FindingsMain() int {
	hands := map[string]Hand{}
	for _, h := range HandPrograms() {
		hands[h.Name] = h
	}
	bad := 0
	for _, k := range Findings {
		re := regexp.MustCompile(k.Sig)
		if k.Witness == "" {
			fmt.Printf("# %s (%s): no witness on this tree (masked by another finding)\n", k.Name, k.Tag)
			continue
		}
		h, ok := hands[k.Witness]
		if !ok {
			fmt.Printf("# %s: unknown witness %s\n", k.Name, k.Witness)
			bad++
			continue
		}
		tags, _ := Constructs(h.Source)
		tags = dedupe(append(append([]string{"hand:" + h.Name}, h.Tags...), tags...))
		c := fw.MkCase("w", h.Kind, Payload{Mode: k.Mode, Name: h.Name, Source: h.Source}, tags...)
		rep := Validate(h.Source, k.Mode)
		matched := false
		for _, f := range rep.Fails {
			if re.MatchString(f.Sig) {
				matched = true
			}
		}
		status := "reproduces"
		if !matched {
			status = "DOES NOT REPRODUCE on this tree"
			var sigs []string
			for _, f := range rep.Fails {
				sigs = append(sigs, f.Sig)
			}
			status += " (failures: " + strings.Join(sigs, ", ") + ")"
		}
		if !c.HasTag(k.Tag) {
			status += "; WITNESS LACKS THE TAG"
			bad++
		}
		w, _ := json.Marshal(map[string]any{"kind": c.Kind, "payload": json.RawMessage(c.Payload), "tags": c.Tags})
		sig, _ := json.Marshal(k.Sig)
		tag, _ := json.Marshal(k.Tag)
		if k.After != "" {
			status += " (second layer: expected to reproduce only after fix " + k.After + ")"
		}
		fmt.Printf("# %s [%s] fix=%q: %s\n", k.Name, k.Tag, k.Fix, status)
		prefix := ""
		if !matched {
			prefix = "#" // must not be listed while the witness does not fail with this signature
		}
		fmt.Printf("%sopen: property=C19 %s %s :: {\"witness\":%s,\"sig\":%s,\"tag\":%s}\n", prefix, k.Name, k.What, w, sig, tag)
	}
	return bad
}
