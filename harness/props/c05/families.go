package c05

// Additional workload families of C05 (same oracle as the rest of the check: the real
// homescript.Analyze must return, without a Go panic and without a lexer instance being asked
// for more tokens than its input can hold).
//
//   lexerr  a lexeme the lexer REJECTS (illegal character, lonely `~`, broken escape, unterminated
//           string/comment) placed at every token boundary of a catalogue of small programs that
//           covers every syntactic construct, and at sampled boundaries of the corpus programs:
//           "the lexer reports an error" is an input event every parser position has to survive
//           (the parser's cursor does not move on such an error).
//   soup2   token soup over a vocabulary that contains the rejected lexemes and import/impl heads.
//   tuple   for every list-like construct of the language (parameter lists, object type fields,
//           object literal fields, import lists, capability lists, impl methods, match arms,
//           top-level items, statements of a block, call arguments, list elements): ALL tuples of
//           length 0..2 over a small alphabet of elements (so every ordered pair, including the
//           pair of two equal elements = duplicates, and every clash of kinds) in every context
//           the list can occur in; longer tuples sampled.
//   optype  every infix/assign operator over every ordered pair of operand kinds, every prefix
//           operator, cast target and member/index/call suffix over every operand kind.

import (
	"fmt"
	"strings"

	"hv/fw"
)

// c05Catalogue: small syntactically valid programs; together they contain every item, statement,
// expression and type form of grammar.ebnf (plus annotations, triggers, impl blocks).
var c05Catalogue = []string{
	"import f from m; fn main() { f(); }",
	"import { f, g, } from m; fn main() {}",
	"import type T from m; fn main() {}",
	"import { type T, templ U, trigger v, f } from m; fn main() {}",
	"import templ FooFeature from templates; fn main() {}",
	"import trigger minute from triggers; fn cb(elapsed: int) {} fn main() { trigger cb at minute(1); trigger cb on minute(2); }",
	"import f from @scope:lib:sub; import g from lib:sub; fn main() {}",
	"import f from m fn main() {}",
	"$S = { @setting a: int, b: ?str, \"c\": [int], }; fn main() { $S.a = 1; }",
	"$S = [int]; $T = ?int; $U = V; fn main(s: $S, t: $T) {}",
	"type T = { a: int, \"b\": [?str], c: fn(x: int, y: $S) -> null, d: { ? }, e: {} }; fn main() {}",
	"pub type T = int; pub let g: T = 1; pub fn f(a: int, b: T,) -> T { a + b } fn main() {}",
	"event fn e(a: int) {} pub fn p() -> null {} let h = 1; fn main() {}",
	"import templ FooFeature from templates; $S = { x: int }; impl FooFeature with { light, } for $S { fn dim(self: $S, percent: int) -> bool { true } } fn main() {}",
	"import templ FooFeature from templates; $S = int; impl FooFeature for $S { fn dim(percent: int) -> bool { true } fn set_temp(celsius: float) {} } fn main() {}",
	"import trigger minute from triggers; #[trigger cb at minute(1), other] fn cb(elapsed: int) {} #[a] pub fn x() {} #[b,] event fn y() {} fn main() {}",
	"fn main() { let x: int = 1; x = 2; x += 3; x **= 2; x <<= 1; return; }",
	"fn f() -> int { return 1; } fn main() { loop { break; } while true { continue; } for i in 0..10 { println(i); }; }",
	"fn main() { let a = if true { 1 } else if false { 2 } else { 3 }; if a == 1 { } }",
	"fn main() { let a = match 1 { 1 | 2 => 3, -4 => 5, _ => { 6 } }; match \"s\" { \"s\" => 1, } }",
	"fn main() { let a = try { 1 } catch e { 2 }; try { throw(1); } catch e { println(e); } }",
	"fn main() { let a = [1, 2,][0]; let b = new { a: 1, \"b\": 2, }.a; let c = (1 + 2) * -3 ** 2 % 5 / 1; }",
	"fn main() { let f = fn(a: int) -> int { a }; f(1,); let h = spawn main(); let g = fn() {}; }",
	"fn main() { let a = 1 as float; let b = ?1; let c = !true && false || 1 < 2; let d = 1..2; let e = \"s\" + 'c'; let r = 1..=3; }",
	"fn main() { let a = null; let b = none; let c = on; let d = 1.5; let e = 1f; let f = off; let g = 1_000; }",
	"fn main() { a.b.c(); a[0][1]; a->b; a~>b; $S.x; a | b & c ^ d << 1 >> 2; a != b; a <= b; a >= b; a > b; }",
	"fn main() { type L = [int]; let l: L = []; { 1 }; let o: { ? } = new { ? }; let n: ?int = none; }",
	"fn main() { let x = \"a\\n\\x41\\u00e9\\101\"; /* c */ let y = 'q'; // tail\n }",
}

// c05Rejected: texts on which lexer.NextToken returns an error. The first group are illegal
// characters (the lexer does not consume them), the second group are errors reported after input
// was consumed.
var c05Rejected = []string{
	"`", "\\", "\u00e4", "\x01", "\x7f", "\xff", "\u20ac", "\u00a0",
	"~", "~=", "\"\\q\"", "\"\\x4\"", "'\\", "\"", "'",
}

// lexErrCases injects every rejected lexeme at every token boundary.
func lexErrCases(add func(gen string, data []byte, mods map[string]string, both bool), r *fw.Rng, thorough bool, names []string, corpus map[string]string) {
	inject := func(src string, s, t int, lx string, variant int) string {
		switch variant {
		case 0: // directly before the token
			return src[:s] + lx + src[s:]
		case 1: // directly after the token
			return src[:t] + lx + src[t:]
		case 2: // instead of the token
			return src[:s] + lx + src[t:]
		default: // before the token, separated by blanks
			return src[:s] + " " + lx + " " + src[s:]
		}
	}
	for pi, p := range c05Catalogue {
		spans := tokenSpans(p)
		for i, sp := range spans {
			for li, lx := range c05Rejected {
				// quick: the four placements rotate over the lexemes; thorough: all of them
				for v := 0; v < 4; v++ {
					if thorough || v == (i+li)%4 {
						add("lexerr", []byte(inject(p, sp[0], sp[1], lx, v)), nil, (pi+i+li+v)%4 == 0)
					}
				}
			}
		}
		for _, lx := range c05Rejected {
			add("lexerr", []byte(p+lx), nil, true)
			add("lexerr", []byte(p+" "+lx), nil, false)
		}
	}
	for _, name := range names {
		src := corpus[name]
		spans := tokenSpans(src)
		if len(spans) == 0 {
			continue
		}
		if thorough {
			for i, sp := range spans {
				for li, lx := range c05Rejected {
					add("lexerr", []byte(inject(src, sp[0], sp[1], lx, (i+li)%4)), nil, (i+li)%9 == 0)
				}
			}
			continue
		}
		for e := 0; e < 40; e++ {
			sp := spans[r.Intn(len(spans))]
			add("lexerr", []byte(inject(src, sp[0], sp[1], fw.Pick(r, c05Rejected), r.Intn(4))), nil, e%6 == 0)
		}
	}
}

var c05Vocab2 = append(append([]string{}, c05Vocab...),
	"`", "\\", "\u00e4", "\x01", "~", "import a from b", "import { a, b } from c", "import type", "import templ", "import trigger",
	"impl T with { a } for $S", "$S = {", "type T =", "@x", "#[a]", "b:c", "@b", "x.y", "x(", "new {", "fn(a: int)", "a: $S", "b: $S", "on x(1)", "at x()",
)

func soup2Cases(add func(gen string, data []byte, mods map[string]string, both bool), r *fw.Rng, thorough bool) {
	n := 4000
	if thorough {
		n = 60000
	}
	for i := 0; i < n; i++ {
		var sb strings.Builder
		k := 1 + r.Intn(16)
		sep := []string{" ", "", "\n"}[r.Intn(3)]
		switch r.Intn(4) {
		case 0:
			sb.WriteString("fn main() { ")
		case 1:
			sb.WriteString("import a from b")
		}
		for j := 0; j < k; j++ {
			sb.WriteString(fw.Pick(r, c05Vocab2))
			sb.WriteString(sep)
		}
		add("soup2", []byte(sb.String()), nil, i%3 == 0)
	}
}

// listFamily: a list-like construct. Every context holds the slot § (all occurrences are
// replaced); elems is the alphabet of list elements. A context that starts with ¹ only receives
// the tuples of length 0 and 1.
type listFamily struct {
	name  string
	ctxs  []string
	elems []string
	sep   string
	mods  map[string]string
}

const c05Prelude = "import templ FooFeature from templates; import trigger minute from triggers; $S = { x: int }; $T = int; type A = $S; "

var c05ModA = map[string]string{"a": "pub fn f() {} pub let g = 1; pub type T = int; fn hidden() {} type H = str; $S = int; pub fn main() {}"}

var c05Families = []listFamily{
	{
		name: "params", sep: ", ",
		elems: []string{"a: int", "b: str", "a: str", "a: $S", "b: $S", "self: $S", "b: $T", "a: $Nope", "b: $Nope", "b: Nope", "b: [$S]", "b: ?$S", "b: { x: $S }", "b: fn(x: $S) -> $S", "b: A", "b: any", "_: int"},
		ctxs: []string{
			c05Prelude + "fn f(§) {} fn main() { f(); }",
			c05Prelude + "pub fn f(§) -> int { 1 } fn main() { f(1, 2); }",
			c05Prelude + "event fn f(§) {} fn main() {}",
			c05Prelude + "fn main(§) {}",
			c05Prelude + "impl FooFeature with { light } for $S { fn dim(§) -> bool { true } } fn main() { dim(1); }",
			c05Prelude + "impl FooFeature with { temperature } for $T { fn set_temp(§) { a; b; } } fn main() { set_temp(); }",
			c05Prelude + "fn main() { let f = fn(§) -> int { 1 }; f(1); }",
			c05Prelude + "type F = fn(§) -> null; fn main() { let f: F = fn(§) {}; }",
			c05Prelude + "fn cb(§) {} fn main() { trigger cb at minute(1); }",
			c05Prelude + "#[trigger f at minute(1)] fn f(§) {} fn main() {}",
			c05Prelude + "fn f(§) { f(1); a; b; } fn main() { spawn f(1); }",
		},
	},
	{
		name: "objtype", sep: ", ",
		elems: []string{"a: int", "a: str", "b: $S", "\"a\": int", "b: T", "@setting a: int", "@nope b: int", "c: Nope", "\"\": int", "b: { a: int }", "b: ?[T]"},
		ctxs: []string{
			"type T = { § }; fn main() { let x: T = new { a: 1 }; x.a; x.b; }",
			"$S = { § }; fn main() { $S.a; $S.b = 1; }",
			"$S = int; fn main() { let x: { § } = new { a: 1 }; }",
			"fn f(x: { § }) -> { § } { x } fn main() { f(new { a: 1 }); }",
			"fn main() { let x = new { ? } as { § }; x.a; }",
			"type T = [{ § }]; type U = ?{ § }; type V = fn(x: { § }) -> { § }; fn main() {}",
		},
	},
	{
		name: "objlit", sep: ", ",
		elems: []string{"a: 1", "a: \"s\"", "b: a", "\"a\": 2", "b: new { a: 1 }", "to_string: 1", "b: none", "\"\": 1", "b: fn() {}", "?"},
		ctxs: []string{
			"fn main() { let x = new { § }; x.a; x.b; x.to_string; }",
			"type T = { a: int, b: ?str }; let g: T = new { § }; fn main() {}",
			"fn f(o: { a: int }) {} fn main() { f(new { § }); }",
			"fn main() { let x: { ? } = new { § }; x.a; for k in x { } }",
			"fn main() { new { § } == new { § }; [new { § }, new { a: 1 }]; match new { § } { _ => 1 } }",
		},
	},
	{
		name: "imports", sep: ", ", mods: c05ModA,
		elems: []string{"f", "g", "nope", "hidden", "main", "type T", "type H", "type f", "templ FooFeature", "trigger minute", "templ f", "trigger f", "type FooFeature", "_", "assert_eq", "http"},
		ctxs: []string{
			"import { § } from a; fn main() {}",
			"import { § } from templates; fn main() {}",
			"import { § } from triggers; fn main() {}",
			"import { § } from testing; fn main() {}",
			"import { § } from net; fn main() {}",
			"import { § } from nope; fn main() {}",
			// self-import: 0..1-tuples only ("¹"). Every one of these cases recurses if the analyzer
			// loses its module-cycle guard, and a stack overflow costs seconds per case.
			"¹import { § } from main; fn f() {} fn main() {}",
			"import { § } from a; import { § } from a; fn f() {} type T = int; fn main() { f(); g; }",
		},
	},
	{
		name: "caps", sep: ", ",
		elems: []string{"light", "temperature", "nope", "dim"},
		ctxs: []string{
			c05Prelude + "impl FooFeature with { § } for $S { fn dim(percent: int) -> bool { true } fn set_temp(celsius: float) {} } fn main() {}",
			c05Prelude + "impl FooFeature with { § } for $S { } fn main() {}",
			c05Prelude + "impl FooFeature with { § } for $Nope { fn dim(percent: int) -> bool { true } } fn main() {}",
			c05Prelude + "impl Nope with { § } for $S { fn dim(percent: int) -> bool { true } } fn main() {}",
			c05Prelude + "impl minute with { § } for $S { } impl A with { § } for $T { } fn main() {}",
		},
	},
	{
		name: "methods", sep: " ",
		elems: []string{
			"fn dim(percent: int) -> bool { true }", "fn dim() {}", "fn dim(percent: str) -> bool { true }", "fn set_temp(celsius: float) {}", "fn set_temp(celsius: float, s: $S) {}",
			"fn set_temp(s: $S, celsius: float) {}", "fn other() {}", "pub fn dim(percent: int) -> bool { true }", "event fn dim(percent: int) -> bool { true }", "fn main() {}",
			"fn dim(percent: int) -> bool { dim(1) }",
		},
		ctxs: []string{
			c05Prelude + "impl FooFeature with { light } for $S { § } fn main() {}",
			c05Prelude + "impl FooFeature for $S { § } fn main() {}",
			c05Prelude + "impl FooFeature with { light, temperature } for $T { § } fn main() {}",
			c05Prelude + "impl Nope for $S { § } fn main() {}",
			c05Prelude + "impl FooFeature with { temperature } for $Nope { § } fn main() {}",
			c05Prelude + "fn dim() {} impl FooFeature with { light } for $S { § } fn main() { dim(); }",
			c05Prelude + "impl FooFeature with { light } for $S { § } impl FooFeature with { light } for $T { § } fn main() {}",
		},
	},
	{
		name: "arms", sep: ", ",
		elems: []string{"1 => 2", "1 => \"s\"", "_ => 3", "1 | 2 => 4", "-1 => 5", "\"s\" => 6", "none => 7", "?1 => 8", "true => 9", "x => 1", "null => 1", "1.5 => 1", "_ => { return; }", "1 | \"s\" => 1", "!true => 1", "[1] => 1", "_ | 1 => 2"},
		ctxs: []string{
			"fn main() { let x = 1; let y = match x { § }; }",
			"fn main() { match \"s\" { § } }",
			"fn f(o: ?int) -> int { match o { § } } fn main() {}",
			"fn main() { let a: any = 1; match a { § }; let b = match nope { § }; }",
			"let g = match 1 { § }; fn main() {}",
			"fn main() { match 1.5 { § }; match true { § }; match null { § }; match [1] { § }; match main { § }; }",
		},
	},
	{
		name: "items", sep: " ", mods: c05ModA,
		elems: []string{
			"fn f() {}", "fn f(a: int) -> int { a }", "pub fn f() {}", "event fn f() {}", "let f = 1;", "pub let f = fn() {};", "type f = int;", "$f = int;", "import f from a;",
			"import type T from a;", "type T = int;", "type T = str;", "pub type T = { a: T };", "let T = 1;", "fn T() {}", "$S = int;", "$S = { a: int };", "$T = $S;", "type U = $S;",
			"import templ FooFeature from templates;", "import templ FooFeature from templates; impl FooFeature with { light } for $S { fn dim(percent: int) -> bool { true } }",
			"impl FooFeature for $S { }", "fn dim() {}", "fn g(s: $S) { s; }", "let h: T = f;", "let h = f();", "let h = $S;", "import trigger minute from triggers;",
			"#[trigger f at minute(1)] fn cb() {}", "fn minute() {}", "let FooFeature = 1;", "type FooFeature = int;", "import main from a;", "fn main() { f(); }",
		},
		ctxs: []string{"§ fn main() {}", "§", "fn main() { f; f(); let t: T = 1; $S; $f; minute; } §"},
	},
	{
		name: "stmts", sep: " ",
		elems: []string{
			"let x = 1;", "let x: str = 1;", "x = 2;", "x += \"s\";", "return;", "return 1;", "break;", "continue;", "loop { break; }", "while x { }", "for x in 0..3 { }", "for y in x { }",
			"x;", "x();", "{ 1 }", "if x { 1 } else { \"s\" }", "match x { 1 => 2, }", "try { x } catch x { x }", "type X = int;", "trigger x at x();", "spawn x();",
			"let f = fn() { return 1; };", "throw(1);", "let y: X = x;", "1", "x",
		},
		ctxs: []string{
			"fn main() { § }",
			"fn f() -> int { § } fn main() {}",
			"fn main() { loop { § } }",
			"fn main() { let f = fn() -> int { § }; }",
			"let g = { § }; fn main() {}",
			"fn main() { for i in 0..2 { § } }",
			"fn main() { let x = try { § } catch e { § }; }",
			"fn main() { let x = if true { § } else { § }; let y = match 1 { _ => { § } }; }",
		},
	},
	{
		name: "args", sep: ", ",
		elems: []string{"1", "\"s\"", "x", "none", "f", "f()", "[]", "new { }", "fn() {}", "$S", "nope", "null", "1.5"},
		ctxs: []string{
			c05Prelude + "fn f(a: int, b: str) -> int { 1 } fn main() { let x = 1; f(§); spawn f(§); }",
			c05Prelude + "fn f(s: $S, a: int) -> int { 1 } fn main() { let x = 1; f(§); let h = spawn f(§); }",
			c05Prelude + "fn f(a: int) {} fn main() { let x = 1; trigger f at minute(§); trigger f on minute(§); }",
			c05Prelude + "fn f() {} fn main() { let x = 1; println(§); print(§); throw(§); assert(§); fmt(§); probe(§); }",
			c05Prelude + "fn f() {} fn main() { let x = 1; x(§); [1].push(§); \"s\".len(§); \"s\".replace(§); [1].contains(§); (1..2)(§); none(§); $S(§); dim(§); nope(§); }",
			c05Prelude + "fn f() {} fn main() { let x: any = 1; x(§); let l = fn(a: int, b: ?str) -> int { a }; l(§); fn() {}(§); }",
		},
	},
	{
		name: "listelems", sep: ", ",
		elems: []string{"1", "\"s\"", "none", "?1", "[]", "[1]", "null", "x", "f", "new { a: 1 }", "new { a: \"s\" }", "new { b: 1 }", "1.0", "nope", "$S", "1..2", "any"},
		ctxs: []string{
			"$S = int; fn f() {} fn main() { let x = 1; let any: any = 1; let l = [§]; l[0]; for i in [§] { } }",
			"$S = int; fn f() {} let x = 1; let any: any = 1; let l: [int] = [§]; fn main() {}",
			"$S = int; fn f(l: [?int]) {} fn main() { let x = 1; let any: any = 1; f([§]); [§][0]; [§] as [int]; [§] == [§]; [§].len(); }",
		},
	},
}

func tupleCases(add func(gen string, data []byte, mods map[string]string, both bool), r *fw.Rng, thorough bool) {
	for _, f := range c05Families {
		ne := 0
		emit := func(ctx string, idx ...int) {
			ne++
			parts := make([]string, len(idx))
			for i, j := range idx {
				parts[i] = f.elems[j]
			}
			add("tuple-"+f.name, []byte(strings.ReplaceAll(ctx, "§", strings.Join(parts, f.sep))), f.mods, f.mods == nil && (thorough || ne%4 == 0))
		}
		n := len(f.elems)
		for _, ctx := range f.ctxs {
			short := strings.HasPrefix(ctx, "¹")
			ctx = strings.TrimPrefix(ctx, "¹")
			emit(ctx)
			for i := 0; i < n; i++ {
				emit(ctx, i)
				for j := 0; j < n && !short; j++ {
					emit(ctx, i, j)
				}
			}
			if short {
				continue
			}
			if thorough && n*n*n <= 6000 {
				for i := 0; i < n; i++ {
					for j := 0; j < n; j++ {
						for k := 0; k < n; k++ {
							emit(ctx, i, j, k)
						}
					}
				}
			}
			// longer tuples, sampled
			m := 60
			if thorough {
				m = 600
			}
			for e := 0; e < m; e++ {
				idx := make([]int, 3+r.Intn(3))
				for i := range idx {
					idx[i] = r.Intn(n)
				}
				emit(ctx, idx...)
			}
		}
	}
}

// operand kinds for the operator matrix; the prelude declares what they refer to
const c05OpPrelude = "$S = int; type T = { a: int }; fn f() -> int { 1 } fn main() { let a: any = 1; let i = 1; let s = \"s\"; let l = [1]; let o: T = new { a: 1 }; let n: ?int = none; let ao = new { ? }; "

var c05Operands = []string{"1", "1.5", "\"s\"", "true", "none", "null", "[1]", "[]", "new { a: 1 }", "f", "fn() {}", "(1..2)", "a", "nope", "?1", "$S", "i", "s", "l", "o", "n", "ao", "f()", "main()", "println", "throw(1)", "{ }", "l[0]", "o.a"}

var c05Infix = []string{"+", "-", "*", "/", "%", "**", "==", "!=", "<", ">", "<=", ">=", "<<", ">>", "|", "&", "^", "&&", "||", "..", "..=",
	"=", "+=", "-=", "*=", "/=", "%=", "**=", "<<=", ">>=", "|=", "&=", "^="}

var c05CastTypes = []string{"int", "float", "str", "bool", "null", "any", "[int]", "[any]", "?int", "{ a: int }", "{ ? }", "{}", "fn() -> int", "T", "$S", "Nope", "$Nope", "[[?T]]", "range"}

var c05Suffixes = []string{".a", ".len", ".to_string()", ".unwrap()", ".push(1)", ".nope", "[0]", "[\"a\"]", "[none]", "[0..1]", "()", "(1)", "->a", "~>a", ".a = 1", "[0] = 1", ".join()", ".keys()", ".to_range()", ".is_some()"}

func opTypeCases(add func(gen string, data []byte, mods map[string]string, both bool), thorough bool) {
	wrap := func(e string) []byte { return []byte(c05OpPrelude + "let r = " + e + "; " + e + "; }") }
	for xi, x := range c05Operands {
		for yi, y := range c05Operands {
			for oi, op := range c05Infix {
				// quick: a quarter of the operators per operand pair, rotating
				if thorough || (xi+yi+oi)%4 == 0 {
					add("optype", wrap(x+" "+op+" "+y), nil, false)
				}
			}
		}
		for _, op := range []string{"-", "!", "?", "--", "!!", "??", "-?", "!-"} {
			add("optype", wrap(op+x), nil, false)
		}
		for _, t := range c05CastTypes {
			add("optype", wrap(x+" as "+t), nil, false)
			add("optype", []byte(c05OpPrelude+"let r: "+t+" = "+x+"; }"), nil, false)
		}
		for _, sfx := range c05Suffixes {
			add("optype", wrap(x+sfx), nil, false)
		}
		// the operand in every expression position that constrains its type
		for _, tmpl := range []string{"if § { }", "while § { break; }", "for e in § { }", "match § { _ => 1 }", "return §;", "spawn §()", "trigger § at §()", "new { a: § }.a", "fn() -> int { § }()", "try { § } catch e { § }", "§..§", "if true { § } else { 1 }"} {
			add("optype", []byte(c05OpPrelude+strings.ReplaceAll(tmpl, "§", x)+"; }"), nil, false)
		}
	}
}

// importKindCases: every import kind (plain, type, templ, trigger) applied to every kind of item of a
// code module (function, global, type, nothing) and of the builtin modules, followed by every way of
// using the imported name (call, value, type annotation, trigger statement, trigger annotation, impl).
// An import that fails must leave the module in a state every later use can be analysed in.
func importKindCases(add func(gen string, data []byte, mods map[string]string, both bool)) {
	lib := "pub fn f(x: int) -> int { x }\npub let v = 1;\npub type T = { a: int };\nfn hidden() {}\nfn main() {}\n"
	kinds := []string{"", "type ", "templ ", "trigger "}
	items := []struct{ mod, name string }{
		{"lib", "f"}, {"lib", "v"}, {"lib", "T"}, {"lib", "hidden"}, {"lib", "missing"},
		{"triggers", "minute"}, {"templates", "FooFeature"}, {"net", "ping"}, {"testing", "assert_eq"}, {"nowhere", "x"},
	}
	uses := []string{
		"fn main() { §(1); }",
		"fn main() { let a = §; }",
		"fn main() { let a: § = 1; }",
		"event fn cb(elapsed: int) {}\nfn main() { trigger cb on §(1); }",
		"#[trigger on §(1)]\nevent fn cb(elapsed: int) {}\nfn main() {}",
		"$S = int;\nimpl § with { light } for $S { fn dim(self: $S, percent: int) -> bool { true } }\nfn main() {}",
		"fn main() {}",
	}
	for _, k := range kinds {
		for _, it := range items {
			for _, u := range uses {
				for _, form := range []string{"import %s%s from %s;\n", "import { %s%s } from %s;\n", "import { %s%s, %s%s } from %s;\n"} {
					var imp string
					if strings.Count(form, "%s") == 5 {
						imp = fmt.Sprintf(form, k, it.name, k, it.name, it.mod)
					} else {
						imp = fmt.Sprintf(form, k, it.name, it.mod)
					}
					add("import-kinds", []byte(imp+strings.ReplaceAll(u, "§", it.name)), map[string]string{"lib": lib}, false)
				}
			}
		}
	}
}
