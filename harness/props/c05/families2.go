package c05

// Further workload families of C05 (same oracles as the rest of the check).
//
//   pair     TWO towers of the same depth that meet in a type check: a type tower against a type
//            tower (parameter against annotation, return type, argument, assignment, ==, if/match/
//            try arms, list elements, cast), a type tower against a value tower (annotated let,
//            global, return value, argument, cast) and two value towers; for every type
//            constructor that nests (option, list, object, function parameter, function result,
//            option-of-list) and for innermost types that are equal, different and any. The single
//            towers of (e) never let two deep types meet, so the cost of COMPARING deep types was
//            not under the growth oracle. Run as growth cases (depth d against 2d) and as plain
//            cases (shallow in both modes, deep for a rotating subset).
//   bodystmt every statement kind with names that RESOLVE (a trigger statement naming an existing
//            callback and an imported trigger, spawn of an existing function, assignment to a
//            global / singleton field, return/break/continue, nested function literal) in every
//            kind of body a statement can stand in: function, event function, function literal,
//            literal nested in loop/if, literal in a global initializer, nested literal, impl
//            method, annotated function, loop bodies, match/try arms, literal in argument / list /
//            object position, and the unclosed literal body (text while it is being typed).
//            The analyzer keeps a "current function" whose representation differs per body kind;
//            every statement that consults it has to survive every body kind.

import (
	"strings"

	"hv/fw"
)

type pairCtor struct {
	name string
	typ  towerTri // Mid is replaced by the leaf type
	val  *towerTri
}

var c05PairCtors = []pairCtor{
	{"opt", towerTri{"?", "", ""}, &towerTri{"?", "", ""}},
	{"list", towerTri{"[", "", "]"}, &towerTri{"[", "", "]"}},
	{"obj", towerTri{"{ a: ", "", " }"}, &towerTri{"new { a: ", "", " }"}},
	{"optlist", towerTri{"?[", "", "]"}, &towerTri{"?[", "", "]"}},
	{"fnparam", towerTri{"fn(a: ", "", ") -> null"}, nil},
	{"fnret", towerTri{"fn() -> ", "", ""}, nil},
	{"optfn", towerTri{"?fn(a: ", "", ") -> null"}, nil},
}

// leaf pairs: (type, value of that type)
var c05PairLeaves = [][2][2]string{
	{{"int", "1"}, {"str", "\"a\""}},
	{{"int", "1"}, {"int", "2"}},
	{{"any", "1"}, {"int", "1"}},
	{{"int", "1"}, {"any", "1"}},
	{{"fn() -> int", "fn() -> int { 1 }"}, {"fn() -> str", "fn() -> str { \"a\" }"}},
}

// §0/§1: type towers
var c05PairTT = []string{
	"fn f(x: §0) { let y: §1 = x; } fn main() {}",
	"fn f(x: §0) -> §1 { x } fn main() {}",
	"fn f(x: §0) -> §1 { return x; } fn main() {}",
	"fn g(y: §1) {} fn f(x: §0) { g(x); spawn g(x); } fn main() {}",
	"fn f(x: §0, y: §1) { x = y; } fn main() {}",
	"fn f(x: §0, y: §1) { x == y; x != y; } fn main() {}",
	"fn f(x: §0, y: §1) { let z = if true { x } else { y }; } fn main() {}",
	"fn f(x: §0, y: §1) { let z = match 1 { 1 => x, _ => y }; } fn main() {}",
	"fn f(x: §0, y: §1) { let z = try { x } catch e { y }; } fn main() {}",
	"fn f(x: §0, y: §1) { let z = [x, y]; z.push(y); z.contains(x); } fn main() {}",
	"fn f(x: §0) { x as §1; } fn main() {}",
	"type A = §0; type B = §1; fn f(x: A) { let y: B = x; } fn main() {}",
	"fn f(x: §0) { let o: { k: §1 } = new { k: x }; let l: [§1] = [x]; let n: ?§1 = ?x; } fn main() {}",
	"fn f(x: §0) { let h = fn(y: §1) -> §1 { y }; h(x); } fn main() {}",
	"fn f(x: §0, y: §1) { match x { y => 1, _ => 2 }; for i in [x] { i == y; } } fn main() {}",
	"import templ FooFeature from templates; $S = §0; fn f(x: §1) { $S = x; let y: $S = x; } fn main() {}",
}

// §0: type tower, §1: value tower
var c05PairTV = []string{
	"fn main() { let x: §0 = §1; }",
	"let g: §0 = §1; fn main() { g = §1; }",
	"fn f() -> §0 { §1 } fn main() {}",
	"fn f(x: §0) {} fn main() { f(§1); }",
	"fn main() { §1 as §0; }",
}

// §0/§1: value towers
var c05PairVV = []string{
	"fn main() { §0 == §1; }",
	"fn main() { let l = [§0, §1]; let z = if true { §0 } else { §1 }; }",
	"fn main() { let x = §0; x = §1; }",
}

func pairTowerCases(add func(gen string, data []byte, mods map[string]string, both bool), addGrowth func(g growthSpec), thorough bool) {
	for ci, ct := range c05PairCtors {
		for li, lf := range c05PairLeaves {
			k := 0
			emit := func(tmpl string, a, b towerTri) {
				k++
				tw := []towerTri{a, b}
				// depth 7 against 14 and 8 against 16: a comparison that doubles per level costs 2^16
				// leaf comparisons at most, which is still fast, and is far beyond 16x
				for _, d := range []int{7, 8} {
					addGrowth(growthSpec{Tmpl: tmpl, Tw: tw, D: d})
				}
				g := growthSpec{Tmpl: tmpl, Tw: tw}
				add("pair", []byte(g.text(1)), nil, true)
				add("pair", []byte(g.text(10)), nil, true)
				// deep: one context per (constructor, leaf pair), rotating (a comparison that is
				// exponential never finishes here, and every such case costs a watchdog period)
				if thorough || k == 1+(ci*len(c05PairLeaves)+li)%len(c05PairTT) {
					add("pair", []byte(g.text(300)), nil, false)
				}
			}
			ta, tb := ct.typ, ct.typ
			ta.Mid, tb.Mid = lf[0][0], lf[1][0]
			for _, tmpl := range c05PairTT {
				emit(tmpl, ta, tb)
			}
			if ct.val == nil {
				continue
			}
			va, vb := *ct.val, *ct.val
			va.Mid, vb.Mid = lf[0][1], lf[1][1]
			for _, tmpl := range c05PairTV {
				emit(tmpl, ta, vb)
			}
			for _, tmpl := range c05PairVV {
				emit(tmpl, va, vb)
			}
		}
	}
}

const c05BodyPrelude = "import trigger minute from triggers; import templ FooFeature from templates; $S = { x: int }; let gv = 1; " +
	"event fn cb(elapsed: int) { println(elapsed); } fn h(a: int) -> int { a } "

// statements whose names all resolve under c05BodyPrelude (ev / k / dim / an / l resolve in the
// body that declares them only)
var c05BodyStmts = []string{
	"trigger cb at minute(1);", "trigger cb on minute(2);", "trigger h at minute(1);", "trigger main at minute(1);", "trigger ev at minute(1);", "trigger k at minute(1);",
	"trigger dim at minute(1);", "trigger l at minute(1);", "trigger gv at minute(1);", "trigger cb at h(1);", "trigger cb at minute(cb);",
	"spawn h(1);", "let t = spawn h(1);", "spawn cb(1);", "spawn main();", "spawn ev(1);", "spawn l();",
	"return;", "return 1;", "return h(1);", "break;", "continue;",
	"h(1);", "cb(1);", "main();", "ev(1);", "k();", "l();", "dim(1);",
	"gv = 2;", "gv += 1;", "$S.x = 1;", "let s = $S;", "h = h;", "let v = 1; v = 2;",
	"type X = int; let y: X = 1;", "for i in 0..2 { }", "throw(1);", "1", "h",
	"let q = fn() { trigger cb at minute(1); return; };", "let q = fn() -> int { spawn h(1); break; 1 };",
}

var c05BodyCtxs = []string{
	"fn main() { § }",
	"fn k() -> int { § } fn main() {}",
	"event fn ev(elapsed: int) { § } fn main() {}",
	"pub fn k() { § } fn main() {}",
	"fn main() { let l = fn() { § }; l(); }",
	"fn main() { let l = fn() -> int { loop { if true { § } } }; }",
	"let gl = fn() { § }; fn main() {}",
	"let gb = { § }; fn main() {}",
	"fn main() { let l = fn() { let m = fn() { § }; }; }",
	"impl FooFeature with { light } for $S { fn dim(percent: int) -> bool { § } } fn main() {}",
	"#[trigger an at minute(1)] fn an() { § } fn main() {}",
	"fn main() { for i in 0..2 { § } while true { § } loop { § } }",
	"fn main() { let v = match 1 { 1 => { § }, _ => { § } }; try { § } catch e { § } }",
	"fn main() { h(fn() -> int { § }()); [fn() { § }]; new { a: fn() { § } }; }",
	"fn main() { let l = fn() { §",
	"let gl = fn() { if true { §",
}

func bodyStmtCases(add func(gen string, data []byte, mods map[string]string, both bool), r *fw.Rng, thorough bool) {
	n := len(c05BodyStmts)
	ne := 0
	for _, ctx := range c05BodyCtxs {
		emit := func(idx ...int) {
			ne++
			parts := make([]string, len(idx))
			for i, j := range idx {
				parts[i] = c05BodyStmts[j]
			}
			add("bodystmt", []byte(c05BodyPrelude+strings.ReplaceAll(ctx, "§", strings.Join(parts, " "))), nil, ne%5 == 0)
		}
		emit()
		for i := 0; i < n; i++ {
			emit(i)
			// quick: a third of the ordered pairs, rotating; thorough: all
			for j := 0; j < n; j++ {
				if thorough || (i+j)%3 == 0 {
					emit(i, j)
				}
			}
		}
		m := 30
		if thorough {
			m = 300
		}
		for e := 0; e < m; e++ {
			idx := make([]int, 3+r.Intn(3))
			for i := range idx {
				idx[i] = r.Intn(n)
			}
			emit(idx...)
		}
	}
}
