package c05

// C05 — Lexing, parsing and analysis are total (DESIGN.md §3 C05).
//
// Oracle: for every input (as entry module text and as the text of an imported module) the real
// homescript.Analyze returns; problems are reported only through syntaxErrors/diagnostics. A Go
// panic (recovered in the worker: parser and analyzer run on the caller's goroutine), a fatal
// error (stack overflow: kills the worker, observed by the supervisor) or a lexer instance that
// is asked for more than 2·|runes|+16 tokens (a loop that stopped consuming; decided by the
// lexer hook, not by time) refutes the property.

import (
	"fmt"
	goruntime "runtime"
	"sort"
	"strings"

	"github.com/smarthome-go/homescript/v3/homescript/lexer"

	"hv/drive"
	"hv/fw"
	"hv/util"
)

type c05 struct{}

func init() { fw.Register(c05{}) }

func (c05) ID() string { return "C05" }

func (c05) Info(tier string) fw.Info {
	return fw.Info{
		Level: "exploration",
		Rule: "inputs: random bytes (incl. invalid UTF-8), token soup, prefixes of every corpus program (thorough: every byte prefix; quick: every token-boundary prefix of a seed-chosen subset), " +
			"single-token edits (delete/duplicate/swap/replace) of corpus programs, nesting towers of depth 10/100/1000 for every recursive construct, semantically odd programs, " +
			"single-character edits of small programs, lexemes the lexer rejects (illegal characters, lonely ~, broken escapes, unterminated literals) at every token boundary of a construct catalogue and at sampled boundaries of corpus programs, " +
			"all 0..2-tuples (ordered pairs incl. duplicates) plus sampled longer tuples of elements of every list-like construct (parameters, object type/literal fields, import lists, capabilities, impl methods, match arms, top-level items, block statements, call arguments, list elements) in every context, " +
			"every operator/cast/suffix over every operand kind, pairs of type/value towers (option, list, object, function types; equal and different innermost types) meeting in every type-checking context incl. the growth oracle, " +
			"every statement kind with resolvable names (trigger, spawn, return, break, assignment to globals/singletons, calls) in every kind of body (function, event function, function literal, nested literal, global initializer, impl method, loop, match/try arm, unclosed); each run as entry module and as imported module text. non-trivial = the input is non-empty and the lexer hook observed at least one NextToken call; " +
			"distinct = distinct (input bytes, mode)",
		Assumptions: []string{
			"inputs are limited to 64 KiB and nesting depth 1000 as stated by the property",
			"a parser/analyzer loop that neither calls the lexer nor recurses is only caught by the wall-clock watchdog (reported as inconclusive)",
		},
		CaseTimeoutS: 30,
		BatchSize:    1500,
	}
}

type c05Payload struct {
	Data     []byte `json:"d"`
	AsImport bool   `json:"i,omitempty"`
	// Extra modules for multi-module oddities
	Mods map[string]string `json:"m,omitempty"`
	Gen  string            `json:"g"`
	// Growth: the case is a pair of towers of depth GrowthD and 2*GrowthD of the same construct
	// (Data holds the deeper one); the work of the front end must not explode with the depth.
	Growth *growthSpec `json:"gr,omitempty"`
}

type growthSpec struct {
	Pre, Open, Mid, Close, Post string
	D                           int
	// Tmpl/Tw (pair towers, families2.go): a program template in which §0, §1, … stand for towers
	// of the same depth; when Tmpl is set the single-tower fields above are unused.
	Tmpl string     `json:"Tmpl,omitempty"`
	Tw   []towerTri `json:"Tw,omitempty"`
}

// towerTri is one tower: Open^d Mid Close^d.
type towerTri struct{ Open, Mid, Close string }

func (t towerTri) text(d int) string {
	return strings.Repeat(t.Open, d) + t.Mid + strings.Repeat(t.Close, d)
}

func (g growthSpec) label() string {
	if g.Tmpl == "" {
		return g.Open + "…" + g.Close
	}
	parts := make([]string, len(g.Tw))
	for i, t := range g.Tw {
		parts[i] = t.Open + t.Mid + t.Close
	}
	return strings.Join(parts, " vs ") + " in " + g.Tmpl
}

func (g growthSpec) text(d int) string {
	if g.Tmpl != "" {
		s := g.Tmpl
		for i, t := range g.Tw {
			s = strings.ReplaceAll(s, fmt.Sprintf("§%d", i), t.text(d))
		}
		return s
	}
	return g.Pre + strings.Repeat(g.Open, d) + g.Mid + strings.Repeat(g.Close, d) + g.Post
}

var c05Vocab = []string{
	"fn", "let", "pub", "event", "import", "from", "type", "templ", "trigger", "impl", "with", "for", "in", "while", "loop", "if", "else",
	"match", "try", "catch", "return", "break", "continue", "as", "new", "spawn", "on", "at", "true", "false", "off", "null", "none", "fn main",
	"(", ")", "{", "}", "[", "]", ",", ";", ":", ".", "..", "..=", "->", "=>", "~>", "?", "@", "$", "#", "_",
	"+", "-", "*", "/", "%", "**", "==", "!=", "<", ">", "<=", ">=", "<<", ">>", "|", "&", "^", "&&", "||", "!",
	"=", "+=", "-=", "*=", "/=", "%=", "**=", "<<=", ">>=", "|=", "&=", "^=",
	"x", "y", "main", "foo", "int", "str", "float", "bool", "any", "$S", "1", "42", "3.14", "1f", "1_000", "\"s\"", "'c'", "\"\\n\"", "\"", "'", "/*", "*/", "//", "\n",
}

var c05Replacements = []string{"fn", "let", "(", ")", "{", "}", "[", "]", ",", ";", ":", ".", "..", "->", "=>", "?", "@", "$x", "=", "+", "as", "x", "1", "\"s\"", "import", "type", "match", "try", "catch", "else", "new", "spawn", "trigger", "impl", "for", "in", "_", "|"}

// tokenSpans uses the real lexer only to find token boundaries for edits.
func tokenSpans(src string) [][2]int {
	defer func() { recover() }()
	l := lexer.NewLexer(src, "x")
	var out [][2]int
	runes := []rune(src)
	// map rune index -> byte offset
	offs := make([]int, len(runes)+1)
	o := 0
	for i, r := range runes {
		offs[i] = o
		o += len(string(r))
	}
	offs[len(runes)] = o
	for n := 0; n < len(runes)+8; n++ {
		t, err := l.NextToken()
		if err != nil {
			continue
		}
		if t.Kind == lexer.EOF {
			break
		}
		s, e := int(t.Span.Start.Index), int(t.Span.End.Index)+1
		if s < 0 || e > len(runes) || s >= e {
			continue
		}
		out = append(out, [2]int{offs[s], offs[e]})
	}
	return out
}

func (c05) Cases(tier string, seed uint64) []fw.Case {
	r := fw.NewRng(seed ^ 0xC05)
	thorough := tier == "thorough"
	var cases []fw.Case
	n := 0
	seen := map[string]bool{}
	add := func(gen string, data []byte, mods map[string]string, both bool) {
		if len(data) > 64*1024 {
			data = data[:64*1024]
		}
		for _, imp := range []bool{false, true} {
			if imp && !both {
				continue
			}
			key := fw.HashOf(data, imp, mods)
			if seen[key] {
				continue
			}
			seen[key] = true
			cases = append(cases, fw.MkCase(fmt.Sprintf("c05-%s-%d", gen, n), gen, c05Payload{Data: data, AsImport: imp, Mods: mods, Gen: gen}))
			n++
		}
	}
	corpus := util.Corpus()
	names := drive.SortedKeys(corpus)

	// (a) random bytes
	na := 8000
	if thorough {
		na = 60000
	}
	for i := 0; i < na; i++ {
		l := r.Intn(120)
		if r.Chance(1, 20) {
			l = r.Intn(3000)
		}
		b := make([]byte, l)
		switch r.Intn(3) {
		case 0:
			for j := range b {
				b[j] = byte(r.Intn(256))
			}
		case 1:
			for j := range b {
				b[j] = byte(32 + r.Intn(95))
			}
		default:
			const alpha = "abfnlet(){}[];:,.=+-*/%<>!&|^?@$#_\"'\\ \n\t\r0123456789"
			for j := range b {
				b[j] = alpha[r.Intn(len(alpha))]
			}
		}
		add("bytes", b, nil, true)
	}
	// (b) token soup
	nb := 20000
	if thorough {
		nb = 150000
	}
	for i := 0; i < nb; i++ {
		var sb strings.Builder
		k := 1 + r.Intn(30)
		sep := []string{" ", "", "\n"}[r.Intn(3)]
		if r.Chance(1, 3) {
			sb.WriteString("fn main() { ")
		}
		for j := 0; j < k; j++ {
			sb.WriteString(fw.Pick(r, c05Vocab))
			sb.WriteString(sep)
		}
		add("soup", []byte(sb.String()), nil, true)
	}
	// (c) prefixes
	for _, name := range names {
		src := corpus[name]
		if thorough {
			for i := 0; i <= len(src); i++ {
				add("prefix", []byte(src[:i]), nil, i%7 == 0)
			}
		} else {
			if r.Intn(2) != 0 {
				continue
			}
			for _, sp := range tokenSpans(src) {
				add("prefix", []byte(src[:sp[0]]), nil, false)
				if r.Chance(1, 4) {
					add("prefix", []byte(src[:sp[1]]), nil, true)
				}
			}
		}
	}
	// (d) single-token edits
	for _, name := range names {
		src := corpus[name]
		spans := tokenSpans(src)
		if len(spans) == 0 {
			continue
		}
		step := 1
		budget := len(spans) * 6
		if !thorough {
			budget = 200
		}
		_ = step
		for e := 0; e < budget; e++ {
			var i, kind int
			var rep string
			if thorough {
				i, kind = e/6, e%6
				rep = c05Replacements[(e/6+e%6*7)%len(c05Replacements)]
				if kind >= 3 {
					rep = c05Replacements[r.Intn(len(c05Replacements))]
				}
			} else {
				i, kind = r.Intn(len(spans)), r.Intn(6)
				rep = fw.Pick(r, c05Replacements)
			}
			if i >= len(spans) {
				break
			}
			s, t := spans[i][0], spans[i][1]
			if t < s {
				continue
			}
			var out string
			switch kind {
			case 0: // delete
				out = src[:s] + src[t:]
			case 1: // duplicate
				out = src[:t] + " " + src[s:t] + src[t:]
			case 2: // swap with next
				if i+1 >= len(spans) {
					continue
				}
				s2, t2 := spans[i+1][0], spans[i+1][1]
				if s2 < t || t2 < s2 {
					continue
				}
				out = src[:s] + src[s2:t2] + src[t:s2] + src[s:t] + src[t2:]
			default: // replace
				out = src[:s] + rep + src[t:]
			}
			add("edit", []byte(out), nil, e%5 == 0)
		}
	}
	// (e) nesting towers
	depths := []int{10, 100, 1000}
	type tower struct{ open, mid, close, pre, post string }
	towers := []tower{
		{"(", "1", ")", "fn main() { let x = ", "; }"},
		{"[", "1", "]", "fn main() { let x = ", "; }"},
		{"{", "1", "}", "fn main() { let x = ", "; }"},
		{"-", "1", "", "fn main() { let x = ", "; }"},
		{"!", "true", "", "fn main() { let x = ", "; }"},
		{"?", "1", "", "fn main() { let x = ", "; }"},
		{"if true { ", "1", " } else { 2 }", "fn main() { let x = ", "; }"},
		{"if false { 1 } else ", "{ 2 }", "", "fn main() { let x = ", "; }"},
		{"match 1 { 1 => ", "2", ", _ => 3 }", "fn main() { let x = ", "; }"},
		{"try { ", "1", " } catch e { 2 }", "fn main() { let x = ", "; }"},
		{"fn() -> int { ", "1", " }()", "fn main() { let x = ", "; }"},
		{"loop { ", "break;", " }", "fn main() { ", " }"},
		{"while true { ", "break;", " }", "fn main() { ", " }"},
		{"for i in 0..1 { ", "", " }", "fn main() { ", " }"},
		{"[", "int", "]", "type T = ", "; fn main() {}"},
		{"?", "int", "", "type T = ", "; fn main() {}"},
		{"{ a: ", "int", " }", "type T = ", "; fn main() {}"},
		{"fn(a: ", "int", ") -> null", "type T = ", "; fn main() {}"},
		{"new { a: ", "1", " }", "fn main() { let x = ", "; }"},
		{"", "x", ".a", "fn main() { let x = 1; ", "; }"},
		{"", "x", "()", "fn main() { let x = 1; ", "; }"},
		{"", "x", "[0]", "fn main() { let x = 1; ", "; }"},
		{"1 + ", "1", "", "fn main() { let x = ", "; }"},
		{"", "1", " as int", "fn main() { let x = ", "; }"},
		{"1 ** ", "1", "", "fn main() { let x = ", "; }"},
		{"x = ", "1", "", "fn main() { let x = 1; ", "; }"},
		{"1..", "2", "", "fn main() { let x = ", "; }"},
		// nesting in the second / last position of a construct
		{"match 1 { 1 => 2, _ => ", "3", " }", "fn main() { let x = ", "; }"},
		{"match 1 { 1 => 2, 5 | 6 => ", "3", ", _ => 4 }", "fn main() { let x = ", "; }"},
		{"match ", "1", " { 1 => 2, _ => 3 }", "fn main() { let x = ", "; }"},
		{"try { 1 } catch e { ", "2", " }", "fn main() { let x = ", "; }"},
		{"if true { 1 } else if false { 2 } else { ", "3", " }", "fn main() { let x = ", "; }"},
		{"if ", "true", " { true } else { false }", "fn main() { let x = ", "; }"},
		{"[1, ", "2", "]", "fn main() { let x = ", "; }"},
		{"new { a: 1, b: ", "2", " }", "fn main() { let x = ", "; }"},
		{"{ let y = ", "1", "; y }", "fn main() { let x = ", "; }"},
		{"f(1, ", "2", ")", "fn f(a: int, b: int) -> int { a + b } fn main() { let x = ", "; }"},
		{"fn() -> int { let y = ", "1", "; y }()", "fn main() { let x = ", "; }"},
		{"if true { ", "", " } else { }", "fn main() { ", " }"},
		{"if true { } else { ", "", " }", "fn main() { ", " }"},
		{"{ a: int, b: ", "int", " }", "type T = ", "; fn main() {}"},
		{"fn(a: int) -> ", "null", "", "type T = ", "; fn main() {}"},
		{"true && ", "true", "", "fn main() { let x = ", "; }"},
		{"(1 + ", "1", ") * 2", "fn main() { let x = ", "; }"},
		{"undefined_a + (", "undefined_b", ")", "fn main() { let x = ", "; }"},
		{"match 1 { 1 => 2, _ => ", "undefined_c", " }", "fn main() { let x = ", "; }"},
	}
	for _, tw := range towers {
		for _, d := range depths {
			s := tw.pre + strings.Repeat(tw.open, d) + tw.mid + strings.Repeat(tw.close, d) + tw.post
			add("tower", []byte(s), nil, d != 1000)
			// unbalanced variant
			s2 := tw.pre + strings.Repeat(tw.open, d) + tw.mid
			add("tower-open", []byte(s2), nil, false)
		}
		// (e1) growth: depth 8 against 16 (and 12 against 24)
		for _, d := range []int{8, 12} {
			g := growthSpec{Pre: tw.pre, Open: tw.open, Mid: tw.mid, Close: tw.close, Post: tw.post, D: d}
			cases = append(cases, fw.MkCase(fmt.Sprintf("c05-growth-%d", n), "growth", c05Payload{Data: []byte(g.text(2 * d)), Gen: "growth", Growth: &g}))
			n++
		}
	}
	// (e2) every truncation of lexemes with internal structure (escapes, numbers, comments,
	// multi-character operators), alone and inside a statement
	lexemes := []string{`"\x41"`, `"\u00e9"`, `"\U0001F600"`, `"\101"`, `"\n\t\\"`, `'\x7f'`, `"a\x4"`, `1.5`, `1_000.000_1`, `12f`, `/* c */`, `// c`, `**=`, `<<=`, `>>=`, `..=`, `~>`, `->`, `=>`, `$Single`, `@anno`, `#[a]`}
	for _, lx := range lexemes {
		for i := 0; i <= len(lx); i++ {
			add("trunc", []byte(lx[:i]), nil, true)
			add("trunc", []byte("fn main() { let x = "+lx[:i]), nil, true)
			add("trunc", []byte("fn main() { let x = "+lx[:i]+"; }"), nil, false)
			add("trunc", []byte("import a from b; type T = int; let g = "+lx[:i]), nil, false)
		}
	}
	// (f) semantic oddities
	for i, o := range c05Oddities {
		_ = i
		add("odd", []byte(o.main), o.mods, o.mods == nil)
	}
	// (g) single-character edits of small programs
	small := []string{
		"fn main() { let x = [1, 2]; for i in x { println(i + 1); } }",
		"import f from m; type T = { a: int, b: ?str }; let g: T = new { a: 1, b: none }; fn main() -> null { if g.a == 1 { f(); } else { throw(\"x\"); } }",
		"$S = { @setting x: int }; templ T for $S; impl T with { c } for $S { fn m(a: int) -> bool { true } } fn main() { match 1 { 1 | 2 => 3, _ => 4 }; try { 1 } catch e { 2 }; }",
	}
	const chars = "(){}[];:,.=+-*/%<>!&|^?@$#_\"'\\ \n\tafnlet0159~"
	for si, sp := range small {
		for pos := 0; pos <= len(sp); pos++ {
			stride := 1
			if !thorough {
				stride = 6
			}
			for ci := (pos + si) % stride; ci < len(chars); ci += stride {
				// insert and replace
				add("chr", []byte(sp[:pos]+string(chars[ci])+sp[pos:]), nil, false)
				if pos < len(sp) {
					add("chr", []byte(sp[:pos]+string(chars[ci])+sp[pos+1:]), nil, false)
				}
			}
		}
	}
	// (h)-(k) further families (families.go); own PRNG stream so that (a)-(g) stay what they were
	r2 := fw.NewRng(seed ^ 0xC05F)
	lexErrCases(add, r2.Fork(), thorough, names, corpus)
	soup2Cases(add, r2.Fork(), thorough)
	tupleCases(add, r2.Fork(), thorough)
	importKindCases(add)
	opTypeCases(add, thorough)
	// (l)-(m) families2.go
	addGrowth := func(g growthSpec) {
		cases = append(cases, fw.MkCase(fmt.Sprintf("c05-growth-%d", n), "growth", c05Payload{Data: []byte(g.text(2 * g.D)), Gen: "growth", Growth: &g}))
		n++
	}
	pairTowerCases(add, addGrowth, thorough)
	bodyStmtCases(add, r2.Fork(), thorough)
	sort.SliceStable(cases, func(i, j int) bool { return false })
	return cases
}

type oddity struct {
	main string
	mods map[string]string
}

var c05Oddities = []oddity{
	{main: "fn f() {} let x = f; fn main() {}"},
	{main: "let x = { trigger a on b(); 1 }; fn main() {}"},
	{main: "let x = { return 1; }; fn main() {}"},
	{main: "let x = { break; 1 }; fn main() {}"},
	{main: "let x = fn() { continue; }; fn main() {}"},
	{main: "fn main() { spawn undefined(); }"},
	{main: "fn main() { spawn main(); }"},
	{main: "fn main() { let h = spawn main(); h.join(); }"},
	{main: "fn main() { let c = true; let p = if c { print } else { println }; }"},
	{main: "fn main() { print == println; }"},
	{main: "fn main() { let a = [print, println]; }"},
	{main: "fn main() { main = main; }"},
	{main: "fn main() { main(); main.x; main[0]; }"},
	{main: "fn main(a: int) -> int { a }"},
	{main: "pub fn main() {}"},
	{main: "event fn main() {}"},
	{main: "fn main() {} fn main() {}"},
	{main: "type T = T; fn main() { let x: T = 1; }"},
	{main: "type A = B; type B = A; fn main() { let x: A = 1; }"},
	{main: "type T = [T]; fn main() { let x: T = []; }"},
	{main: "type T = { a: T }; fn main() {}"},
	{main: "type T = ?T; fn main() { let x: T = none; }"},
	{main: "type F = fn(a: F) -> F; fn main() {}"},
	{main: "fn main() { let x: fn(a: int, a: int) -> int = fn(a: int, b: int) -> int { a }; }"},
	{main: "fn main() { let x = new { a: 1, a: 2 }; }"},
	{main: "fn main() { let x = new { \"to_string\": 1 }; x.to_string; }"},
	{main: "fn main() { let x = new { ? }; x.a; x->a; x~>a; }"},
	{main: "fn main() { none.unwrap(); null.x; (1..2).x; }"},
	{main: "fn main() { throw(); throw(1, 2); throw(throw(1)); }"},
	{main: "fn main() { let x = throw(1); x + 1; }"},
	{main: "fn main() { for i in main {} for i in 1 {} for i in none {} }"},
	{main: "fn main() { match main { 1 => 2 } match 1 { main => 2 } match none { none => 1, ?1 => 2 } }"},
	{main: "fn main() { 1 as fn() -> null; main as int; none as ?int; [] as [int]; new { ? } as { a: int }; }"},
	{main: "fn main() { let a: any = 1; a + 1; a(); a.x; a[0]; -a; !a; ?a; a as int; }"},
	{main: "fn main() { let a = \"{}\".parse_json(); }"},
	{main: "$S = int; $S = str; fn main() {}"},
	{main: "$S = { a: int }; fn f(x: $S) {} fn main() { f(); f(1); }"},
	{main: "$S = [$S]; fn main() {}"},
	{main: "$S = ?int; fn main(s: $S) {}"},
	{main: "fn f(x: $Undefined) {} fn main() {}"},
	{main: "import templ FooFeature from templates; $S = int; impl FooFeature with { light, temperature } for $S { } fn main() {}"},
	{main: "import templ FooFeature from templates; $S = int; impl FooFeature with { light, light } for $S { fn dim(percent: int) -> bool { true } } fn main() {}"},
	{main: "import templ FooFeature from templates; impl FooFeature for $Nope { } fn main() {}"},
	{main: "impl Nope for $Nope { fn a() {} fn a() {} } fn main() {}"},
	{main: "import templ FooFeature from templates; $S = int; impl FooFeature with { nope } for $S { fn dim() {} fn set_temp(celsius: float, s: $S) {} } fn main() {}"},
	{main: "import trigger minute from triggers; fn cb(elapsed: int) {} fn main() { trigger cb at minute(1); trigger cb on minute(1); trigger nope at minute(); trigger cb at nope(1); trigger main at minute(1, 2); }"},
	{main: "import trigger minute from triggers; event fn cb(elapsed: int) {} fn main() { trigger cb at minute(1); trigger cb at minute(\"x\"); }"},
	{main: "import trigger minute from triggers; #[trigger cb at minute(1)] fn x() {} fn main() {}"},
	{main: "#[a] fn main() {} #[b(1)] #[c] fn x() {}"},
	{main: "@a fn main() {}"},
	{main: "import a from a; fn main() {}", mods: map[string]string{"a": "import a from a; pub fn a() {}"}},
	{main: "import main from main; fn main() {}"},
	{main: "import f from a; fn main() {}", mods: map[string]string{"a": "import f from b; pub fn f() {}", "b": "import f from a; pub fn f() {}"}},
	{main: "import f from a; fn main() {}", mods: map[string]string{"a": "import f from b; pub fn f() {}", "b": "import f from c; pub fn f() {}", "c": "import f from b; pub fn f() {}"}},
	{main: "import f from a; fn main() {}", mods: map[string]string{"a": "import f from b; pub fn f() {}", "b": "import f from c; pub fn f() {}", "c": "import f from d; pub fn f() {}", "d": "import f from a; pub fn f() {}"}},
	{main: "import f from a; fn main() {}", mods: map[string]string{"a": "import f from main; pub fn f() {}"}},
	{main: "import { f, g, type T, templ U, trigger V } from a; fn main() { f(); g; let t: T = 1; }", mods: map[string]string{"a": "fn f() {} pub let g = 1; type T = int;"}},
	{main: "import { f, f } from a; import f from a; fn f() {} fn main() {}", mods: map[string]string{"a": "pub fn f() {}"}},
	{main: "import f from a; fn main() { f(); }", mods: map[string]string{"a": "pub fn f() { g(); } fn g() { f(); } fn main() { nope(); }"}},
	{main: "import f from a; fn main() { f(); }", mods: map[string]string{"a": "pub fn f( {"}},
	{main: "import f from a; fn main() { f(); }", mods: map[string]string{"a": "\x00\xff\xfe"}},
	{main: "import f from a; fn main() { f(1); }", mods: map[string]string{"a": "pub fn f(a: T) {} type T = int;"}},
	{main: "import { type T } from a; fn main() { let x: T = new { a: 1 }; }", mods: map[string]string{"a": "pub type T = { a: U }; type U = int;"}},
	{main: "import x from net; import http from net; import nope from nope; import type HttpResponse from net; fn main() { http.get(1); }"},
	{main: "import assert_eq from testing; import any_func from testing; import any_list from testing; fn main() { assert_eq(any_func(), any_list); let x = any_func(); }"},
	{main: "let a = b; let b = a; fn main() {}"},
	{main: "let a = a; fn main() {}"},
	{main: "let a = [1, \"x\"]; let b = 1 + \"x\"; let c: int = \"x\"; fn main() {}"},
	{main: "pub let a = 1; pub type T = int; pub fn f() {} pub pub fn g() {} fn main() {}"},
	{main: "fn main() { let x = 1; { let x = \"s\"; x + 1; } x + \"s\"; }"},
	{main: "fn main() { let f = fn(a: int) -> int { f(a) }; f(1); }"},
	{main: "fn main() { let f = fn() -> int { return \"x\"; }; return 1; }"},
	{main: "fn main() { loop { let f = fn() { break; }; f(); } }"},
	{main: "fn main() { while true { let f = fn() { continue; }; } return; }"},
	{main: "fn f() -> int { loop {} } fn g() -> int { while true {} } fn main() {}"},
	{main: "fn f() -> int { return 1; 2 } fn g() -> int { if true { return 1; } else { return 2; } } fn main() {}"},
	{main: "fn f() -> int { match 1 { 1 => return 1, } } fn main() { f(); }"},
	{main: "fn main() { 1 = 2; 1 += 2; main() = 1; [1][0] = 2; \"s\".len = 1; }"},
	{main: "fn main() { let x = [1]; x[\"a\"]; x[1.0]; x[none]; \"s\"[0]; (1..2)[0]; new { a: 1 }[\"a\"]; new { ? }[\"a\"]; }"},
	{main: "fn main() { 9223372036854775808; 99999999999999999999999; 1e999; 1.7976931348623157e309; 00012; 1_; 1__2; 1.f; 1f.2; }"},
	{main: "fn main() { \"\\q\"; \"\\x\"; \"\\xZZ\"; \"\\u12\"; \"\\U0011FFFF\"; \"\\777\"; '\\''; }"},
	{main: "fn main() { \"unterminated"},
	{main: "fn main() { /* unterminated"},
	{main: "fn main() { \"\\"},
	{main: "fn main() { 1.. ; ..1; 1..=; 1...2; }"},
	{main: "fn main() { a.b.c.d(); a::b; a->b; a~>b; a=>b; }"},
	{main: "fn main() -> { }"},
	{main: "fn main() -> int -> int { }"},
	{main: "fn () {}"},
	{main: "fn main"},
	{main: "fn main("},
	{main: "fn main() {"},
	{main: "fn main() { let"},
	{main: "fn main() { let x"},
	{main: "fn main() { let x ="},
	{main: "fn main() { let x: "},
	{main: "fn main() { x."},
	{main: "fn main() { x["},
	{main: "fn main() { x("},
	{main: "fn main() { if"},
	{main: "fn main() { if x"},
	{main: "fn main() { if x {} else"},
	{main: "fn main() { match"},
	{main: "fn main() { match x {"},
	{main: "fn main() { match x { 1"},
	{main: "fn main() { match x { 1 =>"},
	{main: "fn main() { match x { 1 | "},
	{main: "fn main() { match x { - "},
	{main: "fn main() { try"},
	{main: "fn main() { try {} catch"},
	{main: "fn main() { try {} catch e"},
	{main: "fn main() { for"},
	{main: "fn main() { for i"},
	{main: "fn main() { for i in"},
	{main: "fn main() { new"},
	{main: "fn main() { new {"},
	{main: "fn main() { new { a"},
	{main: "fn main() { new { a:"},
	{main: "fn main() { new { ?"},
	{main: "fn main() { spawn"},
	{main: "fn main() { spawn x"},
	{main: "fn main() { trigger"},
	{main: "fn main() { trigger a"},
	{main: "fn main() { trigger a on"},
	{main: "fn main() { trigger a on b"},
	{main: "fn main() { trigger a on b("},
	{main: "fn main() { x as"},
	{main: "fn main() { fn"},
	{main: "fn main() { fn("},
	{main: "fn main() { fn(a"},
	{main: "fn main() { fn(a:"},
	{main: "fn main() { fn() ->"},
	{main: "import"},
	{main: "import {"},
	{main: "import { a"},
	{main: "import { a,"},
	{main: "import { type"},
	{main: "import a"},
	{main: "import a from"},
	{main: "import a from b"},
	{main: "import a from b:"},
	{main: "import a from b:\x01"},
	{main: "import a from b:c:"},
	{main: "import a from @"},
	{main: "import a from @b"},
	{main: "import type"},
	{main: "import templ"},
	{main: "import trigger"},
	{main: "type"},
	{main: "type T"},
	{main: "type T ="},
	{main: "type T = {"},
	{main: "type T = { a"},
	{main: "type T = { a:"},
	{main: "type T = { @"},
	{main: "type T = { @x a: int, @ }"},
	{main: "type T = ["},
	{main: "type T = ?"},
	{main: "type T = fn"},
	{main: "type T = fn("},
	{main: "type T = fn(a"},
	{main: "type T = fn(a: int"},
	{main: "type T = fn() ->"},
	{main: "$"},
	{main: "$S"},
	{main: "$S ="},
	{main: "$S = {"},
	{main: "$S = { @"},
	{main: "$S = { @a"},
	{main: "impl"},
	{main: "impl T"},
	{main: "impl T with"},
	{main: "impl T with {"},
	{main: "impl T with { a"},
	{main: "impl T with { a,"},
	{main: "impl T with { a, }"},
	{main: "impl T with { a, } for"},
	{main: "impl T for"},
	{main: "impl T for $S"},
	{main: "impl T for $S {"},
	{main: "impl T for $S { fn"},
	{main: "impl T for $S { let"},
	{main: "pub"},
	{main: "pub event"},
	{main: "pub event fn"},
	{main: "event"},
	{main: "#"},
	{main: "#["},
	{main: "#[a"},
	{main: "#[a("},
	{main: "#[trigger"},
	{main: "#[trigger a"},
	{main: "#[trigger a at"},
	{main: "#[trigger a at b("},
	{main: "#[trigger a at b()"},
	{main: "#[a]"},
	{main: "#[a] let"},
	{main: "let"},
	{main: "let x = 1"},
	{main: "let x = 1; let x = 2; fn main() { x }"},
	{main: ";;;"},
	{main: "}"},
	{main: "fn main() {} }"},
	{main: "fn main() { } ) ] ;"},
}

func (c05) Run(c fw.Case) fw.Result {
	var p c05Payload
	fw.Decode(c, &p)
	src := drive.Sources{}
	for k, v := range p.Mods {
		src[k] = v
	}
	if p.AsImport {
		src["main"] = "import f from m;\nfn main() { f(); }\n"
		src["m"] = string(p.Data)
	} else {
		src["main"] = string(p.Data)
	}
	var ao drive.AnalyzeOut
	st, exceeded, pv, stack := drive.WithLexBudget(func() {
		ao = drive.Analyze(src, "main", true)
	})
	res := fw.Result{Verdict: fw.Held, Nontrivial: len(p.Data) > 0 && st.Calls > 0}
	res.Obs = map[string]int64{"lexer_calls": st.Calls, "lexer_instances": int64(st.Instances), "syntax_errors": int64(len(ao.Syntax)), "diagnostics": int64(len(ao.Diags))}
	res.Cover = []string{"gen:" + p.Gen}
	if ao.Errors == 0 && pv == nil && !exceeded {
		res.Cover = append(res.Cover, "accepted")
	}
	mode := "entry"
	if p.AsImport {
		mode = "import"
	}
	if exceeded {
		res.Verdict = fw.Violated
		res.Sig = "lex-budget:" + mode
		res.Why = fmt.Sprintf("a lexer instance was asked for more than 2*|runes|+16 tokens (non-advancing loop), mode=%s input=%q", mode, util.Clip(string(p.Data), 300))
	} else if pv != nil {
		res.Verdict = fw.Violated
		res.Sig = fmt.Sprintf("go-panic:%s:%s", util.NormPanic(fmt.Sprint(pv)), util.FirstFrame(stack))
		res.Why = fmt.Sprintf("Go panic %q at %s, mode=%s input=%q", util.Clip(fmt.Sprint(pv), 200), stack, mode, util.Clip(string(p.Data), 300))
		if len(p.Data) > 300 {
			// long shared preludes: the distinguishing part of the input is its end
			res.Why += fmt.Sprintf(" input-tail=%q", string(p.Data[len(p.Data)-min(len(p.Data)-300, 200):]))
		}
	}
	if p.Growth != nil && res.Verdict == fw.Held {
		// bounded work: the front end may be polynomial in the nesting depth, not exponential.
		// Work is measured in heap allocations of the analysing goroutine's process (deterministic for
		// a given input up to runtime noise): doubling the depth of a tower may multiply it by 16 at most.
		work := func(text string) int64 {
			s := drive.Sources{"main": text}
			var before, after goruntime.MemStats
			goruntime.ReadMemStats(&before)
			drive.Analyze(s, "main", true)
			goruntime.ReadMemStats(&after)
			return int64(after.Mallocs - before.Mallocs)
		}
		small, big := work(p.Growth.text(p.Growth.D)), work(p.Growth.text(2*p.Growth.D))
		res.Obs["growth_small_allocs"], res.Obs["growth_big_allocs"] = small, big
		if big > 16*small+20000 {
			res.Verdict = fw.Violated
			res.Sig = "growth:" + p.Growth.Open + p.Growth.Mid + p.Growth.Close
			if p.Growth.Tmpl != "" {
				res.Sig = "growth:" + p.Growth.label()
			}
			res.Why = fmt.Sprintf("front-end work explodes with nesting depth: %d allocations at depth %d, %d at depth %d (more than 16x) for towers of %q, input=%q", small, p.Growth.D, big, 2*p.Growth.D, p.Growth.label(), util.Clip(p.Growth.text(p.Growth.D), 300))
		}
	}
	if p.Gen == "tower" || p.Gen == "odd" || p.Gen == "edit" {
		res.Sample = map[string]any{"gen": p.Gen, "mode": mode, "input": util.Clip(string(p.Data), 160), "errors": ao.Errors}
	}
	return res
}

func (c05) OnCrash(c fw.Case, cr fw.Crash) fw.Result {
	var p c05Payload
	fw.Decode(c, &p)
	mode := "entry"
	if p.AsImport {
		mode = "import"
	}
	switch cr.Kind {
	case "watchdog", "killed":
		return fw.Result{Verdict: fw.Inconclusive, Why: cr.Kind + ": " + cr.Message}
	}
	return fw.Result{Verdict: fw.Violated, Nontrivial: true,
		Sig: fmt.Sprintf("%s:%s:%s", cr.Kind, util.NormPanic(cr.Message), cr.TopFrame),
		Why: fmt.Sprintf("worker died (%s: %s) at %s, mode=%s input=%q", cr.Kind, util.Clip(cr.Message, 200), cr.TopFrame, mode, util.Clip(string(p.Data), 300))}
}
