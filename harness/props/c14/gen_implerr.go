package c14

import (
	"sort"
	"strings"

	"hv/fw"
)

// ---------------------------------------------------------------------------------------------
// Family: implerr — impl blocks that get SEVERAL things wrong at once.
//
// The analyzer validates an impl block against the set of methods its selected capabilities require;
// that set is a Go map. Whatever the analyzer reports about one method must not depend on which of
// the other required methods it happened to look at before: every program of this family has one or
// two impl blocks (templates `Multi` and `Sensor` of the harness host, obs.go) whose capabilities
// require 2..8 methods, and at least two of the methods of a block are faulty, each in its own way
// (missing, one parameter too many / too few, renamed parameter, parameter of another type, other
// return type, wrong / missing / redundant modifier, singleton not extracted or another singleton
// extracted), optionally together with additional methods, an unknown capability or an undeclared
// singleton. The set of diagnostics of such a program is what C14 speaks about.
// ---------------------------------------------------------------------------------------------

type tParam struct{ Name, Type string }

// tMethod is a required method: parameters (without the singleton extraction), return type ("" =
// null) and modifier ("", "pub", "event").
type tMethod struct {
	Params []tParam
	Ret    string
	Mod    string
}

// templTable describes a template of the harness host for the generator.
type templTable struct {
	Name       string
	Caps       []string
	CapMethods map[string][]string
	Conflicts  map[string][]string
	Defaults   []string
	Methods    map[string]tMethod
}

func sortedMethodNames(t templTable) []string {
	out := make([]string, 0, len(t.Methods))
	for k := range t.Methods {
		out = append(out, k)
	}
	sort.Strings(out)
	return out
}

// multiTempl mirrors the template `Multi` of obs.go (TestImplErrTables checks the two against each
// other through the analyzer: an impl block written from this table is accepted).
var multiTempl = templTable{
	Name:       "Multi",
	Caps:       []string{"onoff", "dim", "heat", "cool", "color", "mono", "report"},
	CapMethods: capMethods,
	Conflicts:  capConflicts,
	Methods: map[string]tMethod{
		"set_power": {Params: []tParam{{"state", "bool"}}, Ret: "bool"},
		"set_level": {Params: []tParam{{"percent", "int"}}, Ret: "bool"},
		"get_level": {Ret: "int"},
		"set_temp":  {Params: []tParam{{"celsius", "float"}}},
		"set_cool":  {Params: []tParam{{"celsius", "float"}}},
		"set_rgb":   {Params: []tParam{{"r", "int"}, {"g", "int"}, {"b", "int"}}, Ret: "str"},
		"set_white": {Params: []tParam{{"k", "int"}}},
		"describe":  {Ret: "str"},
	},
}

// sensorTempl is the source of the template `Sensor` (obs.go builds the analyzer's spec from it):
//
//	capabilities  base (default)  requires name() -> str, pub read() -> float
//	              calib           requires calibrate(offset: float, gain: float) -> bool, reset(), pub read() -> float
//	              notify          requires event on_change(value: float), threshold(low: float, high: float) -> bool; conflicts with silent
//	              silent          requires mute(flag: bool); conflicts with notify
//	              history         requires last(n: int) -> [float], clear() -> int, pub read() -> float
var sensorTempl = templTable{
	Name: "Sensor",
	Caps: []string{"base", "calib", "notify", "silent", "history"},
	CapMethods: map[string][]string{
		"base":    {"name", "read"},
		"calib":   {"calibrate", "reset", "read"},
		"notify":  {"on_change", "threshold"},
		"silent":  {"mute"},
		"history": {"last", "clear", "read"},
	},
	Conflicts: map[string][]string{"notify": {"silent"}, "silent": {"notify"}},
	Defaults:  []string{"base"},
	Methods: map[string]tMethod{
		"name":      {Ret: "str"},
		"read":      {Ret: "float", Mod: "pub"},
		"calibrate": {Params: []tParam{{"offset", "float"}, {"gain", "float"}}, Ret: "bool"},
		"reset":     {},
		"on_change": {Params: []tParam{{"value", "float"}}, Mod: "event"},
		"threshold": {Params: []tParam{{"low", "float"}, {"high", "float"}}, Ret: "bool"},
		"mute":      {Params: []tParam{{"flag", "bool"}}},
		"last":      {Params: []tParam{{"n", "int"}}, Ret: "[float]"},
		"clear":     {Ret: "int"},
	},
}

// Faults of one method of an impl block.
const (
	faultNone       = "ok"
	faultMissing    = "missing"      // the required method is not implemented
	faultAddParam   = "param-more"   // one parameter too many
	faultDropParam  = "param-fewer"  // one parameter too few
	faultRename     = "param-name"   // a parameter under another name
	faultRetype     = "param-type"   // a parameter of another type
	faultRet        = "return-type"  // another return type
	faultModifier   = "modifier"     // redundant / missing / other modifier
	faultNoSelf     = "no-self"      // the singleton is not extracted
	faultOtherSelf  = "other-self"   // another singleton is extracted
	faultAdditional = "additional"   // (block level) methods the template does not know
	faultUnknownCap = "unknown-cap"  // (block level) a capability the template does not know
	faultNoSinglet  = "no-singleton" // (block level) impl for an undeclared singleton
)

var countFaults = []string{faultAddParam, faultDropParam}
var otherFaults = []string{faultMissing, faultRename, faultRetype, faultRet, faultModifier, faultNoSelf, faultOtherSelf, faultAddParam, faultDropParam}

var otherType = map[string]string{"int": "str", "float": "int", "bool": "int", "str": "bool", "[float]": "[int]", "": "int"}

func valueOf(t string) string {
	switch t {
	case "int":
		return "0"
	case "float":
		return "0.5"
	case "bool":
		return "true"
	case "str":
		return "\"s\""
	case "[float]":
		return "[0.5]"
	case "[int]":
		return "[1]"
	}
	return ""
}

// applicable tells whether a fault can be applied to a method.
func applicable(m tMethod, fault string) bool {
	switch fault {
	case faultDropParam, faultRename, faultRetype:
		return len(m.Params) > 0
	}
	return true
}

// methodSource renders the implementation of a required method with one fault.
func methodSource(r *fw.Rng, name string, m tMethod, singleton, fault string) string {
	params := append([]tParam{}, m.Params...)
	ret, mod := m.Ret, m.Mod
	self := "self: " + singleton
	switch fault {
	case faultAddParam:
		at := r.Intn(len(params) + 1)
		params = append(params[:at:at], append([]tParam{{"surplus", "int"}}, params[at:]...)...)
	case faultDropParam:
		at := r.Intn(len(params))
		params = append(params[:at:at], params[at+1:]...)
	case faultRename:
		at := r.Intn(len(params))
		params[at].Name = params[at].Name + "_x"
	case faultRetype:
		at := r.Intn(len(params))
		params[at].Type = otherType[params[at].Type]
	case faultRet:
		if ret != "" && r.Chance(1, 3) {
			ret = "" // a method that should return something returns nothing
		} else {
			ret = otherType[ret]
		}
	case faultModifier:
		switch mod {
		case "":
			mod = fw.Pick(r, []string{"pub", "event"})
		case "pub":
			mod = fw.Pick(r, []string{"", "event"})
		default:
			mod = fw.Pick(r, []string{"", "pub"})
		}
	case faultNoSelf:
		self = ""
	case faultOtherSelf:
		self = "self: $Other"
	}
	var ps []string
	if self != "" {
		ps = append(ps, self)
	}
	for _, p := range params {
		ps = append(ps, p.Name+": "+p.Type)
	}
	var b sb
	if mod != "" {
		b.f("%s ", mod)
	}
	b.f("fn %s(%s)", name, strings.Join(ps, ", "))
	if ret != "" {
		b.f(" -> %s", ret)
	}
	b.f(" { %s }", valueOf(ret))
	return b.String()
}

// pickCaps selects 2..4 capabilities without conflicts that require at least two methods.
func pickCaps(r *fw.Rng, t templTable) (caps []string, need []string) {
	for {
		caps = caps[:0]
		for _, c := range pickN(r, t.Caps, 2+r.Intn(3)) {
			ok := true
			for _, have := range caps {
				if contains(t.Conflicts[c], have) || contains(t.Conflicts[have], c) {
					ok = false
				}
			}
			if ok {
				caps = append(caps, c)
			}
		}
		set := map[string]bool{}
		for _, c := range append(append([]string{}, caps...), t.Defaults...) {
			for _, m := range t.CapMethods[c] {
				set[m] = true
			}
		}
		if len(set) >= 2 {
			return caps, sortedKeysBool(set)
		}
	}
}

// implErrBlock renders one impl block of template t for the singleton and returns the faults used.
// With faulty == false the block is written exactly as the template requires.
func implErrBlock(r *fw.Rng, t templTable, singleton string, faulty bool) (text string, faults []string) {
	caps, need := pickCaps(r, t)
	fault := map[string]string{}
	for _, m := range need {
		fault[m] = faultNone
	}
	var extra, unknownCap bool
	if faulty {
		// at least two faulty methods; in two of three blocks one of them has the wrong number of
		// parameters (the analyzer treats that one differently: it says nothing else about the method)
		order := pickN(r, need, len(need))
		k := 2 + r.Intn(len(need)-1)
		if k > 4 {
			k = 2 + r.Intn(3)
		}
		for i := 0; i < k; i++ {
			m := order[i]
			pool := otherFaults
			if i == 0 && r.Chance(2, 3) {
				pool = countFaults
			}
			for {
				f := fw.Pick(r, pool)
				if applicable(t.Methods[m], f) {
					fault[m] = f
					break
				}
			}
		}
		extra = r.Chance(1, 3)
		unknownCap = r.Chance(1, 6)
	}
	var b sb
	capList := append([]string{}, caps...)
	// the default capabilities need not be named
	if len(t.Defaults) > 0 {
		var named []string
		for _, c := range capList {
			if !contains(t.Defaults, c) || r.Bool() {
				named = append(named, c)
			}
		}
		capList = named
	}
	if unknownCap {
		capList = append(capList, "warp")
		capList = pickN(r, capList, len(capList))
		faults = append(faults, faultUnknownCap)
	}
	if len(capList) > 0 {
		b.f("impl %s with { %s } for %s {\n", t.Name, strings.Join(capList, ", "), singleton)
	} else {
		b.f("impl %s for %s {\n", t.Name, singleton)
	}
	var lines []string
	for _, m := range need {
		f := fault[m]
		if f != faultNone {
			faults = append(faults, f)
		}
		if f == faultMissing {
			continue
		}
		lines = append(lines, methodSource(r, m, t.Methods[m], singleton, f))
	}
	if extra {
		faults = append(faults, faultAdditional)
		for i := 0; i < 1+r.Intn(3); i++ {
			lines = append(lines, methodSource(r, strings.ToLower(t.Name)+"_extra"+string(rune('a'+i)), tMethod{Ret: "int"}, singleton, faultNone))
		}
	}
	for _, l := range pickN(r, lines, len(lines)) {
		b.f("    %s\n", l)
	}
	b.f("}\n")
	return b.String(), faults
}

func famImplErr(r *fw.Rng, p Poison) Built {
	b, _ := buildImplErr(r, true)
	return b
}

// buildImplErr builds a program of the family and returns the faults of its impl blocks.
func buildImplErr(r *fw.Rng, faulty bool) (Built, [][]string) {
	var b sb
	b.f("import templ Multi from %s;\nimport templ Sensor from %s;\n", TemplModule, TemplModule)
	b.f("$Lamp = { level: int, lit: bool, name: str, rgb: str, temp: float };\n")
	b.f("$Probe = { value: float, unit: str };\n")
	b.f("$Other = { n: int };\n")
	type blk struct {
		t templTable
		s string
	}
	var blocks []blk
	switch r.Intn(4) {
	case 0:
		blocks = []blk{{multiTempl, "$Lamp"}}
	case 1:
		blocks = []blk{{sensorTempl, "$Probe"}}
	case 2:
		blocks = []blk{{multiTempl, "$Lamp"}, {sensorTempl, "$Probe"}}
	default:
		blocks = []blk{{sensorTempl, "$Probe"}, {multiTempl, "$Lamp"}}
	}
	var all [][]string
	for _, bl := range blocks {
		s := bl.s
		var blockFaults []string
		if faulty && r.Chance(1, 8) {
			s += "Gone" // undeclared singleton: the methods are still validated
			blockFaults = append(blockFaults, faultNoSinglet)
		}
		text, faults := implErrBlock(r, bl.t, s, faulty)
		b.f("%s", text)
		all = append(all, append(blockFaults, faults...))
	}
	b.f("fn main() {\n    println($Lamp.level, $Probe.unit, $Other.n);\n}\n")
	tags := []string{}
	seen := map[string]bool{}
	for _, fs := range all {
		for _, f := range fs {
			if !seen[f] {
				seen[f] = true
				tags = append(tags, "implerr-"+f)
			}
		}
	}
	sort.Strings(tags)
	return Built{Fam: "implerr", Src: map[string]string{"main": b.String()}, Tags: tags, Templ: true}, all
}
