package c14

import (
	"fmt"
	"strings"

	"hv/fw"
)

// ---------------------------------------------------------------------------------------------
// Family: fielderr — whole-object operations that FAIL on a field, with several offending fields.
//
// An operation that walks the fields of an object (a Go map) and stops at the first field it cannot
// handle reports whichever field the map yields first, unless it walks in a fixed order. The cast
// errors of the objects family (TagCastMulti) are one member of the class; this family adds
//
//   * JSON encoding (`to_json` / `to_json_indent`) of objects, any-objects, lists of objects and
//     objects inside objects with k >= 2 fields that have no JSON representation: ranges, function
//     literals, named functions, non-finite floats — each directly, inside a list, inside an option
//     and inside a nested object. The JsonError is fatal (also inside `try`), so it is the outcome
//     of the program on both back ends; the text printed before it and the stack trace are part of
//     the comparison as well;
//   * JSON decoding under an object type (`let x: T = s.parse_json()`) with k >= 2 offending
//     members (wrong kinds, unexpected members, missing members), caught, message printed.
//
// All offending fields of one object are of the SAME non-encodable kind in the main workload: on the
// unchanged tree the encoders of both value libraries walk `FieldsInternal` in map order and the
// message names the KIND of the first offending value, so an object holding a range and a function
// ends in `... of type 'range'` in some repetitions and in `... of type 'closure'` in others
// (FINDINGS.md §7, KF-c14-json-error-kind-order, a genuine defect of the unchanged tree). Objects
// mixing kinds carry TagJsonMixed and are generated only under Poison.JsonMixed. Non-finite floats
// mix freely with the other kinds: they are refused by the second phase (encoding/json, which
// writes map keys sorted), after every range / function has been refused by the first.
// ---------------------------------------------------------------------------------------------

const (
	TagJsonMixed = "json-mixed-kinds" // >= 2 non-encodable fields of different kinds in one object (KF-c14-json-error-kind-order)
	KFJsonKind   = "KF-c14-json-error-kind-order"
)

// non-encodable kinds
const (
	badRange  = "range"
	badLambda = "lambda" // function literal: only storable through set() of an any-object
	badNamed  = "named"  // named function: the interpreter calls its kind 'function', a literal's 'closure'
	badInf    = "inf"    // non-finite float
)

// badValue renders an offending value of a kind in one of four shapes and its type (the type is
// only meaningful for kinds that object literals can hold: ranges and floats).
func badValue(r *fw.Rng, kind string, i int, literalOK bool) (lit, typ string) {
	var base, baseT string
	switch kind {
	case badRange:
		lo := r.Intn(9)
		base, baseT = fmt.Sprintf("%d..%d", lo, lo+1+r.Intn(9)), "range"
	case badLambda:
		base = fmt.Sprintf("lam%d", i%3)
	case badNamed:
		base = fmt.Sprintf("named%d", i%3)
	default:
		base, baseT = []string{"big", "(0.0 - big)", "(big - big)"}[r.Intn(3)], "float" // +Inf, -Inf, NaN
	}
	shapes := 4
	if !literalOK {
		shapes = 2 // functions: directly or in a list
	}
	switch r.Intn(shapes) {
	case 0:
		return base, baseT
	case 1:
		if kind == badRange {
			lo := r.Intn(5)
			return fmt.Sprintf("[%s, %d..%d]", base, lo, lo+2), "[" + baseT + "]"
		}
		return "[" + base + "]", "[" + baseT + "]"
	case 2:
		return "?(" + base + ")", "?" + baseT
	default:
		return fmt.Sprintf("new { lo: %s, n: %d }", base, i), "{ lo: " + baseT + ", n: int }"
	}
}

func famFieldErr(r *fw.Rng, p Poison) Built {
	var b sb
	tags := []string{}
	n := 4 + r.Intn(9)
	fields := pickN(r, fieldPool, n)
	k := 2 + r.Intn(3)
	if k > n-1 {
		k = n - 1
	}
	// positions of the offending fields: random, or spread over the insertion order (a map with at
	// most 8 entries is only rotated: neighbours are rarely visited in the other order)
	pos := map[int]int{} // field index -> ordinal of the offending field
	if r.Bool() {
		for j := 0; j < k; j++ {
			pos[(j*n)/k+r.Intn(n/k)] = j
		}
	} else {
		for len(pos) < k {
			i := r.Intn(n)
			if _, ok := pos[i]; !ok {
				pos[i] = len(pos)
			}
		}
	}
	// the kind(s)
	kinds := make([]string, k)
	container := r.Intn(4) // 0 typed literal, 1 inferred literal, 2 any-object by set(), 3 literal cast to { ? }
	if p.JsonMixed {
		tags = append(tags, TagJsonMixed)
		container = 2
		pool := pickN(r, []string{badRange, badLambda, badNamed}, 2+r.Intn(2))
		for j := range kinds {
			kinds[j] = pool[j%len(pool)]
		}
	} else {
		kind := []string{badRange, badRange, badRange, badInf, badLambda, badNamed}[r.Intn(6)]
		if kind == badLambda || kind == badNamed {
			container = 2
		}
		for j := range kinds {
			kinds[j] = kind
		}
		if k >= 3 && kind != badInf && r.Chance(1, 3) {
			kinds[r.Intn(k)] = badInf // refused by the second phase only: never the one that is named
		}
	}
	literalOK := container != 2 || r.Bool()
	for _, kd := range kinds {
		if kd == badLambda || kd == badNamed {
			literalOK = false
		}
	}

	// field values: the object under test and an encodable sibling with the same field names
	lits, typs, good := make([]string, n), make([]string, n), make([]string, n)
	for i := range fields {
		l, t := scalarLit(r, i)
		good[i] = l
		if j, bad := pos[i]; bad {
			lits[i], typs[i] = badValue(r, kinds[j], i, literalOK)
			if strings.HasPrefix(lits[i], "?(") && container == 2 {
				lits[i] = lits[i][2 : len(lits[i])-1] // set() takes the value itself
			}
			continue
		}
		lits[i], typs[i] = l, t
	}
	objLitOf := func(vals []string) string {
		parts := make([]string, n)
		for i, f := range fields {
			parts[i] = f + ": " + vals[i]
		}
		return "new { " + strings.Join(parts, ", ") + " }"
	}

	// declarations
	if container == 0 {
		parts := make([]string, n)
		for i, f := range fields {
			parts[i] = f + ": " + typs[i]
		}
		b.f("type Rec = { %s };\n", strings.Join(parts, ", "))
	}
	b.f("type Wire = { a: int, b: str, c: [int], d: bool, e: { p: int, q: int, r: int } };\n")
	for i := 0; i < 3; i++ {
		b.f("fn named%d(k: int) -> int {\n    k + %d\n}\n", i, i)
	}
	method := "to_json"
	if r.Bool() {
		method = "to_json_indent"
	}
	// the receiver of the failing call: the object itself, a list holding it, an object holding it
	wrap := r.Intn(4)
	// the call happens `depth` activations below main (the trace is part of the outcome)
	depth := r.Intn(4)
	paramT := map[int]string{0: "Rec", 2: "{ ? }", 3: "{ ? }"}[container]
	if paramT == "" || wrap != 0 {
		depth = 0
	}
	for d := depth; d >= 1; d-- {
		b.f("fn enc%d(o: %s, tag: str) -> str {\n    println(\"enc%d\", tag);\n", d, paramT, d)
		if d == depth {
			b.f("    o.%s()\n}\n", method)
		} else {
			b.f("    enc%d(o, tag + \"%d\")\n}\n", d+1, d)
		}
	}

	b.f("fn main() {\n    println(\"start\");\n")
	b.f("    let big = 10.0 ** 400.0;\n    println(big);\n")
	for i := 0; i < 3; i++ {
		b.f("    let lam%d = fn(k: int) -> int { k * %d };\n", i, i+2)
	}
	b.f("    println(lam0(1), lam1(1), lam2(1), named0(1), named1(1), named2(1));\n")

	// decoding side: several offending members under an object type, caught
	wire := []string{
		`{"a": "s", "b": 1, "c": [1], "d": true, "e": {"p": 1, "q": 2, "r": 3}}`,                            // two wrong kinds
		`{"a": 1, "zz": 1, "yy": 2, "xx": 3, "b": "s", "c": [1], "d": true, "e": {"p": 1, "q": 2, "r": 3}}`, // three unexpected
		`{"a": 1, "d": true}`, // three missing
		`{"a": 1, "b": "s", "c": [1], "d": true, "e": {"p": "x", "q": "y", "r": 1}}`,     // two wrong kinds, nested
		`{"a": 1, "b": "s", "c": ["u", "v"], "d": 0, "e": {"p": 1, "q": 2, "r": 3}}`,     // wrong element kinds and a wrong kind
		`{"a": 1, "b": "s", "c": [1], "d": true, "e": {"p": 1, "s": 2, "t": 3, "u": 4}}`, // missing and unexpected, nested
	}
	for _, w := range pickN(r, wire, 1+r.Intn(3)) {
		b.f("    try {\n        let x: Wire = '%s'.parse_json();\n        println(x);\n    } catch e {\n        println(\"decode\", e.message);\n    }\n", w)
	}

	// the encodable sibling: the same operation succeeds
	b.f("    let ok = %s;\n    println(ok.%s());\n", objLitOf(good), method)

	// the object under test
	switch container {
	case 0:
		b.f("    let o: Rec = %s;\n", objLitOf(lits))
	case 1:
		b.f("    let o = %s;\n", objLitOf(lits))
	case 3:
		b.f("    let o = %s as { ? };\n", objLitOf(lits))
	default:
		b.f("    let o = new { ? };\n")
		for _, i := range perm(r, n) { // set() in a scrambled order
			b.f("    o.set(\"%s\", %s);\n", fields[i], lits[i])
		}
	}
	onlyLiterals := literalOK // functions cannot be printed as part of an object on every back end alike: keep to keys
	if onlyLiterals {
		b.f("    println(o);\n")
	}
	b.f("    println(o.keys());\n")
	recv := "o"
	switch wrap {
	case 1:
		b.f("    let l = [o];\n")
		recv = "l"
	case 2:
		b.f("    let outer = new { name: \"outer\", inner: o, n: %d };\n", n)
		recv = "outer"
	case 3:
		b.f("    let outer = new { ? };\n    outer.set(\"n\", %d);\n    outer.set(\"inner\", o);\n    outer.set(\"name\", \"outer\");\n", n)
		recv = "outer"
	}
	call := fmt.Sprintf("%s.%s()", recv, method)
	if depth > 0 {
		call = "enc1(o, \"t\")"
	}
	if r.Chance(1, 3) {
		// a JsonError is fatal: the handler must not run, every time
		b.f("    try {\n        println(%s);\n    } catch e {\n        println(\"caught\", e.message);\n    }\n", call)
	} else {
		b.f("    println(%s);\n", call)
	}
	b.f("    println(\"unreachable\");\n}\n")
	return Built{Fam: "fielderr", Src: map[string]string{"main": b.String()}, Tags: tags}
}

// perm returns a random permutation of 0..n-1.
func perm(r *fw.Rng, n int) []int {
	out := make([]int, n)
	for i := range out {
		out[i] = i
	}
	for i := n - 1; i > 0; i-- {
		j := r.Intn(i + 1)
		out[i], out[j] = out[j], out[i]
	}
	return out
}
