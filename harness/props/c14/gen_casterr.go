package c14

import (
	"fmt"
	"strings"

	"hv/fw"
)

// ---------------------------------------------------------------------------------------------
// Family: casterr — runtime casts of values that travelled through `any`, and what the program can
// see of the cast error.
//
// The analyzer rejects an impossible cast whenever it knows the type of the operand, so a cast can
// only fail at run time when the operand is `any`: a member of an any-object (read with `~>`,
// `->…unwrap()`, `.get(…).unwrap()`), a member of decoded JSON, a value handed to a `let` with a type
// annotation. The text of a cast error describes the offending VALUE (its kind, where it sits inside
// the operand) next to the expected type — and a description of a value is the classic place for
// something that is not a function of the program to slip in: every value that is not a number or a
// bool lives behind a pointer (strings carry an iterator cell, lists / objects / any-objects / ranges
// / options are boxes), maps have no order.
//
// A program of the family puts 6..12 values of EVERY kind — int, float, bool, str, null, lists,
// objects, any-objects, ranges, functions, and options (some of each of these, none, option of
// option) — into one any-object and casts its members, through every access path, to types drawn
// from a pool: the type the option holds (the forgotten `unwrap`), an option of another type, the
// plain type for an option and the other way round, another scalar, lists and objects with another
// member type (the error then carries a path: `[1]`, `.inner.m`), the right type (the cast
// succeeds and the value is printed). Casts happen in main, in a loop (the same error twice), in a
// helper function, under a `let` with a type annotation and on decoded JSON. Every error is
// observed: `e.message` printed from a `catch`, the whole error object printed, or — last
// statement of some programs — left uncaught, so that it becomes the outcome.
//
// Whether a particular cast succeeds is irrelevant here (the VM and the interpreter each have their
// own rules, both run): each repetition must show what the first one showed.
// ---------------------------------------------------------------------------------------------

const (
	TagCastOptHeap  = "casterr-option-of-boxed-value" // some(str / list / object / any-object / range / option)
	TagCastOptPlain = "casterr-option-of-scalar"
	TagCastNone     = "casterr-none"
	TagCastBoxed    = "casterr-boxed-value" // str / list / object / any-object / range / function, not in an option
	TagCastPath     = "casterr-nested-path"
	TagCastUncaught = "casterr-uncaught"
	TagCastJSON     = "casterr-decoded-json"
)

// castVal is one kind of value: how to write it, the type it has, and how it is classified.
type castVal struct {
	lit   func(r *fw.Rng, k int) string
	typ   string
	boxed bool // lives behind a pointer in the runtime
	noOpt bool // not wrapped into an option by the generator
}

var castVals = []castVal{
	{lit: func(r *fw.Rng, k int) string { return fmt.Sprint(r.Intn(90) + k) }, typ: "int"},
	{lit: func(r *fw.Rng, k int) string { return fmt.Sprintf("%d.5", r.Intn(40)+k) }, typ: "float"},
	{lit: func(r *fw.Rng, k int) string { return []string{"true", "false"}[r.Intn(2)] }, typ: "bool"},
	{lit: func(r *fw.Rng, k int) string {
		return fmt.Sprintf("\"%s%d\"", []string{"eco", "s", "auto", ""}[r.Intn(4)], k)
	}, typ: "str", boxed: true},
	{lit: func(r *fw.Rng, k int) string { return "null" }, typ: "", noOpt: true},
	{lit: func(r *fw.Rng, k int) string { return fmt.Sprintf("[%d, %d, %d]", k, r.Intn(9), r.Intn(9)) }, typ: "[int]", boxed: true},
	{lit: func(r *fw.Rng, k int) string { return fmt.Sprintf("[\"a%d\", \"b\"]", k) }, typ: "[str]", boxed: true},
	{lit: func(r *fw.Rng, k int) string { return fmt.Sprintf("(new { a: %d, b: \"x%d\" })", k, r.Intn(9)) }, typ: "{ a: int, b: str }", boxed: true},
	{lit: func(r *fw.Rng, k int) string {
		return fmt.Sprintf("(new { q: \"s%d\", n: %d } as { ? })", k, r.Intn(9))
	}, typ: "{ ? }", boxed: true},
	{lit: func(r *fw.Rng, k int) string { return fmt.Sprintf("(%d..%d)", r.Intn(4), 5+k) }, typ: "range", boxed: true},
	{lit: func(r *fw.Rng, k int) string { return "helper_fn" }, typ: "", boxed: true, noOpt: true},
}

// castTargets: the types a member is cast to when the generator does not aim.
var castTargets = []string{
	"int", "float", "bool", "str", "range", "[int]", "[str]", "[float]", "{ ? }",
	"{ a: int, b: str }", "{ a: str, b: str }", "{ a: int }", "?int", "?str", "?[int]", "?[str]",
	"?range", "?{ ? }", "??str", "?{ a: int, b: str }", "[?str]", "[?int]",
}

type castMember struct {
	name string
	lit  string
	typ  string // type of the value ("" for functions)
	near []string
}

type castGen struct {
	r    *fw.Rng
	tags map[string]bool
	uniq int
}

func (g *castGen) tag(t string) { g.tags[t] = true }

// member draws one value. forceOptBoxed asks for some(boxed value).
func (g *castGen) member(name string, forceOptBoxed bool) castMember {
	r := g.r
	g.uniq++
	v := castVals[r.Intn(len(castVals))]
	for forceOptBoxed && (!v.boxed || v.noOpt) {
		v = castVals[r.Intn(len(castVals))]
	}
	lit := v.lit(r, g.uniq)
	m := castMember{name: name, lit: lit, typ: v.typ}
	mode := r.Intn(10)
	if forceOptBoxed {
		mode = 0
	}
	switch {
	case v.noOpt || mode >= 6:
		// the plain value: near misses are its option and another member type
		if v.boxed {
			g.tag(TagCastBoxed)
		}
		if v.typ != "" {
			m.near = []string{"?" + v.typ, "[" + v.typ + "]"}
		}
	case mode <= 3:
		// some(value): the near miss is the forgotten unwrap
		m.lit, m.typ = "?"+lit, "?"+v.typ
		m.near = []string{v.typ, v.typ, "?" + castOtherType(r, v.typ)}
		if v.boxed {
			g.tag(TagCastOptHeap)
		} else {
			g.tag(TagCastOptPlain)
		}
	case mode == 4:
		m.lit, m.typ = "none as ?"+v.typ, "?"+v.typ
		m.near = []string{v.typ}
		g.tag(TagCastNone)
	default:
		// option of option
		m.lit, m.typ = "??"+lit, "??"+v.typ
		m.near = []string{v.typ, "?" + v.typ}
		g.tag(TagCastOptHeap)
	}
	return m
}

func castOtherType(r *fw.Rng, not string) string {
	for {
		t := []string{"int", "str", "float", "bool", "[int]", "range"}[r.Intn(6)]
		if t != not {
			return t
		}
	}
}

// target picks the type a member is cast to.
func (g *castGen) target(m castMember) string {
	if len(m.near) > 0 && g.r.Chance(3, 5) {
		return m.near[g.r.Intn(len(m.near))]
	}
	if m.typ != "" && g.r.Chance(1, 8) {
		return m.typ // the cast succeeds
	}
	return castTargets[g.r.Intn(len(castTargets))]
}

// access renders an expression of type `any` that reads member `name` of the any-object `bag`.
func (g *castGen) access(bag, name string) string {
	switch g.r.Intn(4) {
	case 0:
		return fmt.Sprintf("%s->%s.unwrap()", bag, name)
	case 1:
		return fmt.Sprintf("%s.get(\"%s\").unwrap()", bag, name)
	default:
		return fmt.Sprintf("%s~>%s", bag, name)
	}
}

// attempt renders one observed cast.
func (g *castGen) attempt(b *sb, ind, label, expr, typ string) {
	switch g.r.Intn(5) {
	case 0:
		// the whole error object
		b.f("%stry {\n%s    println(\"%s\", %s as %s);\n%s} catch e {\n%s    println(\"%s\", e);\n%s}\n", ind, ind, label, expr, typ, ind, ind, label, ind)
	case 1:
		// a `let` with a type annotation casts as well
		b.f("%stry {\n%s    let v: %s = %s;\n%s    println(\"%s\", v);\n%s} catch e {\n%s    println(\"%s\", e.message);\n%s}\n", ind, ind, typ, expr, ind, label, ind, ind, label, ind)
	default:
		b.f("%stry {\n%s    let v = %s as %s;\n%s    println(\"%s\", v);\n%s} catch e {\n%s    println(\"%s failed:\", e.message, e.line);\n%s}\n", ind, ind, expr, typ, ind, label, ind, ind, label, ind)
	}
}

func famCastErr(r *fw.Rng, p Poison) Built {
	g := &castGen{r: r, tags: map[string]bool{}}
	n := 6 + r.Intn(7)
	names := pickN(r, fieldPool, n)
	members := make([]castMember, n)
	forced := r.Intn(n)
	for i := range members {
		members[i] = g.member(names[i], i == forced)
	}
	var b sb
	b.f("fn helper_fn(x: int) -> int {\n    x + 1\n}\n\n")
	// a helper that casts on behalf of its caller
	hm := members[r.Intn(n)]
	ht := g.target(hm)
	b.f("fn cast_in_helper(tag: str, bag: { ? }, key: str) {\n")
	g.attempt(&b, "    ", "helper", "bag.get(key).unwrap()", ht)
	b.f("}\n\n")
	b.f("fn main() {\n")
	parts := make([]string, n)
	for i, m := range members {
		parts[i] = m.name + ": " + m.lit
	}
	b.f("    let bag = new {\n        %s\n    } as { ? };\n", strings.Join(parts, ",\n        "))
	b.f("    println(\"keys\", bag.keys().len());\n")
	// nested carriers: the error names a path
	pm := members[forced]
	if r.Chance(2, 3) {
		g.tag(TagCastPath)
		inner := strings.TrimPrefix(pm.typ, "?")
		switch r.Intn(3) {
		case 0:
			b.f("    let nest = new { rec: new { inner: new { m: %s, k: 1 }, z: \"z\" } } as { ? };\n", pm.lit)
			g.attempt(&b, "    ", "nested object", g.access("nest", "rec"), fmt.Sprintf("{ inner: { m: %s, k: int }, z: str }", inner))
		case 1:
			b.f("    let nest = new { lst: [%s, %s] } as { ? };\n", pm.lit, pm.lit)
			g.attempt(&b, "    ", "list element", g.access("nest", "lst"), "["+inner+"]")
		default:
			b.f("    let nest = new { both: new { p: [%s], q: ?(new { r: %s }) } } as { ? };\n", pm.lit, pm.lit)
			g.attempt(&b, "    ", "list in object", g.access("nest", "both"), fmt.Sprintf("{ p: [%s], q: ?{ r: %s } }", inner, castOtherType(r, inner)))
		}
	}
	// the members, in a drawn order, some of them twice
	for _, i := range perm(r, n) {
		m := members[i]
		k := 1 + r.Intn(2)
		for j := 0; j < k; j++ {
			g.attempt(&b, "    ", m.name, g.access("bag", m.name), g.target(m))
		}
	}
	// the same error twice
	lm := members[forced]
	b.f("    for round in 0..%d {\n", 2+r.Intn(2))
	g.attempt(&b, "        ", "loop "+lm.name, g.access("bag", lm.name), lm.near[0])
	b.f("    }\n")
	b.f("    cast_in_helper(\"h\", bag, \"%s\");\n", hm.name)
	// decoded JSON: values the decoder built
	if r.Bool() {
		g.tag(TagCastJSON)
		b.f("    let j: { ? } = '{\"s\": \"text\", \"l\": [1, \"two\", null], \"o\": {\"a\": 1, \"b\": [\"x\"]}, \"z\": null, \"f\": 1.5}'.parse_json();\n")
		for _, c := range [][2]string{{"s", "int"}, {"l", "[int]"}, {"l", "[str]"}, {"o", "{ a: int, b: [int] }"}, {"o", "{ a: str, b: [str] }"}, {"z", "str"}, {"f", "str"}, {"s", "?int"}, {"o", "[str]"}, {"l", "{ ? }"}} {
			if r.Chance(2, 3) {
				g.attempt(&b, "    ", "json "+c[0], g.access("j", c[0]), c[1])
			}
		}
	}
	if r.Chance(1, 3) {
		// the last cast is not caught: its message is the outcome of the program
		g.tag(TagCastUncaught)
		um := members[forced]
		if r.Bool() {
			b.f("    let last = %s as %s;\n    println(\"not reached?\", last);\n", g.access("bag", um.name), um.near[0])
		} else {
			b.f("    let last: %s = %s;\n    println(\"not reached?\", last);\n", um.near[0], g.access("bag", um.name))
		}
	} else {
		b.f("    println(\"end\");\n")
	}
	b.f("}\n")
	return Built{Fam: "casterr", Src: map[string]string{"main": b.String()}, Tags: sortedKeysBool(g.tags)}
}
