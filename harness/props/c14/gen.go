package c14

import (
	"fmt"
	"sort"
	"strings"

	"hv/fw"
)

// Tags of constructs that known findings make nondeterministic (the generator avoids them in the
// main workload while the finding is open and exercises them in a small poisoned workload).
const (
	TagXmodOverlap  = "xmod-overlap"      // same function/global names in several modules (KF-c14-xmod-resolution)
	TagCapConflict  = "cap-conflict"      // impl block selecting capabilities that conflict (KF-c14-capability-conflict)
	TagCastMulti    = "cast-multi-bad"    // runtime cast of an object with >= 2 offending fields (KF-c14-cast-error-order)
	TagInitOrder    = "init-order"        // >= 2 imported modules: order of module initialisation (KF-c14-init-order)
	TagCapture      = "capturing-closure" // a function literal that reads a local of its parent (KF-c14-closure-slot-order)
	TagMangle       = "mangle-collision"  // locals whose mangled names collide (x + 10 vs x1 + 0)
	TagMultiModule  = "multi-module"      // informational
	KFXmod          = "KF-c14-xmod-resolution"
	KFCapConflict   = "KF-c14-capability-conflict"
	KFCastOrder     = "KF-c14-cast-error-order"
	KFInitOrder     = "KF-c14-init-order"
	KFMangleCollide = "KF-c14-mangle-collision"
	KFCapture       = "KF-c14-closure-slot-order"
)

// Built is one generated program.
type Built struct {
	Fam   string
	Src   map[string]string
	Tags  []string
	Templ bool // needs the harness templates
	// RepoHost: the program can also run under the repository's own testing hosts (one module, no
	// triggers, none of the harness builtins)
	RepoHost bool
}

// Poison selects which poisoned constructs a family may use.
type Poison struct {
	XmodOverlap bool
	CapConflict bool
	CastMulti   bool
	MultiSingl  bool // singletons in several modules (host call order = init order)
	Mangle      bool
	Capture     bool
	JsonMixed   bool // non-encodable fields of different kinds in one object (gen_fielderr.go)
}

type sb struct{ strings.Builder }

func (b *sb) f(format string, a ...any) { fmt.Fprintf(&b.Builder, format, a...) }

var fieldPool = []string{"zeta", "alpha", "mid", "beta", "omega", "kappa", "nu", "xi", "tau", "phi", "chi", "psi", "eta", "iota", "rho", "sigma", "delta", "gamma", "lambda", "theta"}
var modPool = []string{"a", "b", "c", "lib", "util", "zeta", "alpha", "m1", "m2", "core"}

func pickN(r *fw.Rng, pool []string, n int) []string {
	idx := make([]int, len(pool))
	for i := range idx {
		idx[i] = i
	}
	for i := len(idx) - 1; i > 0; i-- {
		j := r.Intn(i + 1)
		idx[i], idx[j] = idx[j], idx[i]
	}
	if n > len(pool) {
		n = len(pool)
	}
	out := make([]string, n)
	for i := 0; i < n; i++ {
		out[i] = pool[idx[i]]
	}
	return out
}

func scalarLit(r *fw.Rng, i int) (lit, typ string) {
	switch r.Intn(5) {
	case 0:
		return fmt.Sprint(r.Intn(200) - 100), "int"
	case 1:
		return fmt.Sprintf("\"s%d\"", i), "str"
	case 2:
		return fmt.Sprintf("%d.5", r.Intn(50)), "float"
	case 3:
		if r.Bool() {
			return "true", "bool"
		}
		return "false", "bool"
	default:
		return fmt.Sprintf("[%d, %d, %d]", r.Intn(9), r.Intn(9), r.Intn(9)), "[int]"
	}
}

// objLit builds an object literal with n fields (optionally one nested object).
func objLit(r *fw.Rng, n int, nest bool) (lit string, fields []string) {
	fields = pickN(r, fieldPool, n)
	if n >= 4 && r.Bool() {
		// names that are equal ignoring case (or after trimming digits): any order that is not total
		// on the exact names leaves them in map order
		fields[n-1] = strings.ToUpper(fields[0])
		fields[n-2] = strings.ToUpper(fields[0][:1]) + fields[0][1:]
		if r.Bool() {
			fields[n-3] = fields[0] + "2"
			fields[1] = fields[0] + "10"
		}
	}
	parts := make([]string, 0, n)
	for i, f := range fields {
		if nest && i == n/2 {
			inner, _ := objLit(r, 4+r.Intn(3), false)
			parts = append(parts, f+": "+inner)
			continue
		}
		l, _ := scalarLit(r, i)
		parts = append(parts, f+": "+l)
	}
	return "new { " + strings.Join(parts, ", ") + " }", fields
}

// ---------------------------------------------------------------------------------------------
// Family: modules
// ---------------------------------------------------------------------------------------------

func famModules(r *fw.Rng, p Poison) Built {
	k := 3 + r.Intn(3)
	mods := pickN(r, modPool, k)
	sort.Strings(mods)
	overlap := p.XmodOverlap
	multiSingl := p.MultiSingl
	src := map[string]string{}
	tags := []string{TagMultiModule}
	if overlap {
		tags = append(tags, TagXmodOverlap)
	}
	if multiSingl {
		tags = append(tags, TagInitOrder)
	}
	if p.Mangle {
		tags = append(tags, TagMangle)
	}
	suffix := func(m string) string {
		if overlap {
			return ""
		}
		return "_" + m
	}
	var mainB sb
	var calls []string
	for mi, m := range mods {
		var b sb
		s := suffix(m)
		// optional import from an earlier module (chains and diamonds)
		var imported string
		if mi > 0 && r.Chance(1, 2) {
			imported = mods[r.Intn(mi)]
			b.f("import { get_%s } from %s;\n", imported, imported)
		}
		ng := 2 + r.Intn(3)
		var gl []string
		for g := 0; g < ng; g++ {
			name := fmt.Sprintf("%s%s", []string{"v", "w", "count", "cfg", "tbl"}[g], s)
			gl = append(gl, name)
			switch g {
			case 0:
				b.f("let %s = %d;\n", name, (mi+2)*11)
			case 1:
				b.f("let %s = \"%s-w\";\n", name, m)
			case 2:
				b.f("let %s = 0;\n", name)
			case 3:
				lit, _ := objLit(r, 4+r.Intn(3), false)
				b.f("let %s = %s;\n", name, lit)
			default:
				b.f("let %s = [%d, %d, %d];\n", name, mi, mi+1, mi+2)
			}
		}
		if multiSingl {
			b.f("$S_%s = { n: int, tag: str };\n", m)
		}
		bumped := "bumped"
		if p.Mangle {
			bumped = "x1" // collides with the 11th `x` of the program: the counter is shared by all modules
		}
		b.f("fn helper%s(x: int) -> int {\n    let acc = x * 10;\n    let %s = acc + %s;\n    %s\n}\n", s, bumped, gl[0], bumped)
		b.f("fn label%s() -> str {\n    \"%s:\" + %s\n}\n", s, m, gl[1])
		b.f("pub fn get_%s() -> int {\n", m)
		if ng > 2 {
			b.f("    %s += 1;\n", gl[2])
		}
		b.f("    let x = helper%s(%d);\n", s, mi+1)
		if imported != "" {
			b.f("    let x = x + get_%s();\n", imported)
		}
		if ng > 2 {
			b.f("    x + %s\n}\n", gl[2])
		} else {
			b.f("    x\n}\n")
		}
		b.f("pub fn describe_%s() -> str {\n    let x = label%s();\n", m, s)
		if r.Chance(1, 2) {
			// function literals: their names carry a counter shared by all modules
			b.f("    let twice = fn(k: int) -> int { k * 2 };\n    let thrice = fn(k: int) -> int { k * 3 };\n    println(\"%s lambdas\", twice(%d), thrice(%d));\n", m, mi+1, mi+2)
		}
		if ng > 3 {
			b.f("    println(\"%s cfg\", %s);\n", m, gl[3])
		}
		if ng > 4 {
			b.f("    println(\"%s tbl\", %s);\n", m, gl[4])
		}
		if multiSingl {
			b.f("    println(\"%s singleton\", $S_%s.n, $S_%s.tag);\n", m, m, m)
		}
		b.f("    x\n}\n")
		if overlap {
			// every module exports a function of this name; the entry imports only the first one
			b.f("pub fn whoami() -> str {\n    \"%s\"\n}\n", m)
		}
		b.f("fn main() {\n    println(\"main of %s\", %s);\n}\n", m, gl[0])
		src[m] = b.String()
		if overlap && mi == 0 {
			mainB.f("import { get_%s, describe_%s, whoami } from %s;\n", m, m, m)
		} else {
			mainB.f("import { get_%s, describe_%s } from %s;\n", m, m, m)
		}
		calls = append(calls, m)
	}
	ambiguous := overlap && r.Chance(1, 2)
	if ambiguous {
		// `@p_q_r` is function q_r of module p and function r of module p_q
		src["p"] = "let p_state = 0;\npub fn q_r() -> str {\n    \"p.q_r\"\n}\nfn main() {}\n"
		src["p_q"] = "let pq_state = 0;\npub fn r() -> str {\n    \"p_q.r\"\n}\nfn main() {}\n"
		mainB.f("import { q_r } from p;\nimport { r } from p_q;\n")
	}
	s := suffix("main")
	mainB.f("let v%s = 1;\nlet w%s = \"main-w\";\nlet count%s = 100;\n", s, s, s)
	if multiSingl || r.Chance(1, 3) {
		mainB.f("$S_main = { n: int, tag: str };\n")
	}
	mainB.f("fn helper%s(x: int) -> int {\n    let acc = x * 10;\n    acc + v%s\n}\n", s, s)
	mainB.f("fn label%s() -> str {\n    \"main:\" + w%s\n}\n", s, s)
	mainB.f("fn main() {\n")
	if overlap {
		mainB.f("    println(\"whoami\", whoami());\n")
	}
	if ambiguous {
		mainB.f("    println(\"ambiguous\", q_r(), r());\n")
	}
	for round := 0; round < 2; round++ {
		for _, m := range calls {
			mainB.f("    println(\"%s\", get_%s(), describe_%s());\n", m, m, m)
		}
		mainB.f("    count%s += 1;\n    println(\"main\", helper%s(%d), label%s(), v%s, count%s);\n", s, s, round, s, s, s)
	}
	mainB.f("}\n")
	src["main"] = mainB.String()
	return Built{Fam: "modules", Src: src, Tags: tags}
}

// ---------------------------------------------------------------------------------------------
// Family: objects (objects with >= 4 fields printed whole, JSON, keys, any-objects)
// ---------------------------------------------------------------------------------------------

func famObjects(r *fw.Rng, p Poison) Built {
	var b sb
	n := 4 + r.Intn(9)
	lit, fields := objLit(r, n, r.Bool())
	b.f("let g = %s;\n", lit)
	b.f("fn show(o: { ? }) {\n    println(o);\n    println(o.keys());\n    for k in o.keys() {\n        println(k, o.get(k), o.get_type(k));\n    }\n    println(o.to_json());\n}\n")
	b.f("fn main() {\n")
	b.f("    let o = %s;\n", lit)
	b.f("    println(o);\n    println(o.keys());\n    println(o.to_json());\n    println(o.to_json_indent());\n    println(fmt(\"%%v|%%v\", o, g));\n    debug(o);\n")
	b.f("    println(o == g, g == o);\n")
	b.f("    let a = o as { ? };\n    show(a);\n")
	// any-object built by set() in a scrambled order
	b.f("    let d = new { ? };\n")
	for _, f := range pickN(r, fields, len(fields)) {
		l, _ := scalarLit(r, 1)
		b.f("    d.set(\"%s\", %s);\n", f, l)
	}
	b.f("    show(d);\n")
	// JSON round trip
	jn := 4 + r.Intn(8)
	jf := pickN(r, fieldPool, jn)
	var jp []string
	for i, f := range jf {
		switch i % 5 {
		case 0:
			jp = append(jp, fmt.Sprintf("\"%s\": %d", f, i))
		case 1:
			jp = append(jp, fmt.Sprintf("\"%s\": \"t%d\"", f, i))
		case 2:
			jp = append(jp, fmt.Sprintf("\"%s\": {\"z\": 1, \"y\": [1, {\"b\": 1, \"a\": 2}], \"x\": null, \"w\": 2.5}", f))
		case 3:
			jp = append(jp, fmt.Sprintf("\"%s\": true", f))
		default:
			jp = append(jp, fmt.Sprintf("\"%s\": [1, 2, 3]", f))
		}
	}
	b.f("    let j: { ? } = '{%s}'.parse_json();\n    show(j);\n", strings.Join(jp, ", "))
	b.f("    let l = [%s, %s];\n    println(l);\n    for e in l {\n        println(e, e.keys());\n    }\n", lit, lit)
	b.f("    println(l.to_json());\n")
	// a well-typed runtime cast of a dynamic object (all fields match)
	b.f("    let h = new { ? };\n    h.set(\"o\", new { p: 1, q: \"s\", r: 2.5, s: true, t: [1] });\n")
	b.f("    let c: { p: int, q: str, r: float, s: bool, t: [int] } = h.get(\"o\").unwrap();\n    println(c);\n")
	tags := []string{}
	if p.CastMulti {
		tags = append(tags, TagCastMulti)
		switch r.Intn(3) {
		case 0: // several fields of the wrong type, caught
			b.f("    try {\n        let c2 = h.get(\"o\").unwrap() as { p: str, q: int, r: str, s: int, t: str };\n        println(c2);\n    } catch e {\n        println(e.message);\n    }\n")
		case 1: // several unexpected fields, caught
			b.f("    try {\n        let c2: { p: int } = h.get(\"o\").unwrap();\n        println(c2);\n    } catch e {\n        println(e.message);\n    }\n")
		default: // several unexpected fields, uncaught: the fatal message names one of them
			b.f("    let c3: { zz: int } = h.get(\"o\").unwrap();\n    println(c3);\n")
		}
	} else {
		// exactly one offending field: the message is unique
		b.f("    try {\n        let c2 = h.get(\"o\").unwrap() as { p: int, q: str, r: float, s: bool, t: [str] };\n        println(c2);\n    } catch e {\n        println(e.message);\n    }\n")
	}
	// == on any-objects whose values differ in kind under one key (the string-valued key sits
	// opposite the unequal key in a full bucket: either is reached first from 4 of the 8 offsets)
	b.f("    let e1 = new { ? };\n    e1.set(\"a\", \"x\"); e1.set(\"f1\", 0); e1.set(\"f2\", 0); e1.set(\"f3\", 0); e1.set(\"b\", 1); e1.set(\"f4\", 0); e1.set(\"f5\", 0); e1.set(\"f6\", 0);\n")
	b.f("    let e2 = new { ? };\n    e2.set(\"a\", 5); e2.set(\"f1\", 0); e2.set(\"f2\", 0); e2.set(\"f3\", 0); e2.set(\"b\", 2); e2.set(\"f4\", 0); e2.set(\"f5\", 0); e2.set(\"f6\", 0);\n    println(e2 == e1, e1 == e2, e1 == e1);\n")
	b.f("}\n")
	return Built{Fam: "objects", Src: map[string]string{"main": b.String()}, Tags: tags}
}

// ---------------------------------------------------------------------------------------------
// Family: locals (many locals, shadowing, names that collide after mangling)
// ---------------------------------------------------------------------------------------------

func famLocals(r *fw.Rng, p Poison) Built {
	var b sb
	tags := []string{}
	names := []string{"x", "y", "acc", "tmp", "i", "n", "val", "res"}
	if p.Mangle {
		tags = append(tags, TagMangle)
		names = []string{"x", "x1", "x11", "x0", "x10", "y", "y1"}
	}
	nf := 2 + r.Intn(4)
	for f := 0; f < nf; f++ {
		b.f("fn f%d(p: int, q: int) -> int {\n    let total = p;\n", f)
		depth := 0
		nl := 6 + r.Intn(14)
		for i := 0; i < nl; i++ {
			nm := fw.Pick(r, names)
			ind := strings.Repeat("    ", depth+1)
			switch r.Intn(6) {
			case 0:
				if depth < 5 {
					b.f("%s{\n", ind)
					depth++
					continue
				}
				fallthrough
			case 1:
				b.f("%slet %s = total + %d;\n%stotal = total + %s;\n", ind, nm, i, ind, nm)
			case 2:
				b.f("%sfor %s in 0..3 {\n%s    total += %s + q;\n%s}\n", ind, nm, ind, nm, ind)
			case 3:
				b.f("%slet %s = [total, %d];\n%stotal += %s[1];\n", ind, nm, i, ind, nm)
			case 4:
				b.f("%slet %s = if total %% 2 == 0 { total / 2 } else { total * 3 + 1 };\n%sprintln(\"f%d\", %d, %s);\n%stotal = %s;\n", ind, nm, ind, f, i, nm, ind, nm)
			default:
				if depth > 0 {
					depth--
					b.f("%s}\n", strings.Repeat("    ", depth+1))
				} else {
					b.f("%slet %s = %d;\n%sprintln(%s);\n", ind, nm, i*7, ind, nm)
				}
			}
		}
		for depth > 0 {
			depth--
			b.f("%s}\n", strings.Repeat("    ", depth+1))
		}
		if r.Chance(2, 3) {
			// a function literal per function: literals are numbered in the order of compilation
			b.f("    let bump%d = fn(k: int) -> int { k + %d };\n    total = bump%d(total);\n", f, f+1, f)
		}
		b.f("    total\n}\n")
	}
	if p.Capture {
		tags = append(tags, TagCapture)
		b.f("fn mk(p: int) -> int {\n    let a = 10;\n    let b = 20;\n    let c = p;\n    let f = fn(k: int) -> int { k + c + b };\n    f(1) + a\n}\n")
	} else {
		b.f("fn mk(p: int) -> int {\n    let a = 10;\n    let f = fn(k: int, c: int, b: int) -> int { k + c + b };\n    f(1, p, 20) + a\n}\n")
	}
	b.f("fn main() {\n    println(mk(5));\n")
	for f := 0; f < nf; f++ {
		b.f("    println(f%d(%d, %d));\n", f, f+1, 2)
	}
	// many sibling locals in one scope (more than one map bucket)
	cnt := 9 + r.Intn(12)
	var sum []string
	for i := 0; i < cnt; i++ {
		nm := fmt.Sprintf("l%d", i)
		if p.Mangle && i%3 == 0 {
			nm = fmt.Sprintf("x%d", i)
		}
		b.f("    let %s = %d;\n", nm, i*i)
		sum = append(sum, nm)
	}
	b.f("    println(%s);\n", strings.Join(sum, " + "))
	b.f("}\n")
	return Built{Fam: "locals", Src: map[string]string{"main": b.String()}, Tags: tags}
}

// ---------------------------------------------------------------------------------------------
// Family: warnings (many unused things per scope: the SET of diagnostics must be stable)
// ---------------------------------------------------------------------------------------------

func famWarnings(r *fw.Rng, p Poison) Built {
	var b sb
	src := map[string]string{}
	// unused imports: from a user module and from the builtin testing module
	nimp := 3 + r.Intn(8)
	var lib sb
	var names []string
	for i := 0; i < nimp; i++ {
		nm := fmt.Sprintf("util%d", i)
		names = append(names, nm)
		lib.f("pub fn %s() -> int { %d }\n", nm, i)
	}
	// (a module without globals used to have an empty initialiser, which the VM could not call)
	lib.f("let lib_state = 0;\nfn private0() {}\nfn private1() {}\nfn main() {}\n")
	src["lib"] = lib.String()
	b.f("import { %s } from lib;\n", strings.Join(names, ", "))
	b.f("import { assert_eq, any_func, any_list } from testing;\n")
	// unused types, singletons, globals, functions
	nt := 2 + r.Intn(9)
	for i := 0; i < nt; i++ {
		b.f("type T%d = { a: int, b: str };\n", i)
	}
	ns := 1 + r.Intn(4)
	for i := 0; i < ns; i++ {
		b.f("$Single%d = { n: int };\n", i)
	}
	ng := 2 + r.Intn(10)
	for i := 0; i < ng; i++ {
		b.f("let glob%d = %d;\n", i, i)
	}
	nfn := 2 + r.Intn(10)
	for i := 0; i < nfn; i++ {
		b.f("fn unused%d(p%d: int, q%d: str) {\n", i, i, i)
		nl := 1 + r.Intn(12)
		for j := 0; j < nl; j++ {
			b.f("    let u%d_%d = %d;\n", i, j, j)
		}
		if r.Bool() {
			b.f("    {\n        let inner_a = 1;\n        let inner_b = 2;\n        type Local = int;\n        {\n            let deep = 3;\n        }\n    }\n")
		}
		b.f("}\n")
	}
	b.f("fn main() {\n")
	nl := 9 + r.Intn(16)
	for j := 0; j < nl; j++ {
		b.f("    let m%d = %d;\n", j, j)
	}
	b.f("    for unused_i in 0..2 {\n        let body = 1;\n    }\n")
	b.f("    let f = fn(a: int, b: int) -> int { 1 };\n")
	b.f("    println(\"done\", %s());\n}\n", names[0])
	src["main"] = b.String()
	return Built{Fam: "warnings", Src: src}
}

// ---------------------------------------------------------------------------------------------
// Family: impl (templates, capabilities, methods)
// ---------------------------------------------------------------------------------------------

var capMethods = map[string][]string{
	"onoff":  {"set_power"},
	"dim":    {"set_level", "get_level"},
	"heat":   {"set_temp"},
	"cool":   {"set_cool"},
	"color":  {"set_rgb"},
	"mono":   {"set_white"},
	"report": {"describe", "get_level"},
}

var methodSrc = map[string]string{
	"set_power": "fn set_power(self: $Lamp, state: bool) -> bool { self.lit = state; state }",
	"set_level": "fn set_level(self: $Lamp, percent: int) -> bool { self.level = percent; true }",
	"get_level": "fn get_level(self: $Lamp) -> int { self.level }",
	"set_temp":  "fn set_temp(self: $Lamp, celsius: float) { self.temp = celsius; }",
	"set_cool":  "fn set_cool(self: $Lamp, celsius: float) { self.temp = celsius; }",
	"set_rgb":   "fn set_rgb(self: $Lamp, r: int, g: int, b: int) -> str { self.rgb = r.to_string() + g.to_string() + b.to_string(); self.rgb }",
	"set_white": "fn set_white(self: $Lamp, k: int) { self.level = k; }",
	"describe":  "fn describe(self: $Lamp) -> str { self.name }",
}

var methodCall = map[string]string{
	"set_power": "set_power(true)", "set_level": "set_level(40)", "get_level": "get_level()", "set_temp": "set_temp(21.5)",
	"set_cool": "set_cool(18.5)", "set_rgb": "set_rgb(1, 2, 3)", "set_white": "set_white(2700)", "describe": "describe()",
}

var capConflicts = map[string][]string{"dim": {"heat"}, "heat": {"dim", "cool"}, "cool": {"heat"}, "mono": {"color"}}

func famImpl(r *fw.Rng, p Poison) Built {
	var b sb
	tags := []string{}
	b.f("import templ Multi from %s;\n", TemplModule)
	b.f("$Lamp = { level: int, lit: bool, name: str, rgb: str, temp: float };\n")
	b.f("$Other = { n: int };\n")
	all := []string{"onoff", "dim", "heat", "cool", "color", "mono", "report"}
	var caps []string
	if p.CapConflict {
		tags = append(tags, TagCapConflict)
		// at least one conflicting pair
		switch r.Intn(4) {
		case 0:
			caps = []string{"dim", "heat"}
		case 1:
			caps = []string{"heat", "cool"}
		case 2:
			caps = []string{"mono", "color"}
		default:
			caps = []string{"dim", "heat", "cool"}
		}
		for _, c := range all {
			if r.Chance(1, 3) && !contains(caps, c) {
				caps = append(caps, c)
			}
		}
	} else {
		for _, c := range pickN(r, all, 2+r.Intn(4)) {
			ok := true
			for _, have := range caps {
				if contains(capConflicts[c], have) || contains(capConflicts[have], c) {
					ok = false
				}
			}
			if ok {
				caps = append(caps, c)
			}
		}
	}
	// scrambled order in the source
	caps = pickN(r, caps, len(caps))
	need := map[string]bool{}
	for _, c := range caps {
		for _, m := range capMethods[c] {
			need[m] = true
		}
	}
	methods := sortedKeysBool(need)
	mode := r.Intn(6) - 2 // <= 0 correct, 1 some methods missing, 2 extra methods, 3 wrong signatures
	if mode < 0 {
		mode = 0
	}
	b.f("impl Multi with { %s } for $Lamp {\n", strings.Join(caps, ", "))
	var present []string
	for _, m := range pickN(r, methods, len(methods)) {
		if mode == 1 && r.Chance(1, 2) {
			continue
		}
		srcM := methodSrc[m]
		if mode == 3 && r.Chance(1, 2) {
			srcM = strings.Replace(srcM, "self: $Lamp", "self: $Lamp, wrong: int", 1)
		}
		b.f("    %s\n", srcM)
		present = append(present, m)
	}
	if mode == 2 {
		for i := 0; i < 2+r.Intn(3); i++ {
			b.f("    fn extra%d(self: $Lamp) -> int { %d }\n", i, i)
		}
	}
	b.f("}\n")
	b.f("fn main() {\n")
	if mode == 0 || mode == 2 {
		sort.Strings(present)
		for _, m := range present {
			if m == "set_temp" || m == "set_cool" || m == "set_white" {
				b.f("    %s;\n", methodCall[m]) // null result
				continue
			}
			b.f("    println(\"%s\", %s);\n", m, methodCall[m])
		}
	}
	b.f("    println($Lamp.level, $Lamp.name, $Other.n);\n}\n")
	return Built{Fam: "impl", Src: map[string]string{"main": b.String()}, Tags: tags, Templ: true}
}

func contains(xs []string, x string) bool {
	for _, y := range xs {
		if x == y {
			return true
		}
	}
	return false
}

func sortedKeysBool(m map[string]bool) []string {
	out := make([]string, 0, len(m))
	for k := range m {
		out = append(out, k)
	}
	sort.Strings(out)
	return out
}

// ---------------------------------------------------------------------------------------------
// Family: typeerr (rejected programs whose messages print object types with several fields)
// ---------------------------------------------------------------------------------------------

func famTypeErr(r *fw.Rng, p Poison) Built {
	var b sb
	n := 4 + r.Intn(6)
	fields := pickN(r, fieldPool, n)
	typ := func(fs []string, flip int) string {
		parts := []string{}
		for i, f := range fs {
			t := []string{"int", "str", "float", "bool", "[int]"}[i%5]
			if i == flip {
				t = "[str]"
			}
			parts = append(parts, f+": "+t)
		}
		return "{ " + strings.Join(parts, ", ") + " }"
	}
	lit := func(fs []string) string {
		parts := []string{}
		for i, f := range fs {
			v := []string{"1", "\"s\"", "2.5", "true", "[1]"}[i%5]
			parts = append(parts, f+": "+v)
		}
		return "new { " + strings.Join(parts, ", ") + " }"
	}
	b.f("type Rec = %s;\n", typ(fields, -1))
	b.f("fn take(r: Rec) -> int { 1 }\n")
	b.f("fn give() -> Rec { %s }\n", lit(fields[:n-2]))
	b.f("fn main() {\n")
	b.f("    let a: Rec = %s;\n", lit(fields[:n-1]))                 // missing field
	b.f("    let b: %s = %s;\n", typ(fields, 1), lit(fields))        // one field type differs
	b.f("    let c: %s = %s;\n", typ(fields[:n-1], -1), lit(fields)) // extra field
	b.f("    let d: Rec = %s;\n", lit(pickN(r, fieldPool, n)))       // mostly different fields
	// all expected fields plus several unexpected ones / several of the wrong type / several missing:
	// whichever is named, it must be the same one every time
	b.f("    let c2: %s = %s;\n", typ(fields[:n-2], -1), lit(fields))
	b.f("    let c3: %s = %s;\n", typ(fields[:n-3], -1), lit(fields))
	b.f("    let c4: %s = %s;\n", typ(fields[2:], -1), lit(fields))
	b.f("    let c5: Rec = %s;\n", lit(fields[:n-3]))
	b.f("    take(%s);\n", lit(append(append([]string{}, fields...), "extra_b", "extra_a", "extra_c")))
	b.f("    take(%s);\n", lit(fields[1:]))
	b.f("    let e = %s;\n    e.nonexistent;\n    e.%s.nope;\n", lit(fields), fields[0])
	b.f("    let f: int = %s;\n", lit(fields))
	b.f("    let g = [%s, %s];\n", lit(fields), lit(fields[:n-1]))
	b.f("    let h = if true { %s } else { %s };\n", lit(fields), lit(fields[2:]))
	b.f("    println(a, b, c, d, e, f, g, h, give() == 1, undefined1, undefined2);\n")
	b.f("    let m = match 1 { 1 => %s, _ => %s };\n", lit(fields), lit(fields[:2]))
	b.f("}\n")
	return Built{Fam: "typeerr", Src: map[string]string{"main": b.String()}}
}

// ---------------------------------------------------------------------------------------------
// Family: fatal (programs that end in a fatal error: the message carries a stack trace)
// ---------------------------------------------------------------------------------------------

func famFatal(r *fw.Rng, p Poison) Built {
	var b sb
	depth := 1 + r.Intn(6)
	kind := r.Intn(7)
	b.f("let trail = [0];\n")
	for d := depth; d >= 1; d-- {
		b.f("fn level%d(n: int) -> int {\n    let here = n + %d;\n    println(\"level%d\", here);\n", d, d, d)
		if d == depth {
			switch kind {
			case 0:
				b.f("    throw(\"boom at \" + here.to_string());\n    here\n")
			case 1:
				b.f("    let l = [1, 2, 3];\n    l[here + 10]\n")
			case 2:
				b.f("    let z = here - here;\n    here / z\n")
			case 3:
				b.f("    let o: ?int = none;\n    o.unwrap()\n")
			case 4:
				b.f("    level%d(here)\n", d) // unbounded recursion: StackOverFlow
			case 5:
				b.f("    let a = new { ? };\n    a.set(\"k\", \"text\");\n    let v: int = a.get(\"k\").unwrap();\n    v\n")
			default:
				b.f("    let s = \"not json {\";\n    let j: { ? } = s.parse_json();\n    println(j);\n    here\n")
			}
		} else {
			b.f("    level%d(here) + 1\n", d+1)
		}
		b.f("}\n")
	}
	b.f("fn main() {\n    println(\"start\");\n")
	if r.Chance(1, 3) && kind != 4 {
		b.f("    try {\n        println(level1(1));\n    } catch e {\n        println(\"caught\", e.message, e.line, e.column);\n    }\n")
	}
	b.f("    let f = fn(n: int) -> int { level1(n) };\n    println(f(2));\n    println(\"unreachable\");\n}\n")
	return Built{Fam: "fatal", Src: map[string]string{"main": b.String()}}
}

// ---------------------------------------------------------------------------------------------
// Family: misc (singletons, match expressions, closures, triggers)
// ---------------------------------------------------------------------------------------------

func famMisc(r *fw.Rng, p Poison) Built {
	var b sb
	ns := 2 + r.Intn(4)
	names := pickN(r, []string{"Alpha", "Beta", "Gamma", "Delta", "Eps", "Zeta"}, ns)
	nt := r.Intn(4)
	if nt > 0 {
		b.f("import trigger minute from triggers;\nlet base = %d;\n", 1+r.Intn(9))
		for i := 0; i < nt; i++ {
			b.f("#[trigger at minute(base * %d)]\nevent fn tick%d(elapsed: int) {\n    println(\"tick%d\", elapsed);\n}\n", i+2, i, i)
		}
	}
	for i, n := range names {
		b.f("$%s = { n%d: int, s%d: str, f%d: float, b%d: bool, l%d: [int] };\n", n, i, i, i, i, i)
	}
	for i, n := range names {
		b.f("fn use%d(s: $%s, k: int) -> int {\n    s.n%d = s.n%d + k;\n    s.n%d\n}\n", i, n, i, i, i)
	}
	b.f("fn classify(n: int) -> str {\n    match n {\n")
	arms := 3 + r.Intn(8)
	for i := 0; i < arms; i++ {
		b.f("        %d => \"v%d\",\n", i*3, i)
	}
	b.f("        _ => \"other\",\n    }\n}\n")
	b.f("fn main() {\n")
	for i, n := range names {
		b.f("    println(use%d(%d), $%s);\n", i, i+1, n)
	}
	b.f("    for i in 0..%d {\n        println(i, classify(i), match classify(i) { \"v0\" => 0, \"v1\" => 1, \"other\" => -1, _ => 99 });\n    }\n", arms*3+2)
	b.f("    let fs = [fn(a: int) -> int { a + 1 }];\n    println(fs[0](1));\n")
	for i := 0; i < nt; i++ {
		b.f("    trigger tick%d at minute(%d);\n", i, i+1)
	}
	b.f("}\n")
	return Built{Fam: "misc", Src: map[string]string{"main": b.String()}}
}

// Families lists the literal-program families.
var Families = map[string]func(*fw.Rng, Poison) Built{
	"modules":  famModules,
	"objects":  famObjects,
	"locals":   famLocals,
	"warnings": famWarnings,
	"impl":     famImpl,
	"typeerr":  famTypeErr,
	"fatal":    famFatal,
	"misc":     famMisc,
	"fielderr": famFieldErr,
	"cells":    famCells,
	"synerr":   famSynErr,
	"implerr":  famImplErr,
	"hostvals": famHostVals,
	"jsonkeys": famJSONKeys,
	"casterr":  famCastErr,
}

// FamilyNames in a fixed order (these families share one generator stream).
var FamilyNames = []string{"modules", "objects", "locals", "warnings", "impl", "typeerr", "fatal", "misc"}

// LateFamilyNames: families added after the first workloads were recorded. They draw from their own
// generator stream, so that the cases of the older families stay what they were for every seed.
var LateFamilyNames = []string{"fielderr", "cells", "synerr", "implerr", "hostvals", "jsonkeys", "casterr"}
