package c14

import (
	"os"
	"regexp"
	"strings"
	"testing"
)

// TestKFLines prints the proposed known_findings.txt lines and (with C14_WRITE_KF=1) rewrites
// proposed_known_findings.txt.
func TestKFLines(t *testing.T) {
	var sb strings.Builder
	for _, d := range KFDefs() {
		if _, err := regexp.Compile(d.Sig); err != nil {
			t.Fatalf("%s: bad sig regex: %v", d.Name, err)
		}
		if strings.Contains(d.What, " :: ") {
			t.Fatalf("%s: description contains the separator", d.Name)
		}
		if !d.Witness.HasTag(d.Tag) {
			t.Fatalf("%s: witness lacks the tag %s", d.Name, d.Tag)
		}
		sb.WriteString(KFLine(d) + "\n")
	}
	t.Log("\n" + sb.String())
	if os.Getenv("C14_WRITE_KF") == "1" {
		if err := os.WriteFile("proposed_known_findings.txt", []byte(sb.String()), 0o644); err != nil {
			t.Fatal(err)
		}
	}
}
