package c14

import (
	"hv/fw"
	"hv/util"
	"os"
	"regexp"
	"strings"
	"testing"
)

// TestKFLines prints the proposed known_findings.txt lines and (with C14_WRITE_KF=1) rewrites
// proposed_known_findings.txt.
func TestKFLines(t *testing.T) {
	var sb strings.Builder
	for _, d := range KFDefs() {
		if _, err := regexp.Compile(d.Sig); err != nil {
			t.Fatalf("%s: bad sig regex: %v", d.Name, err)
		}
		if strings.Contains(d.What, " :: ") {
			t.Fatalf("%s: description contains the separator", d.Name)
		}
		if !d.Witness.HasTag(d.Tag) {
			t.Fatalf("%s: witness lacks the tag %s", d.Name, d.Tag)
		}
		sb.WriteString(KFLine(d) + "\n")
	}
	t.Log("\n" + sb.String())
	if os.Getenv("C14_WRITE_KF") == "1" {
		if err := os.WriteFile("proposed_known_findings.txt", []byte(sb.String()), 0o644); err != nil {
			t.Fatal(err)
		}
	}
}

// TestFieldErrPrograms: every program of the fielderr family is accepted by the analyzer and ends,
// on both back ends, in the JSON encoding error it was built for (otherwise the family would not
// exercise what it claims to).
func TestFieldErrPrograms(t *testing.T) {
	for _, mixed := range []bool{false, true} {
		for seed := uint64(1); seed <= 150; seed++ {
			b := famFieldErr(fw.NewRng(seed), Poison{JsonMixed: mixed})
			ob := Observe(b.Src, ObsOpts{})
			if !ob.Ran || !strings.Contains(ob.VMOutcome, "JsonError") || !strings.Contains(ob.TreeOutcome, "JsonError") || strings.Contains(ob.VMOutput, "unreachable") {
				t.Errorf("seed %d mixed=%v: ran=%v\ndiags: %s\nvm: %s\ntree: %s\n%s", seed, mixed, ob.Ran, ob.Diags, ob.VMOutcome, ob.TreeOutcome, b.Src["main"])
			}
		}
	}
}

// TestSynErrPrograms: the damage of the synerr family is what its tags say. A module with
// recoverable damage only parses to the end and reports at least one recoverable error, a module
// with critical damage ends in a critical error, every other module parses cleanly.
func TestSynErrPrograms(t *testing.T) {
	counts := map[string]int{}
	for seed := uint64(1); seed <= 400; seed++ {
		b, damage := buildSynErr(fw.NewRng(seed))
		for name, text := range b.Src {
			soft, hard := parseModule(name, text)
			d := damage[name]
			switch {
			case d.Critical > 0:
				counts["critical"]++
				if hard == "" {
					t.Errorf("seed %d module %s: critical damage, but the parse went through (%d recoverable errors)\n%s", seed, name, len(soft), text)
				}
			case d.Recoverable > 0:
				counts["recoverable"]++
				if hard != "" || len(soft) == 0 {
					t.Errorf("seed %d module %s: recoverable damage (%d lines), got critical=%q recoverable=%v\n%s", seed, name, d.Recoverable, hard, soft, text)
				}
			default:
				counts["clean"]++
				if hard != "" || len(soft) != 0 {
					t.Errorf("seed %d module %s: no damage, got critical=%q recoverable=%v\n%s", seed, name, hard, soft, text)
				}
			}
		}
	}
	t.Log(counts)
}

// TestCellsPrograms: every program of the cells family is accepted and runs to the end on both
// back ends (otherwise the writes in place it was built for are not executed).
func TestCellsPrograms(t *testing.T) {
	for seed := uint64(1); seed <= 200; seed++ {
		b := famCells(fw.NewRng(seed), Poison{})
		ob := Observe(b.Src, ObsOpts{})
		if !ob.Ran || ob.VMOutcome != "ok" || ob.TreeOutcome != "ok" || !strings.Contains(ob.VMOutput, "end none none none none") || !strings.Contains(ob.TreeOutput, "end none none none none") {
			t.Errorf("seed %d: ran=%v\ndiags: %s\nvm: %s\ntree: %s\n%s", seed, ob.Ran, ob.Diags, ob.VMOutcome, ob.TreeOutcome, b.Src["main"])
		}
	}
}

// TestImplErrPrograms: the tables the implerr family is generated from agree with the templates the
// harness host offers (an impl block written without faults is accepted: no error diagnostics), and
// every faulty program is rejected with at least two error diagnostics.
func TestImplErrPrograms(t *testing.T) {
	errorsOf := func(b Built) (n int, text string) {
		a := analyze(b.Src, true)
		for _, l := range diagLines(a.Diags, false) {
			if strings.HasPrefix(l, "3|") {
				n++
			}
			text += l + "\n"
		}
		return n, text
	}
	kinds := map[string]int{}
	for seed := uint64(1); seed <= 300; seed++ {
		clean, _ := buildImplErr(fw.NewRng(seed), false)
		if n, text := errorsOf(clean); n != 0 {
			t.Errorf("seed %d: an impl block without faults is rejected\n%s\n%s", seed, text, clean.Src["main"])
		}
		bad, faults := buildImplErr(fw.NewRng(seed), true)
		if n, text := errorsOf(bad); n < 2 {
			t.Errorf("seed %d: faults %v, but %d error diagnostics\n%s\n%s", seed, faults, n, text, bad.Src["main"])
		}
		for _, fs := range faults {
			for _, f := range fs {
				kinds[f]++
			}
		}
	}
	t.Log(kinds)
}

// TestHostValsPrograms: every program of the hostvals family is accepted and runs to its end on the
// VM — under the harness host and under the repository's testing host — and, unless it imports the
// VM-only `http`, on the interpreter (otherwise the family would not exercise what it claims to).
func TestHostValsPrograms(t *testing.T) {
	for seed := uint64(1); seed <= 200; seed++ {
		b := famHostVals(fw.NewRng(seed), Poison{})
		ob := Observe(b.Src, ObsOpts{RepoHost: b.RepoHost})
		http := strings.Contains(b.Src["main"], "from net;")
		ok := ob.Ran && ob.VMOutcome == "ok" && strings.Contains(ob.VMOutput, "end ")
		if http {
			ok = ok && strings.Contains(ob.TreeOutcome, "ImportError")
		} else {
			ok = ok && ob.TreeOutcome == "ok" && strings.Contains(ob.TreeOutput, "end ")
		}
		if b.RepoHost {
			ok = ok && strings.HasPrefix(ob.RepoHostVM, "outcome: ok\n") && strings.Contains(ob.RepoHostVM, "end ")
		}
		if !ok {
			t.Errorf("seed %d: ran=%v\ndiags: %s\nvm: %s\ntree: %s\nrepo host: %s\n%s", seed, ob.Ran, ob.Diags, ob.VMOutcome, ob.TreeOutcome, ob.RepoHostVM, b.Src["main"])
		}
	}
}

// TestJSONKeysPrograms: every program of the jsonkeys family is accepted and runs to its end on both
// back ends and under the repository's testing host.
func TestJSONKeysPrograms(t *testing.T) {
	for seed := uint64(1); seed <= 200; seed++ {
		b := famJSONKeys(fw.NewRng(seed), Poison{})
		ob := Observe(b.Src, ObsOpts{RepoHost: b.RepoHost})
		if !ob.Ran || ob.VMOutcome != "ok" || ob.TreeOutcome != "ok" || !strings.HasPrefix(ob.RepoHostVM, "outcome: ok\n") || ob.VMLines < 5 {
			t.Errorf("seed %d: ran=%v\ndiags: %s\nvm: %s\ntree: %s\nrepo host: %s\n%s", seed, ob.Ran, ob.Diags, ob.VMOutcome, ob.TreeOutcome, util.Clip(ob.RepoHostVM, 300), b.Src["main"])
		}
	}
}

// TestCastErrPrograms: every program of the casterr family is accepted by the analyzer, runs on both
// back ends and shows at least three cast errors, one of them for an option that holds a boxed value.
func TestCastErrPrograms(t *testing.T) {
	tags := map[string]int{}
	for seed := uint64(1); seed <= 300; seed++ {
		b := famCastErr(fw.NewRng(seed), Poison{})
		ob := Observe(b.Src, ObsOpts{})
		all := ob.VMOutput + ob.VMOutcome
		allT := ob.TreeOutput + ob.TreeOutcome
		if !ob.Ran || strings.Count(all, "Cast error") < 3 || strings.Count(allT, "Cast error") < 3 || !strings.Contains(all, "a value of type 'option' is not compatible") {
			t.Errorf("seed %d: ran=%v\ndiags: %s\nvm: %s\ntree: %s\n%s\n%s", seed, ob.Ran, ob.Diags, ob.VMOutcome, ob.TreeOutcome, util.Clip(ob.VMOutput, 600), b.Src["main"])
		}
		if strings.Contains(b.Src["main"], "println(\"end\")") && (ob.VMOutcome != "ok" || ob.TreeOutcome != "ok") {
			t.Errorf("seed %d: every cast is caught, but vm: %s tree: %s\n%s", seed, ob.VMOutcome, ob.TreeOutcome, b.Src["main"])
		}
		for _, tg := range b.Tags {
			tags[tg]++
		}
	}
	t.Log(tags)
}
