package c14

import (
	"hv/fw"
	"os"
	"regexp"
	"strings"
	"testing"
)

// TestKFLines prints the proposed known_findings.txt lines and (with C14_WRITE_KF=1) rewrites
// proposed_known_findings.txt.
func TestKFLines(t *testing.T) {
	var sb strings.Builder
	for _, d := range KFDefs() {
		if _, err := regexp.Compile(d.Sig); err != nil {
			t.Fatalf("%s: bad sig regex: %v", d.Name, err)
		}
		if strings.Contains(d.What, " :: ") {
			t.Fatalf("%s: description contains the separator", d.Name)
		}
		if !d.Witness.HasTag(d.Tag) {
			t.Fatalf("%s: witness lacks the tag %s", d.Name, d.Tag)
		}
		sb.WriteString(KFLine(d) + "\n")
	}
	t.Log("\n" + sb.String())
	if os.Getenv("C14_WRITE_KF") == "1" {
		if err := os.WriteFile("proposed_known_findings.txt", []byte(sb.String()), 0o644); err != nil {
			t.Fatal(err)
		}
	}
}

// TestFieldErrPrograms: every program of the fielderr family is accepted by the analyzer and ends,
// on both back ends, in the JSON encoding error it was built for (otherwise the family would not
// exercise what it claims to).
func TestFieldErrPrograms(t *testing.T) {
	for _, mixed := range []bool{false, true} {
		for seed := uint64(1); seed <= 150; seed++ {
			b := famFieldErr(fw.NewRng(seed), Poison{JsonMixed: mixed})
			ob := Observe(b.Src, ObsOpts{})
			if !ob.Ran || !strings.Contains(ob.VMOutcome, "JsonError") || !strings.Contains(ob.TreeOutcome, "JsonError") || strings.Contains(ob.VMOutput, "unreachable") {
				t.Errorf("seed %d mixed=%v: ran=%v\ndiags: %s\nvm: %s\ntree: %s\n%s", seed, mixed, ob.Ran, ob.Diags, ob.VMOutcome, ob.TreeOutcome, b.Src["main"])
			}
		}
	}
}
