package c14

import (
	"fmt"
	"os"
	"sort"
	"strconv"
	"strings"

	"hv/drive"
	"hv/fw"
)

// ProbeMain is a development tool: hvdev-c14 probe [-n=N] [-templ] [-notree] [-v] main.hms [mod=path ...]
// repeats analyse+compile+run N times and prints, per component, how many distinct renderings
// were observed (and the renderings when there are several).
func ProbeMain(args []string) int {
	n := 50
	var o ObsOpts
	verbose := false
	src := drive.Sources{}
	for _, a := range args {
		switch {
		case strings.HasPrefix(a, "-n="):
			n, _ = strconv.Atoi(a[3:])
		case a == "-templ":
			o.Templates = true
		case a == "-notree":
			o.NoTree = true
		case a == "-norun":
			o.NoRun = true
		case a == "-v":
			verbose = true
		case a == "-repohost":
			o.RepoHost = true
		case strings.Contains(a, "="):
			name, path, _ := strings.Cut(a, "=")
			b, err := os.ReadFile(path)
			if err != nil {
				fmt.Fprintln(os.Stderr, err)
				return 2
			}
			src[name] = string(b)
		default:
			b, err := os.ReadFile(a)
			if err != nil {
				fmt.Fprintln(os.Stderr, err)
				return 2
			}
			src["main"] = string(b)
		}
	}
	seen := map[string]map[string]int{}
	rawCodes := map[string]int{}
	rerunDiffs := 0
	for i := 0; i < n; i++ {
		ob := Observe(src, o)
		for _, c := range components {
			if seen[c] == nil {
				seen[c] = map[string]int{}
			}
			seen[c][ob.Get(c)]++
		}
		rawCodes[ob.RawCode]++
		if ob.VMReran && ob.VMRerun != ob.VMFirst() {
			rerunDiffs++
			if rerunDiffs == 1 {
				fmt.Printf("== vm-rerun differs (repetition %d)\n--- first VM\n%s\n--- second VM of the same compile output\n%s\n", i, ob.VMFirst(), ob.VMRerun)
			}
		}
		if ob.TreeReran && ob.TreeRerun != ob.TreeFirst() {
			rerunDiffs++
			if rerunDiffs == 1 {
				fmt.Printf("== tree-rerun differs (repetition %d)\n--- first run\n%s\n--- second run over the same analysed modules\n%s\n", i, ob.TreeFirst(), ob.TreeRerun)
			}
		}
	}
	rc := 0
	if rerunDiffs > 0 {
		rc = 1
	}
	fmt.Printf("== reruns that differ from the first run of their repetition: %d\n", rerunDiffs)
	for _, c := range components {
		m := seen[c]
		fmt.Printf("== %s: %d distinct\n", c, len(m))
		if len(m) > 1 || verbose {
			keys := make([]string, 0, len(m))
			for k := range m {
				keys = append(keys, k)
			}
			sort.Strings(keys)
			for _, k := range keys {
				fmt.Printf("--- x%d\n%s\n", m[k], k)
			}
		}
		if len(m) > 1 {
			rc = 1
		}
	}
	fmt.Printf("== raw code: %d distinct\n", len(rawCodes))
	return rc
}

// GenMain is a development tool: hvdev-c14 gen <family> <seed> <outdir> writes the generated
// program to <outdir>/<module>.hms.
func GenMain(args []string) int {
	if len(args) < 3 {
		fmt.Fprintln(os.Stderr, "usage: gen <family> <seed> <outdir> [xmod|cap|cast|singl|mangle|capture|jsonmixed ...]")
		return 2
	}
	seed, _ := strconv.ParseUint(args[1], 10, 64)
	var p Poison
	for _, a := range args[3:] {
		switch a {
		case "xmod":
			p.XmodOverlap = true
		case "cap":
			p.CapConflict = true
		case "cast":
			p.CastMulti = true
		case "singl":
			p.MultiSingl = true
		case "mangle":
			p.Mangle = true
		case "capture":
			p.Capture = true
		case "jsonmixed":
			p.JsonMixed = true
		}
	}
	f, ok := Families[args[0]]
	if !ok {
		fmt.Fprintln(os.Stderr, "unknown family")
		return 2
	}
	b := f(fw.NewRng(seed), p)
	os.MkdirAll(args[2], 0o755)
	for k, v := range b.Src {
		os.WriteFile(args[2]+"/"+k+".hms", []byte(v), 0o644)
	}
	fmt.Println(b.Tags, "templ:", b.Templ)
	return 0
}
