package c14

import (
	"fmt"
	"strings"

	"hv/fw"
)

// ---------------------------------------------------------------------------------------------
// Family: hostvals — values the HOST hands to a program, changed in place.
//
// "The same host" serves every repetition. What it hands out — the values behind
// `import { x } from <builtin module>;`, the results of host functions — is created by host code,
// not by the program, and a value that is a list or an object is a handle on storage: if the host
// (or the runtime on its behalf) hands out the same storage twice, whatever one run did to it in place
// is what the next run in the process starts from. The families of gen.go only ever READ such values
// (`warnings` imports any_list and never touches it); the `cells` family writes through storage that
// the RUNTIME created (defaults, casts, decoded JSON). This family writes through storage that the
// host created:
//
//   - the list `any_list` of the builtin module `testing` (type [any]): push / push_front / insert /
//     pop / pop_front / remove / concat, straight in main, inside loops, inside helper functions and
//     function literals, before a throw that is caught, and from an imported module that imports the
//     list itself;
//   - the object a host function returns (`http.get` of the builtin module `net`, VM host only: the
//     interpreter host does not offer it and ends in the same ImportError every time): field
//     assignment, compound assignment, `set` on its any-object member, then a second call;
//
// and prints what it sees before, in between and after (length, JSON and text renderings, membership,
// a typed copy when every element is a string). The generator keeps a model of the list length (one
// element at the start, as the testing host documents) so that every index it uses is valid in a
// pristine run; a run that starts from anything else prints something else or ends differently.
//
// Single-module programs of this family are also observed under the repository's own testing hosts
// (repohost.go).
// ---------------------------------------------------------------------------------------------

const (
	TagHostList   = "host-import-list"       // in-place changes of a list imported from a builtin module
	TagHostResult = "host-call-result"       // in-place changes of an object returned by a host function
	TagHostLib    = "host-import-in-lib"     // an imported module imports and changes the same host value
	TagHostCaught = "host-change-then-throw" // changes followed by a caught throw
)

type hostGen struct {
	r       *fw.Rng
	strOnly bool // every element pushed is a string: typed copies (`as [str]`) are valid
	length  int  // model of any_list's length in a pristine run
	uniq    int
}

func (g *hostGen) lit() string {
	g.uniq++
	if g.strOnly {
		return fmt.Sprintf("\"e%d\"", g.uniq)
	}
	switch g.r.Intn(5) {
	case 0:
		return fmt.Sprint(g.uniq * 3)
	case 1:
		return fmt.Sprintf("%d.5", g.uniq)
	case 2:
		if g.uniq%2 == 0 {
			return "true"
		}
		return "false"
	default:
		return fmt.Sprintf("\"e%d\"", g.uniq)
	}
}

// op renders one in-place change of any_list and updates the model.
func (g *hostGen) op(ind string) string {
	r := g.r
	for {
		switch r.Intn(8) {
		case 0, 1:
			g.length++
			return fmt.Sprintf("%sany_list.push(%s);\n", ind, g.lit())
		case 2:
			g.length++
			return fmt.Sprintf("%sany_list.push_front(%s);\n", ind, g.lit())
		case 3:
			if g.length == 0 {
				continue
			}
			i := r.Intn(g.length)
			g.length++
			return fmt.Sprintf("%sany_list.insert(%d, %s);\n", ind, i, g.lit())
		case 4:
			if g.length == 0 {
				continue
			}
			g.length--
			return fmt.Sprintf("%sany_list.pop();\n", ind)
		case 5:
			if g.length == 0 {
				continue
			}
			g.length--
			return fmt.Sprintf("%sany_list.pop_front();\n", ind)
		case 6:
			if g.length == 0 {
				continue
			}
			i := r.Intn(g.length)
			g.length--
			return fmt.Sprintf("%sany_list.remove(%d);\n", ind, i)
		default:
			n := 1 + r.Intn(3)
			parts := make([]string, n)
			for i := range parts {
				parts[i] = g.lit()
			}
			if !g.strOnly {
				// the literal needs one element type: strings
				for i := range parts {
					g.uniq++
					parts[i] = fmt.Sprintf("\"c%d\"", g.uniq)
				}
			}
			g.length += n
			return fmt.Sprintf("%sany_list.concat([%s]);\n", ind, strings.Join(parts, ", "))
		}
	}
}

func famHostVals(r *fw.Rng, p Poison) Built {
	g := &hostGen{r: r, strOnly: r.Chance(2, 3), length: 1}
	var b sb
	src := map[string]string{}
	tags := []string{TagHostList}
	useHTTP := r.Chance(1, 4)
	useLib := r.Chance(1, 3)
	useFunc := r.Bool()
	useEq := r.Bool()
	imports := []string{"any_list"}
	if useFunc {
		imports = append(imports, "any_func")
	}
	if useEq {
		imports = append(imports, "assert_eq")
	}
	b.f("import { %s } from testing;\n", strings.Join(pickN(r, imports, len(imports)), ", "))
	if useHTTP {
		b.f("import { http } from net;\n")
		tags = append(tags, TagHostResult)
	}
	if useLib {
		tags = append(tags, TagHostLib, TagMultiModule)
		var m sb
		m.f("import { any_list } from testing;\nlet lib_calls = 0;\n")
		m.f("pub fn lib_touch(k: int) -> int {\n    lib_calls += 1;\n    any_list.push(k.to_string());\n")
		if r.Bool() {
			m.f("    any_list.push_front(\"lib\");\n")
		}
		m.f("    any_list.len()\n}\n")
		m.f("pub fn lib_peek() -> str {\n    any_list.to_json() + \" after \" + lib_calls.to_string()\n}\nfn main() {}\n")
		src["hostlib"] = m.String()
		b.f("import { lib_touch, lib_peek } from hostlib;\n")
	}
	b.f("let rounds = 0;\n")
	// observation
	b.f("fn report(tag: str) {\n    rounds += 1;\n")
	b.f("    println(tag, rounds, any_list.len(), any_list.to_json(), any_list.to_string());\n")
	b.f("    println(tag, any_list.join(\"|\"));\n")
	if g.strOnly {
		// (contains() on a list with elements of several kinds ends in a Go panic on both back ends — every
		// time, so it is not a C14 event — and is kept to the lists that hold strings only)
		b.f("    println(tag, any_list.contains(\"Test\"), any_list.contains(\"e2\"));\n")
		b.f("    let copy = any_list as [str];\n    println(tag, copy, copy.len(), any_list.last() as ?str);\n")
		b.f("    for e in any_list as [str] {\n        print(e, \";\");\n    }\n    println(\"\");\n")
	}
	b.f("}\n")
	// a helper that changes the list on behalf of its caller: rendered where main calls it (once), so
	// that its indices are valid for the length the list has at that point
	helperBody := ""
	top := b.String() // the text before main
	b = sb{}
	b.f("fn main() {\n    report(\"start\");\n")
	steps := 4 + r.Intn(7)
	for s := 0; s < steps; s++ {
		switch r.Intn(9) {
		case 0, 1, 2:
			b.f("%s", g.op("    "))
		case 3:
			// a loop: pushes only (valid for every length)
			k := 2 + r.Intn(3)
			if g.strOnly {
				b.f("    for i in 0..%d {\n        any_list.push(\"loop\" + i.to_string());\n", k)
			} else {
				b.f("    for i in 0..%d {\n        any_list.push(i);\n", k)
			}
			if r.Bool() {
				b.f("        println(\"loop\", i, any_list.len());\n")
			}
			b.f("    }\n")
			g.length += k
		case 4:
			if helperBody != "" {
				continue
			}
			var h sb
			for i, nh := 0, 1+r.Intn(3); i < nh; i++ {
				h.f("%s", g.op("    "))
			}
			g.length++
			helperBody = fmt.Sprintf("fn change(k: int) -> int {\n%s    any_list.push(k%s);\n    any_list.len()\n}\n", h.String(), map[bool]string{true: ".to_string()", false: ""}[g.strOnly])
			b.f("    println(\"change\", change(%d));\n", s)
		case 5:
			// a function literal
			g.uniq++
			if g.strOnly {
				b.f("    let f%d = fn(k: int) -> int {\n        any_list.push_front(\"lit\" + k.to_string());\n        any_list.len()\n    };\n", s)
			} else {
				b.f("    let f%d = fn(k: int) -> int {\n        any_list.push_front(k);\n        any_list.len()\n    };\n", s)
			}
			b.f("    println(\"literal\", f%d(%d));\n", s, g.uniq)
			g.length++
		case 6:
			// changes followed by a throw that is caught: the changes stay
			tags = append(tags, TagHostCaught)
			b.f("    try {\n%s        throw(\"after change %d\");\n    } catch e {\n        println(\"caught\", e.message, any_list.len());\n    }\n", g.op("        "), s)
		case 7:
			if useLib {
				b.f("    println(\"lib\", lib_touch(%d), lib_peek());\n", s)
			} else if useFunc {
				b.f("    println(\"any_func\", any_func() as int);\n")
			} else {
				b.f("%s", g.op("    "))
			}
		default:
			if useEq {
				// (the model of the length holds for a module that is the only importer of the list: on
				// the VM all importers of a program share one list, on the interpreter each has its own)
				if r.Bool() && !useLib {
					b.f("    assert_eq(any_list.len(), %d);\n", g.length)
				} else {
					b.f("    try {\n        assert_eq(any_list.len(), %d);\n    } catch e {\n        println(\"assert\", e.message);\n    }\n", g.length+1)
				}
			} else {
				b.f("%s", g.op("    "))
			}
		}
		if r.Chance(1, 2) {
			b.f("    report(\"step %d\");\n", s)
		}
	}
	if useHTTP {
		k := 1 + r.Intn(9)
		b.f("    let resp = http.get(\"http://host/%d\");\n    println(\"resp\", resp);\n", k)
		b.f("    resp.status = \"CHANGED\";\n    resp.status_code += %d;\n    resp.body += \"!\";\n", k)
		b.f("    resp.cookies.set(\"session\", \"s%d\");\n    resp.cookies.set(\"n\", %d);\n", k, k)
		b.f("    println(\"resp changed\", resp, resp.cookies.keys());\n")
		b.f("    let again = http.get(\"http://host/%d\");\n    println(\"resp again\", again, again.cookies.keys(), again == resp);\n", k)
	}
	b.f("    report(\"end\");\n}\n")
	src["main"] = top + helperBody + b.String()
	return Built{Fam: "hostvals", Src: src, Tags: uniq(tags), RepoHost: !useLib}
}
