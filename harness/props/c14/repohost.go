package c14

import (
	"context"
	"fmt"
	"strings"
	"sync"

	hms "github.com/smarthome-go/homescript/v3/homescript"
	"github.com/smarthome-go/homescript/v3/homescript/compiler"
	"github.com/smarthome-go/homescript/v3/homescript/diagnostic"
	"github.com/smarthome-go/homescript/v3/homescript/runtime"
	vvalue "github.com/smarthome-go/homescript/v3/homescript/runtime/value"

	"hv/drive"
)

// ---------------------------------------------------------------------------------------------
// A repetition with the repository's own testing hosts.
//
// The harness hosts (hv/drive) keep an effect log and serve modules from memory; they delegate the
// builtin imports and the scope additions to the testing hosts of the repository. "The same host"
// of the property is, for the repository's own test suite and command line, the testing host
// itself: TestingAnalyzerHost + TestingAnalyzerScopeAdditions for the analysis, TestingVmExecutor +
// TestingVmScopeAdditions and the limits of testing_run.go for the run. A family that asks for it
// (Built.RepoHost: single-module programs without triggers and without the harness builtins) is
// observed under that host too: everything the host keeps between runs — fixtures behind its
// imports, its print buffer, its scope objects — is then part of what a repetition can see.
// ---------------------------------------------------------------------------------------------

var repoHostLimits = runtime.CoreLimits{CallStackMaxSize: 100, StackMaxSize: 500, MaxMemorySize: 100 * 1000}

type repoPrepared struct {
	rejected string // rendering of a rejected program ("" = accepted and compiled)
	out      compiler.CompileOutput
}

// prepareRepoHost analyses and compiles the entry module with the repository's testing hosts.
func prepareRepoHost(src drive.Sources) *repoPrepared {
	rp := &repoPrepared{}
	mods, diags, syn := hms.Analyze(hms.InputProgram{ProgramText: src["main"], Filename: "main"}, hms.TestingAnalyzerScopeAdditions(), hms.TestingAnalyzerHost{}, true)
	var bad []string
	for _, s := range syn {
		bad = append(bad, fmt.Sprintf("syntax|%s|%s", s.Message, spanStr(s.Span)))
	}
	errs := 0
	for _, d := range diags {
		if d.Level == diagnostic.DiagnosticLevelError {
			errs++
		}
	}
	if len(syn) > 0 || errs > 0 {
		bad = append(bad, diagLines(diags, false)...)
		rp.rejected = "rejected:\n" + strings.Join(bad, "\n")
		return rp
	}
	out, err := drive.Compile(mods, "main")
	if err != nil {
		rp.rejected = "compile-error: " + err.Error()
		return rp
	}
	rp.out = out
	return rp
}

// run executes the compiled program on a VM whose host is the repository's TestingVmExecutor (the
// step hook must be installed) and renders the outcome and everything the host's print buffer
// received.
func (rp *repoPrepared) run() string {
	if rp.rejected != "" {
		return rp.rejected
	}
	ctx, cancel := context.WithCancel(context.Background())
	defer cancel()
	exec := hms.TestingVmExecutor{PrintBuf: new(string), PintBufMutex: &sync.Mutex{}}
	var cf context.CancelFunc = cancel
	vm := runtime.NewVM(rp.out, vvalue.Executor(exec), &ctx, &cf, hms.TestingVmScopeAdditions(), repoHostLimits)
	vm.SpawnAsync(runtime.MainFn(), nil, nil, nil)
	_, i := vm.Wait()
	outcome := "ok"
	if i != nil {
		oc := drive.VMOutcome(i)
		msg := (*i).Message()
		if f, ok := (*i).(vvalue.VmFatalException); ok {
			msg = f.MessageInternal
		}
		outcome = outcomeStr(oc.Class, oc.Kind, msg, oc.Span, oc.HasSpan)
	}
	exec.PintBufMutex.Lock()
	defer exec.PintBufMutex.Unlock()
	return runRendering(outcome, *exec.PrintBuf)
}
