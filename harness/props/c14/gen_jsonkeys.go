package c14

import (
	"fmt"
	"strings"

	"hv/fw"
)

// ---------------------------------------------------------------------------------------------
// Family: jsonkeys — decoded JSON objects whose keys are different strings that some folding of
// strings makes equal.
//
// A decoded JSON object arrives as a Go map; whatever walks that map meets the keys in a fresh
// random order per walk. That is harmless while every key is handled on its own. It stops being
// harmless as soon as two keys can meet in one slot — because a consumer normalises, folds, trims or
// otherwise canonicalises keys on the way: then one of the two values survives, and which one is
// decided by the order of the walk. Programs cannot write such keys as string literals in every case
// (the literals of a program are stored in composed normal form), JSON texts can: `\u` escapes spell
// every code point. The family decodes objects that contain one or two GROUPS of such keys, each
// member holding a different value (numbers, strings, lists, objects, null):
//
//   - canonically equivalent spellings (composed / decomposed / singleton code points, reordered
//     combining marks, Hangul syllables and their jamo),
//   - compatibility equivalents (ligatures, full-width letters, superscripts, circled digits),
//   - case variants, variants with leading / trailing / doubled blanks, with zero-width characters,
//   - one key spelled with and without escapes (a true duplicate after JSON unescaping),
//
// among 0..8 ordinary keys — as the top-level value, under a key of an outer object, as elements of a
// list and as the any-object member of a typed object — several times per program (each decode walks
// its own map), and shows everything a program can see of the result: the number of keys, the key
// list, every member through get / get_type, the text and JSON renderings, equality of two decodes of
// the same text, a second decode of the re-encoded value. any-objects built with `set` from the keys
// a program can spell (case and blank variants) get the same treatment.
//
// The interpreter and the VM each have their own JSON decoder; the programs run on both.
// ---------------------------------------------------------------------------------------------

const (
	TagJKeyCanon  = "jkey-canonical-equivalents"
	TagJKeyCompat = "jkey-compatibility-equivalents"
	TagJKeyCase   = "jkey-case-variants"
	TagJKeyBlank  = "jkey-blank-variants"
	TagJKeyEscape = "jkey-escape-spellings"
	TagJKeyNested = "jkey-nested"
	TagJKeyTyped  = "jkey-in-typed-object"
)

// jkeyGroup is a set of JSON key spellings (JSON string contents, escapes written with ONE backslash)
// that are pairwise different strings but equal under the folding named by the tag.
type jkeyGroup struct {
	tag  string
	keys []string
	// plain: the keys can be written as string literals of a program unchanged
	plain bool
}

var jkeyGroups = []jkeyGroup{
	{tag: TagJKeyCanon, keys: []string{`\u00e9`, `e\u0301`}},
	{tag: TagJKeyCanon, keys: []string{`\u00c5`, `A\u030a`, `\u212b`}},
	{tag: TagJKeyCanon, keys: []string{`ma\u00f1ana`, `man\u0303ana`}},
	{tag: TagJKeyCanon, keys: []string{`\u03a9`, `\u2126`}},
	{tag: TagJKeyCanon, keys: []string{`\uac00`, `\u1100\u1161`}},
	{tag: TagJKeyCanon, keys: []string{`caf\u00e9`, `cafe\u0301`}},
	{tag: TagJKeyCanon, keys: []string{`\u1e69`, `s\u0323\u0307`, `s\u0307\u0323`}},
	{tag: TagJKeyCanon, keys: []string{`\u00fc\u00f6`, `u\u0308\u00f6`, `\u00fco\u0308`}},
	{tag: TagJKeyCompat, keys: []string{`\ufb01n`, `fin`}},
	{tag: TagJKeyCompat, keys: []string{`\uff21\uff22`, `AB`}},
	{tag: TagJKeyCompat, keys: []string{`x\u00b2`, `x2`}},
	{tag: TagJKeyCompat, keys: []string{`\u2460`, `1`}},
	{tag: TagJKeyCase, keys: []string{`Key`, `key`, `KEY`}, plain: true},
	{tag: TagJKeyCase, keys: []string{`level`, `Level`}, plain: true},
	{tag: TagJKeyCase, keys: []string{`\u00e4h`, `\u00c4h`}},
	{tag: TagJKeyBlank, keys: []string{` pad`, `pad`, `pad `}, plain: true},
	{tag: TagJKeyBlank, keys: []string{`a b`, `a  b`}, plain: true},
	{tag: TagJKeyBlank, keys: []string{`z\u200bw`, `zw`}},
	{tag: TagJKeyBlank, keys: []string{`\ufeffbom`, `bom`}},
	{tag: TagJKeyBlank, keys: []string{`nb\u00a0sp`, `nb sp`}},
	{tag: TagJKeyEscape, keys: []string{`\u0064up`, `dup`}},
	{tag: TagJKeyEscape, keys: []string{`sl\u0061sh`, `slash`, `\u0073lash`}},
}

type jkeyGen struct {
	r    *fw.Rng
	uniq int
	tags []string
}

// value renders a JSON value that no other member of the object holds.
func (g *jkeyGen) value() string {
	g.uniq++
	k := g.uniq
	switch g.r.Intn(8) {
	case 0:
		return fmt.Sprintf("\"v%d\"", k)
	case 1:
		return fmt.Sprintf("[%d, %d]", k, k+1)
	case 2:
		return fmt.Sprintf("{\"in\": %d}", k)
	case 3:
		return fmt.Sprintf("%d.5", k)
	case 4:
		return fmt.Sprintf("\"text %d\"", k)
	default:
		return fmt.Sprint(k)
	}
}

// object renders a JSON object with nPlain ordinary keys and the members of nGroups groups, in a
// random order of the members.
func (g *jkeyGen) object(nPlain, nGroups int) string {
	r := g.r
	var members []string
	for _, f := range pickN(r, fieldPool, nPlain) {
		members = append(members, fmt.Sprintf("\"%s\": %s", f, g.value()))
	}
	idx := make([]string, len(jkeyGroups))
	for i := range idx {
		idx[i] = fmt.Sprint(i)
	}
	for _, is := range pickN(r, idx, nGroups) {
		var gi int
		fmt.Sscan(is, &gi)
		grp := jkeyGroups[gi]
		g.tags = append(g.tags, grp.tag)
		keys := grp.keys
		if len(keys) > 2 && r.Bool() {
			keys = pickN(r, keys, 2)
		}
		for _, k := range keys {
			members = append(members, fmt.Sprintf("\"%s\": %s", k, g.value()))
		}
	}
	// scramble
	order := make([]string, len(members))
	for i := range order {
		order[i] = fmt.Sprint(i)
	}
	var parts []string
	for _, is := range pickN(r, order, len(order)) {
		var i int
		fmt.Sscan(is, &i)
		parts = append(parts, members[i])
	}
	return "{" + strings.Join(parts, ", ") + "}"
}

// hmsLit renders a JSON text as a single-quoted string literal of a program (a backslash of the JSON
// text is written as an escaped backslash).
func hmsLit(json string) string {
	return "'" + strings.ReplaceAll(json, `\`, `\\`) + "'"
}

func famJSONKeys(r *fw.Rng, p Poison) Built {
	g := &jkeyGen{r: r}
	var b sb
	b.f("fn show(tag: str, o: { ? }) {\n")
	b.f("    println(tag, o.keys().len(), o.keys());\n    println(tag, o);\n")
	// (the VM lists keys in composed normal form and looks members up by the spelling of the text: a
	// listed key need not be found — get then yields none and get_type throws, every time)
	b.f("    for k in o.keys() {\n        println(tag, k, k.len(), o.get(k));\n        try {\n            println(tag, k, o.get_type(k));\n        } catch e {\n            println(tag, k, \"no type:\", e.message);\n        }\n    }\n")
	b.f("    println(tag, o.to_json());\n")
	if r.Bool() {
		b.f("    println(tag, o.to_json_indent());\n")
	}
	b.f("}\n")
	b.f("type Wrapped = { name: str, extra: { ? }, n: int };\n")
	b.f("fn main() {\n")
	nText := 1 + r.Intn(3)
	for ti := 0; ti < nText; ti++ {
		nPlain := r.Intn(9)
		if r.Chance(1, 4) {
			nPlain = 0
		}
		obj := g.object(nPlain, 1+r.Intn(2))
		t := fmt.Sprintf("t%d", ti)
		switch r.Intn(5) {
		case 0, 1: // the object itself, decoded several times
			b.f("    let %s = %s;\n", t, hmsLit(obj))
			b.f("    for round in 0..%d {\n        show(\"%s.\" + round.to_string(), %s.parse_json() as { ? });\n    }\n", 2+r.Intn(4), t, t)
			b.f("    let a%d = %s.parse_json() as { ? };\n    let b%d: { ? } = %s.parse_json();\n", ti, t, ti, t)
			b.f("    println(\"%s same\", a%d == b%d, a%d.to_json() == b%d.to_json(), a%d.keys() == b%d.keys());\n", t, ti, ti, ti, ti, ti, ti)
			b.f("    show(\"%s again\", a%d.to_json().parse_json() as { ? });\n", t, ti)
		case 2: // under a key of an outer object and inside a list
			g.tags = append(g.tags, TagJKeyNested)
			other := g.object(r.Intn(4), 1)
			b.f("    let %s = %s;\n", t, hmsLit(fmt.Sprintf("{\"outer\": %s, \"list\": [%s, %s], \"n\": %d}", obj, other, obj, ti)))
			b.f("    for round in 0..%d {\n        let o: { ? } = %s.parse_json();\n        println(\"%s\", round, o, o.to_json());\n", 2+r.Intn(3), t, t)
			b.f("        show(\"%s.outer\", o.get(\"outer\").unwrap() as { ? });\n", t)
			b.f("        for e in o.get(\"list\").unwrap() as [{ ? }] {\n            show(\"%s.list\", e);\n        }\n    }\n", t)
		case 3: // a list of objects
			g.tags = append(g.tags, TagJKeyNested)
			other := g.object(r.Intn(4), 1)
			b.f("    let %s = %s;\n", t, hmsLit(fmt.Sprintf("[%s, %s, %s]", obj, other, obj)))
			b.f("    for round in 0..%d {\n        let l = %s.parse_json() as [{ ? }];\n        println(\"%s\", round, l, l.to_json());\n", 2+r.Intn(3), t, t)
			b.f("        for e in l {\n            show(\"%s.elem\", e);\n        }\n    }\n", t)
		default: // the any-object member of a typed object
			g.tags = append(g.tags, TagJKeyTyped)
			b.f("    let %s = %s;\n", t, hmsLit(fmt.Sprintf("{\"n\": %d, \"extra\": %s, \"name\": \"w%d\"}", ti, obj, ti)))
			b.f("    for round in 0..%d {\n        let w: Wrapped = %s.parse_json();\n        println(\"%s\", round, w, w.to_json());\n        show(\"%s.extra\", w.extra);\n    }\n", 2+r.Intn(3), t, t, t)
		}
	}
	if r.Chance(1, 2) {
		// an any-object built with set() from the variants a program can spell
		var plain []jkeyGroup
		for _, grp := range jkeyGroups {
			if grp.plain {
				plain = append(plain, grp)
			}
		}
		grp := plain[r.Intn(len(plain))]
		g.tags = append(g.tags, grp.tag)
		b.f("    let d = new { ? };\n")
		for _, f := range pickN(r, fieldPool, r.Intn(5)) {
			b.f("    d.set(\"%s\", %d);\n", f, r.Intn(50))
		}
		for i, k := range pickN(r, grp.keys, len(grp.keys)) {
			b.f("    d.set(\"%s\", \"set %d\");\n", k, i)
		}
		b.f("    show(\"set\", d);\n    show(\"set again\", d.to_json().parse_json() as { ? });\n")
	}
	b.f("}\n")
	return Built{Fam: "jsonkeys", Src: map[string]string{"main": b.String()}, Tags: uniq(g.tags), RepoHost: true}
}
