// Package c14 checks property C14: analysis, compilation and execution are deterministic.
//
// Every case is one program (sources + host). The worker repeats analyse + compile + run N times in
// its own process (Go draws a fresh iteration order for every map range, so repetition inside one
// process is effective), interleaves runs of an unrelated program that reuses the module names
// ("earlier runs do not matter"), and starts M fresh child processes (`hv worker C14` on a
// one-case batch) which observe the same program under different hash seeds. All observations
// must be identical component by component (obs.go).
package c14

import (
	"bufio"
	"encoding/json"
	"fmt"
	"os"
	"os/exec"
	"path/filepath"
	"regexp"
	"sort"
	"strconv"
	"strings"
	"sync"

	"hv/drive"
	"hv/fw"
	"hv/prog"
	"hv/props/c01"
	"hv/util"
)

type c14 struct{}

func init() { fw.Register(c14{}) }

func (c14) ID() string { return "C14" }

func (c14) Info(tier string) fw.Info {
	n, m := tierNM(tier)
	return fw.Info{
		Level: "exploration",
		Rule: fmt.Sprintf("programs built to be sensitive to map order (>= 3 modules with shared helper/global naming schemes, objects with 4..12 fields printed whole / as JSON / key lists / through any-objects, many locals and shadowing, scopes with up to 25 unused items, impl blocks with several capabilities and methods, rejected programs whose messages print object types, programs ending in fatal errors with stack traces, singletons, match, objects with 4..12 fields of which 2..4 cannot be encoded as JSON — ranges, functions, non-finite floats, directly / in lists / options / nested objects — passed to to_json / to_json_indent as typed objects, any-objects, in lists and inside other objects, JSON decoding under an object type with several offending members, programs that write in place — option / list / string / number / nested-object fields — into objects whose storage the runtime handed out: default values of singletons of the entry and of an imported module, results of runtime casts, decoded JSON, and print every producer of `none` before and after, programs of 3..5 modules around a module that several others import with 1..4 lines carrying recoverable or critical syntax errors in the shared module / another imported module / the entry, rejected programs with one or two impl blocks — templates whose selected capabilities require 2..8 methods, some with pub / event modifiers and a default capability — in which two or more required methods are faulty at once: missing, one parameter too many / too few, renamed or retyped parameter, other return type, wrong modifier, singleton not extracted, plus additional methods / an unknown capability / an undeclared singleton, programs that change in place what the host hands out — the list behind `import { any_list } from testing` through push / push_front / insert / pop / pop_front / remove / concat in main, loops, helper functions, function literals, before a caught throw and from a second importing module; the object `http.get` returns — and print it before, in between and after, programs that decode JSON objects containing 1..2 groups of keys that are different strings but equal after Unicode normalisation / case folding / trimming / unescaping, each member with its own value, among 0..8 ordinary keys, at top level / nested / in lists / inside a typed object, 2..5 times each, and print key counts, key lists, members, renderings, equality of two decodes and a re-decode, programs that put 6..12 values of every kind — numbers, bools, strings, null, lists, objects, any-objects, ranges, functions, options of each of these, none, options of options — into an any-object and cast the members read through ~> / -> / get, nested in objects and lists, in loops, in a helper, under annotated lets and out of decoded JSON to the type the option holds / another option / another member type / the right type, printing e.message or the whole error from a catch or leaving the last cast uncaught), the generated programs of hv/prog and the shipped examples/tests; "+
			"each program is analysed twice, compiled, run on the VM and on the interpreter N=%d times in one process (fewer for programs that execute more than 200k steps), with an unrelated program reusing the same module names run in between, and three times in each of M=%d fresh processes; in the first repetition of the case and in the first one of every fresh process the compile output is run by a second VM after the first one and the analysed modules are interpreted a second time (compiled once, run twice), and programs of the host-value and JSON-key families are also analysed, compiled and run with the repository's own testing hosts (TestingAnalyzerHost, TestingVmExecutor and their scope additions); "+
			"compared component-wise: syntax errors, sorted diagnostic multiset (level, message, span), the same with notes, VM outcome with the full message and stack trace, VM output, VM host-call log, the same three for the interpreter, canonical dump of the compiler output, outcome and output under the repository's testing host; and within a repetition: second VM run = first VM run, second interpreter run = first interpreter run (outcome and host-call log). "+
			"non-trivial = at least 3 repetitions completed and the program produced >= 2 diagnostics (syntax errors included) or ran with >= 3 lines of output; distinct = distinct sources", n, m),
		Assumptions: []string{
			"Go draws a new random iteration start for every range over a map and a new hash seed per map, so N repetitions in one process sample N iteration orders. For maps with at most 8 entries Go only rotates the insertion order, so an order that is reached from a single start offset is seen with probability 1/8 per repetition: it escapes N=20 repetitions plus 6 fresh-process observations with probability (7/8)^25 = 3.5%, N=100 with 2e-6",
			"wall-clock dependent programs (any use of `time.`) are excluded from the corpus",
			"the canonical code dump renames mangled global names by first occurrence (the counter is shared by all modules) and, while KF-c14-init-order is open, ignores the order of module initialiser calls outside the poisoned workload",
			"the M fresh processes run first (3 repetitions each): a program that kills its host in every fresh process in its first repetition (up to 12 are tried) has the same outcome every time and is not a C14 event; a crash in some runs only is",
			"a compile output (and the analysed modules) may be used for more than one run: a host that compiles a script once and runs it on every event is `running the same sources any number of times`; the second run must show what the first one showed (signature class vm-rerun: / tree-rerun:)",
			"code-shape differences are reported as violations of `compilation is deterministic` with their own signature class (code:/init-order:), separate from output/outcome differences",
		},
		CaseTimeoutS: 240,
		BatchSize:    batchSize(tier),
	}
}

func tierNM(tier string) (n, m int) {
	if tier == "thorough" {
		return 100, 4
	}
	return 20, 2
}

func batchSize(tier string) int {
	if tier == "thorough" {
		return 40
	}
	return 12
}

// Payload of a case.
type Payload struct {
	Fam   string            `json:"fam"`
	Src   map[string]string `json:"src,omitempty"`
	Gen   *c01.Payload      `json:"gen,omitempty"`
	Templ bool              `json:"templ,omitempty"`
	Reps  int               `json:"reps"`
	Procs int               `json:"procs"`
	// Alt: an unrelated program with the same module names, run between repetitions.
	Alt map[string]string `json:"alt,omitempty"`
	// InitOrder: also compare the order of module initialiser calls.
	InitOrder bool `json:"init_order,omitempty"`
	// Child: observe only (2 repetitions) and hand the observation back to the parent case.
	Child bool `json:"child,omitempty"`
	// RepoHost: the extra runs include a repetition under the repository's own testing hosts.
	RepoHost bool `json:"repo_host,omitempty"`
}

// ---------------------------------------------------------------------------------------------
// Cases
// ---------------------------------------------------------------------------------------------

func altFor(src map[string]string, r *fw.Rng) map[string]string {
	// same module names, different contents: a cache keyed by module name would show
	alt := map[string]string{}
	i := 0
	for _, k := range drive.SortedKeys(src) {
		if k == "main" {
			continue
		}
		alt[k] = fmt.Sprintf("let v = %d;\nlet other_%d = \"x\";\npub fn alt_%s() -> int { v + %d }\nfn helper(x: int) -> int { x }\nfn main() {}\n", 1000+i, i, k, r.Intn(100))
		i++
	}
	var b strings.Builder
	for _, k := range drive.SortedKeys(alt) {
		fmt.Fprintf(&b, "import { alt_%s } from %s;\n", k, k)
	}
	b.WriteString("let v = 7;\nlet g = new { zeta: 1, alpha: 2, mid: 3, beta: 4 };\nfn helper(x: int) -> int { x + v }\nfn f0(p: int, q: int) -> int { p - q }\nfn main() {\n    let unused_alt = 1;\n    println(\"alt\", helper(1), f0(2, 1), g);\n")
	for _, k := range drive.SortedKeys(alt) {
		fmt.Fprintf(&b, "    println(alt_%s());\n", k)
	}
	b.WriteString("}\n")
	alt["main"] = b.String()
	return alt
}

// State of a finding in known_findings.txt.
const (
	kfUnlisted = iota
	kfOpen
	kfFixed
)

// kfState tells whether a finding of C14 is listed as open (by name), as fixed (a fixed line whose
// witness carries the construct tag) or not at all.
func kfState(name, tag string) int {
	if fw.KFOpen(name) {
		return kfOpen
	}
	for _, f := range fw.Findings() {
		if f.Status == "fixed" && f.Property == "C14" && f.Witness != nil && f.Witness.HasTag(tag) {
			return kfFixed
		}
	}
	return kfUnlisted
}

func (c14) Cases(tier string, seed uint64) []fw.Case {
	n, m := tierNM(tier)
	perFam, nGen, nPoison := 28, 90, 24
	if tier == "thorough" {
		perFam, nGen, nPoison = 240, 450, 60
	}
	r := fw.NewRng(seed ^ 0xC14)
	var cases []fw.Case
	// which poisoned constructs may appear in the main workload: all of them while the
	// corresponding finding is not listed as open
	open := Poison{
		XmodOverlap: fw.KFOpen(KFXmod),
		CapConflict: fw.KFOpen(KFCapConflict),
		CastMulti:   fw.KFOpen(KFCastOrder),
		MultiSingl:  fw.KFOpen(KFInitOrder),
		Mangle:      fw.KFOpen(KFMangleCollide),
		Capture:     fw.KFOpen(KFCapture),
	}
	addWith := func(r *fw.Rng, id string, kind string, b Built, pl Payload) {
		pl.Fam, pl.Src, pl.Templ, pl.Reps, pl.Procs, pl.RepoHost = b.Fam, b.Src, b.Templ, n, m, b.RepoHost
		if r.Chance(1, 3) {
			pl.Alt = altFor(b.Src, r)
		}
		tags := append([]string{"fam:" + b.Fam}, b.Tags...)
		if pl.InitOrder && contains(tags, TagMultiModule) && !contains(tags, TagInitOrder) {
			tags = append(tags, TagInitOrder) // the order of initialiser calls is compared
		}
		cases = append(cases, fw.MkCase(id, kind, pl, tags...))
	}
	add := func(id string, kind string, b Built, pl Payload) { addWith(r, id, kind, b, pl) }
	for _, fam := range FamilyNames {
		for i := 0; i < perFam; i++ {
			fr := r.Fork()
			p := Poison{
				XmodOverlap: !open.XmodOverlap && fr.Chance(1, 2),
				CapConflict: !open.CapConflict && fr.Chance(1, 3),
				CastMulti:   !open.CastMulti && fr.Chance(1, 3),
				MultiSingl:  !open.MultiSingl && fr.Chance(1, 3),
				Mangle:      !open.Mangle && fr.Chance(1, 3),
				Capture:     !open.Capture && fr.Chance(1, 3),
			}
			b := Families[fam](fr, p)
			add(fmt.Sprintf("c14-%s-%d", fam, i), "literal", b, Payload{InitOrder: !open.MultiSingl})
		}
	}
	// families added later: their own generator stream (the cases above do not change).
	// Objects whose non-encodable fields differ in kind are nondeterministic on the unchanged tree
	// (FINDINGS.md §7): they stay out of the main workload until the finding is recorded as fixed
	// (a `fixed:` line of C14 whose witness carries the tag), and form a poisoned workload while it
	// is recorded as open.
	jsonMixed := kfState(KFJsonKind, TagJsonMixed)
	for fi, fam := range LateFamilyNames {
		lr := fw.NewRng(seed ^ 0xC14 ^ uint64(fi+1)<<32)
		nFam := perFam
		if fam == "hostvals" || fam == "jsonkeys" || fam == "casterr" {
			// every program of these families exercises its construct (self-tests in c14_test.go):
			// half the number keeps the quick tier within its time budget
			nFam = perFam / 2
		}
		for i := 0; i < nFam; i++ {
			fr := lr.Fork()
			p := Poison{JsonMixed: jsonMixed == kfFixed && fr.Chance(1, 3)}
			b := Families[fam](fr, p)
			addWith(lr, fmt.Sprintf("c14-%s-%d", fam, i), "literal", b, Payload{})
		}
	}
	// poisoned workloads: one construct at a time, only while its finding is open
	for _, ps := range []struct {
		name string
		on   bool
		fam  string
		p    Poison
		init bool
	}{
		{"xmod", open.XmodOverlap, "modules", Poison{XmodOverlap: true}, false},
		{"capconflict", open.CapConflict, "impl", Poison{CapConflict: true}, false},
		{"castmulti", open.CastMulti, "objects", Poison{CastMulti: true}, false},
		{"initorder", open.MultiSingl, "modules", Poison{MultiSingl: true}, true},
		{"mangle", open.Mangle, "locals", Poison{Mangle: true}, false},
		{"capture", open.Capture, "locals", Poison{Capture: true}, false},
		{"mangle-modules", open.Mangle, "modules", Poison{Mangle: true}, false},
		{"jsonmixed", jsonMixed == kfOpen, "fielderr", Poison{JsonMixed: true}, false},
	} {
		if !ps.on {
			continue
		}
		for i := 0; i < nPoison; i++ {
			b := Families[ps.fam](r.Fork(), ps.p)
			if ps.init && !contains(b.Tags, TagInitOrder) {
				b.Tags = append(b.Tags, TagInitOrder)
			}
			add(fmt.Sprintf("c14-poison-%s-%d", ps.name, i), "poisoned", b, Payload{InitOrder: ps.init})
		}
	}
	// generated programs of hv/prog
	for i := 0; i < nGen; i++ {
		gp := c01.Payload{Seed: r.Next(), Size: 6 + r.Intn(14), Preset: "main"}
		pr, _ := c01.Build(gp)
		tags := append([]string{"fam:gen"}, prog.Hazards(pr)...)
		cases = append(cases, fw.MkCase(fmt.Sprintf("c14-gen-%d", i), "gen", Payload{Fam: "gen", Gen: &gp, Reps: n, Procs: m}, tags...))
	}
	// shipped corpus
	corpus := util.Corpus()
	names := drive.SortedKeys(corpus)
	for _, k := range names {
		if strings.Contains(corpus[k], "time.") {
			continue // wall-clock dependent by intention
		}
		src := map[string]string{"main": corpus[k]}
		dir := strings.SplitN(k, "/", 2)[0]
		for _, k2 := range names {
			if strings.HasPrefix(k2, dir+"/") {
				src[strings.TrimSuffix(strings.SplitN(k2, "/", 2)[1], ".hms")] = corpus[k2]
			}
		}
		// only the modules the entry can reach matter; keep them all (the host serves by name)
		cases = append(cases, fw.MkCase("c14-corpus-"+k, "corpus", Payload{Fam: "corpus", Src: src, Reps: n, Procs: m, InitOrder: !open.MultiSingl}, "fam:corpus", "corpus:"+k))
	}
	return cases
}

// ---------------------------------------------------------------------------------------------
// Run
// ---------------------------------------------------------------------------------------------

var digitsRe = regexp.MustCompile(`[0-9]+`)

// sigFor builds the failure signature of a differing component: the component name and the
// normalised first differing line (of the lexicographically smaller rendering).
func sigFor(comp, a, b string) string {
	if b < a {
		a, b = b, a
	}
	al, bl := strings.Split(a, "\n"), strings.Split(b, "\n")
	line := ""
	for i := 0; i < len(al) || i < len(bl); i++ {
		var x, y string
		if i < len(al) {
			x = al[i]
		}
		if i < len(bl) {
			y = bl[i]
		}
		if x != y {
			line = x
			if line == "" {
				line = y
			}
			break
		}
	}
	line = digitsRe.ReplaceAllString(line, "N")
	line = strings.Join(strings.Fields(line), " ")
	if len(line) > 70 {
		line = line[:70]
	}
	return comp + ":" + line
}

type diff struct {
	Comp  string `json:"component"`
	Where string `json:"where"`
	First string `json:"first"`
	Other string `json:"other"`
}

func (d diff) why() string {
	if strings.HasSuffix(d.Comp, "-rerun") {
		return fmt.Sprintf("the artefacts of one repetition were run twice and the second run shows something else than the first: it depends on the earlier run in the same process (%s):\n--- first run\n%s\n--- second run\n%s", d.Where, util.Clip(excerpt(d.First, d.Other), 900), util.Clip(excerpt(d.Other, d.First), 900))
	}
	return fmt.Sprintf("component %s differs between repetitions of the same program (%s):\n--- first observation\n%s\n--- other observation\n%s", d.Comp, d.Where, util.Clip(excerpt(d.First, d.Other), 900), util.Clip(excerpt(d.Other, d.First), 900))
}

// excerpt returns the part of a around the first difference with b.
func excerpt(a, b string) string {
	i := 0
	for i < len(a) && i < len(b) && a[i] == b[i] {
		i++
	}
	start := i - 200
	if start < 0 {
		start = 0
	}
	// cut at a line start
	if j := strings.LastIndex(a[:start], "\n"); j >= 0 {
		start = j + 1
	} else {
		start = 0
	}
	s := a[start:]
	if start > 0 {
		s = "…\n" + s
	}
	return s
}

// sources materialises the program of a payload; budget is the interpreter step budget.
func sources(p Payload) (src map[string]string, treeBudget int64, discard bool, cover []string) {
	if p.Gen == nil {
		return p.Src, 0, false, nil
	}
	pr, cov := c01.Build(*p.Gen)
	var m prog.Result
	func() {
		// the reference evaluator only supplies the step budget here; if it cannot run the
		// program the case is skipped like a program the model discards
		defer func() {
			if r := recover(); r != nil {
				m.Discard = true
			}
		}()
		m = prog.Run(pr, nil, 0)
	}()
	if m.Discard {
		return nil, 0, true, nil
	}
	for k := range cov {
		cover = append(cover, k)
	}
	sort.Strings(cover)
	return pr.Source(), int64(m.Steps)*50 + 100000, false, cover
}

type childReport struct {
	Obs Observation `json:"obs"`
	// Intra: component that differed between the child's own repetitions (with both renderings).
	Intra  string `json:"intra,omitempty"`
	IntraA string `json:"intra_a,omitempty"`
	IntraB string `json:"intra_b,omitempty"`
}

func (c14) Run(c fw.Case) fw.Result {
	var p Payload
	fw.Decode(c, &p)
	res := fw.Result{Verdict: fw.Held}
	src, treeBudget, discard, cover := sources(p)
	if discard {
		res.Cover = append(res.Cover, "model-discarded")
		return res
	}
	res.Hash = fw.HashOf(src, p.Templ)
	opts := ObsOpts{Templates: p.Templ, TreeBudget: treeBudget, InitOrder: p.InitOrder, RepoHost: p.RepoHost}
	if p.Child {
		// a fresh process: three repetitions, progress on stderr so that the parent can tell a
		// crash in the first repetition from a crash after completed ones
		first := Observe(src, opts)
		fmt.Fprintf(os.Stderr, "c14-progress id=%s reps=1\n", c.ID)
		rep := childReport{Obs: first}
		for _, ob := range ObserveMany(src, opts, 2) {
			if d := first.Diff(&ob); d != "" && rep.Intra == "" {
				rep.Intra, rep.IntraA, rep.IntraB = d, first.Get(d), ob.Get(d)
			}
		}
		fmt.Fprintf(os.Stderr, "c14-progress id=%s reps=3\n", c.ID)
		res.Detail = rep
		return res
	}
	reps := p.Reps
	if reps < 2 {
		reps = 2
	}
	var diffs []diff
	seen := map[string]bool{}
	note := func(comp, where, a, b string) {
		if seen[comp] {
			return
		}
		seen[comp] = true
		diffs = append(diffs, diff{Comp: comp, Where: where, First: a, Other: b})
	}
	intra := func(ob *Observation, where string) {
		if ob.SyntaxFirst != ob.SyntaxSecond {
			note("syntax", where+", two analyses of the same repetition", ob.SyntaxFirst, ob.SyntaxSecond)
		}
		if ob.IntraDiags != "" {
			note("diags", where+", two analyses of the same repetition", ob.Diags, ob.IntraDiags)
		}
		if ob.IntraNotes != "" {
			note("notes", where+", two analyses of the same repetition", ob.Notes, ob.IntraNotes)
		}
		// the artefacts of one repetition used twice: the second use must show what the first one did
		if ob.VMReran && ob.VMRerun != ob.VMFirst() {
			note("vm-rerun", where+": compiled once, then run by two VMs one after the other", ob.VMFirst(), ob.VMRerun)
		}
		if ob.TreeReran && ob.TreeRerun != ob.TreeFirst() {
			note("tree-rerun", where+": analysed once, then interpreted twice", ob.TreeFirst(), ob.TreeRerun)
		}
	}

	// 1. fresh processes first: they are crash-isolated, so a program that kills its host is
	// seen here without losing the worker
	var kids []childReport
	crashed, crashedLate, crashMsg := 0, 0, ""
	type childOut struct {
		rep    childReport
		crash  string
		okReps int
	}
	launched := 0
	for round := 0; round < 3; round++ {
		n := p.Procs
		if round > 0 {
			// every fresh process so far died in its very first repetition, which looks
			// deterministic: try a few more before concluding that
			if len(kids) > 0 || crashedLate > 0 || crashed == 0 {
				break
			}
			n = 2 + 2*round
		}
		outs := make([]childOut, n)
		var wg sync.WaitGroup
		for k := 0; k < n; k++ {
			wg.Add(1)
			go func(k int) {
				defer wg.Done()
				o := &outs[k]
				o.rep, o.crash, o.okReps = runChild(c, p, launched+k)
			}(k)
		}
		wg.Wait()
		launched += n
		for _, o := range outs {
			if o.crash == "" {
				kids = append(kids, o.rep)
				continue
			}
			if strings.HasPrefix(o.crash, "harness:") {
				return fw.Result{Verdict: fw.Inconclusive, Why: "cannot run child process: " + o.crash}
			}
			crashed++
			crashMsg = o.crash
			if o.okReps > 0 {
				crashedLate++
			}
		}
	}
	res.Obs = map[string]int64{"programs": 1, "child_processes": int64(len(kids) + crashed)}
	res.Cover = append(res.Cover, "fam:"+p.Fam)
	if crashed > 0 {
		res.Evals = int64(len(kids) + crashed)
		if len(kids) == 0 && crashedLate == 0 {
			// every fresh process died in its first repetition: the same outcome every time
			res.Cover = append(res.Cover, "deterministic-host-crash:"+crashMsg)
			return res
		}
		res.Nontrivial = true
		res.Verdict = fw.Violated
		res.Sig = "process-outcome:crash-in-some-runs:" + crashMsg
		res.Why = fmt.Sprintf("of %d fresh processes running the same program, %d killed their host (%s), %d of them after completed repetitions; %d completed all repetitions", len(kids)+crashed, crashed, crashMsg, crashedLate, len(kids))
		res.Detail = map[string]any{"source": src}
		return res
	}

	// 2. repetitions in this process
	fmt.Fprintf(os.Stderr, "c14-progress id=%s children-ok=%d\n", c.ID, len(kids))
	first := Observe(src, opts)
	// programs that execute many steps are repeated less often (decided by steps, not by time)
	if first.Steps > 200_000 {
		if lim := int(40_000_000 / first.Steps); lim < reps {
			reps = lim
		}
		if reps < 3 {
			reps = 3
		}
	}
	intra(&first, "repetition 0")
	rawCodes := map[string]bool{first.RawCode: true}
	altRuns := 0
	const chunk = 8
	for i := 1; i < reps; i += chunk {
		if p.Alt != nil {
			Observe(p.Alt, ObsOpts{})
			altRuns++
		}
		k := chunk
		if i+k > reps {
			k = reps - i
		}
		for j, ob := range ObserveMany(src, opts, k) {
			rawCodes[ob.RawCode] = true
			where := fmt.Sprintf("repetition %d of %d in one process", i+j, reps)
			for _, comp := range components {
				if first.Differs(&ob, comp) {
					note(comp, where, first.Get(comp), ob.Get(comp))
				}
			}
			intra(&ob, where)
		}
	}
	children := len(kids)
	for k, rep := range kids {
		where := fmt.Sprintf("fresh process %d", k)
		for _, comp := range components {
			if first.Differs(&rep.Obs, comp) {
				note(comp, where, first.Get(comp), rep.Obs.Get(comp))
			}
		}
		intra(&rep.Obs, where)
		if rep.Intra != "" {
			note(rep.Intra, where+", between its own repetitions", rep.IntraA, rep.IntraB)
		}
	}

	res.Evals = int64(reps + children)
	res.Nontrivial = reps >= 3 && (lineCount(first.Diags)+lineCount(first.Syntax) >= 2 || first.Ran && first.VMLines >= 3)
	res.Obs["repetitions"] = int64(reps)
	res.Obs["interferer_runs"] = int64(altRuns)
	res.Obs["vm_steps_plus_tree_steps"] = first.Steps * int64(reps)
	if first.Ran {
		res.Cover = append(res.Cover, "ran:"+p.Fam)
	} else {
		res.Cover = append(res.Cover, "not-run:"+p.Fam)
	}
	if first.Ran {
		res.Cover = append(res.Cover, "ran", "vm-outcome:"+outcomeClass(first.VMOutcome), "tree-outcome:"+outcomeClass(first.TreeOutcome))
	} else if first.Syntax != "" || first.Diags != "" {
		res.Cover = append(res.Cover, "rejected")
	}
	if first.Modules >= 3 {
		res.Cover = append(res.Cover, "modules>=3")
	}
	if nd := strings.Count(first.Diags, "\n") + 1; first.Diags != "" {
		switch {
		case nd >= 20:
			res.Cover = append(res.Cover, "diags>=20")
		case nd >= 9:
			res.Cover = append(res.Cover, "diags>=9")
		case nd >= 2:
			res.Cover = append(res.Cover, "diags>=2")
		}
	}
	if len(rawCodes) > 1 {
		res.Cover = append(res.Cover, "raw-code-renumbered") // informational: mangling counters differ
	}
	if p.Alt != nil {
		res.Cover = append(res.Cover, "with-interferer")
	}
	if first.VMReran {
		res.Cover = append(res.Cover, "vm-rerun-compared")
		res.Obs["reruns_of_one_compile_output"] = int64(1 + children)
	}
	if first.TreeReran {
		res.Cover = append(res.Cover, "tree-rerun-compared")
	}
	if first.RepoHostVM != "" {
		res.Cover = append(res.Cover, "repohost:"+outcomeClass(strings.TrimPrefix(strings.SplitN(first.RepoHostVM, "\n", 2)[0], "outcome: ")))
	}
	if c.HasTag(TagJsonMixed) {
		res.Cover = append(res.Cover, "construct:"+TagJsonMixed)
	}
	for _, t := range c.Tags {
		if strings.HasPrefix(t, "cell-") || strings.HasPrefix(t, "syn-") || strings.HasPrefix(t, "implerr-") || strings.HasPrefix(t, "host-") || strings.HasPrefix(t, "jkey-") || strings.HasPrefix(t, "casterr-") {
			res.Cover = append(res.Cover, "construct:"+t)
		}
	}
	if first.Syntax != "" {
		res.Cover = append(res.Cover, "syntax-errors")
	}
	for _, k := range cover {
		res.Cover = append(res.Cover, "gen:"+k)
	}
	if len(diffs) > 0 {
		res.Verdict = fw.Violated
		for i, d := range diffs {
			sig := sigFor(d.Comp, d.First, d.Other)
			det := map[string]any{"source": src, "diff": d}
			if i == 0 {
				res.Sig, res.Why, res.Detail = sig, d.why(), det
			} else {
				res.More = append(res.More, fw.SubViolation{Sig: sig, Why: d.why(), Detail: det})
			}
		}
	}
	if h := fw.HashOf(c.ID); h[0] == '0' {
		res.Sample = map[string]any{"family": p.Fam, "modules": drive.SortedKeys(src), "main": util.Clip(src["main"], 700), "vm_outcome": util.Clip(first.VMOutcome, 200), "diagnostics": len(strings.Fields(strings.ReplaceAll(first.Diags, " ", "_"))), "repetitions": reps, "fresh_processes": children}
	}
	return res
}

func lineCount(s string) int {
	if s == "" {
		return 0
	}
	return strings.Count(s, "\n") + 1
}

func outcomeClass(s string) string {
	if i := strings.Index(s, ":"); i >= 0 {
		return s[:i]
	}
	return s
}

// runChild observes the program in a fresh process: `hv worker C14` on a one-case batch.
func runChild(c fw.Case, p Payload, k int) (rep childReport, crash string, okReps int) {
	exe, err := os.Executable()
	if err != nil {
		return rep, "harness: " + err.Error(), 0
	}
	base := os.Getenv("HV_SCRATCH")
	if base == "" {
		base = "/var/tmp"
	}
	dir, err := os.MkdirTemp(base, "c14child-")
	if err != nil {
		return rep, "harness: " + err.Error(), 0
	}
	defer os.RemoveAll(dir)
	cp := p
	cp.Child = true
	cp.Alt = nil
	cc := fw.MkCase(fmt.Sprintf("%s#child%d", c.ID, k), c.Kind, cp, c.Tags...)
	line, _ := json.Marshal(cc)
	bf, rf, jf := filepath.Join(dir, "batch.jsonl"), filepath.Join(dir, "results.jsonl"), filepath.Join(dir, "journal")
	if err := os.WriteFile(bf, append(line, '\n'), 0o644); err != nil {
		return rep, "harness: " + err.Error(), 0
	}
	cmd := exec.Command(exe, "worker", "C14", bf, rf, jf)
	cmd.Env = os.Environ()
	out, runErr := cmd.CombinedOutput()
	f, err := os.Open(rf)
	if err == nil {
		defer f.Close()
		sc := bufio.NewScanner(f)
		sc.Buffer(make([]byte, 1<<20), 1<<28)
		for sc.Scan() {
			var r struct {
				Detail childReport `json:"detail"`
			}
			if json.Unmarshal(sc.Bytes(), &r) == nil {
				return r.Detail, "", 3
			}
		}
	}
	for _, m := range progressRe.FindAllStringSubmatch(string(out), -1) {
		if m[1] == cc.ID {
			okReps, _ = strconv.Atoi(m[2])
		}
	}
	msg := "no result"
	for _, l := range strings.Split(string(out), "\n") {
		if strings.HasPrefix(l, "panic: ") || strings.HasPrefix(l, "fatal error: ") {
			msg = l
			break
		}
	}
	if msg == "no result" && runErr != nil {
		if _, ok := runErr.(*exec.ExitError); !ok {
			return rep, "harness: " + runErr.Error(), 0
		}
		msg = runErr.Error() + ": " + util.Clip(string(out), 300)
	}
	if strings.Contains(msg, fw.StepBudgetMsg) {
		return rep, "harness: step budget in child", 0
	}
	return rep, util.NormPanic(strings.TrimPrefix(strings.TrimPrefix(msg, "panic: "), "fatal error: ")), okReps
}

var progressRe = regexp.MustCompile(`c14-progress id=(\S+) reps=(\d+)`)
var childrenOKRe = regexp.MustCompile(`c14-progress id=(\S+) children-ok=(\d+)`)

func (c14) OnCrash(c fw.Case, cr fw.Crash) fw.Result {
	if cr.Kind == "watchdog" || cr.Kind == "killed" || cr.Kind == "step-budget" || cr.Kind == "oom" {
		return fw.Result{Verdict: fw.Inconclusive, Why: cr.Kind + ": " + cr.Message}
	}
	kidsOK := -1
	for _, m := range childrenOKRe.FindAllStringSubmatch(cr.StderrTail, -1) {
		if m[1] == c.ID {
			kidsOK, _ = strconv.Atoi(m[2])
		}
	}
	if kidsOK <= 0 {
		return fw.Result{Verdict: fw.Inconclusive, Why: fmt.Sprintf("the worker died (%s: %s at %s) and no completed run of the same program is on record: not evidence of nondeterminism", cr.Kind, util.Clip(cr.Message, 200), cr.TopFrame)}
	}
	reps := 3 * kidsOK
	var p Payload
	fw.Decode(c, &p)
	src, _, _, _ := sources(p)
	return fw.Result{Verdict: fw.Violated, Nontrivial: true,
		Sig:    "process-outcome:crash-in-some-runs:" + util.NormPanic(cr.Message),
		Why:    fmt.Sprintf("%d repetitions of the program completed in fresh processes, then the same program killed the worker process (%s: %s at %s)", reps, cr.Kind, util.Clip(cr.Message, 300), cr.TopFrame),
		Detail: map[string]any{"source": src, "crash": cr}}
}

// Finalize adds the C14 specific totals and declares the run broken when a part of the oracle
// never ran.
func (c14) Finalize(tier string, results []fw.Result, coverage map[string]any) string {
	var programs, reps, children, alts int64
	for _, r := range results {
		programs += r.Obs["programs"]
		reps += r.Obs["repetitions"]
		children += r.Obs["child_processes"]
		alts += r.Obs["interferer_runs"]
	}
	coverage["programs"] = programs
	coverage["repetitions_in_process"] = reps
	coverage["fresh_process_observations"] = children
	coverage["interferer_runs"] = alts
	if programs > 0 && children == 0 {
		return "no observation from a fresh process was compared (child workers never ran)"
	}
	if programs > 0 && reps < 3*programs {
		return "fewer than 3 repetitions per program on average"
	}
	return ""
}
