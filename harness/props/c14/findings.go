package c14

import (
	"encoding/json"
	"fmt"

	"hv/fw"
)

// KFDef describes one finding of C14 on the unchanged tree: the proposed line for
// /verif/known_findings.txt is generated from it (TestKFLines prints them).
type KFDef struct {
	Name    string
	What    string
	Sig     string
	Tag     string
	Witness fw.Case
}

func witness(id string, src map[string]string, initOrder bool, tags ...string) fw.Case {
	// 60 repetitions: an order that Go reaches from only one of the 8 start offsets of a small map
	// shows up in a repetition with probability 1/8
	return fw.MkCase(id, "witness", Payload{Fam: "witness", Src: src, Reps: 60, Procs: 2, InitOrder: initOrder}, tags...)
}

// KFDefs lists the findings (FINDINGS.md has the prose).
func KFDefs() []KFDef {
	return []KFDef{
		{
			Name: KFCapConflict,
			What: "WithCapabilities walks the selected capabilities in map order: of two mutually conflicting capabilities either one is reported (different message and span per run), and chains of conflicts yield a different NUMBER of diagnostics",
			Sig:  "^(diags|notes):.*Template capability `[a-z]+` conflicts with other capability",
			Tag:  TagCapConflict,
			Witness: witness("w-cap-conflict", map[string]string{"main": "import templ FooFeature from templates;\n$Device = { level: int };\nimpl FooFeature with { light, temperature } for $Device {\n}\nfn main() {\n    println($Device.level);\n}\n"},
				false, TagCapConflict),
		},
		{
			Name: KFXmod,
			What: "the compiler keeps the globals of all modules in one root scope keyed by the unmangled name and visits modules in map order: with the same global name in two modules every function reads the global of whichever module was compiled last (`2 3` expected, `2 2` or `3 3` printed, varying per run); getMangledFn falls back to any module in map order",
			Sig:  "^(vm-output|vm-hostcalls|vm-outcome|code):",
			Tag:  TagXmodOverlap,
			Witness: witness("w-xmod", map[string]string{
				"main": "import { fa } from a;\nimport { fb } from b;\nfn main() {\n    println(fa(), fb());\n}\n",
				"a":    "let v = 2;\npub fn fa() -> int {\n    v\n}\nfn main() {}\n",
				"b":    "let v = 3;\npub fn fb() -> int {\n    v\n}\nfn main() {}\n",
			}, false, TagXmodOverlap, TagMultiModule),
		},
		{
			Name: KFInitOrder,
			What: "the entry module's @init calls the initialisers of the imported modules in map order: the compiled code differs from run to run and the host sees LoadSingleton (and builtin import) calls of different modules in a different order",
			Sig:  "^(init-order:@[a-z0-9_]+_@init:|vm-hostcalls:.*singleton:)",
			Tag:  TagInitOrder,
			Witness: witness("w-init-order", map[string]string{
				"main": "import { fa } from a;\nimport { fb } from b;\nimport { fc } from c;\nfn main() {\n    println(fa(), fb(), fc());\n}\n",
				"a":    "$SA = { n: int };\npub fn fa() -> int {\n    $SA.n\n}\nfn main() {}\n",
				"b":    "$SB = { n: int };\npub fn fb() -> int {\n    $SB.n\n}\nfn main() {}\n",
				"c":    "$SC = { n: int };\npub fn fc() -> int {\n    $SC.n\n}\nfn main() {}\n",
			}, true, TagInitOrder, TagMultiModule),
		},
		{
			Name: KFCastOrder,
			What: "DeepCast of an object walks the value's fields in map order and stops at the first offending one: with two or more offending fields the cast error (a catchable exception's message, or the fatal outcome) names a different field per run (both value libraries)",
			Sig:  "^(vm|tree)-(output|hostcalls|outcome):.*(Cast error|CastError|Incompatible values)",
			Tag:  TagCastMulti,
			Witness: witness("w-cast-order", map[string]string{"main": "fn main() {\n    let a = new { ? };\n    a.set(\"o\", new { p: 1, q: 2, r: 3, s: 4 });\n    let y: { z: str } = a.get(\"o\").unwrap();\n    println(y);\n}\n"},
				false, TagCastMulti),
		},
		{
			Name: KFMangleCollide,
			What: "mangled variable names are `@module_name<counter>` with one counter per source name shared by all modules: `x` with counter 10 and `x1` with counter 0 are the same name; which variables collide depends on the order in which modules and functions are compiled (map order): `9 15` or `9 20` printed for the same program, slots differ, some runs kill the host",
			Sig:  "^(code|vm-output|vm-hostcalls|vm-outcome|process-outcome):",
			Tag:  TagMangle,
			Witness: witness("w-mangle", map[string]string{
				"main": "import { p } from a;\nfn q() -> int {\n    let x = 0;\n    let x = x + 1;\n    let x = x + 1;\n    let x = x + 1;\n    let x = x + 1;\n    let x = x + 1;\n    let x = x + 1;\n    let x = x + 1;\n    let x = x + 1;\n    let x = x + 1;\n    x\n}\nfn main() {\n    println(q(), p(5));\n}\n",
				"a":    "let g = 0;\npub fn p(x: int) -> int {\n    let x1 = x * 2;\n    x + x1\n}\nfn main() {}\n",
			}, false, TagMangle, TagMultiModule),
		},
		{
			Name: KFCapture,
			What: "renameVariables numbers the locals of all functions from one shared table while walking the functions in map order: a function literal that reads a local of its parent gets the parent's slot number or a fresh one depending on which of the two is visited first (`16` or `41` printed for the same program; the source says 36)",
			Sig:  "^(code|vm-output|vm-hostcalls|vm-outcome|process-outcome):",
			Tag:  TagCapture,
			Witness: witness("w-capture", map[string]string{"main": "fn mk(p: int) -> int {\n    let a = 10;\n    let b = 20;\n    let c = p;\n    let f = fn(k: int) -> int { k + c + b };\n    f(1) + a\n}\nfn main() {\n    println(mk(5));\n}\n"},
				false, TagCapture),
		},
		{
			Name: KFJsonKind,
			What: "to_json / to_json_indent walk the fields of an object in map order and stop at the first value that has no JSON representation; the fatal JsonError names the KIND of that value: an object holding a range and a function ends in `... of type 'range'` or in `... of type 'closure'` from run to run (both value libraries)",
			Sig:  "^(vm|tree)-outcome:.*Cannot encode",
			Tag:  TagJsonMixed,
			Witness: witness("w-json-kind-order", map[string]string{"main": "fn main() {\n    let f = fn(k: int) -> int { k };\n    let d = new { ? };\n    d.set(\"x\", f);\n    d.set(\"y\", 3..4);\n    println(\"a\");\n    println(d.to_json());\n    println(\"done\");\n}\n"},
				false, TagJsonMixed),
		},
	}
}

// KFLine renders the proposed known_findings.txt line of a finding.
func KFLine(d KFDef) string {
	tail := map[string]any{"witness": d.Witness, "sig": d.Sig, "tag": d.Tag}
	b, err := json.Marshal(tail)
	if err != nil {
		panic(err)
	}
	return fmt.Sprintf("open: property=C14 %s %s :: %s", d.Name, d.What, b)
}
