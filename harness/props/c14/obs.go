package c14

import (
	"context"
	"fmt"
	"regexp"
	"sort"
	"strconv"
	"strings"
	"sync"
	"sync/atomic"

	"github.com/smarthome-go/homescript/v3/homescript/analyzer"
	"github.com/smarthome-go/homescript/v3/homescript/analyzer/ast"
	"github.com/smarthome-go/homescript/v3/homescript/compiler"
	"github.com/smarthome-go/homescript/v3/homescript/diagnostic"
	herrors "github.com/smarthome-go/homescript/v3/homescript/errors"
	pAst "github.com/smarthome-go/homescript/v3/homescript/parser/ast"
	"github.com/smarthome-go/homescript/v3/homescript/runtime"
	vvalue "github.com/smarthome-go/homescript/v3/homescript/runtime/value"

	"hv/drive"
	"hv/fw"
)

// Component names of an observation, in the order they are compared. The first differing
// component names the failure signature.
var components = []string{"syntax", "diags", "notes", "vm-outcome", "vm-output", "vm-hostcalls", "tree-outcome", "tree-output", "tree-hostcalls", "code", "init-order", "repohost-vm"}

// sparseComponents are observed only in the repetitions that carry the extra runs (Observation.Extras):
// they are compared between two observations only when both carry them.
var sparseComponents = map[string]bool{"repohost-vm": true}

// Differs tells whether component comp of two observations of the same program differs (a sparse
// component that one of the two did not observe does not).
func (o *Observation) Differs(p *Observation, comp string) bool {
	if sparseComponents[comp] && !(o.Extras && p.Extras) {
		return false
	}
	return o.Get(comp) != p.Get(comp)
}

// Observation is everything one repetition of analyse + compile + run shows to the host, in a
// canonical form: every component is a string that must be byte-identical between repetitions.
type Observation struct {
	// Syntax: sorted syntax errors (message + span).
	Syntax string `json:"syntax"`
	// Diags: the sorted multiset of (level, message, span) of both analyses of the repetition.
	Diags string `json:"diags"`
	// Notes: the same multiset including the notes of every diagnostic.
	Notes string `json:"notes"`
	// VMOutcome: class, kind, full message (with the stack trace of fatal errors) and span.
	VMOutcome string `json:"vm_outcome"`
	// VMOutput: the text written by the VM run; VMEffects: the whole rendered effect log (text,
	// singleton loads, trigger registrations in the order the host saw them).
	VMOutput  string `json:"vm_output"`
	VMEffects string `json:"vm_effects"`
	// TreeOutcome / TreeOutput / TreeEffects: the same for the tree-walking interpreter.
	TreeOutcome string `json:"tree_outcome"`
	TreeOutput  string `json:"tree_output"`
	TreeEffects string `json:"tree_effects"`
	// Code: canonical dump of the compiler output (functions sorted by name, names that carry a
	// global mangling counter renamed by first occurrence, calls of the module initialisers in
	// the entry initialiser sorted).
	Code string `json:"code"`
	// InitOrder: the order in which the entry initialiser calls the initialisers of the other
	// modules ("" unless the comparison is requested).
	InitOrder string `json:"init_order"`
	// IntraDiags / IntraNotes: set when the second analysis of the same repetition produced a
	// different multiset than the first one (they are two samples of the same thing).
	IntraDiags string `json:"intra_diags,omitempty"`
	IntraNotes string `json:"intra_notes,omitempty"`
	// SyntaxFirst / SyntaxSecond: the sorted syntax errors of the first and of the second analysis of
	// the repetition (Syntax is their union as a multiset); they must agree with each other.
	SyntaxFirst  string `json:"syntax_first,omitempty"`
	SyntaxSecond string `json:"syntax_second,omitempty"`
	// Steps executed by the VM plus the interpreter (to scale the number of repetitions; exact
	// only for a repetition that ran on its own).
	Steps int64 `json:"steps"`
	// Modules analysed.
	Modules int `json:"modules"`
	// RawCode: the same dump without renaming (informational: never part of a verdict).
	RawCode string `json:"-"`
	// Ran: the program was accepted and both backends were started.
	Ran bool `json:"ran"`
	// Lines of output written by the VM.
	VMLines int `json:"vm_lines"`
	// Extras: this repetition also ran its artefacts a second time (repohost.go has the third kind of extra run): VMRerun is what a second
	// VM built from the SAME compile output showed (outcome and effect log), TreeRerun what a second
	// interpreter run over the SAME analysed modules showed. Both must equal the first run of the
	// repetition (VMFirst / TreeFirst render the first run in the same form).
	Extras    bool   `json:"extras,omitempty"`
	VMReran   bool   `json:"vm_reran,omitempty"`
	VMRerun   string `json:"vm_rerun,omitempty"`
	TreeReran bool   `json:"tree_reran,omitempty"`
	TreeRerun string `json:"tree_rerun,omitempty"`
	// RepoHostVM: outcome and output of a full repetition (analyse, compile, run on the VM) with the
	// repository's own testing hosts instead of the harness hosts ("" unless requested).
	RepoHostVM string `json:"repohost_vm,omitempty"`
}

// VMFirst / TreeFirst render the first run of the repetition in the form of VMRerun / TreeRerun.
func (o *Observation) VMFirst() string   { return runRendering(o.VMOutcome, o.VMEffects) }
func (o *Observation) TreeFirst() string { return runRendering(o.TreeOutcome, o.TreeEffects) }

func runRendering(outcome, effects string) string {
	return "outcome: " + outcome + "\n" + effects
}

// Get returns a component by name.
func (o *Observation) Get(name string) string {
	switch name {
	case "syntax":
		return o.Syntax
	case "diags":
		return o.Diags
	case "notes":
		return o.Notes
	case "vm-outcome":
		return o.VMOutcome
	case "vm-output":
		return o.VMOutput
	case "vm-hostcalls":
		return o.VMEffects
	case "tree-outcome":
		return o.TreeOutcome
	case "tree-output":
		return o.TreeOutput
	case "tree-hostcalls":
		return o.TreeEffects
	case "code":
		return o.Code
	case "init-order":
		return o.InitOrder
	case "repohost-vm":
		return o.RepoHostVM
	}
	return ""
}

// Hash of all compared components.
func (o *Observation) Hash() string {
	parts := make([]any, 0, len(components))
	for _, c := range components {
		parts = append(parts, o.Get(c))
	}
	return fw.HashOf(parts...)
}

// Diff returns the name of the first differing component ("" when equal).
func (o *Observation) Diff(p *Observation) string {
	for _, c := range components {
		if o.Differs(p, c) {
			return c
		}
	}
	return ""
}

// ObsOpts configures one repetition.
type ObsOpts struct {
	Templates  bool // offer the harness templates (module "c14templ") to the analyzer
	TreeBudget int64
	NoTree     bool // the program uses constructs the interpreter does not implement by design
	NoRun      bool // only analyse and compile
	InitOrder  bool // record the order of module initialiser calls
	RepoHost   bool // the extra runs include a repetition with the repository's own testing hosts
	// extras: run the artefacts of this repetition a second time (set by Observe: the first repetition
	// of a case and the first one of every fresh process)
	extras bool
}

func spanStr(s herrors.Span) string {
	return fmt.Sprintf("%s:%d:%d-%d:%d", s.Filename, s.Start.Line, s.Start.Column, s.End.Line, s.End.Column)
}

func diagLines(diags []diagnostic.Diagnostic, notes bool) []string {
	out := make([]string, 0, len(diags))
	for _, d := range diags {
		l := fmt.Sprintf("%d|%s|%s", d.Level, d.Message, spanStr(d.Span))
		if notes {
			l += "|" + strings.Join(d.Notes, "\x1f")
		}
		out = append(out, l)
	}
	sort.Strings(out)
	return out
}

func analyze(src drive.Sources, templates bool) drive.AnalyzeOut {
	h := &drive.Host{Src: src}
	if templates {
		h.ExtraImports = templateImports()
	}
	return drive.AnalyzeWith(h, src, "main", true)
}

// prepared is a repetition whose sequential part (analyses, compilation, interpreter run) is
// done; the VM run is still pending.
type prepared struct {
	ob    Observation
	out   compiler.CompileOutput
	runVM bool
	// extras: second runs requested; repo: the program compiled with the repository's testing hosts
	extras     bool
	repo       *repoPrepared
	stepsFirst int64 // VM steps after the first run (exact when the repetition ran on its own)
}

// prepare performs the sequential part of a repetition: a fresh analysis feeding the
// interpreter, a second fresh analysis feeding the compiler. Nothing is shared between
// repetitions.
func prepare(src drive.Sources, o ObsOpts) *prepared {
	p := &prepared{extras: o.extras}
	ob := &p.ob
	ob.Extras = o.extras
	if o.extras && o.RepoHost && !o.NoRun {
		p.repo = prepareRepoHost(src)
	}
	a1 := analyze(src, o.Templates)
	a2 := analyze(src, o.Templates)
	ob.Modules = len(a2.Modules)
	var syn []string
	var synOf [2]string
	for i, a := range []drive.AnalyzeOut{a1, a2} {
		var own []string
		for _, s := range a.Syntax {
			own = append(own, fmt.Sprintf("%d|%s|%s", s.Kind, s.Message, spanStr(s.Span)))
		}
		sort.Strings(own)
		synOf[i] = strings.Join(own, "\n")
		syn = append(syn, own...)
	}
	sort.Strings(syn)
	ob.Syntax = strings.Join(syn, "\n")
	ob.SyntaxFirst, ob.SyntaxSecond = synOf[0], synOf[1]
	ob.Diags = strings.Join(diagLines(a1.Diags, false), "\n")
	ob.Notes = strings.Join(diagLines(a1.Diags, true), "\n")
	// the two analyses are two samples of the same thing: they must agree with each other too
	if d2 := strings.Join(diagLines(a2.Diags, false), "\n"); d2 != ob.Diags {
		ob.IntraDiags = d2
	}
	if n2 := strings.Join(diagLines(a2.Diags, true), "\n"); n2 != ob.Notes {
		ob.IntraNotes = n2
	}
	if a1.Errors > 0 || a2.Errors > 0 {
		if (a1.Errors > 0) != (a2.Errors > 0) {
			ob.VMOutcome = fmt.Sprintf("acceptance differs between two analyses: %d vs %d errors", a1.Errors, a2.Errors)
		}
		return p
	}
	out, err := drive.Compile(a2.Modules, "main")
	if err != nil {
		ob.Code = "compile-error: " + err.Error()
		ob.VMOutcome = ob.Code
		return p
	}
	var initOrder string
	ob.RawCode, ob.Code, initOrder = CanonCode(out)
	if o.InitOrder {
		ob.InitOrder = initOrder
	}
	if o.NoRun {
		return p
	}
	ob.Ran = true
	if !o.NoTree {
		tr := drive.RunTree(a1.Modules, src, "main", drive.TreeOpts{StepBudget: o.TreeBudget})
		ob.TreeEffects = tr.Log.Render()
		ob.TreeOutput = tr.Log.Output()
		ob.Steps += tr.Steps
		ob.TreeOutcome = outcomeStr(tr.Outcome.Class, tr.Outcome.Kind, tr.Outcome.Message, tr.Outcome.Span, tr.Outcome.HasSpan)
		if o.extras {
			// analysed once, interpreted twice
			tr2 := drive.RunTree(a1.Modules, src, "main", drive.TreeOpts{StepBudget: o.TreeBudget})
			ob.TreeReran = true
			ob.TreeRerun = runRendering(outcomeStr(tr2.Outcome.Class, tr2.Outcome.Kind, tr2.Outcome.Message, tr2.Outcome.Span, tr2.Outcome.HasSpan), tr2.Log.Render())
		}
	}
	p.out, p.runVM = out, true
	return p
}

// finish runs the compiled program on the VM (the step hook must be installed).
func (p *prepared) finish(src drive.Sources) {
	if p.repo != nil {
		defer func() { p.ob.RepoHostVM = p.repo.run() }()
	}
	if !p.runVM {
		return
	}
	vmOut, log := runVM(p.out, src)
	p.ob.VMEffects = log.Render()
	p.ob.VMOutput = log.Output()
	p.ob.VMOutcome = vmOut
	p.ob.VMLines = strings.Count(p.ob.VMOutput, "\n")
	p.stepsFirst = vmSteps.Load()
	if p.extras {
		// compiled once, run by two VMs one after the other
		vmOut2, log2 := runVM(p.out, src)
		p.ob.VMReran = true
		p.ob.VMRerun = runRendering(vmOut2, log2.Render())
	}
}

// The VM step hook is process-global; one counter and one budget serve all VMs that run
// concurrently (non-termination is decided by steps, not by time).
var vmSteps atomic.Int64

func installStepHook(budget int64) func() {
	vmSteps.Store(0)
	runtime.VerifStep = func(c *runtime.Core) {
		if vmSteps.Add(1) > budget {
			panic(fw.StepBudgetMsg)
		}
	}
	return func() { runtime.VerifStep = nil }
}

// Observe performs one repetition on its own.
func Observe(src drive.Sources, o ObsOpts) Observation {
	o.extras = true
	p := prepare(src, o)
	done := installStepHook(3 * 20_000_000)
	p.finish(src)
	done()
	p.ob.Steps += p.stepsFirst
	return p.ob
}

// ObserveMany performs k repetitions: the analyses, compilations and interpreter runs one after
// the other, the k VM runs concurrently (VM.Wait polls with a 5 ms sleep, so a VM run is mostly
// idle time; the VMs share nothing but the process).
func ObserveMany(src drive.Sources, o ObsOpts, k int) []Observation {
	ps := make([]*prepared, k)
	o.extras = false // the second runs belong to the repetitions that run on their own (Observe)
	for i := range ps {
		ps[i] = prepare(src, o)
	}
	done := installStepHook(20_000_000 * int64(k))
	var wg sync.WaitGroup
	for _, p := range ps {
		wg.Add(1)
		go func(p *prepared) {
			defer wg.Done()
			p.finish(src)
		}(p)
	}
	wg.Wait()
	done()
	out := make([]Observation, k)
	for i, p := range ps {
		out[i] = p.ob
	}
	return out
}

func outcomeStr(class, kind, msg string, span herrors.Span, hasSpan bool) string {
	s := class
	if kind != "" {
		s += "/" + kind
	}
	if class == "ok" {
		return s
	}
	s += ": " + msg
	if hasSpan {
		s += " @" + spanStr(span)
	}
	return s
}

// runVM runs a compiled program on the VM and returns the full outcome (the message of a fatal
// error keeps its stack trace: the trace is host-visible text).
func runVM(prog compiler.CompileOutput, src drive.Sources) (string, *drive.Log) {
	log := &drive.Log{}
	ctx, cancel := context.WithCancel(context.Background())
	defer cancel()
	exec := drive.VMExec{L: log, Src: src}
	var cf context.CancelFunc = cancel
	vm := runtime.NewVM(prog, exec, &ctx, &cf, exec.VMScope(), drive.DefaultLimits)
	vm.SpawnAsync(runtime.MainFn(), nil, nil, nil)
	_, i := vm.Wait()
	if i == nil {
		return "ok", log
	}
	oc := drive.VMOutcome(i)
	msg := (*i).Message()
	if f, ok := (*i).(vvalue.VmFatalException); ok {
		msg = f.MessageInternal
	}
	return outcomeStr(oc.Class, oc.Kind, msg, oc.Span, oc.HasSpan), log
}

// ---------------------------------------------------------------------------------------------
// Canonical dump of the compiler output
// ---------------------------------------------------------------------------------------------

var lambdaRe = regexp.MustCompile(`^@(.*)_\$lambda_([0-9]+)$`)
var lambdaUseRe = regexp.MustCompile(`@[A-Za-z0-9_]+_\$lambda_[0-9]+`)

// CanonCode renders a compile output: functions sorted by mangled name, one instruction per line,
// then the mangle mappings, annotations and the source map, all in sorted order. `norm` replaces
// the names of globals (which carry a counter shared by all modules: `@mod_name<cnt>`) by G<k> in
// the order of first occurrence and renumbers function literals per module, so that a mere
// renumbering is not reported as a difference; the calls of the module initialisers are listed
// sorted (their order is the separate component init-order).
func CanonCode(out compiler.CompileOutput) (raw, norm, initOrder string) {
	names := make([]string, 0, len(out.Functions))
	for n := range out.Functions {
		names = append(names, n)
	}
	sort.Strings(names)
	// function literals are named @<module>_$lambda_<n> with one counter shared by all modules:
	// renumber them per module in the order of their counters
	lam := map[string]string{}
	perMod := map[string][]string{}
	for _, n := range names {
		if m := lambdaRe.FindStringSubmatch(n); m != nil {
			perMod[m[1]] = append(perMod[m[1]], n)
		}
	}
	for mod, ls := range perMod {
		sort.Slice(ls, func(i, j int) bool {
			a, _ := strconv.Atoi(lambdaRe.FindStringSubmatch(ls[i])[2])
			b, _ := strconv.Atoi(lambdaRe.FindStringSubmatch(ls[j])[2])
			return a < b
		})
		for i, n := range ls {
			lam[n] = fmt.Sprintf("%s$lambda#%d", mod, i)
		}
	}
	lamName := func(s string) string {
		if len(lam) == 0 || !strings.Contains(s, "$lambda_") {
			return s
		}
		return lambdaUseRe.ReplaceAllStringFunc(s, func(m string) string {
			if r, ok := lam[m]; ok {
				return r
			}
			return m
		})
	}
	normNames := append([]string{}, names...)
	sort.Slice(normNames, func(i, j int) bool { return lamName(normNames[i]) < lamName(normNames[j]) })
	ren := map[string]string{}
	rename := func(s string) string {
		if r, ok := ren[s]; ok {
			return r
		}
		r := fmt.Sprintf("G%d", len(ren))
		ren[s] = r
		return r
	}
	var rb, nb strings.Builder
	srcMap := func(n string) string {
		sm, ok := out.SourceMap[n]
		if !ok {
			return "  SOURCEMAP missing\n"
		}
		var sb strings.Builder
		for _, s := range sm {
			sb.WriteString(spanStr(s))
			sb.WriteByte(' ')
		}
		return fmt.Sprintf("  SOURCEMAP %s\n", sb.String())
	}
	for _, n := range names {
		fmt.Fprintf(&rb, "FUNCTION %s\n", n)
		for idx, in := range out.Functions[n] {
			fmt.Fprintf(&rb, "  %04d %s\n", idx, in.String())
		}
		rb.WriteString(srcMap(n))
	}
	for _, n := range normNames {
		fmt.Fprintf(&nb, "FUNCTION %s\n", lamName(n))
		var initRun []string // a run of consecutive calls of module initialisers
		flush := func() {
			if len(initRun) == 0 {
				return
			}
			initOrder += n + ": " + strings.Join(initRun, " ") + "\n"
			sorted := append([]string{}, initRun...)
			sort.Strings(sorted)
			for _, s := range sorted {
				fmt.Fprintf(&nb, "  init Call_Imm(%s)\n", s)
			}
			initRun = nil
		}
		for idx, in := range out.Functions[n] {
			switch v := in.(type) {
			case compiler.OneStringInstruction:
				switch v.Opcode() {
				case compiler.Opcode_GetGlobImm, compiler.Opcode_SetGlobImm:
					flush()
					fmt.Fprintf(&nb, "  %04d %s(%s)\n", idx, v.Opcode(), rename(v.Value))
					continue
				case compiler.Opcode_Call_Imm:
					if strings.HasSuffix(n, "_"+compiler.InitFunctionIdent) && strings.HasSuffix(v.Value, "_"+compiler.InitFunctionIdent) {
						initRun = append(initRun, v.Value)
						continue
					}
				}
			}
			flush()
			fmt.Fprintf(&nb, "  %04d %s\n", idx, lamName(in.String()))
		}
		flush()
		nb.WriteString(srcMap(n))
	}
	for _, n := range drive.SortedKeys(out.SourceMap) {
		if _, ok := out.Functions[n]; !ok {
			fmt.Fprintf(&rb, "SOURCEMAP-ONLY %s\n", n)
			fmt.Fprintf(&nb, "SOURCEMAP-ONLY %s\n", n)
		}
	}
	dumpMap := func(title string, m map[string]string, renameVals bool) {
		for _, k := range drive.SortedKeys(m) {
			fmt.Fprintf(&rb, "%s %s -> %s\n", title, k, m[k])
			v := m[k]
			if renameVals {
				if r, ok := ren[v]; ok {
					v = r
				} else {
					v = "unreferenced"
				}
			}
			fmt.Fprintf(&nb, "%s %s -> %s\n", title, k, v)
		}
	}
	lamMap := map[string]string{}
	for k, v := range out.Mappings.Functions {
		lamMap[lamName("@main_"+k)] = lamName(v)
	}
	for _, k := range drive.SortedKeys(out.Mappings.Functions) {
		fmt.Fprintf(&rb, "MAP-FN %s -> %s\n", k, out.Mappings.Functions[k])
	}
	for _, k := range drive.SortedKeys(lamMap) {
		fmt.Fprintf(&nb, "MAP-FN %s -> %s\n", k, lamMap[k])
	}
	dumpMap("MAP-GLOB", out.Mappings.Globals, true)
	dumpMap("MAP-SINGLETON", out.Mappings.Singletons, true)
	var anns []string
	for k, v := range out.Annotations {
		anns = append(anns, fmt.Sprintf("ANNOTATION %s.%s %+v", k.Module, k.UnmangledFunction, v.Items))
	}
	sort.Strings(anns)
	for _, a := range anns {
		rb.WriteString(a + "\n")
		nb.WriteString(a + "\n")
	}
	return rb.String(), nb.String(), initOrder
}

// ---------------------------------------------------------------------------------------------
// Harness templates: more capabilities and methods than the testing host's FooFeature, so that
// impl blocks have several capabilities, several conflicts and several required methods.
// ---------------------------------------------------------------------------------------------

// TemplModule is the builtin module name that serves the harness templates.
const TemplModule = "c14templ"

func templMethod(params []ast.FunctionTypeParam, ret ast.Type) ast.TemplateMethod {
	sp := herrors.Span{}
	return ast.TemplateMethod{
		Signature: ast.FunctionType{
			Params:     ast.NewNormalFunctionTypeParamKind(params),
			ParamsSpan: sp,
			ReturnType: ret,
			Range:      sp,
		},
		Modifier: pAst.FN_MODIFIER_NONE,
	}
}

func templParam(name string, t ast.Type) ast.FunctionTypeParam {
	return ast.FunctionTypeParam{Name: pAst.NewSpannedIdent(name, herrors.Span{}), Type: t}
}

func conflicts(names ...string) []ast.TemplateConflict {
	out := make([]ast.TemplateConflict, 0, len(names))
	for _, n := range names {
		out = append(out, ast.TemplateConflict{ConflictingCapability: n})
	}
	return out
}

// templateImports offers the template `Multi` (module c14templ):
//
//	capabilities  onoff    requires set_power(state: bool) -> bool
//	              dim      requires set_level(percent: int) -> bool, get_level() -> int; conflicts with heat
//	              heat     requires set_temp(celsius: float); conflicts with dim, cool
//	              cool     requires set_cool(celsius: float); conflicts with heat
//	              color    requires set_rgb(r: int, g: int, b: int) -> str; conflicts with mono
//	              mono     requires set_white(k: int); conflicts with color (one-directional chain: mono -> color -> nothing further)
//	              report   requires describe() -> str, get_level() -> int
func templateImports() map[string]map[string]analyzer.BuiltinImport {
	sp := herrors.Span{}
	i, f, b, s, n := ast.NewIntType(sp), ast.NewFloatType(sp), ast.NewBoolType(sp), ast.NewStringType(sp), ast.NewNullType(sp)
	spec := &ast.TemplateSpec{
		BaseMethods: map[string]ast.TemplateMethod{
			"set_power": templMethod([]ast.FunctionTypeParam{templParam("state", b)}, b),
			"set_level": templMethod([]ast.FunctionTypeParam{templParam("percent", i)}, b),
			"get_level": templMethod([]ast.FunctionTypeParam{}, i),
			"set_temp":  templMethod([]ast.FunctionTypeParam{templParam("celsius", f)}, n),
			"set_cool":  templMethod([]ast.FunctionTypeParam{templParam("celsius", f)}, n),
			"set_rgb":   templMethod([]ast.FunctionTypeParam{templParam("r", i), templParam("g", i), templParam("b", i)}, s),
			"set_white": templMethod([]ast.FunctionTypeParam{templParam("k", i)}, n),
			"describe":  templMethod([]ast.FunctionTypeParam{}, s),
		},
		Capabilities: map[string]ast.TemplateCapability{
			"onoff":  {RequiresMethods: []string{"set_power"}},
			"dim":    {RequiresMethods: []string{"set_level", "get_level"}, ConflictsWithCapabilities: conflicts("heat")},
			"heat":   {RequiresMethods: []string{"set_temp"}, ConflictsWithCapabilities: conflicts("dim", "cool")},
			"cool":   {RequiresMethods: []string{"set_cool"}, ConflictsWithCapabilities: conflicts("heat")},
			"color":  {RequiresMethods: []string{"set_rgb"}},
			"mono":   {RequiresMethods: []string{"set_white"}, ConflictsWithCapabilities: conflicts("color")},
			"report": {RequiresMethods: []string{"describe", "get_level"}},
		},
		DefaultCapabilities: []string{},
		Span:                sp,
	}
	return map[string]map[string]analyzer.BuiltinImport{
		TemplModule: {"Multi": analyzer.BuiltinImport{Template: spec}, "Sensor": analyzer.BuiltinImport{Template: sensorSpec()}},
	}
}

// sensorSpec builds the template `Sensor` (module c14templ) from the table the generator of the
// implerr family uses (gen_implerr.go: sensorTempl): capabilities that require two or three methods
// each, methods that require the `pub` / `event` modifier, a default capability.
func sensorSpec() *ast.TemplateSpec {
	sp := herrors.Span{}
	typeOf := func(name string) ast.Type {
		switch name {
		case "int":
			return ast.NewIntType(sp)
		case "float":
			return ast.NewFloatType(sp)
		case "bool":
			return ast.NewBoolType(sp)
		case "str":
			return ast.NewStringType(sp)
		case "[float]":
			return ast.NewListType(ast.NewFloatType(sp), sp)
		case "":
			return ast.NewNullType(sp)
		}
		panic("c14: unknown type name in template table: " + name)
	}
	t := sensorTempl
	spec := &ast.TemplateSpec{
		BaseMethods:         map[string]ast.TemplateMethod{},
		Capabilities:        map[string]ast.TemplateCapability{},
		DefaultCapabilities: append([]string{}, t.Defaults...),
		Span:                sp,
	}
	for _, name := range sortedMethodNames(t) {
		m := t.Methods[name]
		params := make([]ast.FunctionTypeParam, 0, len(m.Params))
		for _, p := range m.Params {
			params = append(params, templParam(p.Name, typeOf(p.Type)))
		}
		tm := templMethod(params, typeOf(m.Ret))
		switch m.Mod {
		case "pub":
			tm.Modifier = pAst.FN_MODIFIER_PUB
		case "event":
			tm.Modifier = pAst.FN_MODIFIER_EVENT
		}
		spec.BaseMethods[name] = tm
	}
	for _, c := range t.Caps {
		spec.Capabilities[c] = ast.TemplateCapability{
			RequiresMethods:           append([]string{}, t.CapMethods[c]...),
			ConflictsWithCapabilities: conflicts(t.Conflicts[c]...),
		}
	}
	return spec
}
