package c14

import (
	"fmt"
	"sort"
	"strings"

	"github.com/smarthome-go/homescript/v3/homescript/lexer"
	"github.com/smarthome-go/homescript/v3/homescript/parser"

	"hv/fw"
)

// ---------------------------------------------------------------------------------------------
// Families whose FIRST run can leave something behind in the process that a later repetition of
// the same sources could observe ("results never depend on earlier runs in the same process").
//
// The check repeats analyse + compile + run of one program in one process; the families of gen.go
// are built for map order and only ever read what they create. A process-wide leftover needs a
// program that either
//
//   - writes THROUGH a storage cell it did not create itself (family `cells`): the runtime hands out
//     values for singleton defaults, for the result of a cast, for decoded JSON, for "nothing there"
//     results of builtins; if any of these is shared between calls (an interned `none`, a shared
//     empty list, a shared zero object), an in-place write (`o.f = ?x`, `o.f.push(x)`, `o.f += x`,
//     `o.f.g = x`) changes what every later producer of that value hands out — in the rest of the run
//     and in every later repetition; or
//   - presents the same module text to the analyser again (family `synerr`): anything memoised per
//     module (name, text) must reproduce ALL results of the first time — the tree, but also the
//     recoverable syntax errors and the diagnostics of that module. Syntax errors are the results
//     that no other family produces at all (every other generated program is syntactically valid).
// ---------------------------------------------------------------------------------------------

const (
	TagCellSingleton = "cell-singleton"   // in-place writes to fields of a singleton that has its default value
	TagCellCast      = "cell-cast"        // ... of an object produced by a runtime cast
	TagCellJSON      = "cell-json"        // ... of an object decoded from JSON
	TagCellImported  = "cell-imported"    // ... of a singleton owned by an imported module
	TagCellVariable  = "cell-variable"    // in-place writes to globals / locals that start as `none` / empty
	TagSynRecover    = "syn-recoverable"  // recoverable syntax errors (the parser goes on)
	TagSynCritical   = "syn-critical"     // a syntax error that ends the parse of its module
	TagSynImported   = "syn-in-imported"  // damage in an imported module
	TagSynEntry      = "syn-in-entry"     // damage in the entry module
	TagSynShared     = "syn-in-shared"    // damage in a module that two or more modules import
	TagSynWellFormed = "syn-control-none" // control: the same program shape without damage
)

// ---------------------------------------------------------------------------------------------
// Family: cells
// ---------------------------------------------------------------------------------------------

// cellKind is one field type of the records of the cells family.
type cellKind struct {
	name string
	typ  string
	opt  bool
	// jsonZero: renderings of "nothing there yet" in JSON (null / empty / zero)
	jsonZero []string
	// lit renders a literal of the same state for an object literal; z is the name of a typed `none` local
	lit func(z string) string
	// zType: type of the typed `none` local the literal needs ("" = none needed)
	zType string
	// mut renders statements that change the field in place through the path p
	mut func(p string, k int) []string
}

var cellKinds = []cellKind{
	{name: "oi", typ: "?int", opt: true, jsonZero: []string{"null"}, zType: "?int",
		lit: func(z string) string { return z },
		mut: func(p string, k int) []string { return []string{fmt.Sprintf("%s = ?%d;", p, k)} }},
	{name: "os", typ: "?str", opt: true, jsonZero: []string{"null"}, zType: "?str",
		lit: func(z string) string { return z },
		mut: func(p string, k int) []string { return []string{fmt.Sprintf("%s = ?\"t%d\";", p, k)} }},
	{name: "oo", typ: "?Reading", opt: true, jsonZero: []string{"null"}, zType: "?Reading",
		lit: func(z string) string { return z },
		mut: func(p string, k int) []string {
			return []string{fmt.Sprintf("%s = ?new { value: %d, unit: \"C\" };", p, k)}
		}},
	{name: "ol", typ: "?[int]", opt: true, jsonZero: []string{"null"}, zType: "?[int]",
		lit: func(z string) string { return z },
		mut: func(p string, k int) []string { return []string{fmt.Sprintf("%s = ?[%d, %d];", p, k, k+1)} }},
	{name: "li", typ: "[int]", jsonZero: []string{"[]", "[1]"},
		lit: func(z string) string { return "[1]" },
		mut: func(p string, k int) []string { return []string{fmt.Sprintf("%s.push(%d);", p, k)} }},
	{name: "lo", typ: "[?int]", jsonZero: []string{"[]", "[null]", "[null, 2]"}, zType: "?int",
		lit: func(z string) string { return "[" + z + "]" },
		mut: func(p string, k int) []string { return []string{fmt.Sprintf("%s.push(?%d);", p, k)} }},
	{name: "s", typ: "str", jsonZero: []string{"\"\"", "\"s\""},
		lit: func(z string) string { return "\"\"" },
		mut: func(p string, k int) []string { return []string{fmt.Sprintf("%s += \"x%d\";", p, k)} }},
	{name: "i", typ: "int", jsonZero: []string{"0"},
		lit: func(z string) string { return "0" },
		mut: func(p string, k int) []string { return []string{fmt.Sprintf("%s += %d;", p, k)} }},
	{name: "f", typ: "float", jsonZero: []string{"0.5"},
		lit: func(z string) string { return "0.5" },
		mut: func(p string, k int) []string { return []string{fmt.Sprintf("%s += %d.5;", p, k)} }},
	{name: "b", typ: "bool", jsonZero: []string{"false"},
		lit: func(z string) string { return "false" },
		mut: func(p string, k int) []string { return []string{fmt.Sprintf("%s = !%s;", p, p)} }},
	{name: "n", typ: "{ a: ?str, b: int }", jsonZero: []string{"{\"a\": null, \"b\": 2}"}, zType: "?str",
		lit: func(z string) string { return "new { a: " + z + ", b: 2 }" },
		mut: func(p string, k int) []string {
			return []string{fmt.Sprintf("%s.a = ?\"n%d\";", p, k), fmt.Sprintf("%s.b += %d;", p, k)}
		}},
}

type cellField struct {
	name string
	kind cellKind
}

type cellRec struct{ fields []cellField }

func (c cellRec) typ() string {
	parts := make([]string, len(c.fields))
	for i, f := range c.fields {
		parts[i] = f.name + ": " + f.kind.typ
	}
	return "{ " + strings.Join(parts, ", ") + " }"
}

func (c cellRec) json(r *fw.Rng) string {
	parts := make([]string, len(c.fields))
	for i, f := range c.fields {
		parts[i] = fmt.Sprintf("\"%s\": %s", f.name, fw.Pick(r, f.kind.jsonZero))
	}
	return "{" + strings.Join(parts, ", ") + "}"
}

// mutate renders in-place writes to a non-empty random subset of the fields through the object
// expression obj (field 0 always, every other option field with probability 3/4, the rest with 1/4).
func (c cellRec) mutate(r *fw.Rng, obj string, k int, ind string) string {
	var b sb
	for i, f := range c.fields {
		p := 1
		if f.kind.opt {
			p = 3
		}
		if !r.Chance(p, 4) && i != 0 {
			continue // (field 0, an option, is always written)
		}
		for _, st := range f.kind.mut(obj+"."+f.name, k+i) {
			b.f("%s%s\n", ind, st)
		}
	}
	return b.String()
}

func newCellRec(r *fw.Rng) cellRec {
	n := 3 + r.Intn(5)
	names := pickN(r, fieldPool, n)
	var c cellRec
	for i, nm := range names {
		var k cellKind
		switch i {
		case 0:
			k = cellKinds[r.Intn(4)] // at least one option
		case 1:
			k = fw.Pick(r, []cellKind{cellKinds[4], cellKinds[5], cellKinds[10]}) // and one container
		default:
			k = cellKinds[r.Intn(len(cellKinds))]
		}
		c.fields = append(c.fields, cellField{name: nm, kind: k})
	}
	return c
}

// famCells: objects whose storage comes from the runtime (singleton defaults, casts, decoded JSON)
// are printed, written in place and printed again; producers of "nothing" (`last()` / `pop()` of an
// empty list, a missing any-object member, JSON null, a `none` literal) are printed at the start,
// in between and at the end. A repetition that starts from anything but the pristine state prints
// something else than the first one.
func famCells(r *fw.Rng, p Poison) Built {
	var b sb
	src := map[string]string{}
	rec := newCellRec(r)
	tags := []string{}
	kinds := pickN(r, []string{"singleton", "singleton-param", "json", "cast-json", "cast-lit", "json-list", "imported", "global", "local"}, 2+r.Intn(3))
	imported := contains(kinds, "imported")
	if imported {
		// a module that owns a singleton and writes to it on behalf of the importer
		srec := newCellRec(r)
		var m sb
		m.f("type Reading = { value: int, unit: str };\n")
		m.f("$Store = %s;\n", srec.typ())
		m.f("pub fn record(k: int) {\n%s    println(\"store\", k, $Store);\n}\n", srec.mutate(r, "$Store", 30, "    "))
		m.f("pub fn peek() -> %s {\n    println(\"peek\", $Store);\n    $Store.%s\n}\n", srec.fields[0].kind.typ, srec.fields[0].name)
		m.f("fn main() {}\n")
		src["store"] = m.String()
		b.f("import { record, peek } from store;\n")
		tags = append(tags, TagCellImported, TagMultiModule)
	}
	b.f("type Reading = { value: int, unit: str };\n")
	b.f("type Rec = %s;\n", rec.typ())
	optKind := rec.fields[0].kind // an option type
	if contains(kinds, "global") {
		b.f("let g_opt: %s = none;\nlet g_list: [?int] = [];\nlet g_text = \"\";\n", optKind.typ)
		tags = append(tags, TagCellVariable)
	}
	if contains(kinds, "singleton") || contains(kinds, "singleton-param") {
		b.f("$Cell = %s;\n", rec.typ())
		tags = append(tags, TagCellSingleton)
	}
	b.f("fn fresh(tag: str) {\n    let e: [int] = [];\n    let es: [str] = [];\n    let ao = new { ? };\n")
	b.f("    println(tag, e.last(), e.pop(), es.last(), ao.get(\"nope\"));\n")
	b.f("    let j: { ? } = '{\"k\": null, \"l\": [null, 1], \"m\": {\"z\": null}}'.parse_json();\n    println(tag, j, j.get(\"k\"));\n")
	b.f("    let n: ?int = none;\n    let m: ?Reading = none;\n    println(tag, n, m, n.is_none(), m.is_some());\n}\n")
	b.f("fn touch(o: Rec, k: int) {\n%s    println(\"in touch\", k);\n}\n", rec.mutate(r, "o", 50, "    "))
	if contains(kinds, "singleton-param") {
		b.f("fn touch_cell(s: $Cell, k: int) {\n%s    println(\"in touch_cell\", k, s);\n}\n", rec.mutate(r, "s", 60, "    "))
	}
	b.f("fn main() {\n    fresh(\"start\");\n")
	// write renders print / write in place / print for an object expression
	write := func(label, obj string, k int, viaParam bool) {
		b.f("    println(\"%s before\", %s);\n", label, obj)
		form := r.Intn(3)
		if form == 2 && !viaParam {
			form = 0
		}
		switch form {
		case 0:
			b.f("%s", rec.mutate(r, obj, k, "    "))
		case 1:
			b.f("    for round in 0..2 {\n%s    }\n", rec.mutate(r, obj, k, "        "))
		default:
			b.f("    touch(%s, %d);\n", obj, k)
		}
		b.f("    println(\"%s after\", %s, %s.%s);\n", label, obj, obj, rec.fields[0].name)
		if r.Chance(1, 3) {
			b.f("    fresh(\"after %s\");\n", label)
		}
	}
	for si, kind := range kinds {
		k := (si + 1) * 100
		switch kind {
		case "singleton":
			write("singleton", "$Cell", k, false)
		case "singleton-param":
			b.f("    println(\"singleton-param before\", $Cell);\n    touch_cell(%d);\n    println(\"singleton-param after\", $Cell);\n", k)
		case "json":
			tags = append(tags, TagCellJSON)
			b.f("    let j%d: Rec = '%s'.parse_json();\n", si, rec.json(r))
			write("json", fmt.Sprintf("j%d", si), k, true)
		case "json-list":
			tags = append(tags, TagCellJSON)
			b.f("    let jl%d: [Rec] = '[%s, %s]'.parse_json();\n", si, rec.json(r), rec.json(r))
			write("json-list", fmt.Sprintf("jl%d[%d]", si, r.Intn(2)), k, true)
			b.f("    println(\"json-list all\", jl%d);\n", si)
		case "cast-json":
			tags = append(tags, TagCellCast)
			b.f("    let h%d: { ? } = '{\"o\": %s}'.parse_json();\n", si, rec.json(r))
			if r.Bool() {
				b.f("    let c%d = h%d.get(\"o\").unwrap() as Rec;\n", si, si)
			} else {
				b.f("    let c%d: Rec = h%d.get(\"o\").unwrap();\n", si, si)
			}
			write("cast-json", fmt.Sprintf("c%d", si), k, true)
			b.f("    println(\"cast-json source\", h%d);\n", si)
		case "cast-lit":
			tags = append(tags, TagCellCast)
			var parts []string
			for fi, f := range rec.fields {
				z := fmt.Sprintf("z%d_%d", si, fi)
				if f.kind.zType != "" {
					b.f("    let %s: %s = none;\n", z, f.kind.zType)
				}
				parts = append(parts, f.name+": "+f.kind.lit(z))
			}
			b.f("    let h%d = new { ? };\n    h%d.set(\"o\", new { %s });\n", si, si, strings.Join(parts, ", "))
			b.f("    let c%d = h%d.get(\"o\").unwrap() as Rec;\n", si, si)
			write("cast-lit", fmt.Sprintf("c%d", si), k, true)
			b.f("    println(\"cast-lit source\", h%d);\n", si)
		case "global":
			b.f("    println(\"global before\", g_opt, g_list, g_text);\n")
			for _, st := range optKind.mut("g_opt", k) {
				b.f("    %s\n", st)
			}
			b.f("    g_list.push(?%d);\n    g_text += \"g%d\";\n", k, k)
			b.f("    println(\"global after\", g_opt, g_list, g_text);\n")
		case "local":
			tags = append(tags, TagCellVariable)
			b.f("    let l_opt%d: %s = none;\n    let l_list%d: [?int] = [];\n", si, optKind.typ, si)
			b.f("    println(\"local before\", l_opt%d, l_list%d);\n", si, si)
			for _, st := range optKind.mut(fmt.Sprintf("l_opt%d", si), k) {
				b.f("    %s\n", st)
			}
			b.f("    l_list%d.push(?%d);\n    println(\"local after\", l_opt%d, l_list%d);\n", si, k, si, si)
		case "imported":
			b.f("    println(\"imported before\", peek());\n    record(%d);\n    println(\"imported after\", peek());\n", k)
		}
	}
	b.f("    fresh(\"end\");\n}\n")
	src["main"] = b.String()
	return Built{Fam: "cells", Src: src, Tags: uniq(tags)}
}

func uniq(xs []string) []string {
	seen := map[string]bool{}
	var out []string
	for _, x := range xs {
		if !seen[x] {
			seen[x] = true
			out = append(out, x)
		}
	}
	return out
}

// ---------------------------------------------------------------------------------------------
// Family: synerr
// ---------------------------------------------------------------------------------------------

// slot is one line of a module of the synerr family: the well-formed text and, where the line can
// be damaged, its variants with a recoverable syntax error (a closing token or a semicolon is
// missing: the parser reports it and goes on) and with a critical one (the parse of the module
// ends there).
type slot struct {
	ok   string
	bad  []string
	crit []string
}

type synModule struct {
	name    string
	slots   []slot
	entry   bool
	sharers int // number of modules importing it
}

// bodySlots renders n statements of a function body that has an int local `v` and the function
// helper_<m>(x, y) in scope; u makes the local names unique within the module.
func bodySlots(r *fw.Rng, m string, u *int, n int) []slot {
	var out []slot
	for i := 0; i < n; i++ {
		*u++
		k, c := *u, r.Intn(90)+1
		var s slot
		switch r.Intn(11) {
		case 0:
			s = slot{ok: fmt.Sprintf("    let k%d = v + %d;", k, c), bad: []string{fmt.Sprintf("    let k%d = v + %d", k, c)},
				crit: []string{fmt.Sprintf("    let = v + %d;", c), fmt.Sprintf("    let k%d = ;", k)}}
		case 1:
			s = slot{ok: fmt.Sprintf("    let p%d = (v + %d) * 2;", k, c), bad: []string{fmt.Sprintf("    let p%d = (v + %d * 2;", k, c)},
				crit: []string{fmt.Sprintf("    let p%d = v + %d) * 2;", k, c)}}
		case 2:
			s = slot{ok: fmt.Sprintf("    let l%d = [v, %d];", k, c), bad: []string{fmt.Sprintf("    let l%d = [v, %d;", k, c), fmt.Sprintf("    let l%d = [v, %d]", k, c)}}
		case 3:
			s = slot{ok: fmt.Sprintf("    let c%d = helper_%s(v, %d);", k, m, c), bad: []string{fmt.Sprintf("    let c%d = helper_%s(v, %d;", k, m, c)},
				crit: []string{fmt.Sprintf("    let c%d = helper_%s(v %d);", k, m, c)}}
		case 4:
			s = slot{ok: fmt.Sprintf("    let e%d = [v, %d][0];", k, c), bad: []string{fmt.Sprintf("    let e%d = [v, %d][0;", k, c)}}
		case 5:
			s = slot{ok: fmt.Sprintf("    let t%d: [int] = [v];", k), bad: []string{fmt.Sprintf("    let t%d: [int = [v];", k)}}
		case 6:
			s = slot{ok: fmt.Sprintf("    let o%d = new { a: v, b: %d };", k, c), bad: []string{fmt.Sprintf("    let o%d = new { a: v, b: %d ;", k, c)}}
		case 7:
			s = slot{ok: fmt.Sprintf("    v += %d;", c), bad: []string{fmt.Sprintf("    v += %d", c)},
				crit: []string{fmt.Sprintf("    v += ;")}}
		case 8:
			s = slot{ok: fmt.Sprintf("    for i%d in 0..4 { if i%d == 1 { continue; } if i%d == 3 { break; } v += i%d; }", k, k, k, k),
				bad: []string{
					fmt.Sprintf("    for i%d in 0..4 { if i%d == 1 { continue } if i%d == 3 { break; } v += i%d; }", k, k, k, k),
					fmt.Sprintf("    for i%d in 0..4 { if i%d == 1 { continue; } if i%d == 3 { break } v += i%d; }", k, k, k, k)},
				crit: []string{fmt.Sprintf("    for i%d 0..4 { v += i%d; }", k, k)}}
		case 9:
			s = slot{ok: fmt.Sprintf("    let q%d: { a: int, b: str } = new { a: v, b: \"s\" };", k), bad: []string{fmt.Sprintf("    let q%d: { a: int, b: str } = new { a: v, b: \"s\" }", k)},
				crit: []string{fmt.Sprintf("    let q%d: { a: int, b: str = new { a: v, b: \"s\" };", k)}}
		default:
			s = slot{ok: fmt.Sprintf("    println(\"%s\", %d, v);", m, k), bad: []string{fmt.Sprintf("    println(\"%s\", %d, v;", m, k), fmt.Sprintf("    println(\"%s\", %d, v)", m, k)},
				crit: []string{fmt.Sprintf("    println(\"%s, %d, v);", m, k)}}
		}
		out = append(out, s)
	}
	return out
}

func plain(format string, a ...any) slot { return slot{ok: fmt.Sprintf(format, a...)} }

// famSynErr: a program of 3..5 modules (a shared leaf imported by every other module, so that its
// text is parsed several times per analysis) in which 1..4 lines of chosen modules carry syntax
// errors. The host rejects the program every time; the list of syntax errors, the diagnostics of
// the modules that were still analysed and the acceptance itself must be the same in every
// repetition.
func famSynErr(r *fw.Rng, p Poison) Built {
	b, _ := buildSynErr(r)
	return b
}

// synDamage counts the damaged lines of one module.
type synDamage struct{ Recoverable, Critical int }

func buildSynErr(r *fw.Rng) (Built, map[string]synDamage) {
	damage := map[string]synDamage{}
	nMid := 1 + r.Intn(3)
	midNames := pickN(r, []string{"lamps", "heating", "blinds", "power", "scenes"}, nMid)
	sort.Strings(midNames)
	var mods []*synModule
	u := 0
	// the shared leaf
	leaf := &synModule{name: "config", sharers: nMid}
	leaf.slots = append(leaf.slots,
		slot{ok: "let lvl = 5;", bad: []string{"let lvl = 5"}},
		slot{ok: "type Cfg = { a: int, b: str };", bad: []string{"type Cfg = { a: int, b: str }"}, crit: []string{"type = { a: int, b: str };", "type Cfg = { a: int, b: str ;"}},
		slot{ok: "fn helper_config(x: int, y: int) -> int {", bad: []string{"fn helper_config(x: int, y: int -> int {"}, crit: []string{"fn helper_config(x: int, y) -> int {", "fn (x: int, y: int) -> int {"}},
		plain("    x + y"), plain("}"),
		plain("pub fn base() -> int {"), plain("    let v = lvl;"))
	leaf.slots = append(leaf.slots, bodySlots(r, "config", &u, 2+r.Intn(4))...)
	leaf.slots = append(leaf.slots, plain("    let unused_config: Cfg = new { a: 1, b: \"s\" };"), plain("    v"), plain("}"), plain("fn main() {}"))
	mods = append(mods, leaf)
	for mi, m := range midNames {
		mod := &synModule{name: m, sharers: 1}
		mod.slots = append(mod.slots, slot{ok: "import { base } from config;", bad: []string{"import { base } from config", "import { base from config;"}, crit: []string{"import { base } config;"}})
		prev := ""
		if mi > 0 && r.Bool() {
			prev = midNames[r.Intn(mi)]
			mod.slots = append(mod.slots, slot{ok: fmt.Sprintf("import { get_%s } from %s;", prev, prev), bad: []string{fmt.Sprintf("import { get_%s } from %s", prev, prev)}})
			for _, o := range mods {
				if o.name == prev {
					o.sharers++
				}
			}
		}
		mod.slots = append(mod.slots,
			slot{ok: fmt.Sprintf("let g_%s = %d;", m, mi+2), bad: []string{fmt.Sprintf("let g_%s = %d", m, mi+2)}},
			slot{ok: fmt.Sprintf("fn helper_%s(x: int, y: int) -> int {", m), bad: []string{fmt.Sprintf("fn helper_%s(x: int, y: int -> int {", m)}},
			plain("    x * y"), plain("}"),
			plain("pub fn get_%s() -> int {", m), plain("    let v = base() + g_%s;", m))
		if prev != "" {
			mod.slots = append(mod.slots, slot{ok: fmt.Sprintf("    v += get_%s();", prev), bad: []string{fmt.Sprintf("    v += get_%s()", prev)}, crit: []string{fmt.Sprintf("    v += get_%s(;", prev)}})
		}
		mod.slots = append(mod.slots, bodySlots(r, m, &u, 2+r.Intn(4))...)
		mod.slots = append(mod.slots, plain("    let unused_%s = 1;", m),
			slot{ok: "    return v;", bad: []string{"    return v"}}, plain("}"), plain("fn main() {}"))
		mods = append(mods, mod)
	}
	entry := &synModule{name: "main", entry: true}
	direct := r.Bool()
	if direct {
		leaf.sharers++
		entry.slots = append(entry.slots, slot{ok: "import { base } from config;", bad: []string{"import { base } from config"}})
	}
	for _, m := range midNames {
		entry.slots = append(entry.slots, slot{ok: fmt.Sprintf("import { get_%s } from %s;", m, m), bad: []string{fmt.Sprintf("import { get_%s } from %s", m, m), fmt.Sprintf("import { get_%s from %s;", m, m)}})
	}
	entry.slots = append(entry.slots,
		slot{ok: "$State = { n: int, tag: str };", bad: []string{"$State = { n: int, tag: str }"}, crit: []string{"$State = { n: int, tag: str ;"}},
		slot{ok: "fn helper_main(x: int, y: int) -> int {", bad: []string{"fn helper_main(x: int, y: int -> int {"}},
		plain("    x - y"), plain("}"),
		plain("fn main() {"), plain("    let v = $State.n;"))
	if direct {
		entry.slots = append(entry.slots, plain("    v += base();"))
	}
	entry.slots = append(entry.slots, bodySlots(r, "main", &u, 2+r.Intn(4))...)
	for _, m := range midNames {
		entry.slots = append(entry.slots, slot{ok: fmt.Sprintf("    println(\"%s\", get_%s(), v);", m, m), bad: []string{fmt.Sprintf("    println(\"%s\", get_%s(), v;", m, m)}, crit: []string{fmt.Sprintf("    println(\"%s\", get_%s(, v);", m, m)}})
	}
	entry.slots = append(entry.slots, plain("    let unused_main = 2;"), plain("}"))
	mods = append(mods, entry)

	// where the damage goes
	var target []*synModule
	switch r.Intn(8) {
	case 0, 1, 2: // the module everybody imports
		target = []*synModule{leaf}
	case 3, 4: // one imported module that is not the leaf
		target = []*synModule{mods[1+r.Intn(nMid)]}
	case 5: // the entry module only
		target = []*synModule{entry}
	case 6: // imported modules and the entry
		target = []*synModule{leaf, mods[1+r.Intn(nMid)], entry}
	default: // control: no damage at all
	}
	tags := []string{TagMultiModule}
	if len(target) == 0 {
		tags = append(tags, TagSynWellFormed)
	}
	critical := len(target) > 0 && r.Chance(1, 5)
	for ti, mod := range target {
		var cand []int
		for i, s := range mod.slots {
			if len(s.bad) > 0 {
				cand = append(cand, i)
			}
		}
		n := 1 + r.Intn(3)
		for _, ci := range pickIdx(r, cand, n) {
			s := &mod.slots[ci]
			s.ok = fw.Pick(r, s.bad)
			s.crit = nil // one damage per line
			d := damage[mod.name]
			d.Recoverable++
			damage[mod.name] = d
		}
		tags = append(tags, TagSynRecover)
		if critical && ti == len(target)-1 {
			var cc []int
			for i, s := range mod.slots {
				if len(s.crit) > 0 {
					cc = append(cc, i)
				}
			}
			if len(cc) > 0 {
				s := &mod.slots[cc[r.Intn(len(cc))]]
				s.ok = fw.Pick(r, s.crit)
				tags = append(tags, TagSynCritical)
				d := damage[mod.name]
				d.Critical++
				damage[mod.name] = d
			}
		}
		switch {
		case mod.entry:
			tags = append(tags, TagSynEntry)
		case mod.sharers >= 2:
			tags = append(tags, TagSynImported, TagSynShared)
		default:
			tags = append(tags, TagSynImported)
		}
	}
	src := map[string]string{}
	for _, mod := range mods {
		var b sb
		for _, s := range mod.slots {
			b.f("%s\n", s.ok)
		}
		src[mod.name] = b.String()
	}
	return Built{Fam: "synerr", Src: src, Tags: uniq(tags)}, damage
}

// pickIdx picks up to n distinct members of xs, in ascending order.
func pickIdx(r *fw.Rng, xs []int, n int) []int {
	ys := append([]int{}, xs...)
	for i := len(ys) - 1; i > 0; i-- {
		j := r.Intn(i + 1)
		ys[i], ys[j] = ys[j], ys[i]
	}
	if n > len(ys) {
		n = len(ys)
	}
	ys = ys[:n]
	sort.Ints(ys)
	return ys
}

// parseModule parses one module text on its own (self-test of the synerr family).
func parseModule(name, text string) (recoverable []string, critical string) {
	p := parser.NewParser(lexer.NewLexer(text, name), name)
	_, soft, hard := p.Parse()
	for _, e := range soft {
		recoverable = append(recoverable, fmt.Sprintf("%s @%d:%d", e.Message, e.Span.Start.Line, e.Span.Start.Column))
	}
	if hard != nil {
		critical = fmt.Sprintf("%s @%d:%d", hard.Message, hard.Span.Start.Line, hard.Span.Start.Column)
	}
	return recoverable, critical
}
