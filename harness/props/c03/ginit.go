package c03

// Global-initialiser family (rule "non-constant global" of the C03 statement, both directions).
//
// A global `let` must be initialised by a constant expression. The family generates constant
// expression TREES — literals combined by the constructors the language has for building values
// (list, object and option literals, grouping, prefix and infix operators, casts, indexing) — and
// judges them with the obvious reference model: a tree is constant iff every expression in it is.
//
//   - accept: every generated tree is constant, so the program gets no error diagnostic; the type
//     recorded for the global is the type of the tree. Empty list literals and `none` occur as the
//     whole initialiser of an annotated global (elsewhere they are `any`-carrying, see FINDINGS.md).
//   - reject: at EVERY node of every tree (first / middle / last element of a list, field of an
//     object, operand, payload of an option, base of an index, the root, at any depth) the
//     sub-expression is replaced by an expression of the same type that is not constant: a use of
//     another global, or a call of a function. Nothing else changes, all siblings stay constant:
//     the mutant breaks exactly the one rule and must be rejected.
//   - control: a function of the same program holds, as annotated local lets, every one of these
//     mutated trees. Locals are not subject to the rule, so the base program must still be
//     accepted; this also proves that each mutant is well-typed apart from the constness rule
//     (a mutant can therefore not be rejected for an accidental second fault).
//
// Deliberately not generated (the unchanged analyzer accepts them although a sub-expression is not
// constant; reported as a finding of the strengthening round, kept out so that the check stays
// silent): a non-constant END of a range literal (`let r = 0..g;`) and a non-constant INDEX
// (`let x = [1, 2][g];`). Range literals are therefore leaves here and index expressions are only
// mutated in their base.

import (
	"fmt"
	"strings"

	"hv/fw"
	"hv/mutate"
)

// cnode is a node of a constant expression tree.
type cnode struct {
	t    *mutate.Ty
	kind string   // lit | list | obj | some | group | neg | not | infix | cast | index
	text string   // literal text, operator, cast target, index literal
	kids []*cnode // mutable children
	keys []string // object literal: field names (same order as kids)
	pos  []string // context label of each child position
}

type ginitGen struct {
	r *fw.Rng
	// poisoned: the ends of a range literal and the index of an index expression are mutable
	// positions too (finding KF-c03-const-range-index: the analyzer accepts them non-constant)
	poisoned bool
}

// Finding of the strengthening round: `let r = 0..g;` and `let x = [1, 2][g];` are accepted.
const (
	KFConstRangeIndex  = "KF-c03-const-range-index"
	TagConstRangeIndex = "const-range-index"
)

func (g *ginitGen) scalar() *mutate.Ty {
	return []*mutate.Ty{tInt, tInt, tStr, tBool, tFloat}[g.r.Intn(5)]
}

// ty picks a value type (no functions: a function value is never constant).
func (g *ginitGen) ty(d int) *mutate.Ty {
	if d <= 0 {
		return g.scalar()
	}
	switch n := g.r.Intn(10); {
	case n < 3:
		return g.scalar()
	case n < 6:
		return mutate.ListOf(g.ty(d - 1))
	case n < 8:
		e := g.ty(d - 1)
		if e.K == mutate.KRange {
			e = tInt // the shared literal helper of hv/mutate prints `?1..3` for ?range, which is (?1)..3
		}
		return mutate.OptOf(e)
	case n < 9:
		return mutate.Range
	default:
		k := 1 + g.r.Intn(3)
		fs := make([]mutate.Field, 0, k)
		for i := 0; i < k; i++ {
			fs = append(fs, mutate.Field{Name: fieldNames[i], T: g.ty(d - 1)})
		}
		return mutate.ObjOf(fs...)
	}
}

func (g *ginitGen) leaf(t *mutate.Ty) *cnode {
	n := &cnode{t: t, kind: "lit"}
	switch t.K {
	case mutate.KInt:
		n.text = fmt.Sprint(g.r.Intn(50))
	case mutate.KFloat:
		n.text = []string{"0.5", "1.5", "2f", "10.25"}[g.r.Intn(4)]
	case mutate.KBool:
		n.text = []string{"true", "false", "on", "off"}[g.r.Intn(4)]
	case mutate.KStr:
		n.text = `"` + []string{"a", "bc", "x y", ""}[g.r.Intn(4)] + `"`
	case mutate.KRange:
		lo := g.r.Intn(4)
		n.text = fmt.Sprintf("%d..%d", lo, lo+1+g.r.Intn(4))
	default:
		panic("ginit: no leaf of type " + t.String())
	}
	return n
}

// tree builds a constant expression tree of type t.
func (g *ginitGen) tree(t *mutate.Ty, d int) *cnode {
	switch t.K {
	case mutate.KList:
		k := 1 + g.r.Intn(3)
		n := &cnode{t: t, kind: "list"}
		for i := 0; i < k; i++ {
			n.kids = append(n.kids, g.tree(t.Elem, d-1))
			switch {
			case i == 0:
				n.pos = append(n.pos, "first-element")
			case i == k-1:
				n.pos = append(n.pos, "last-element")
			default:
				n.pos = append(n.pos, "middle-element")
			}
		}
		return n
	case mutate.KOpt:
		return &cnode{t: t, kind: "some", kids: []*cnode{g.tree(t.Elem, d-1)}, pos: []string{"some"}}
	case mutate.KObj:
		n := &cnode{t: t, kind: "obj"}
		for _, f := range t.Fields {
			n.kids = append(n.kids, g.tree(f.T, d-1))
			n.keys = append(n.keys, f.Name)
			n.pos = append(n.pos, "field")
		}
		// the literal may list its fields in any order
		for i := len(n.kids) - 1; i > 0; i-- {
			j := g.r.Intn(i + 1)
			n.kids[i], n.kids[j] = n.kids[j], n.kids[i]
			n.keys[i], n.keys[j] = n.keys[j], n.keys[i]
		}
		return n
	case mutate.KRange:
		if g.poisoned {
			return &cnode{t: t, kind: "range", text: fw.Pick(g.r, []string{"..", "..="}), kids: []*cnode{g.tree(tInt, d-1), g.tree(tInt, d-1)}, pos: []string{"range-start", "range-end"}}
		}
		return g.leaf(t)
	}
	if d <= 0 || g.r.Chance(2, 5) {
		return g.leaf(t)
	}
	un := func(kind, text string, k *cnode, pos string) *cnode {
		return &cnode{t: t, kind: kind, text: text, kids: []*cnode{k}, pos: []string{pos}}
	}
	bin := func(op string, ot *mutate.Ty) *cnode {
		return &cnode{t: t, kind: "infix", text: op, kids: []*cnode{g.tree(ot, d-1), g.tree(ot, d-1)}, pos: []string{"left-operand", "right-operand"}}
	}
	// index of a list literal: only the base is a place where constness can be broken
	index := func() *cnode {
		lt := mutate.ListOf(t)
		base := g.tree(lt, d-1)
		if g.poisoned {
			ix := &cnode{t: tInt, kind: "lit", text: fmt.Sprint(g.r.Intn(len(base.kids)))}
			return &cnode{t: t, kind: "index", kids: []*cnode{base, ix}, pos: []string{"index-base", "index"}}
		}
		return &cnode{t: t, kind: "index", text: fmt.Sprint(g.r.Intn(len(base.kids))), kids: []*cnode{base}, pos: []string{"index-base"}}
	}
	switch t.K {
	case mutate.KInt:
		switch g.r.Intn(6) {
		case 0:
			return un("neg", "-", g.tree(tInt, d-1), "operand")
		case 1, 2:
			return bin(fw.Pick(g.r, []string{"+", "-", "*"}), tInt)
		case 3:
			return un("cast", "int", g.tree(fw.Pick(g.r, []*mutate.Ty{tFloat, tBool}), d-1), "cast-operand")
		case 4:
			return index()
		}
		return un("group", "", g.tree(tInt, d-1), "grouped")
	case mutate.KFloat:
		switch g.r.Intn(5) {
		case 0:
			return un("neg", "-", g.tree(tFloat, d-1), "operand")
		case 1:
			return bin(fw.Pick(g.r, []string{"+", "-", "*"}), tFloat)
		case 2:
			return un("cast", "float", g.tree(tInt, d-1), "cast-operand")
		case 3:
			return index()
		}
		return un("group", "", g.tree(tFloat, d-1), "grouped")
	case mutate.KBool:
		switch g.r.Intn(5) {
		case 0:
			return un("not", "!", g.tree(tBool, d-1), "operand")
		case 1:
			return bin(fw.Pick(g.r, []string{"&&", "||"}), tBool)
		case 2:
			return bin(fw.Pick(g.r, []string{"<", "==", ">=", "!="}), tInt)
		case 3:
			return bin(fw.Pick(g.r, []string{"==", "!="}), tStr)
		}
		return un("group", "", g.tree(tBool, d-1), "grouped")
	case mutate.KStr:
		switch g.r.Intn(4) {
		case 0, 1:
			return bin("+", tStr)
		case 2:
			return index()
		}
		return un("group", "", g.tree(tStr, d-1), "grouped")
	}
	return g.leaf(t)
}

// nodes lists the nodes of a tree in pre-order.
func (n *cnode) nodes(out *[]*cnode) {
	*out = append(*out, n)
	for _, k := range n.kids {
		k.nodes(out)
	}
}

// operator nodes are parenthesised when they stand as an operand (nothing can re-associate)
func (n *cnode) isOperator() bool {
	switch n.kind {
	case "neg", "not", "infix", "cast", "some", "range":
		return true
	}
	return n.t.K == mutate.KRange // `?0..2` would be the range from `?0` to 2
}

// render prints the tree. repl maps a node to the text that stands in its place (mutated twin);
// mark, if set, wraps every node into the explicit-mutant marker with the texts mark returns.
func (n *cnode) render(repl map[*cnode]string, mark func(*cnode) []string) string {
	if s, ok := repl[n]; ok {
		return s
	}
	kid := func(i int) string {
		k := n.kids[i]
		s := k.render(repl, mark)
		if _, replaced := repl[k]; !replaced && k.isOperator() && n.kind != "list" && n.kind != "obj" && n.kind != "group" {
			s = "(" + s + ")"
		}
		if mark != nil {
			s = mk("ctx", n.pos[i], s)
		}
		return s
	}
	var s string
	switch n.kind {
	case "lit":
		s = n.text
	case "list":
		parts := make([]string, len(n.kids))
		for i := range n.kids {
			parts[i] = kid(i)
		}
		s = "[" + strings.Join(parts, ", ") + "]"
	case "obj":
		parts := make([]string, len(n.kids))
		for i := range n.kids {
			parts[i] = n.keys[i] + ": " + kid(i)
		}
		s = "new { " + strings.Join(parts, ", ") + " }"
	case "some":
		s = "?" + kid(0)
	case "group":
		s = "(" + kid(0) + ")"
	case "neg", "not":
		s = n.text + kid(0)
	case "infix":
		s = kid(0) + " " + n.text + " " + kid(1)
	case "cast":
		s = kid(0) + " as " + n.text
	case "index":
		if len(n.kids) == 2 {
			s = kid(0) + "[" + kid(1) + "]"
		} else {
			s = kid(0) + "[" + n.text + "]"
		}
	case "range":
		s = kid(0) + n.text + kid(1)
	default:
		panic("ginit: node kind " + n.kind)
	}
	if mark != nil {
		if alts := mark(n); len(alts) > 0 {
			// the parentheses an operand needs are put around the marker by the parent
			return "«mut:global-init|" + s + "¦" + strings.Join(alts, "¦") + "»"
		}
	}
	return s
}

// ginitGlobal is one global of a program of the family.
type ginitGlobal struct {
	t         *mutate.Ty
	root      *cnode // nil: an `any`-carrying literal (empty list, none) as the whole initialiser
	bare      string // text of that literal
	annotated bool
	pub       bool
}

// ginitProgram renders the marked program of the given globals.
func ginitProgram(gs []ginitGlobal) string {
	// helper global and helper function per type that occurs at any node
	helper := map[string]int{}
	var helperTys []*mutate.Ty
	need := func(t *mutate.Ty) int {
		k, ok := helper[t.String()]
		if !ok {
			k = len(helperTys)
			helper[t.String()] = k
			helperTys = append(helperTys, t)
		}
		return k
	}
	alts := func(n *cnode) []string {
		k := need(n.t)
		return []string{fmt.Sprintf("zg%d", k), fmt.Sprintf("zf%d()", k)}
	}
	var globals, locals strings.Builder
	for i, gl := range gs {
		if gl.t == nil {
			gl.t = gl.root.t
		}
		head := "let "
		if gl.pub {
			head = "pub let "
		}
		name := fmt.Sprintf("q%d", i)
		if gl.root == nil {
			fmt.Fprintf(&globals, "%s%s: %s = %s;\n", head, name, gl.t.Source(), mk("gin", "a:"+gl.t.String(), gl.bare))
			fmt.Fprintf(&locals, "    let l%d: %s = %s;\n", i, gl.t.Source(), gl.bare)
			continue
		}
		body := mk("ctx", "global", gl.root.render(nil, alts))
		if gl.annotated {
			fmt.Fprintf(&globals, "%s%s: %s = %s;\n", head, name, gl.t.Source(), mk("gin", "a:"+gl.t.String(), body))
		} else {
			fmt.Fprintf(&globals, "%s%s = %s;\n", head, name, mk("gin", gl.t.String(), body))
		}
		var ns []*cnode
		gl.root.nodes(&ns)
		fmt.Fprintf(&locals, "    let l%d: %s = %s;\n", i, gl.t.Source(), gl.root.render(nil, nil))
		for j, n := range ns {
			for a, alt := range alts(n) {
				fmt.Fprintf(&locals, "    let l%d_%d_%d: %s = %s;\n", i, j, a, gl.t.Source(), gl.root.render(map[*cnode]string{n: alt}, nil))
			}
		}
	}
	var sb strings.Builder
	for k, t := range helperTys {
		fmt.Fprintf(&sb, "let zg%d: %s = %s;\n", k, t.Source(), constLit(t))
	}
	sb.WriteString(globals.String())
	sb.WriteString("\n")
	for k, t := range helperTys {
		fmt.Fprintf(&sb, "fn zf%d() -> %s { %s }\n", k, t.Source(), constLit(t))
	}
	// control: the same expressions are fine as initialisers of locals
	sb.WriteString("\nfn locals_are_free() {\n" + locals.String() + "}\n\nfn main() {\n    locals_are_free();\n")
	names := make([]string, len(gs))
	for i := range gs {
		names[i] = fmt.Sprintf("q%d", i)
	}
	sb.WriteString("    println(" + strings.Join(names, ", ") + ");\n}\n")
	return sb.String()
}

// constLit is a literal of type t without `any`-carrying parts.
func constLit(t *mutate.Ty) string {
	switch t.K {
	case mutate.KList:
		return "[" + constLit(t.Elem) + "]"
	case mutate.KOpt:
		if t.Elem.K == mutate.KRange || t.Elem.K == mutate.KOpt {
			return "?(" + constLit(t.Elem) + ")"
		}
		return "?" + constLit(t.Elem)
	case mutate.KObj:
		parts := make([]string, len(t.Fields))
		for i, f := range t.Fields {
			parts[i] = f.Name + ": " + constLit(f.T)
		}
		return "new { " + strings.Join(parts, ", ") + " }"
	}
	if s := mutate.Lit(t); s != "" {
		return s
	}
	panic("ginit: no literal of type " + t.String())
}

func ginitCase(id, name string, gs []ginitGlobal, tags ...string) []fw.Case {
	mods := map[string]string{"main": ginitProgram(gs)}
	parsed, err := mutate.Parse(mods)
	if err != nil {
		panic(fmt.Sprintf("c03: global-initialiser program %s has bad markers: %v\n%s", id, err, mods["main"]))
	}
	p := Payload{Name: name, Group: "ginit", Mods: mods, Main: true, Construct: "global-initialisers"}
	return splitCases(id, "ginit", p, tags, parsed)
}

// lit helpers for the systematic part
func cl(t *mutate.Ty, text string) *cnode { return &cnode{t: t, kind: "lit", text: text} }
func clist(kids ...*cnode) *cnode {
	n := &cnode{t: mutate.ListOf(kids[0].t), kind: "list", kids: kids}
	for i := range kids {
		switch {
		case i == 0:
			n.pos = append(n.pos, "first-element")
		case i == len(kids)-1:
			n.pos = append(n.pos, "last-element")
		default:
			n.pos = append(n.pos, "middle-element")
		}
	}
	return n
}
func csome(k *cnode) *cnode {
	return &cnode{t: mutate.OptOf(k.t), kind: "some", kids: []*cnode{k}, pos: []string{"some"}}
}
func cobj(keys []string, kids ...*cnode) *cnode {
	fs := make([]mutate.Field, len(kids))
	pos := make([]string, len(kids))
	for i, k := range kids {
		fs[i] = mutate.Field{Name: keys[i], T: k.t}
		pos[i] = "field"
	}
	return &cnode{t: mutate.ObjOf(fs...), kind: "obj", kids: kids, keys: keys, pos: pos}
}

// ginitSystematic: the seed-independent part — every container shape with one, two and three
// elements, containers inside containers, and the `any`-carrying literals under an annotation.
func ginitSystematic() []fw.Case {
	var out []fw.Case
	i := func(n int) *cnode { return cl(tInt, fmt.Sprint(n)) }
	s := func(x string) *cnode { return cl(tStr, `"`+x+`"`) }
	out = append(out, ginitCase("c03-ginit-sys-lists", "ginit-lists", []ginitGlobal{
		{t: mutate.ListOf(tInt), root: clist(i(1))},
		{t: mutate.ListOf(tInt), root: clist(i(1), i(2))},
		{t: mutate.ListOf(tStr), root: clist(s("a"), s("b"), s("c")), annotated: true},
		{t: mutate.ListOf(mutate.ListOf(tInt)), root: clist(clist(i(1), i(2)), clist(i(3)))},
		{t: mutate.ListOf(tFloat), bare: "[]"},
		{t: mutate.ListOf(mutate.ListOf(tStr)), bare: "[]", pub: true},
	})...)
	out = append(out, ginitCase("c03-ginit-sys-nested", "ginit-nested", []ginitGlobal{
		{t: mutate.OptOf(mutate.ListOf(tInt)), root: csome(clist(i(1), i(2)))},
		{t: mutate.ListOf(mutate.OptOf(tInt)), root: clist(csome(i(1)), csome(i(2))), annotated: true},
		{root: cobj([]string{"limits", "name"}, clist(csome(i(1)), csome(i(2))), s("cfg"))},
		{root: clist(cobj([]string{"id", "tags"}, i(1), clist(s("x"), s("y"))), cobj([]string{"tags", "id"}, clist(s("z")), i(2)))},
		{t: mutate.OptOf(tInt), bare: "none"},
		{t: mutate.OptOf(mutate.ListOf(tInt)), bare: "none"},
	})...)
	return out
}

func ginitCases(tier string, seed uint64) []fw.Case {
	out := ginitSystematic()
	n := 40
	if tier == "thorough" {
		n = 400
	}
	g := &ginitGen{r: fw.NewRng(seed ^ 0x61C03)}
	out = append(out, ginitRandom(g, n, "c03-ginit-rnd")...)
	// Range ends and indices as mutable positions (finding KF-c03-const-range-index, repaired in
	// /repo): part of the workload; tagged as a poisoned workload should the finding be listed as
	// open again.
	gp := &ginitGen{r: fw.NewRng(seed ^ 0x61C04), poisoned: true}
	if fw.KFOpen(KFConstRangeIndex) {
		out = append(out, ginitRandom(gp, 24, "c03-ginitp-"+TagConstRangeIndex, TagConstRangeIndex)...)
	} else {
		out = append(out, ginitRandom(gp, 24, "c03-ginitp-"+TagConstRangeIndex)...)
	}
	return out
}

// ginitSigCtx shortens the context path of a tree node for failure signatures: the position and
// its parent; a node at or below a position of the range/index finding is named after that position.
func ginitSigCtx(ctx string) string {
	parts := strings.Split(ctx, "/")
	for _, p := range parts {
		if p == "range-start" || p == "range-end" || p == "index" {
			return "under-" + p
		}
	}
	if len(parts) > 2 {
		parts = parts[len(parts)-2:]
	}
	return strings.Join(parts, "/")
}

func ginitRandom(g *ginitGen, n int, prefix string, tags ...string) []fw.Case {
	var out []fw.Case
	for i := 0; i < n; i++ {
		k := 2 + g.r.Intn(3)
		var gs []ginitGlobal
		for j := 0; j < k; j++ {
			var t *mutate.Ty
			if g.r.Bool() {
				t = mutate.ListOf(g.ty(1)) // lists are the container the rule is most easily broken for
			} else {
				t = g.ty(2)
			}
			if g.poisoned && j == 0 {
				t = fw.Pick(g.r, []*mutate.Ty{mutate.Range, mutate.ListOf(mutate.Range), tInt, tStr})
			}
			gl := ginitGlobal{t: t, pub: g.r.Chance(1, 8)}
			switch {
			case t.K == mutate.KList && g.r.Chance(1, 6):
				gl.bare = "[]"
			case t.K == mutate.KOpt && g.r.Chance(1, 6):
				gl.bare = "none"
			default:
				gl.root = g.tree(t, 3)
				gl.annotated = g.r.Chance(1, 3)
			}
			gs = append(gs, gl)
		}
		out = append(out, ginitCase(fmt.Sprintf("%s-%d", prefix, i), fmt.Sprintf("%s-%d", strings.TrimPrefix(prefix, "c03-"), i), gs, tags...)...)
	}
	return out
}
