package c03

import "hv/fw"

func genCases(tier string, seed uint64) []fw.Case { return nil }
