package c03

// Seeded, type-directed generator of small well-typed programs (DESIGN.md §3 C03 accept side (b)).
// It emits marked source (hv/mutate): every expression it places at a typed position is wrapped
// in the marker of that position, and every `let tN = …` carries the static type the rules assign
// to its initialiser, so the same text serves the accept oracle, the type oracle and the mutators.
//
// Discipline that keeps every program well-typed and every marked site surely breakable:
//   - every infix/prefix/cast expression is parenthesised, receivers of member calls are
//     identifiers or parenthesised (a mutation can never re-associate an expression);
//   - `none`, `[]` and null-typed expressions only occur where an annotation fixes the type;
//   - no statement follows a return/break/continue in its block; loops always contain a break
//     (the typing of non-terminating loops is not relied upon here; flow.go does that);
//   - a value-producing if/else, match or try/catch may have one diverging branch (throw or
//     return): the expression then has the type of the branches that yield a value, which the
//     type expectation of the enclosing let and the typed positions around it observe;
//   - let names (tN), variables, functions and catch identifiers are unique per program.

import (
	"fmt"
	"strings"

	"hv/fw"
	"hv/mutate"
)

type gvar struct {
	name string
	t    *mutate.Ty
}

type gfn struct {
	name   string
	params []gvar
	ret    *mutate.Ty
}

// genFeat are generator features that a known finding can poison.
type genFeat struct {
	closures      bool // closure literals at all
	returnAfterCl bool // `return` statements after a closure literal in the same function (#7: base rejected)
	fnTypeParams  bool // function-typed parameters with parameters (#8: base rejected)
	fnLists       bool // list literals with two function values (#48: base rejected)
	fnAssign      bool // assignment of a function value to a function-typed variable (base rejected while the finding is open)
	libModule     bool
}

type gen struct {
	r       *fw.Rng
	feat    genFeat
	tags    map[string]bool // whole-program poison tags actually used
	nLet    int
	nVar    int
	nClo    int
	fns     []*gfn
	aliases []gvar
	globals []gvar
	scopes  [][]gvar
	ret     *mutate.Ty
	loop    int  // loop depth inside the current function or closure
	clo     int  // closure nesting depth
	cloLoop bool // the current closure was created inside a loop
	afterCl bool // a closure literal was emitted earlier in the current top-level function
	budget  int
}

var (
	tInt, tFloat, tBool, tStr = mutate.Int, mutate.Float, mutate.Bool, mutate.Str
	fieldNames                = []string{"a", "b", "c", "id", "name", "x", "y", "val"}
	strPool                   = []string{"", "a", "abc", "hello world", "x y", "Z", "ä"}
)

func (g *gen) ty(depth int) *mutate.Ty {
	n := g.r.Intn(100)
	switch {
	case n < 32:
		return tInt
	case n < 50:
		return tStr
	case n < 64:
		return tBool
	case n < 76:
		return tFloat
	}
	if depth <= 0 {
		return tInt
	}
	switch {
	case n < 86:
		return mutate.ListOf(g.ty(depth - 1))
	case n < 92:
		return mutate.OptOf(g.scalarOrList(depth - 1))
	default:
		k := 1 + g.r.Intn(3)
		var fs []mutate.Field
		used := map[string]bool{}
		for len(fs) < k {
			nm := fw.Pick(g.r, fieldNames)
			if used[nm] {
				continue
			}
			used[nm] = true
			fs = append(fs, mutate.Field{Name: nm, T: g.ty(depth - 1)})
		}
		return mutate.ObjOf(fs...)
	}
}

func (g *gen) scalarOrList(depth int) *mutate.Ty {
	t := g.ty(depth)
	if t.K == mutate.KOpt {
		return tInt
	}
	return t
}

func mk(kind, attr, text string) string {
	if attr == "" {
		return "«" + kind + "|" + text + "»"
	}
	return "«" + kind + ":" + attr + "|" + text + "»"
}

func (g *gen) push()                 { g.scopes = append(g.scopes, nil) }
func (g *gen) pop()                  { g.scopes = g.scopes[:len(g.scopes)-1] }
func (g *gen) declare(v gvar)        { g.scopes[len(g.scopes)-1] = append(g.scopes[len(g.scopes)-1], v) }
func (g *gen) fresh(p string) string { g.nVar++; return fmt.Sprintf("%s%d", p, g.nVar) }

// varsOf returns visible variables of exactly type t (locals first, then globals).
func (g *gen) varsOf(t *mutate.Ty) []gvar {
	var out []gvar
	ts := t.String()
	for i := len(g.scopes) - 1; i >= 0; i-- {
		for _, v := range g.scopes[i] {
			if v.t.String() == ts {
				out = append(out, v)
			}
		}
	}
	for _, v := range g.globals {
		if v.t.String() == ts {
			out = append(out, v)
		}
	}
	return out
}

// varsWhere returns visible local variables whose type satisfies pred.
func (g *gen) varsWhere(pred func(*mutate.Ty) bool) []gvar {
	var out []gvar
	for i := len(g.scopes) - 1; i >= 0; i-- {
		for _, v := range g.scopes[i] {
			if pred(v.t) {
				out = append(out, v)
			}
		}
	}
	return out
}

func (g *gen) useVar(v gvar) string { return mk("id", "var", v.name) }

// tySrc renders a type annotation, sometimes through an alias.
func (g *gen) tySrc(t *mutate.Ty) string {
	for _, a := range g.aliases {
		if a.t.String() == t.String() && g.r.Chance(2, 3) {
			return mk("id", "type", a.name)
		}
	}
	return t.Source()
}

// ---------------------------------------------------------------------------------------------
// Expressions
// ---------------------------------------------------------------------------------------------

func (g *gen) lit(t *mutate.Ty, d int) string {
	switch t.K {
	case mutate.KInt:
		return fmt.Sprint(g.r.Intn(100))
	case mutate.KFloat:
		return []string{"0.5", "1.5", "2f", "10.25", "3.0"}[g.r.Intn(5)]
	case mutate.KBool:
		return []string{"true", "false", "on", "off"}[g.r.Intn(4)]
	case mutate.KStr:
		return `"` + fw.Pick(g.r, strPool) + `"`
	case mutate.KRange:
		lo := g.r.Intn(5)
		if g.r.Bool() {
			return fmt.Sprintf("%d..%d", lo, lo+1+g.r.Intn(5))
		}
		return fmt.Sprintf("%d..=%d", lo, lo+g.r.Intn(5))
	case mutate.KList:
		n := 1 + g.r.Intn(3)
		parts := make([]string, n)
		for i := range parts {
			e := g.expr(t.Elem, d-1)
			if i > 0 {
				e = mk("el", t.Elem.String(), e)
			}
			parts[i] = e
		}
		return "[" + strings.Join(parts, ", ") + "]"
	case mutate.KOpt:
		return "?" + g.exprNoPrefix(t.Elem, d-1)
	case mutate.KObj:
		idx := make([]int, len(t.Fields))
		for i := range idx {
			idx[i] = i
		}
		for i := len(idx) - 1; i > 0; i-- {
			j := g.r.Intn(i + 1)
			idx[i], idx[j] = idx[j], idx[i]
		}
		parts := make([]string, len(idx))
		for k, i := range idx {
			parts[k] = t.Fields[i].Name + ": " + g.expr(t.Fields[i].T, d-1)
		}
		return "new { " + strings.Join(parts, ", ") + " }"
	case mutate.KFn:
		return g.closure(t)
	}
	panic("gen: no literal for " + t.String())
}

// exprNoPrefix: an expression that does not start with a prefix operator (operand of `?`).
func (g *gen) exprNoPrefix(t *mutate.Ty, d int) string {
	e := g.expr(t, d)
	if strings.HasPrefix(e, "?") || strings.HasPrefix(e, "-") || strings.HasPrefix(e, "!") {
		return "(" + e + ")"
	}
	return e
}

func (g *gen) atom(t *mutate.Ty) string {
	if vs := g.varsOf(t); len(vs) > 0 && g.r.Chance(3, 5) {
		return g.useVar(fw.Pick(g.r, vs))
	}
	return g.lit(t, 0)
}

// recv makes an expression usable as the receiver of a member access.
func (g *gen) recv(t *mutate.Ty, d int) string {
	if vs := g.varsOf(t); len(vs) > 0 && g.r.Chance(2, 3) {
		return g.useVar(fw.Pick(g.r, vs))
	}
	return "(" + g.expr(t, d) + ")"
}

func (g *gen) infix(t *mutate.Ty, ops []string, d int) string {
	op := fw.Pick(g.r, ops)
	return "(" + mk("opd", t.String(), g.exprNoPrefix(t, d-1)) + " " + mk("bop", t.String(), op) + " " + mk("opd", t.String(), g.exprNoPrefix(t, d-1)) + ")"
}

func (g *gen) member(recv, name string) string { return recv + "." + mk("id", "member", name) }

func (g *gen) call(f *gfn, d int) string {
	args := make([]string, len(f.params))
	for i, p := range f.params {
		args[i] = mk("arg", p.t.String(), g.argExpr(p.t, d-1))
	}
	return mk("id", "fn", f.name) + "(" + mk("args", fmt.Sprint(len(args)), strings.Join(args, ", ")) + ")"
}

// argExpr: expressions in annotated positions may also be `none` (the position fixes the type).
func (g *gen) argExpr(t *mutate.Ty, d int) string {
	if t.K == mutate.KOpt && g.r.Chance(1, 4) {
		return "none"
	}
	return g.expr(t, d)
}

func (g *gen) fnsReturning(t *mutate.Ty) []*gfn {
	var out []*gfn
	for _, f := range g.fns {
		if f.ret.String() == t.String() {
			out = append(out, f)
		}
	}
	return out
}

func (g *gen) expr(t *mutate.Ty, d int) string {
	g.budget--
	if d <= 0 || g.budget <= 0 {
		return g.atom(t)
	}
	if t.K == mutate.KFn {
		if vs := g.varsOf(t); len(vs) > 0 && g.r.Bool() {
			return g.useVar(fw.Pick(g.r, vs))
		}
		return g.closure(t)
	}
	// constructs available at every type
	switch g.r.Intn(14) {
	case 0:
		c := mk("cond", "", g.expr(tBool, d-1))
		if g.r.Chance(1, 4) {
			// one branch diverges: the expression has the type of the other one. The value branch is an
			// unsure site (a wrong value there only changes the type of an inferred let).
			val := "{ " + mk("br?", t.String(), g.expr(t, d-1)) + " }"
			if g.r.Bool() {
				return "if " + c + " " + val + " " + mk("els", "", "else "+g.diverge())
			}
			return "if " + c + " " + g.diverge() + " " + mk("els?", "", "else "+val)
		}
		return "if " + c + " { " + mk("br", t.String(), g.expr(t, d-1)) + " } " + mk("els", "", "else { "+mk("br", t.String(), g.expr(t, d-1))+" }")
	case 1:
		return g.matchExpr(t, d)
	case 2:
		if fs := g.fnsReturning(t); len(fs) > 0 {
			return g.call(fw.Pick(g.r, fs), d)
		}
	case 3:
		g.push()
		n := g.fresh("b")
		it := g.ty(0)
		s := "{ let " + n + " = " + g.expr(it, d-1) + "; "
		g.declare(gvar{n, it})
		s += g.expr(t, d-1) + " }"
		g.pop()
		return s
	case 4:
		en := g.fresh("e")
		if g.r.Chance(1, 4) {
			// the catch block diverges: the expression has the type of the try block
			return "try { " + mk("br?", t.String(), g.expr(t, d-1)) + " } catch " + en + " " + g.diverge()
		}
		s := "try { " + mk("br", t.String(), g.expr(t, d-1)) + " } catch " + en + " { "
		g.push()
		g.declare(gvar{en, mutate.ObjOf(mutate.Field{Name: "message", T: tStr}, mutate.Field{Name: "line", T: tInt}, mutate.Field{Name: "column", T: tInt}, mutate.Field{Name: "filename", T: tStr})})
		s += mk("br", t.String(), g.expr(t, d-1)) + " }"
		g.pop()
		return s
	case 5:
		// element of a list variable / field of an object variable / unwrap of an option variable
		if vs := g.varsOf(mutate.ListOf(t)); len(vs) > 0 {
			return g.useVar(fw.Pick(g.r, vs)) + "[" + mk("idx", "int", g.expr(tInt, d-1)) + "]"
		}
		if vs := g.varsOf(mutate.OptOf(t)); len(vs) > 0 {
			v := g.useVar(fw.Pick(g.r, vs))
			if g.r.Bool() {
				return g.member(v, "unwrap") + "()"
			}
			return g.member(v, "unwrap_or") + "(" + mk("args", "1", mk("arg", t.String(), g.expr(t, d-1))) + ")"
		}
		objs := g.varsWhere(func(o *mutate.Ty) bool {
			if o.K != mutate.KObj {
				return false
			}
			for _, f := range o.Fields {
				if f.T.String() == t.String() {
					return true
				}
			}
			return false
		})
		if len(objs) > 0 {
			o := fw.Pick(g.r, objs)
			for _, f := range o.t.Fields {
				if f.T.String() == t.String() {
					return g.useVar(o) + "." + mk("id", "field", f.Name)
				}
			}
		}
	case 6:
		// call of a closure variable returning t
		cl := g.varsWhere(func(c *mutate.Ty) bool { return c.K == mutate.KFn && c.Ret.String() == t.String() })
		if len(cl) > 0 {
			c := fw.Pick(g.r, cl)
			args := make([]string, len(c.t.Fields))
			for i, p := range c.t.Fields {
				args[i] = mk("arg", p.T.String(), g.argExpr(p.T, d-1))
			}
			return g.useVar(c) + "(" + mk("args", fmt.Sprint(len(args)), strings.Join(args, ", ")) + ")"
		}
	}
	switch t.K {
	case mutate.KInt:
		switch g.r.Intn(10) {
		case 0, 1, 2:
			return g.infix(tInt, []string{"+", "-", "*", "/", "%", "**", "<<", ">>", "|", "&", "^"}, d)
		case 3:
			return "(-" + mk("neg", "int", g.exprNoPrefix(tInt, d-1)) + ")"
		case 4:
			if g.r.Bool() {
				return g.member(g.recv(tStr, d-1), "len") + "(" + mk("args", "0", "") + ")"
			}
			return g.member(g.recv(mutate.ListOf(g.ty(0)), d-1), "len") + "()"
		case 5:
			src := []*mutate.Ty{tFloat, tBool}[g.r.Intn(2)]
			return "(" + g.expr(src, d-1) + " as int)"
		case 6:
			return g.member(g.recv(tFloat, d-1), []string{"round", "trunc"}[g.r.Intn(2)]) + "()"
		case 7:
			return g.member(g.recv(tStr, d-1), []string{"parse_int", "len"}[g.r.Intn(2)]) + "()"
		case 8:
			return g.member(g.recv(tStr, d-1), "compare_lev") + "(" + mk("args", "1", mk("arg", "str", g.expr(tStr, d-1))) + ")"
		}
	case mutate.KFloat:
		switch g.r.Intn(6) {
		case 0, 1, 2:
			return g.infix(tFloat, []string{"+", "-", "*", "/", "**"}, d)
		case 3:
			return "(-" + mk("neg", "float", g.exprNoPrefix(tFloat, d-1)) + ")"
		case 4:
			return "(" + g.expr(tInt, d-1) + " as float)"
		}
	case mutate.KBool:
		switch g.r.Intn(10) {
		case 0, 1:
			return g.infix(tInt, []string{"==", "!=", "<", ">", "<=", ">="}, d)
		case 2:
			return g.infix(tFloat, []string{"==", "!=", "<", ">", "<=", ">="}, d)
		case 3:
			return g.infix(tStr, []string{"==", "!="}, d)
		case 4, 5:
			return g.infix(tBool, []string{"&&", "||", "|", "&", "^", "==", "!="}, d)
		case 6:
			return "(!" + mk("not", "bool", g.exprNoPrefix(tBool, d-1)) + ")"
		case 7:
			et := g.ty(0)
			return g.member(g.recv(mutate.ListOf(et), d-1), "contains") + "(" + mk("args", "1", mk("arg", et.String(), g.expr(et, d-1))) + ")"
		case 8:
			if g.r.Bool() {
				return g.member(g.recv(tStr, d-1), []string{"contains", "starts_with"}[g.r.Intn(2)]) + "(" + mk("arg", "str", g.expr(tStr, d-1)) + ")"
			}
			return g.member(g.recv(mutate.OptOf(g.ty(0)), d-1), []string{"is_some", "is_none"}[g.r.Intn(2)]) + "()"
		case 9:
			ct := g.ty(1)
			return g.infix(ct, []string{"==", "!="}, d)
		}
	case mutate.KStr:
		switch g.r.Intn(9) {
		case 0, 1:
			return g.infix(tStr, []string{"+"}, d)
		case 2:
			src := []*mutate.Ty{tInt, tFloat, tBool}[g.r.Intn(3)]
			return g.member(g.recv(src, d-1), "to_string") + "()"
		case 3:
			return g.member(g.recv(tStr, d-1), []string{"to_upper", "to_lower"}[g.r.Intn(2)]) + "()"
		case 4:
			return g.member(g.recv(tStr, d-1), "repeat") + "(" + mk("args", "1", mk("arg", "int", g.expr(tInt, d-1))) + ")"
		case 5:
			return g.member(g.recv(tStr, d-1), "replace") + "(" + mk("args", "2", mk("arg", "str", g.expr(tStr, d-1))+", "+mk("arg", "str", g.expr(tStr, d-1))) + ")"
		case 6:
			return g.member(g.recv(mutate.ListOf(tStr), d-1), "join") + "(" + mk("arg", "str", g.expr(tStr, d-1)) + ")"
		case 7:
			return g.recv(tStr, d-1) + "[" + mk("idx", "int", g.expr(tInt, d-1)) + "]"
		}
	case mutate.KList:
		if t.Elem.K == mutate.KStr && g.r.Chance(1, 4) {
			return g.member(g.recv(tStr, d-1), "split") + "(" + mk("arg", "str", g.expr(tStr, d-1)) + ")"
		}
	case mutate.KOpt:
		if vs := g.varsOf(mutate.ListOf(t.Elem)); len(vs) > 0 && g.r.Chance(1, 3) {
			return g.member(g.useVar(fw.Pick(g.r, vs)), []string{"pop", "last", "pop_front"}[g.r.Intn(3)]) + "()"
		}
	case mutate.KRange:
		if g.r.Chance(1, 3) {
			return g.member(g.recv(tInt, d-1), "to_range") + "()"
		}
	}
	if g.r.Chance(1, 2) {
		return g.atom(t)
	}
	return g.lit(t, d)
}

func (g *gen) matchExpr(t *mutate.Ty, d int) string {
	ct := []*mutate.Ty{tInt, tStr, tBool}[g.r.Intn(3)]
	var pats []string
	switch ct.K {
	case mutate.KInt:
		pats = []string{"0", "1", "2 | 3", "-1", "42"}
	case mutate.KStr:
		pats = []string{`"a"`, `"b" | "c"`, `""`}
	default:
		pats = []string{"true"}
	}
	n := 1 + g.r.Intn(len(pats))
	s := "match " + g.expr(ct, d-1) + " { "
	// sometimes one arm (or the default arm) diverges: the others then are unsure sites
	div := -1
	br := "br"
	if g.r.Chance(1, 4) {
		div = g.r.Intn(n + 1)
		br = "br?"
	}
	for i := 0; i < n; i++ {
		if i == div {
			s += pats[i] + " => " + g.diverge() + ", "
			continue
		}
		s += pats[i] + " => " + mk(br, t.String(), g.expr(t, d-1)) + ", "
	}
	if div == n {
		s += mk("dflt", "", "_ => "+g.diverge()+",") + " }"
	} else {
		// without the default arm a match whose only other arm diverges is null-typed, not ill-typed
		dflt := "dflt"
		if div == 0 && n == 1 {
			dflt = "dflt?"
		}
		s += mk(dflt, "", "_ => "+mk(br, t.String(), g.expr(t, d-1))+",") + " }"
	}
	return s
}

// diverge emits a block that does not complete: a throw (as statement or as value) or a return of
// the enclosing function or closure. break/continue are left to the flow family (flow.go): an
// expression may stand in a loop header, where they would belong to the enclosing loop.
func (g *gen) diverge() string {
	k := g.r.Intn(4)
	if g.afterCl && !g.feat.returnAfterCl && k >= 2 {
		k -= 2
	}
	switch k {
	case 0:
		return `{ throw("gen") }`
	case 1:
		return `{ throw("gen"); }`
	}
	if g.afterCl {
		g.tags[TagClosureCtx] = true
	}
	if g.ret.K == mutate.KNull {
		return "{ return; }"
	}
	return "{ return " + g.retValue(g.argExpr(g.ret, 1)) + "; }"
}

// closure emits a function literal of type t (its parameters get the names of t).
func (g *gen) closure(t *mutate.Ty) string {
	saveRet, saveLoop, saveCloLoop := g.ret, g.loop, g.cloLoop
	g.cloLoop = g.loop > 0 || g.cloLoop
	g.ret, g.loop = t.Ret, 0
	g.afterCl = false // inside the literal the analyzer's current function is this closure
	g.clo++
	g.push()
	params := make([]string, len(t.Fields))
	for i, p := range t.Fields {
		params[i] = p.Name + ": " + p.T.Source()
		if i == 0 {
			params[i] = mk("dup", "param", params[i])
		}
		g.declare(gvar{p.Name, p.T})
	}
	sig := "fn(" + strings.Join(params, ", ") + ")"
	if t.Ret.K != mutate.KNull || g.r.Chance(1, 4) {
		sig += " -> " + t.Ret.Source()
	}
	body := g.body(1 + g.r.Intn(2))
	g.pop()
	g.clo--
	g.ret, g.loop, g.cloLoop = saveRet, saveLoop, saveCloLoop
	g.afterCl = true
	label := "closure"
	if g.loop > 0 || g.cloLoop {
		label = "closure-in-loop"
	}
	return sig + " " + mk("ctx", label, body)
}

// closureType invents a closure type whose parameter names are fresh.
func (g *gen) closureType() *mutate.Ty {
	n := g.r.Intn(3)
	ps := make([]mutate.Field, n)
	for i := range ps {
		ps[i] = mutate.Field{Name: g.fresh("p"), T: g.ty(1)}
	}
	ret := mutate.Null
	if g.r.Chance(3, 4) {
		ret = g.ty(1)
	}
	return mutate.FnOf(ret, ps...)
}

// ---------------------------------------------------------------------------------------------
// Statements
// ---------------------------------------------------------------------------------------------

// pt emits a statement insertion point for the current position.
func (g *gen) pt() string {
	flag := "-"
	if g.loop > 0 {
		flag = "L"
	}
	p := "«pt:" + flag + ":" + g.ret.String() + "»"
	// Appendix A #7: after a closure literal the analyzer still checks `return` against the closure,
	// and inside a closure created in a loop `break` is accepted: such points carry the poison tag.
	if g.afterCl {
		return mk("tag", TagClosureCtx, mk("ctx", "after-closure", p))
	}
	if g.clo > 0 && g.cloLoop && g.loop == 0 {
		return mk("tag", TagClosureCtx, p) // the enclosing ctx label already says closure-in-loop
	}
	return p
}

func (g *gen) retValue(e string) string {
	s := mk("ret", g.ret.String(), e)
	if g.afterCl {
		return mk("tag", TagClosureCtx, mk("ctx", "after-closure", s))
	}
	return s
}

// body emits `{ stmts tail }` for the current function/closure return type.
func (g *gen) body(n int) string {
	var sb strings.Builder
	sb.WriteString("{\n")
	sb.WriteString(g.pt() + "\n")
	g.stmts(&sb, n, 2)
	if g.ret.K == mutate.KNull {
		sb.WriteString(g.pt() + "\n")
	} else if g.r.Chance(1, 4) && (!g.afterCl || g.feat.returnAfterCl) {
		if g.afterCl {
			g.tags[TagClosureCtx] = true
		}
		sb.WriteString("return " + g.retValue(g.argExpr(g.ret, 2)) + ";\n")
	} else {
		sb.WriteString(mk("tail", g.ret.String(), g.expr(g.ret, 2)) + "\n")
	}
	sb.WriteString("}")
	return sb.String()
}

// block emits a null-typed block of statements (own scope).
func (g *gen) block(n, d int) string {
	var sb strings.Builder
	g.push()
	sb.WriteString("{\n" + g.pt() + "\n")
	g.stmts(&sb, n, d)
	g.pop()
	sb.WriteString("}")
	return sb.String()
}

func (g *gen) assignable() []gvar {
	var out []gvar
	for i := len(g.scopes) - 1; i >= 0; i-- {
		for _, v := range g.scopes[i] {
			if (v.t.K != mutate.KFn || g.feat.fnAssign) && !strings.HasPrefix(v.name, "e") && !strings.HasPrefix(v.name, "it") {
				out = append(out, v)
			}
		}
	}
	out = append(out, g.globals...)
	return out
}

func (g *gen) stmts(sb *strings.Builder, n, d int) {
	for i := 0; i < n; i++ {
		if g.budget <= 0 {
			return
		}
		last := i == n-1
		switch k := g.r.Intn(20); {
		case k < 5: // inferred let
			t := g.ty(2)
			g.nLet++
			name := fmt.Sprintf("t%d", g.nLet)
			fmt.Fprintf(sb, "let %s = %s;\n", name, mk("ty", t.String(), g.expr(t, 3)))
			g.declare(gvar{name, t})
		case k < 8: // annotated let
			t := g.ty(2)
			g.nLet++
			name := fmt.Sprintf("t%d", g.nLet)
			init := ""
			switch {
			case t.K == mutate.KList && g.r.Chance(1, 6):
				init = "[]"
			default:
				init = mk("asg", t.String(), g.argExpr(t, 3))
			}
			fmt.Fprintf(sb, "let %s: %s = %s;\n", name, g.tySrc(t), init)
			g.declare(gvar{name, t})
		case k < 10: // assignment
			vs := g.assignable()
			if len(vs) == 0 {
				continue
			}
			v := fw.Pick(g.r, vs)
			g.assign(sb, v)
		case k == 10: // output
			a := g.ty(1)
			fmt.Fprintf(sb, "println(%s, %s);\n", g.expr(a, 2), g.expr(tStr, 1))
		case k == 11: // call statement
			if len(g.fns) > 0 {
				fmt.Fprintf(sb, "%s;\n", g.call(fw.Pick(g.r, g.fns), 2))
			}
		case k == 12: // list mutation through a builtin member
			ls := g.varsWhere(func(t *mutate.Ty) bool { return t.K == mutate.KList })
			if len(ls) > 0 {
				l := fw.Pick(g.r, ls)
				m := []string{"push", "push_front"}[g.r.Intn(2)]
				fmt.Fprintf(sb, "%s(%s);\n", g.member(g.useVar(l), m), mk("args", "1", mk("arg", l.t.Elem.String(), g.expr(l.t.Elem, 2))))
			}
		case k == 13 && d > 0: // if statement
			s := "if " + mk("cond", "", g.expr(tBool, 2)) + " " + g.block(1+g.r.Intn(2), d-1)
			if g.r.Bool() {
				s += " else " + g.block(1+g.r.Intn(2), d-1)
			}
			sb.WriteString(s + ";\n")
		case k == 14 && d > 0: // while
			g.loop++
			s := "while " + mk("cond", "", g.expr(tBool, 2)) + " " + g.loopBlock(d-1)
			g.loop--
			sb.WriteString(s + "\n")
		case k == 15 && d > 0: // for
			var it string
			var et *mutate.Ty
			switch g.r.Intn(3) {
			case 0:
				it, et = g.expr(mutate.Range, 1), tInt
			case 1:
				it, et = g.expr(tStr, 1), tStr
			default:
				et = g.ty(1)
				it = g.expr(mutate.ListOf(et), 2)
			}
			name := g.fresh("it")
			g.loop++
			g.push()
			g.declare(gvar{name, et})
			s := "for " + name + " in " + mk("iter", "", it) + " " + g.loopBlock(d-1)
			g.pop()
			g.loop--
			sb.WriteString(s + "\n")
		case k == 16 && d > 0: // loop
			g.loop++
			s := "loop " + g.loopBlock(d-1)
			g.loop--
			sb.WriteString(s + "\n")
		case k == 17 && d > 0: // match statement
			s := "match " + g.expr(tInt, 2) + " {\n0 => " + g.block(1, d-1) + "\n1 | 2 => " + g.block(1, d-1) + "\n"
			if g.r.Bool() {
				s += "_ => " + g.block(1, d-1) + "\n"
			}
			sb.WriteString(s + "};\n")
		case k == 18 && g.feat.closures && g.clo < 2: // closure definition and use
			ct := g.closureType()
			g.nLet++
			name := fmt.Sprintf("t%d", g.nLet)
			lit := g.closure(ct)
			fmt.Fprintf(sb, "let %s = %s;\n", name, mk("ty", ct.String(), lit))
			g.declare(gvar{name, ct})
		case k == 19 && last && d > 0: // early exit as the last statement of the block
			g.exit(sb)
		}
	}
}

// loopBlock is a block inside a loop; it always contains a reachable break.
func (g *gen) loopBlock(d int) string {
	var sb strings.Builder
	g.push()
	sb.WriteString("{\n" + g.pt() + "\n")
	g.stmts(&sb, 1+g.r.Intn(2), d)
	sb.WriteString("if " + mk("cond", "", g.expr(tBool, 1)) + " {\n" + g.pt() + "\n")
	if g.r.Chance(1, 3) {
		sb.WriteString("continue;\n")
	} else {
		sb.WriteString("break;\n")
	}
	sb.WriteString("};\nbreak;\n")
	g.pop()
	sb.WriteString("}")
	return sb.String()
}

// exit emits a conditional return.
func (g *gen) exit(sb *strings.Builder) {
	if g.afterCl && !g.feat.returnAfterCl {
		return
	}
	if g.afterCl {
		g.tags[TagClosureCtx] = true
	}
	sb.WriteString("if " + mk("cond", "", g.expr(tBool, 2)) + " {\n" + g.pt() + "\n")
	if g.ret.K == mutate.KNull {
		sb.WriteString("return;\n")
	} else {
		sb.WriteString("return " + g.retValue(g.argExpr(g.ret, 2)) + ";\n")
	}
	sb.WriteString("};\n")
}

func (g *gen) assign(sb *strings.Builder, v gvar) {
	t := v.t
	target := g.useVar(v)
	// descend into a field or an element sometimes
	for hops := 0; hops < 2; hops++ {
		if t.K == mutate.KObj && g.r.Bool() {
			f := t.Fields[g.r.Intn(len(t.Fields))]
			target += "." + mk("id", "field", f.Name)
			t = f.T
		} else if t.K == mutate.KList && g.r.Bool() {
			target += "[" + mk("idx", "int", g.expr(tInt, 1)) + "]"
			t = t.Elem
		} else {
			break
		}
	}
	if t.K == mutate.KFn {
		if !g.feat.fnAssign {
			return
		}
		g.tags[TagFnAssign] = true
	}
	op := "="
	switch t.K {
	case mutate.KInt:
		op = fw.Pick(g.r, []string{"=", "+=", "-=", "*=", "/=", "%=", "**=", "<<=", ">>=", "|=", "&=", "^="})
	case mutate.KFloat:
		op = fw.Pick(g.r, []string{"=", "+=", "-=", "*=", "/=", "**="})
	case mutate.KBool:
		op = fw.Pick(g.r, []string{"=", "|=", "&=", "^="})
	case mutate.KStr:
		op = fw.Pick(g.r, []string{"=", "+="})
	}
	val := g.expr(t, 2)
	if op == "=" {
		val = g.argExpr(t, 2)
	}
	fmt.Fprintf(sb, "%s %s %s;\n", target, mk("aop", t.String(), op), mk("asg", t.String(), val))
}

// ---------------------------------------------------------------------------------------------
// Programs
// ---------------------------------------------------------------------------------------------

// constExpr emits a constant expression of type t (global initialiser).
func (g *gen) constExpr(t *mutate.Ty, d int) string {
	switch t.K {
	case mutate.KInt:
		if d > 0 && g.r.Chance(1, 3) {
			return "(" + g.constExpr(tInt, d-1) + " " + fw.Pick(g.r, []string{"+", "-", "*"}) + " " + g.constExpr(tInt, d-1) + ")"
		}
	case mutate.KList:
		n := 1 + g.r.Intn(3)
		parts := make([]string, n)
		for i := range parts {
			parts[i] = g.constExpr(t.Elem, d-1)
		}
		return "[" + strings.Join(parts, ", ") + "]"
	case mutate.KOpt:
		return "?" + g.constExpr(t.Elem, d-1)
	case mutate.KObj:
		parts := make([]string, len(t.Fields))
		for i, f := range t.Fields {
			parts[i] = f.Name + ": " + g.constExpr(f.T, d-1)
		}
		return "new { " + strings.Join(parts, ", ") + " }"
	}
	return g.lit(t, 0)
}

func (g *gen) function(sb *strings.Builder, f *gfn, pub bool) {
	g.scopes = nil
	g.push()
	g.ret, g.loop, g.clo, g.cloLoop, g.afterCl = f.ret, 0, 0, false, false
	g.budget = 70
	params := make([]string, len(f.params))
	for i, p := range f.params {
		params[i] = p.name + ": " + g.tySrc(p.t)
		if i == 0 {
			params[i] = mk("dup", "param", params[i])
		}
		g.declare(p)
	}
	head := "fn "
	if pub {
		head = "pub fn "
	}
	sig := head + f.name + "(" + strings.Join(params, ", ") + ")"
	if f.ret.K != mutate.KNull {
		sig += " -> " + g.tySrc(f.ret)
	}
	def := sig + " " + g.body(2+g.r.Intn(4))
	sb.WriteString(mk("dup", "fn", def) + "\n\n")
	g.pop()
}

func (g *gen) signature(name string) *gfn {
	f := &gfn{name: name, ret: mutate.Null}
	n := g.r.Intn(4)
	for i := 0; i < n; i++ {
		t := g.ty(2)
		if g.feat.fnTypeParams && g.r.Chance(1, 3) {
			t = mutate.FnOf(g.ty(0), mutate.Field{Name: g.fresh("q"), T: g.ty(0)})
			g.tags[TagFnTypeParams] = true
		}
		f.params = append(f.params, gvar{g.fresh("a"), t})
	}
	if g.r.Chance(3, 4) {
		f.ret = g.ty(2)
	}
	return f
}

// GenProgram generates one marked program from a seed.
func GenProgram(seed uint64, feat genFeat) (mods map[string]string, tags []string) {
	g := &gen{r: fw.NewRng(seed), feat: feat, tags: map[string]bool{}}
	mods = map[string]string{}
	var sb strings.Builder

	// optional library module with public functions
	var libFns []*gfn
	if feat.libModule && g.r.Chance(1, 4) {
		var lb strings.Builder
		k := 1 + g.r.Intn(2)
		for i := 0; i < k; i++ {
			libFns = append(libFns, g.signature(fmt.Sprintf("lib%d", i)))
		}
		g.fns = libFns
		for _, f := range libFns {
			g.function(&lb, f, true)
		}
		lb.WriteString("fn main() {}\n")
		mods["lib"] = lb.String()
		names := make([]string, len(libFns))
		for i, f := range libFns {
			names[i] = mk("id", "import", f.name)
		}
		sb.WriteString("import { " + strings.Join(names, ", ") + " } from " + mk("id", "module", "lib") + ";\n\n")
	}

	// aliases
	for i, k := 0, g.r.Intn(3); i < k; i++ {
		t := g.ty(2)
		if t.K == mutate.KInt && g.r.Bool() {
			t = mutate.ObjOf(mutate.Field{Name: "id", T: tInt}, mutate.Field{Name: "name", T: tStr})
		}
		name := fmt.Sprintf("A%d", i)
		g.aliases = append(g.aliases, gvar{name, t})
		sb.WriteString(mk("dup", "type", "type "+name+" = "+t.Source()+";") + "\n")
	}
	// globals
	for i, k := 0, g.r.Intn(4); i < k; i++ {
		t := g.ty(1)
		name := fmt.Sprintf("g%d", i)
		if g.r.Chance(1, 3) {
			sb.WriteString(mk("dup", "global", "let "+name+": "+g.tySrc(t)+" = "+mk("gin", "a:"+t.String(), g.constExpr(t, 2))+";") + "\n")
		} else {
			sb.WriteString(mk("dup", "global", "let "+name+" = "+mk("gin", t.String(), g.constExpr(t, 2))+";") + "\n")
		}
		g.globals = append(g.globals, gvar{name, t})
	}
	sb.WriteString("\n")
	// functions
	nf := 1 + g.r.Intn(3)
	own := make([]*gfn, nf)
	for i := range own {
		own[i] = g.signature(fmt.Sprintf("f%d", i))
	}
	g.fns = append(append([]*gfn{}, libFns...), own...)
	for _, f := range own {
		g.function(&sb, f, false)
	}
	// a function nobody calls: a duplicated parameter is its only fault (no arity error elsewhere)
	if g.r.Chance(1, 2) {
		u := g.signature("unused_fn")
		if len(u.params) == 0 {
			u.params = append(u.params, gvar{g.fresh("a"), g.ty(1)})
		}
		g.function(&sb, u, g.r.Bool())
	}
	// main
	g.scopes = nil
	g.push()
	g.ret, g.loop, g.clo, g.cloLoop, g.afterCl = mutate.Null, 0, 0, false, false
	g.budget = 60
	sb.WriteString("fn main() {\n" + g.pt() + "\n")
	for _, f := range g.fns {
		if f.ret.K == mutate.KNull {
			sb.WriteString(g.call(f, 2) + ";\n")
		} else {
			g.nLet++
			name := fmt.Sprintf("t%d", g.nLet)
			sb.WriteString("let " + name + " = " + mk("ty", f.ret.String(), g.call(f, 2)) + ";\n")
			g.declare(gvar{name, f.ret})
		}
	}
	if g.feat.fnLists && len(own) > 0 {
		f := own[0]
		g.tags[TagFnList] = true
		sb.WriteString("let fl = [" + f.name + ", " + f.name + "];\nprintln(fl.len());\n")
	}
	g.stmts(&sb, 2+g.r.Intn(3), 2)
	sb.WriteString("}\n")
	g.pop()
	mods["main"] = sb.String()
	for t := range g.tags {
		tags = append(tags, t)
	}
	sortStrings(tags)
	return mods, tags
}

func sortStrings(s []string) {
	for i := 1; i < len(s); i++ {
		for j := i; j > 0 && s[j] < s[j-1]; j-- {
			s[j], s[j-1] = s[j-1], s[j]
		}
	}
}

// Known findings that poison generator features.
const (
	KFClosureCtx   = "KF-c03-closure-context"
	KFFnTypeParams = "KF-c03-fn-type-params"
	KFFnList       = "KF-c03-fn-list"
	KFMatchDiverge = "KF-c03-match-diverge"
	KFLoopNever    = "KF-c03-loop-never"
	KFFnAssign     = "KF-c03-fn-assign"
)

func genCases(tier string, seed uint64) []fw.Case {
	n := 300
	if tier == "thorough" {
		n = 3000
	}
	r := fw.NewRng(seed ^ 0xC03)
	var out []fw.Case
	emit := func(id string, ps uint64, feat genFeat, forced string) {
		mods, tags := GenProgram(ps, feat)
		if forced != "" && !contains(tags, forced) {
			return
		}
		parsed, err := mutate.Parse(mods)
		if err != nil {
			panic(fmt.Sprintf("c03: generator emitted bad markers (seed %d): %v", ps, err))
		}
		p := Payload{Name: id, Group: "gen", Mods: mods, Main: true, Construct: "gen"}
		if len(tags) > 0 {
			// the base program itself uses a construct a finding poisons: all its cases carry the tags
			p.Construct = "gen-" + strings.Join(tags, "+")
		}
		out = append(out, splitCases(id, "gen", p, tags, parsed)...)
	}
	// main workload: poisoned features are switched off while their finding is open
	main := genFeat{
		closures:      true,
		libModule:     true,
		returnAfterCl: !fw.KFOpen(KFClosureCtx),
		fnTypeParams:  !fw.KFOpen(KFFnTypeParams),
		fnLists:       false,
	}
	for i := 0; i < n; i++ {
		ps := r.Next()
		f := main
		// the whole-program poisons are rare even when allowed, so that most programs exercise mutants
		if f.returnAfterCl && !r.Chance(1, 8) {
			f.returnAfterCl = false
		}
		if f.fnTypeParams && !r.Chance(1, 10) {
			f.fnTypeParams = false
		}
		if !fw.KFOpen(KFFnList) && r.Chance(1, 25) {
			f.fnLists = true
		}
		if !fw.KFOpen(KFFnAssign) && r.Chance(1, 10) {
			f.fnAssign = true
		}
		emit(fmt.Sprintf("c03-gen-%d", i), ps, f, "")
	}
	// poisoned workloads: a few dozen programs that do use the construct of an open finding
	type poison struct {
		kf, tag string
		feat    func(*genFeat)
	}
	for _, po := range []poison{
		{KFClosureCtx, TagClosureCtx, func(f *genFeat) { f.returnAfterCl = true }},
		{KFFnTypeParams, TagFnTypeParams, func(f *genFeat) { f.fnTypeParams = true }},
		{KFFnList, TagFnList, func(f *genFeat) { f.fnLists = true }},
		{KFFnAssign, TagFnAssign, func(f *genFeat) { f.fnAssign = true }},
	} {
		if !fw.KFOpen(po.kf) {
			continue
		}
		made := 0
		for i := 0; made < 30 && i < 400; i++ {
			f := genFeat{closures: true, libModule: false}
			po.feat(&f)
			before := len(out)
			emit(fmt.Sprintf("c03-genp-%s-%d", po.tag, i), r.Next(), f, po.tag)
			if len(out) > before {
				made++
			}
		}
	}
	return out
}

func contains(xs []string, x string) bool {
	for _, y := range xs {
		if y == x {
			return true
		}
	}
	return false
}

func boolCount(m map[string]bool) map[string]int {
	out := map[string]int{}
	for k := range m {
		out[k] = 1
	}
	return out
}
