package c03

import (
	"encoding/json"
	"fmt"
	"sort"
	"strings"

	"hv/drive"
	"hv/fw"
	"hv/mutate"
	"hv/util"
)

// DevReport runs the cases whose id contains filter in-process and renders every failure
// (development helper for hvdev-c03, not used by the check).
func DevReport(tier string, seed uint64, filter string, verbose bool) string {
	var sb strings.Builder
	p := c03{}
	total := map[string]int64{}
	for _, c := range p.Cases(tier, seed) {
		if filter != "" && !strings.Contains(c.ID, filter) {
			continue
		}
		r := p.Run(c)
		for k, v := range r.Obs {
			total[k] += v
		}
		if r.Verdict == fw.Held && !verbose {
			continue
		}
		fmt.Fprintf(&sb, "== %s verdict=%s evals=%d nontrivial=%v tags=%v\n", c.ID, r.Verdict, r.Evals, r.Nontrivial, c.Tags)
		if r.Verdict != fw.Held {
			subs := append([]fw.SubViolation{{Why: r.Why, Sig: r.Sig, Detail: r.Detail}}, r.More...)
			for _, s := range subs {
				fmt.Fprintf(&sb, "   sig=%s\n   why=%s\n", s.Sig, s.Why)
				if verbose && s.Detail != nil {
					b, _ := json.MarshalIndent(s.Detail, "      ", " ")
					fmt.Fprintf(&sb, "      %s\n", strings.ReplaceAll(string(b), "\\n", "\n      "))
				}
			}
		}
	}
	b, _ := json.Marshal(total)
	fmt.Fprintf(&sb, "obs=%s\n", b)
	return sb.String()
}

// DevMutants lists the mutants of one hand-written base with the analyzer's reaction.
func DevMutants(name string) string {
	var sb strings.Builder
	for _, b := range Bases {
		if b.Name != name {
			continue
		}
		mods := map[string]string{"main": b.Main}
		for k, v := range b.Mods {
			mods[k] = v
		}
		parsed, err := mutate.Parse(mods)
		if err != nil {
			return err.Error()
		}
		muts, dropped := mutate.Mutants(parsed)
		for _, m := range muts {
			src := drive.Sources{}
			for k, v := range parsed.Plain {
				src[k] = v
			}
			src[m.Module] = m.Source
			out, pv := analyze(src, !b.NoMain, "")
			_, text := firstError(out)
			// changed lines
			ol := strings.Split(parsed.Plain[m.Module], "\n")
			nl := strings.Split(m.Source, "\n")
			diff := ""
			for i := 0; i < len(nl); i++ {
				if i >= len(ol) || ol[i] != nl[i] {
					diff = strings.TrimSpace(nl[i])
					break
				}
			}
			fmt.Fprintf(&sb, "[%s|%s|%v] %s\n    >> %s\n    => errors=%d panic=%v %s\n", m.Rule, m.Ctx, m.Tags, m.Desc, diff, out.Errors, pv, text)
		}
		fmt.Fprintf(&sb, "dropped=%v\n", dropped)
	}
	return sb.String()
}

// DevPlain prints the stripped modules of a base with line numbers.
func DevPlain(name string) string {
	var sb strings.Builder
	for _, b := range Bases {
		if b.Name != name {
			continue
		}
		mods := map[string]string{"main": b.Main}
		for k, v := range b.Mods {
			mods[k] = v
		}
		parsed, err := mutate.Parse(mods)
		if err != nil {
			return err.Error()
		}
		for mod, src := range parsed.Plain {
			fmt.Fprintf(&sb, "--- %s\n", mod)
			for i, l := range strings.Split(src, "\n") {
				fmt.Fprintf(&sb, "%3d %s\n", i+1, l)
			}
		}
	}
	return sb.String()
}

// DevGen prints the stripped program of a generated case id with line numbers and its diagnostics.
func DevGen(tier string, seed uint64, id string) string {
	var sb strings.Builder
	for _, c := range (c03{}).Cases(tier, seed) {
		if c.ID != id {
			continue
		}
		var p Payload
		fw.Decode(c, &p)
		parsed, err := mutate.Parse(p.Mods)
		if err != nil {
			return err.Error()
		}
		for mod, src := range parsed.Plain {
			fmt.Fprintf(&sb, "--- %s\n", mod)
			for i, l := range strings.Split(src, "\n") {
				fmt.Fprintf(&sb, "%3d %s\n", i+1, l)
			}
		}
		src := drive.Sources{}
		for k, v := range parsed.Plain {
			src[k] = v
		}
		out, pv := analyze(src, p.Main, p.Host)
		fmt.Fprintf(&sb, "errors=%d panic=%v\n%s\n", out.Errors, pv, strings.ReplaceAll(out.ErrorSummary(), "; ", "\n"))
	}
	return sb.String()
}

// DevCorpus reports which shipped programs the analyzer accepts.
func DevCorpus() string {
	var sb strings.Builder
	corpus := util.Corpus()
	names := make([]string, 0, len(corpus))
	for k := range corpus {
		names = append(names, k)
	}
	sort.Strings(names)
	for _, n := range names {
		src := drive.Sources{}
		for k, v := range corpusSources(corpus, n) {
			src[k] = v
		}
		out, pv := analyze(src, true, "")
		_, first := firstError(out)
		fmt.Fprintf(&sb, "%-50s errors=%d panic=%v %s\n", n, out.Errors, pv, first)
	}
	return sb.String()
}

// DevWitness renders the known_findings.txt witness object of a case id (kind, payload, tags).
func DevWitness(id string) string {
	for _, c := range (c03{}).Cases("quick", 1) {
		if c.ID == id {
			w := map[string]any{"kind": c.Kind, "payload": c.Payload, "tags": c.Tags}
			b, _ := json.Marshal(w)
			return string(b) + "\n"
		}
	}
	return "no such case\n"
}
