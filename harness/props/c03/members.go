package c03

// Container-member family: the builtin members of a list (and of an option) whose signature
// depends on the ELEMENT TYPE of the receiver — push, push_front, insert, concat, contains take an
// element (or a list of elements), pop, pop_front, last return an option of one, indexing and
// iteration yield one; unwrap, unwrap_or, expect of an option likewise.
//
// The rule is per receiver TYPE: `xs.push(v)` is well-typed iff v has the element type of xs. A
// program of the family therefore holds several receivers at once, chosen in PAIRS whose element
// types are of the same kind but differ inside ([[int]] and [[str]], [?int] and [?str],
// [{v:int}] and [{v:bool}], [fn() -> int] and [fn() -> str], also plain [int] and [str]), and
// uses every element-typed member on each of them.
//
//   - accept: every call passes a value of the receiver's own element type; 0 error diagnostics;
//     the recorded type of every result (`?T` of pop/last, `T` of an index or unwrap) is checked.
//   - reject: beside the generic wrong-type literals of hv/mutate every element position also gets
//     the NEAR MISS as an explicit mutant: the value (or the annotation) that would be right for
//     the other receiver of the pair. It differs from the expected type only below the outermost
//     constructor, which is exactly where a shallow comparison or a table shared between receiver
//     types goes wrong.
//   - members that exist for some element kinds only (`sort`): used where they exist, an explicit
//     unknown-member mutant where they do not.
//
// Receivers are locals (annotated and inferred), function parameters, object fields and globals.
// `none` and `[]` are not passed as elements (they are `any`-carrying, see FINDINGS.md).

import (
	"fmt"
	"strings"

	"hv/fw"
	"hv/mutate"
)

type memGen struct {
	r    *fw.Rng
	nLet int
	nVal int
	// helper functions used as function values: return type -> name
	fnHelpers map[string]string
	fnOrder   []*mutate.Ty
}

// memRecv is one receiver with the sibling of its pair.
type memRecv struct {
	elem, other *mutate.Ty // element type, element type of the sibling receiver (nil: none)
	form        string     // local | inferred | param | field | global
	isOpt       bool       // the receiver is an option (?elem) instead of a list
}

// wrapKind builds the two types of a pair: same outer constructor, different payload.
func wrapKind(kind string, a, b *mutate.Ty) (*mutate.Ty, *mutate.Ty) {
	switch kind {
	case "list":
		return mutate.ListOf(a), mutate.ListOf(b)
	case "opt":
		return mutate.OptOf(a), mutate.OptOf(b)
	case "obj":
		return mutate.ObjOf(mutate.Field{Name: "v", T: a}), mutate.ObjOf(mutate.Field{Name: "v", T: b})
	case "obj2":
		return mutate.ObjOf(mutate.Field{Name: "id", T: tInt}, mutate.Field{Name: "v", T: a}), mutate.ObjOf(mutate.Field{Name: "id", T: tInt}, mutate.Field{Name: "v", T: b})
	case "fn":
		return mutate.FnOf(a), mutate.FnOf(b)
	case "fn1":
		return mutate.FnOf(a, mutate.Field{Name: "x", T: tInt}), mutate.FnOf(b, mutate.Field{Name: "x", T: tInt})
	}
	return a, b
}

var memKinds = []string{"scalar", "list", "opt", "obj", "obj2", "fn", "fn1"}

// scalar pairs never rely on the int/float distinction
var memScalarPairs = [][2]*mutate.Ty{{tInt, tStr}, {tStr, tBool}, {tInt, tBool}, {tFloat, tStr}, {tBool, tFloat}}

func hasFn(t *mutate.Ty) bool {
	switch t.K {
	case mutate.KFn:
		return true
	case mutate.KList, mutate.KOpt:
		return hasFn(t.Elem)
	case mutate.KObj:
		for _, f := range t.Fields {
			if hasFn(f.T) {
				return true
			}
		}
	}
	return false
}

// val renders a value of type t; successive calls give different values.
func (g *memGen) val(t *mutate.Ty) string {
	g.nVal++
	i := g.nVal
	switch t.K {
	case mutate.KInt:
		return fmt.Sprint(i % 90)
	case mutate.KFloat:
		return fmt.Sprintf("%d.5", i%9)
	case mutate.KBool:
		return []string{"true", "false"}[i%2]
	case mutate.KStr:
		return fmt.Sprintf(`"s%d"`, i%50)
	case mutate.KList:
		if i%3 == 0 {
			return "[" + g.val(t.Elem) + ", " + g.val(t.Elem) + "]"
		}
		return "[" + g.val(t.Elem) + "]"
	case mutate.KOpt:
		if t.Elem.K == mutate.KOpt {
			return "?(" + g.val(t.Elem) + ")"
		}
		return "?" + g.val(t.Elem)
	case mutate.KObj:
		parts := make([]string, len(t.Fields))
		for k, f := range t.Fields {
			parts[k] = f.Name + ": " + g.val(f.T)
		}
		return "new { " + strings.Join(parts, ", ") + " }"
	case mutate.KFn:
		if len(t.Fields) == 0 && i%3 == 0 {
			// a named function as value
			name, ok := g.fnHelpers[t.Ret.String()]
			if !ok {
				name = fmt.Sprintf("zfn%d", len(g.fnOrder))
				g.fnHelpers[t.Ret.String()] = name
				g.fnOrder = append(g.fnOrder, t.Ret)
			}
			return name
		}
		ps := make([]string, len(t.Fields))
		for k, p := range t.Fields {
			ps[k] = p.Name + ": " + p.T.Source()
		}
		return "fn(" + strings.Join(ps, ", ") + ") -> " + t.Ret.Source() + " { " + g.val(t.Ret) + " }"
	}
	panic("members: no value of type " + t.String())
}

// near renders a value of type t with, as explicit mutant of the given rule, the value that would
// be right for the sibling type o.
func (g *memGen) near(rule string, t, o *mutate.Ty) string {
	v := g.val(t)
	if o == nil {
		return v
	}
	return "«mut:" + rule + "|" + v + "¦" + g.val(o) + "»"
}

// nearTy renders the annotation t with the sibling annotation o as explicit mutant.
func nearTy(t, o *mutate.Ty) string {
	if o == nil {
		return t.Source()
	}
	return "«mut:assignment|" + t.Source() + "¦" + o.Source() + "»"
}

func (g *memGen) let() string { g.nLet++; return fmt.Sprintf("t%d", g.nLet) }

func sortable(t *mutate.Ty) bool {
	return t.K == mutate.KInt || t.K == mutate.KFloat || t.K == mutate.KStr
}

// listOps emits statements that use the members of the list receiver L (element type T, sibling
// element type O). pick selects which of the optional operations are emitted (nil: all).
func (g *memGen) listOps(sb *strings.Builder, L string, T, O *mutate.Ty, ind string, all bool) {
	lt := mutate.ListOf(T)
	var lo *mutate.Ty
	if O != nil {
		lo = mutate.ListOf(O)
	}
	arg := func(t, o *mutate.Ty) string { return mk("arg", t.String(), g.near("argument", t, o)) }
	var popped []string
	ops := []func(){
		func() {
			fmt.Fprintf(sb, "%s%s.%s(%s);\n", ind, L, mk("id", "member", "push"), mk("args", "1", arg(T, O)))
		},
		func() {
			fmt.Fprintf(sb, "%s%s.%s(%s);\n", ind, L, mk("id", "member", "push_front"), mk("args", "1", arg(T, O)))
		},
		func() {
			fmt.Fprintf(sb, "%s%s.%s(%s);\n", ind, L, mk("id", "member", "insert"), mk("args", "2", mk("arg", "int", "0")+", "+arg(T, O)))
		},
		func() {
			fmt.Fprintf(sb, "%s%s.%s(%s);\n", ind, L, mk("id", "member", "concat"), mk("args", "1", arg(lt, lo)))
		},
		func() {
			fmt.Fprintf(sb, "%slet %s = %s;\n", ind, g.let(), mk("ty", "bool", L+"."+mk("id", "member", "contains")+"("+mk("args", "1", arg(T, O))+")"))
		},
		func() {
			m := fw.Pick(g.r, []string{"pop", "pop_front", "last"})
			n := g.let()
			fmt.Fprintf(sb, "%slet %s = %s;\n", ind, n, mk("ty", mutate.OptOf(T).String(), L+"."+mk("id", "member", m)+"("+mk("args", "0", "")+")"))
			popped = append(popped, n)
		},
		func() {
			m := fw.Pick(g.r, []string{"pop", "pop_front", "last"})
			var oo *mutate.Ty
			if O != nil {
				oo = mutate.OptOf(O)
			}
			n := g.let()
			fmt.Fprintf(sb, "%slet %s: %s = %s.%s();\n", ind, n, nearTy(mutate.OptOf(T), oo), L, m)
			popped = append(popped, n)
		},
		func() {
			fmt.Fprintf(sb, "%slet %s = %s;\n", ind, g.let(), mk("ty", T.String(), L+"["+mk("idx", "int", "0")+"]"))
		},
		func() {
			fmt.Fprintf(sb, "%s%s[0] = %s;\n", ind, L, mk("asg", T.String(), g.near("assignment", T, O)))
		},
		func() {
			it := g.let()
			fmt.Fprintf(sb, "%sfor %s in %s {\n%s    let %s: %s = %s;\n%s}\n", ind, it, mk("iter", "", L), ind, g.let(), nearTy(T, O), it, ind)
		},
		func() {
			fmt.Fprintf(sb, "%slet %s = %s;\n", ind, g.let(), mk("ty", "int", L+"."+mk("id", "member", "len")+"("+mk("args", "0", "")+")"))
		},
		func() {
			fmt.Fprintf(sb, "%s%s.remove(%s);\n", ind, L, mk("args", "1", mk("arg", "int", "0")))
		},
		func() {
			fmt.Fprintf(sb, "%slet %s = %s;\n", ind, g.let(), mk("ty", "str", L+"."+fw.Pick(g.r, []string{"to_string", "to_json"})+"()"))
		},
		func() {
			if sortable(T) {
				fmt.Fprintf(sb, "%s%s.%s(%s);\n", ind, L, mk("id", "member", "sort"), mk("args", "0", ""))
			} else {
				fmt.Fprintf(sb, "%s«mut:unknown-name|%s.len()¦%s.sort()»;\n", ind, L, L)
			}
		},
	}
	order := make([]int, len(ops))
	for i := range order {
		order[i] = i
	}
	if !all {
		for i := len(order) - 1; i > 0; i-- {
			j := g.r.Intn(i + 1)
			order[i], order[j] = order[j], order[i]
		}
	}
	for k, i := range order {
		// the element-typed operations (the first ten) are always emitted
		if !all && i >= 10 && k%2 == 1 {
			continue
		}
		ops[i]()
	}
	for _, p := range popped {
		g.optOps(sb, p, T, O, ind, all)
	}
}

// optOps emits statements that use the members of the option receiver P (payload type T).
func (g *memGen) optOps(sb *strings.Builder, P string, T, O *mutate.Ty, ind string, all bool) {
	if all || g.r.Bool() {
		fmt.Fprintf(sb, "%slet %s = %s;\n", ind, g.let(), mk("ty", T.String(), P+"."+mk("id", "member", "unwrap_or")+"("+mk("args", "1", mk("arg", T.String(), g.near("argument", T, O)))+")"))
	}
	if all || g.r.Bool() {
		fmt.Fprintf(sb, "%slet %s = %s;\n", ind, g.let(), mk("ty", T.String(), P+"."+mk("id", "member", "unwrap")+"("+mk("args", "0", "")+")"))
	}
	if all || g.r.Bool() {
		fmt.Fprintf(sb, "%slet %s: %s = %s.expect(%s);\n", ind, g.let(), nearTy(T, O), P, mk("args", "1", mk("arg", "str", `"must be there"`)))
	}
	if all || g.r.Chance(1, 3) {
		fmt.Fprintf(sb, "%slet %s = %s;\n", ind, g.let(), mk("ty", "bool", P+"."+fw.Pick(g.r, []string{"is_some", "is_none"})+"()"))
	}
}

// memProgram renders the marked program that exercises the given receivers.
func (g *memGen) program(recvs []memRecv, all bool) string {
	g.fnHelpers = map[string]string{}
	g.fnOrder = nil
	var globals, fns, body strings.Builder
	body.WriteString("fn main() {\n    «pt:-:null»\n")
	for i, rc := range recvs {
		T, O := rc.elem, rc.other
		if rc.isOpt {
			name := fmt.Sprintf("opt%d", i)
			fmt.Fprintf(&body, "    let %s: %s = %s;\n", name, mutate.OptOf(T).Source(), mk("asg", mutate.OptOf(T).String(), "?"+optOperand(g.val(T), T)))
			g.optOps(&body, name, T, O, "    ", true)
			continue
		}
		lt := mutate.ListOf(T)
		init := "[" + g.val(T) + "]"
		switch rc.form {
		case "inferred":
			name := fmt.Sprintf("xs%d", i)
			fmt.Fprintf(&body, "    let %s = %s;\n", name, mk("ty", lt.String(), init))
			g.listOps(&body, name, T, O, "    ", all)
		case "param":
			name := fmt.Sprintf("xs%d", i)
			fmt.Fprintf(&fns, "fn use%d(%s: %s) {\n    «pt:-:null»\n", i, name, lt.Source())
			g.listOps(&fns, name, T, O, "    ", all)
			fns.WriteString("}\n\n")
			var lo *mutate.Ty
			if O != nil {
				lo = mutate.ListOf(O)
			}
			fmt.Fprintf(&body, "    use%d(%s);\n", i, mk("args", "1", mk("arg", lt.String(), g.near("argument", lt, lo))))
		case "field":
			name := fmt.Sprintf("holder%d", i)
			fmt.Fprintf(&body, "    let %s = new { items: %s, id: %d };\n", name, init, i)
			g.listOps(&body, name+".items", T, O, "    ", all)
		case "global":
			name := fmt.Sprintf("gxs%d", i)
			fmt.Fprintf(&globals, "let %s: %s = %s;\n", name, lt.Source(), init)
			g.listOps(&body, name, T, O, "    ", all)
		default:
			name := fmt.Sprintf("xs%d", i)
			fmt.Fprintf(&body, "    let %s: %s = %s;\n", name, lt.Source(), mk("asg", lt.String(), init))
			g.listOps(&body, name, T, O, "    ", all)
		}
	}
	body.WriteString("}\n")
	var sb strings.Builder
	sb.WriteString(globals.String())
	sb.WriteString("\n")
	for k, rt := range g.fnOrder {
		fmt.Fprintf(&sb, "fn zfn%d() -> %s { %s }\n", k, rt.Source(), constLit(rt))
	}
	sb.WriteString("\n" + fns.String() + body.String())
	return sb.String()
}

func optOperand(v string, t *mutate.Ty) string {
	if t.K == mutate.KOpt || t.K == mutate.KFn {
		return "(" + v + ")"
	}
	return v
}

func memCase(id, name string, src string) []fw.Case {
	mods := map[string]string{"main": src}
	parsed, err := mutate.Parse(mods)
	if err != nil {
		panic(fmt.Sprintf("c03: member program %s has bad markers: %v\n%s", id, err, src))
	}
	p := Payload{Name: name, Group: "members", Mods: mods, Main: true, Construct: "container-members"}
	return splitCases(id, "members", p, nil, parsed)
}

// memPair makes the two receivers of a pair.
func memPair(kind string, a, b *mutate.Ty, formA, formB string, opt bool) []memRecv {
	ta, tb := wrapKind(kind, a, b)
	return []memRecv{{elem: ta, other: tb, form: formA, isOpt: opt}, {elem: tb, other: ta, form: formB, isOpt: opt}}
}

// memSystematic: one program per element kind, every member on both receivers of the pair, in
// both orders of the pair (whichever receiver type the analyzer meets first).
func memSystematic() []fw.Case {
	var out []fw.Case
	for _, kind := range memKinds {
		for ord := 0; ord < 2; ord++ {
			g := &memGen{r: fw.NewRng(uint64(0x3E3B + ord))}
			a, b := tInt, tStr
			if ord == 1 {
				a, b = b, a
			}
			recvs := memPair(kind, a, b, "local", "local", false)
			id := fmt.Sprintf("c03-members-sys-%s-%d", kind, ord)
			out = append(out, memCase(id, fmt.Sprintf("members-%s-%d", kind, ord), g.program(recvs, true))...)
		}
	}
	// members that exist for some element kinds only: every scalar element type
	g := &memGen{r: fw.NewRng(0x3E3E)}
	out = append(out, memCase("c03-members-sys-scalars", "members-scalars", g.program(append(memPair("scalar", tFloat, tBool, "local", "local", false), memPair("scalar", tStr, tInt, "local", "local", false)...), true))...)
	// options as receivers, and every receiver form
	g = &memGen{r: fw.NewRng(0x3E3C)}
	var recvs []memRecv
	for _, kind := range []string{"scalar", "list", "opt", "obj"} {
		recvs = append(recvs, memPair(kind, tInt, tStr, "", "", true)...)
	}
	out = append(out, memCase("c03-members-sys-options", "members-options", g.program(recvs, true))...)
	g = &memGen{r: fw.NewRng(0x3E3D)}
	recvs = nil
	recvs = append(recvs, memPair("list", tInt, tStr, "inferred", "param", false)...)
	recvs = append(recvs, memPair("opt", tBool, tStr, "field", "global", false)...)
	recvs = append(recvs, memPair("obj", tStr, tFloat, "param", "inferred", false)...)
	out = append(out, memCase("c03-members-sys-forms", "members-forms", g.program(recvs, true))...)
	return out
}

func memCases(tier string, seed uint64) []fw.Case {
	out := memSystematic()
	n := 24
	if tier == "thorough" {
		n = 240
	}
	r := fw.NewRng(seed ^ 0x3E3BC03)
	for i := 0; i < n; i++ {
		g := &memGen{r: r}
		var recvs []memRecv
		for k, pairs := 0, 1+r.Intn(2); k < pairs; k++ {
			kind := fw.Pick(r, memKinds)
			sp := fw.Pick(r, memScalarPairs)
			a, b := sp[0], sp[1]
			if r.Bool() {
				a, b = b, a
			}
			// sometimes the difference lies one level deeper still
			if r.Chance(1, 3) {
				a, b = wrapKind(fw.Pick(r, []string{"list", "opt", "obj"}), a, b)
			}
			forms := []string{"local", "local", "inferred", "param", "field", "global"}
			fa, fb := fw.Pick(r, forms), fw.Pick(r, forms)
			pr := memPair(kind, a, b, fa, fb, r.Chance(1, 6))
			for j := range pr {
				if pr[j].form == "global" && hasFn(pr[j].elem) {
					pr[j].form = "local" // a function value is not a constant initialiser
				}
			}
			recvs = append(recvs, pr...)
		}
		// an unpaired receiver in between
		if r.Bool() {
			recvs = append(recvs, memRecv{elem: fw.Pick(r, []*mutate.Ty{tInt, tStr, tFloat, tBool}), form: "local"})
		}
		for k := len(recvs) - 1; k > 0; k-- {
			j := r.Intn(k + 1)
			recvs[k], recvs[j] = recvs[j], recvs[k]
		}
		out = append(out, memCase(fmt.Sprintf("c03-members-rnd-%d", i), fmt.Sprintf("members-rnd-%d", i), g.program(recvs, false))...)
	}
	return out
}
