// Package c03 checks property C03: the analyzer rejects every ill-typed program and accepts every
// well-typed one (DESIGN.md §3 C03, Appendix H).
//
// Accept side: hand-written base programs (bases.go), seeded random well-typed programs (gen.go)
// and the shipped corpus programs that are accepted today must receive no error-level diagnostic
// and no syntax error; the type the analyzer records for marked let initialisers must be the type
// the rules assign. Reject side: every single-fault mutant (hv/mutate: one mutator per rule of
// Appendix H, applied at every marked position) must receive at least one error-level diagnostic
// or syntax error. Generated families with a reference model of their own: control flow (flow.go),
// global initialisers (ginit.go), container members (members.go), scoped declarations
// (tyscope.go), import lists (imports.go). All analyzer calls run in-process under recover; a panic is a C05 matter and
// makes the case inconclusive, never a C03 violation.
package c03

import (
	"fmt"
	"regexp"
	"sort"
	"strings"

	"github.com/smarthome-go/homescript/v3/homescript/analyzer/ast"
	"github.com/smarthome-go/homescript/v3/homescript/diagnostic"

	"hv/drive"
	"hv/fw"
	"hv/mutate"
	"hv/util"
)

type c03 struct{}

func init() { fw.Register(c03{}) }

func (c03) ID() string { return "C03" }

func (c03) Info(tier string) fw.Info {
	return fw.Info{
		Level: "exploration",
		Rule: "base programs: hand-written marked programs covering every construct (with mainShallExist both ways), seeded type-directed random programs, shipped corpus programs accepted today; " +
			"control-flow programs (flow.go): statement bodies placed at every position that requires a value (function, closure, block, if/else, match arm, try/catch), judged by a reference model of which blocks can complete; " +
			"global-initialiser programs (ginit.go): constant expression trees (list/object/option literals, operators, casts, indexing, empty list and none under an annotation) as global initialisers, every node of every tree replaced in turn by a global use / a call (reference model: constant iff every sub-expression is), with the same mutated trees as local lets in the base as control; " +
			"container-member programs (members.go): every element-typed member of lists and options on pairs of receivers whose element types share their kind but differ inside, in every receiver form, with the value/annotation of the sibling receiver as near-miss mutant; " +
			"scoped-declaration programs (tyscope.go): type aliases and variables declared at module level (aliases also imported) and again, with a right hand side of the same kind that differs inside, in the scope of every scope-opening construct (function body, block, then/else, while/for/loop body, closure body, match arm, try/catch, for variable, closure parameter) nested up to three deep; uses of the name in every position (annotation, inside [N] / ?N / { f: N }, closure parameter and result, local alias, cast, function signature) before, inside and after each scope, judged by a reference scope stack (the innermost preceding declaration wins), with the value of the shadowed declaration as near-miss mutant; " +
			"import-list programs (imports.go): items of every kind (value, type, templ, trigger) in seeded order and mixture, braced / single / several statements / trailing comma, from the builtin module net, a user module (directly and through a second module) and a harness host module that offers all four kinds, every imported name used in the role of its kind; mutants: the prefix of another kind on every item, every item renamed / listed twice, every use written with the name of an item of another kind; " +
			"each base must get 0 error diagnostics and the recorded type of every marked let initialiser must equal the generator's/author's type; " +
			"every single-fault mutant (one mutator per rule of DESIGN Appendix H x every marked position of the base) must get >= 1 error diagnostic or syntax error. " +
			"non-trivial = the base program was judged as expected (accepted, or rejected for the required-main cases) and, unless the case is accept-only, at least one mutant was analysed; " +
			"distinct = distinct (marked sources, flags)",
		Assumptions: []string{
			"well-typed / ill-typed is the harness author's reading of README, grammar and the C03 statement; mutants whose ill-typedness is not certain (any/unknown/never involved, inferred let types, diverging sibling branches) are dropped and counted as dropped-unsure",
			"int and float are treated as distinct types without implicit conversion; the mutators never rely on that distinction",
			"imported user modules contain a main function (the analyzer analyses imported modules with mainShallExist=true)",
			"position and wording of diagnostics are not checked here (C08)",
			"divergence is read path-insensitively (every condition may go either way; a loop is left only by its own break); bodies on which a cautious analyzer may differ (code after a diverging statement, a throw inside a loop without break) are not generated",
		},
		Exhaustive:   false,
		CaseTimeoutS: 60,
		BatchSize:    24,
	}
}

// Payload of a case: one base program with the instructions which of its mutants to run.
type Payload struct {
	Name      string            `json:"n"`
	Group     string            `json:"g"` // hand | gen | corpus | nomain
	Mods      map[string]string `json:"m"` // marked sources, entry module "main"
	Main      bool              `json:"ms"`
	Construct string            `json:"c"`              // construct label for rejected-base signatures
	Only      string            `json:"only,omitempty"` // run only mutants carrying this tag
	SkipTags  bool              `json:"skip,omitempty"` // run only mutants without any tag
	NoMutants bool              `json:"nm,omitempty"`   // accept-only case
	NoTypes   bool              `json:"nt,omitempty"`   // do not check type expectations (they are checked by a sibling case)
	// ExpectReject: the base program itself is ill-formed for this flag combination (missing main
	// while the host requires one) and must be rejected; Rule/Ctx name the broken rule.
	ExpectReject bool   `json:"xr,omitempty"`
	Rule         string `json:"r,omitempty"`
	// Host: name of an extra builtin module the analyzer host offers beside the testing host's
	// modules ("" none, HostKinds: imports.go).
	Host string `json:"h,omitempty"`
}

func (c03) OnCrash(c fw.Case, cr fw.Crash) fw.Result {
	return fw.Result{Verdict: fw.Inconclusive, Why: fmt.Sprintf("analyzer crash (C05): worker died (%s: %s) at %s", cr.Kind, util.Clip(cr.Message, 160), cr.TopFrame)}
}

// analyze runs the real analyzer under recover.
func analyze(src drive.Sources, mainShall bool, host string) (out drive.AnalyzeOut, panicked any) {
	defer func() {
		if r := recover(); r != nil {
			panicked = r
		}
	}()
	h := &drive.Host{Src: src}
	if host == HostKinds {
		h.ExtraImports = kindsImports()
	}
	out = drive.AnalyzeWith(h, src, "main", mainShall)
	return out, nil
}

var (
	quotedRe = regexp.MustCompile("'[^']*'|`[^`]*`|\"[^\"]*\"")
	numRe    = regexp.MustCompile(`[0-9]+`)
	nonWord  = regexp.MustCompile(`[^a-z]+`)
)

// msgClass reduces a diagnostic message to a short stable class.
func msgClass(msg string) string {
	m := quotedRe.ReplaceAllString(msg, "")
	m = numRe.ReplaceAllString(m, "")
	if i := strings.Index(m, ":"); i > 0 && i < 40 {
		// keep "Regarding function's return type: Mismatched types" informative
		if strings.HasPrefix(m, "Regarding") {
			m = m[i+1:]
			if j := strings.Index(m, ":"); j > 0 {
				m = m[:j]
			}
		} else {
			m = m[:i]
		}
	}
	m = strings.ToLower(strings.TrimSpace(m))
	words := strings.FieldsFunc(nonWord.ReplaceAllString(m, " "), func(r rune) bool { return r == ' ' })
	if len(words) > 5 {
		words = words[:5]
	}
	if len(words) == 0 {
		return "empty"
	}
	return strings.Join(words, "-")
}

// firstErrorClass picks a deterministic error diagnostic (smallest position, then message).
func firstError(out drive.AnalyzeOut) (class, text string) {
	if len(out.Syntax) > 0 {
		s := out.Syntax[0]
		return "syntax-" + msgClass(s.Message), fmt.Sprintf("syntax %s:%d:%d %s", s.Span.Filename, s.Span.Start.Line, s.Span.Start.Column, s.Message)
	}
	var errs []diagnostic.Diagnostic
	for _, d := range out.Diags {
		if d.Level == diagnostic.DiagnosticLevelError {
			errs = append(errs, d)
		}
	}
	if len(errs) == 0 {
		return "", ""
	}
	sort.SliceStable(errs, func(i, j int) bool {
		a, b := errs[i], errs[j]
		if a.Span.Filename != b.Span.Filename {
			return a.Span.Filename < b.Span.Filename
		}
		if a.Span.Start.Line != b.Span.Start.Line {
			return a.Span.Start.Line < b.Span.Start.Line
		}
		if a.Span.Start.Column != b.Span.Start.Column {
			return a.Span.Start.Column < b.Span.Start.Column
		}
		return a.Message < b.Message
	})
	d := errs[0]
	return msgClass(d.Message), fmt.Sprintf("%s:%d:%d %s", d.Span.Filename, d.Span.Start.Line, d.Span.Start.Column, d.Message)
}

// enclosingItem returns the top-level item (function, global, …) of src that holds the 1-based
// line, on one line with runs of white space collapsed.
func enclosingItem(src string, line int) string {
	lines := strings.Split(src, "\n")
	if line < 1 || line > len(lines) {
		return ""
	}
	top := func(l string) bool {
		return l != "" && l[0] != ' ' && l[0] != '\t' && l[0] != '}' && !strings.HasPrefix(l, "//")
	}
	a := line - 1
	for a > 0 && !top(lines[a]) {
		a--
	}
	b := a
	for b+1 < len(lines) && !top(lines[b+1]) {
		b++
	}
	return util.Clip(strings.Join(strings.Fields(strings.Join(lines[a:b+1], " ")), " "), 500)
}

// mutatedItem renders the top-level item of the mutant that differs from the base program.
func mutatedItem(base, mutant string) string {
	bl, ml := strings.Split(base, "\n"), strings.Split(mutant, "\n")
	for i := range ml {
		if i >= len(bl) || bl[i] != ml[i] {
			if it := enclosingItem(mutant, i+1); it != "" {
				return "; mutated item: " + it
			}
			break
		}
	}
	return ""
}

// rejectedItem renders the top-level item the first error diagnostic lies in.
func rejectedItem(src drive.Sources, out drive.AnalyzeOut) string {
	if len(out.Syntax) > 0 {
		return ""
	}
	best := -1
	for i, d := range out.Diags {
		if d.Level != diagnostic.DiagnosticLevelError {
			continue
		}
		if best < 0 || d.Span.Start.Line < out.Diags[best].Span.Start.Line {
			best = i
		}
	}
	if best < 0 {
		return ""
	}
	d := out.Diags[best]
	if it := enclosingItem(src[d.Span.Filename], int(d.Span.Start.Line)); it != "" {
		return "; in: " + it
	}
	return ""
}

// rejectedLine renders the source line of the first error diagnostic (smallest position).
func rejectedLine(src drive.Sources, out drive.AnalyzeOut) string {
	if len(out.Syntax) > 0 {
		return ""
	}
	best := -1
	for i, d := range out.Diags {
		if d.Level != diagnostic.DiagnosticLevelError {
			continue
		}
		if best < 0 || d.Span.Start.Line < out.Diags[best].Span.Start.Line ||
			d.Span.Start.Line == out.Diags[best].Span.Start.Line && d.Span.Start.Column < out.Diags[best].Span.Start.Column {
			best = i
		}
	}
	if best < 0 {
		return ""
	}
	d := out.Diags[best]
	lines := strings.Split(src[d.Span.Filename], "\n")
	if l := int(d.Span.Start.Line); l >= 1 && l <= len(lines) {
		return "; line: " + util.Clip(strings.TrimSpace(lines[l-1]), 300)
	}
	return ""
}

func hasTag(tags []string, t string) bool {
	for _, x := range tags {
		if x == t {
			return true
		}
	}
	return false
}

func (c03) Run(c fw.Case) (res fw.Result) {
	var p Payload
	fw.Decode(c, &p)
	res = fw.Result{Verdict: fw.Held, Obs: map[string]int64{}}
	cover := map[string]bool{"group:" + p.Group: true}
	defer func() {
		for k := range cover {
			res.Cover = append(res.Cover, k)
		}
		sort.Strings(res.Cover)
	}()
	var subs []fw.SubViolation
	finish := func() fw.Result {
		if len(subs) > 0 {
			res.Verdict = fw.Violated
			res.Why, res.Sig, res.Detail = subs[0].Why, subs[0].Sig, subs[0].Detail
			if len(subs) > 12 {
				// keep replay files small: one witness per signature, then the rest up to 12
				seen := map[string]bool{}
				var keep []fw.SubViolation
				for _, s := range subs[1:] {
					if !seen[s.Sig] && s.Sig != res.Sig {
						seen[s.Sig] = true
						keep = append(keep, s)
					}
				}
				for _, s := range subs[1:] {
					if len(keep) >= 12 {
						break
					}
					if seen[s.Sig] && s.Sig != res.Sig {
						continue
					}
					keep = append(keep, s)
				}
				res.More = keep
			} else {
				res.More = subs[1:]
			}
		}
		return res
	}

	parsed, err := mutate.Parse(p.Mods)
	if err != nil {
		cover["harness-error"] = true
		res.Verdict = fw.Inconclusive
		res.Why = "harness error: bad markers in " + p.Name + ": " + err.Error()
		return res
	}
	base := drive.Sources{}
	for k, v := range parsed.Plain {
		base[k] = v
	}
	res.Obs["base_programs"] = 1
	out, pv := analyze(base, p.Main, p.Host)
	res.Evals = 1
	if pv != nil {
		res.Verdict = fw.Inconclusive
		res.Obs["analyzer_panics"]++
		res.Why = fmt.Sprintf("analyzer panic (C05): %s on base program %s", util.Clip(fmt.Sprint(pv), 160), p.Name)
		return res
	}
	if p.ExpectReject {
		cover["rule:"+p.Rule] = true
		res.Obs["mutants"]++
		res.Obs["mutants:"+p.Rule]++
		if out.Errors == 0 {
			subs = append(subs, fw.SubViolation{
				Sig:    "accepted-mutant:" + p.Rule + ":" + p.Construct,
				Why:    fmt.Sprintf("ill-formed program %s (rule %s, mainShallExist=%v) got no error diagnostic", p.Name, p.Rule, p.Main),
				Detail: map[string]any{"program": parsed.Plain["main"], "mainShallExist": p.Main},
			})
		} else {
			res.Nontrivial = true
		}
		return finish()
	}
	if out.Errors != 0 && p.Only != "" {
		// the sibling main case reports the rejected base program
		cover["skipped-base-rejected"] = true
		return finish()
	}
	if out.Errors != 0 {
		class, text := firstError(out)
		if p.Group == "flow" {
			// many small functions per program: show the one the first error points into
			text += rejectedItem(base, out)
		} else if p.Group == "members" || p.Group == "ginit" || p.Group == "scope" || p.Group == "imports" {
			// one long function / many globals per program: show the line the first error points at
			text += rejectedLine(base, out)
		}
		subs = append(subs, fw.SubViolation{
			Sig:    "rejected-base:" + p.Construct + ":" + class,
			Why:    fmt.Sprintf("well-typed program %s (%s, mainShallExist=%v) rejected with %d error(s), first: %s", p.Name, p.Construct, p.Main, out.Errors, text),
			Detail: map[string]any{"program": parsed.Plain, "errors": out.ErrorSummary()},
		})
		res.Obs["rejected_bases"] = 1
		return finish()
	}
	cover["accepted-base"] = true
	res.Nontrivial = p.NoMutants

	// types recorded for marked let initialisers
	if !p.NoTypes && len(parsed.Expects) > 0 {
		lets := map[string]map[string][]ast.AnalyzedLetStatement{}
		for mod, prog := range out.Modules {
			lets[mod] = collectLets(prog)
		}
		for _, e := range parsed.Expects {
			res.Evals++
			res.Obs["type_expectations"]++
			found := lets[e.Module][e.Name]
			if len(found) != 1 {
				subs = append(subs, fw.SubViolation{
					Sig: "type-mismatch:let-not-found",
					Why: fmt.Sprintf("program %s: expected exactly one analysed `let %s` in module %s, found %d", p.Name, e.Name, e.Module, len(found)),
				})
				continue
			}
			got := CanonType(found[0].Expression.Type())
			what := "initialiser of"
			if e.OfVar {
				got = CanonType(found[0].VarType)
				what = "variable of"
			}
			if got != e.Type {
				subs = append(subs, fw.SubViolation{
					Sig:    "type-mismatch:" + e.Class,
					Why:    fmt.Sprintf("program %s: %s `let %s` is recorded with type %s, the rules assign %s", p.Name, what, e.Name, got, e.Type),
					Detail: map[string]any{"program": parsed.Plain[e.Module], "let": e.Name, "recorded": got, "expected": e.Type},
				})
			} else {
				cover["type:"+e.Class] = true
			}
		}
	}
	if p.NoMutants {
		return finish()
	}

	muts, dropped := mutate.Mutants(parsed)
	if p.Only == "" {
		for _, r := range mutate.SortedKeys(dropped) {
			res.Obs["dropped-unsure"] += int64(dropped[r])
			res.Obs["dropped-unsure:"+r] += int64(dropped[r])
		}
	}
	ran := 0
	panics := 0
	for _, m := range muts {
		if p.Only != "" && !hasTag(m.Tags, p.Only) {
			continue
		}
		if p.SkipTags && len(m.Tags) > 0 {
			continue
		}
		src := drive.Sources{}
		for k, v := range base {
			src[k] = v
		}
		src[m.Module] = m.Source
		mo, mpv := analyze(src, p.Main, p.Host)
		res.Evals++
		ran++
		res.Obs["mutants"]++
		res.Obs["mutants:"+m.Rule]++
		cover["rule:"+m.Rule] = true
		if mpv != nil {
			panics++
			res.Obs["analyzer_panics"]++
			if res.Why == "" {
				res.Why = fmt.Sprintf("analyzer panic (C05): %s on mutant [%s] of %s: %s", util.Clip(fmt.Sprint(mpv), 160), m.Rule, p.Name, m.Desc)
			}
			continue
		}
		if mo.Errors == 0 {
			sigCtx := m.Ctx
			if p.Group == "ginit" {
				// the context of a tree node is the whole path from the root; the signature keeps the
				// position and its parent only
				sigCtx = ginitSigCtx(sigCtx)
			}
			subs = append(subs, fw.SubViolation{
				Sig:    "accepted-mutant:" + m.Rule + ":" + sigCtx,
				Why:    fmt.Sprintf("ill-typed mutant of %s got no error diagnostic: rule %s, context %s, %s%s", p.Name, m.Rule, m.Ctx, m.Desc, mutatedItem(base[m.Module], m.Source)),
				Detail: map[string]any{"module": m.Module, "mutant": m.Source, "rule": m.Rule, "ctx": m.Ctx, "desc": m.Desc, "tags": m.Tags},
			})
		}
	}
	res.Nontrivial = ran > 0
	if len(subs) == 0 && panics > 0 {
		res.Verdict = fw.Inconclusive
		return res
	}
	if len(subs) > 0 {
		res.Why = ""
	}
	if ran > 0 && c.ID != "" && fw.HashOf(c.ID)[0] == '0' && len(muts) > 0 {
		m := muts[len(muts)/2]
		res.Sample = map[string]any{"base": p.Name, "rule": m.Rule, "ctx": m.Ctx, "desc": m.Desc, "mutant": util.Clip(m.Source, 600)}
	}
	return finish()
}

// Finalize fails the run when the harness itself misbehaved or a rule was never exercised.
func (c03) Finalize(tier string, results []fw.Result, coverage map[string]any) string {
	rules := map[string]bool{}
	for _, r := range results {
		for _, k := range r.Cover {
			if k == "harness-error" {
				return "a base program has malformed markers: " + r.Why
			}
			if strings.HasPrefix(k, "rule:") {
				rules[k[5:]] = true
			}
		}
	}
	var missing []string
	for _, r := range append(append([]string{}, mutate.Rules...), "implicit-any", "impl", "trigger", "main", "cast", "spawn", "import") {
		if !rules[r] {
			missing = append(missing, r)
		}
	}
	if len(missing) > 0 {
		return "rules never exercised by any mutant: " + strings.Join(missing, ", ")
	}
	return ""
}

// ---------------------------------------------------------------------------------------------
// Canonical rendering of analyzer types (independent of ast.Type.String, whose object rendering
// is quoted inconsistently) — same form as mutate.Ty.String.
// ---------------------------------------------------------------------------------------------

// CanonType renders an analyzer type in the canonical form of mutate.Ty.
func CanonType(t ast.Type) string {
	if t == nil {
		return "nil"
	}
	switch t.Kind() {
	case ast.UnknownTypeKind:
		return "unknown"
	case ast.NeverTypeKind:
		return "never"
	case ast.AnyTypeKind:
		return "any"
	case ast.NullTypeKind:
		return "null"
	case ast.IntTypeKind:
		return "int"
	case ast.FloatTypeKind:
		return "float"
	case ast.BoolTypeKind:
		return "bool"
	case ast.StringTypeKind:
		return "str"
	case ast.RangeTypeKind:
		return "range"
	case ast.AnyObjectTypeKind:
		return "{?}"
	case ast.ListTypeKind:
		return "[" + CanonType(t.(ast.ListType).Inner) + "]"
	case ast.OptionTypeKind:
		return "?" + CanonType(t.(ast.OptionType).Inner)
	case ast.ObjectTypeKind:
		o := t.(ast.ObjectType)
		parts := make([]string, len(o.ObjFields))
		for i, f := range o.ObjFields {
			parts[i] = f.FieldName.Ident() + ":" + CanonType(f.Type)
		}
		sort.Strings(parts)
		return "{" + strings.Join(parts, ",") + "}"
	case ast.FnTypeKind:
		f := t.(ast.FunctionType)
		switch ps := f.Params.(type) {
		case ast.NormalFunctionTypeParamKindIdentifier:
			parts := make([]string, 0, len(ps.Params))
			for _, p := range ps.Params {
				parts = append(parts, p.Name.Ident()+":"+CanonType(p.Type))
			}
			return "fn(" + strings.Join(parts, ",") + ")->" + CanonType(f.ReturnType)
		case ast.VarArgsFunctionTypeParamKindIdentifier:
			parts := make([]string, 0, len(ps.ParamTypes))
			for _, p := range ps.ParamTypes {
				parts = append(parts, CanonType(p))
			}
			return "fn(" + strings.Join(parts, ",") + "..." + CanonType(ps.RemainingType) + ")->" + CanonType(f.ReturnType)
		}
	}
	return "kind" + fmt.Sprint(int(t.Kind()))
}

// ---------------------------------------------------------------------------------------------
// Walk of the analysed program collecting let statements by name.
// ---------------------------------------------------------------------------------------------

func collectLets(prog ast.AnalyzedProgram) map[string][]ast.AnalyzedLetStatement {
	out := map[string][]ast.AnalyzedLetStatement{}
	w := &walker{lets: out}
	for _, g := range prog.Globals {
		w.stmt(g)
	}
	for _, f := range prog.Functions {
		w.block(f.Body)
	}
	for _, ib := range prog.ImplBlocks {
		for _, f := range ib.Methods {
			w.block(f.Body)
		}
	}
	return out
}

type walker struct {
	lets map[string][]ast.AnalyzedLetStatement
}

func (w *walker) block(b ast.AnalyzedBlock) {
	for _, s := range b.Statements {
		w.stmt(s)
	}
	if b.Expression != nil {
		w.expr(b.Expression)
	}
}

func (w *walker) stmt(s ast.AnalyzedStatement) {
	switch v := s.(type) {
	case ast.AnalyzedLetStatement:
		w.lets[v.Ident.Ident()] = append(w.lets[v.Ident.Ident()], v)
		w.expr(v.Expression)
	case ast.AnalyzedReturnStatement:
		if v.ReturnValue != nil {
			w.expr(v.ReturnValue)
		}
	case ast.AnalyzedLoopStatement:
		w.block(v.Body)
	case ast.AnalyzedWhileStatement:
		w.expr(v.Condition)
		w.block(v.Body)
	case ast.AnalyzedForStatement:
		w.expr(v.IterExpression)
		w.block(v.Body)
	case ast.AnalyzedExpressionStatement:
		w.expr(v.Expression)
	case ast.AnalyzedTriggerStatement:
		for _, a := range v.TriggerArguments.List {
			w.expr(a.Expression)
		}
	}
}

func (w *walker) expr(e ast.AnalyzedExpression) {
	switch v := e.(type) {
	case nil:
	case ast.AnalyzedRangeLiteralExpression:
		w.expr(v.Start)
		w.expr(v.End)
	case ast.AnalyzedListLiteralExpression:
		for _, x := range v.Values {
			w.expr(x)
		}
	case ast.AnalyzedObjectLiteralExpression:
		for _, f := range v.Fields {
			w.expr(f.Expression)
		}
	case ast.AnalyzedFunctionLiteralExpression:
		w.block(v.Body)
	case ast.AnalyzedGroupedExpression:
		w.expr(v.Inner)
	case ast.AnalyzedPrefixExpression:
		w.expr(v.Base)
	case ast.AnalyzedInfixExpression:
		w.expr(v.Lhs)
		w.expr(v.Rhs)
	case ast.AnalyzedAssignExpression:
		w.expr(v.Lhs)
		w.expr(v.Rhs)
	case ast.AnalyzedCallExpression:
		w.expr(v.Base)
		for _, a := range v.Arguments.List {
			w.expr(a.Expression)
		}
	case ast.AnalyzedIndexExpression:
		w.expr(v.Base)
		w.expr(v.Index)
	case ast.AnalyzedMemberExpression:
		w.expr(v.Base)
	case ast.AnalyzedCastExpression:
		w.expr(v.Base)
	case ast.AnalyzedBlockExpression:
		w.block(v.Block)
	case ast.AnalyzedIfExpression:
		w.expr(v.Condition)
		w.block(v.ThenBlock)
		if v.ElseBlock != nil {
			w.block(*v.ElseBlock)
		}
	case ast.AnalyzedMatchExpression:
		w.expr(v.ControlExpression)
		for _, a := range v.Arms {
			w.expr(a.Action)
		}
		if v.DefaultArmAction != nil {
			w.expr(*v.DefaultArmAction)
		}
	case ast.AnalyzedTryExpression:
		w.block(v.TryBlock)
		w.block(v.CatchBlock)
	}
}
