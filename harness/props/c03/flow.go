package c03

// Control-flow ("flow") program family of C03: which blocks diverge.
//
// The analyzer types a block `never` when control cannot leave it normally (it ends in return /
// break / continue / throw, in an if/else, match-with-default or try/catch all of whose branches
// diverge, or in a `loop` without a `break` of its own) and `null` (or the type of its trailing
// expression) otherwise; `never` is compatible with every expected type. A mistake in that
// bookkeeping breaks both directions of C03: a function, closure or value branch that can fall off
// its end without the declared value is accepted, or a program all of whose paths deliver the
// value is rejected; and the type recorded for `let v = if c { 1 } else { return 0; }` is no
// longer the type of the branch that yields a value.
//
// This file holds
//   - a small IR of control-flow statements with a reference model of "may complete normally"
//     (flowEval). The model is the plain path-insensitive reading: every condition may go either
//     way, a `loop` is left only through a `break` of its own, while/for can always be left, a
//     closure literal is an ordinary statement. It knows nothing about /repo;
//   - a seeded generator of statement bodies and a list of systematic bodies (every ordered pair of
//     loop-body elements; every diverging construct in every value position);
//   - a builder that places a body B at a position that requires a value of a non-null type T
//     (function body, closure body, block value, then/else branch, match arm / default arm,
//     try / catch block) and emits marked source (hv/mutate), so that the accept oracle, the type
//     oracle and the mutant oracle of c03.Run apply unchanged:
//       * B cannot complete: the program is well-typed as it stands; every single edit that lets
//         B complete (a return/throw/break/continue replaced by a plain statement, a `break`
//         inserted into an infinite loop) is an explicit mutant that must be rejected;
//       * B can complete: the base carries a value after B; deleting that value is the mutant;
//       * value positions bind the result with an inferred `let` (type expectation T) and use it
//         at typed positions whose partner is then mutated (operand, member, annotated let,
//         argument), so a value that silently lost its static type is noticed.
//
// Where the path-insensitive reading and a cautious implementation may legitimately differ the
// model answers "unsure" and the generator drops the construct: statements after a diverging
// statement.

import (
	"fmt"
	"strings"

	"hv/fw"
	"hv/mutate"
)

type fkind int

const (
	fSimple fkind = iota
	fRet
	fThrow
	fBrk
	fCont
	fIf    // kids[0] then, kids[1] else if els
	fMatch // kids = arms, the last one is the default arm if els
	fTry   // kids[0] try, kids[1] catch
	fBlock // kids[0]
	fLoop  // kids[0]
	fWhile // kids[0]
	fFor   // kids[0]
	fClo   // kids[0]: `let g = fn() { … };`
)

var fkindName = map[fkind]string{fSimple: "stmt", fRet: "return", fThrow: "throw", fBrk: "break", fCont: "continue", fIf: "if", fMatch: "match",
	fTry: "try", fBlock: "block", fLoop: "loop", fWhile: "while", fFor: "for", fClo: "closure"}

type fnode struct {
	k      fkind
	kids   [][]*fnode
	els    bool // if: else branch present; match: default arm present
	cond   int  // which condition / iterator text is used
	nosemi bool // compound expression statement written without `;` (only as the last statement of a block without value)
	// edits that turn the enclosing body into one that can complete (filled by flowEdits)
	edits []string
}

func fleaf(k fkind) *fnode                   { return &fnode{k: k} }
func fcomp(k fkind, kids ...[]*fnode) *fnode { return &fnode{k: k, kids: kids} }
func fifElse(c int, a, b []*fnode) *fnode {
	return &fnode{k: fIf, kids: [][]*fnode{a, b}, els: true, cond: c}
}
func fif(c int, a []*fnode) *fnode { return &fnode{k: fIf, kids: [][]*fnode{a}, cond: c} }
func fseq(xs ...*fnode) []*fnode   { return xs }

// flowRes is the verdict of the reference model for a statement or a block.
type flowRes struct {
	c      bool // control may reach the end of the statement / block
	brk    bool // contains a `break` that leaves the innermost enclosing loop
	ne     bool // contains, outside of nested loops, a throw or a compound expression none of whose branches completes
	unsure bool // the path-insensitive reading is not enough to decide
}

func flowEvalBlock(b []*fnode) flowRes {
	r := flowRes{c: true}
	for _, s := range b {
		if !r.c {
			r.unsure = true // unreachable statement: whether its break/throw counts is not ours to say
		}
		x := flowEval(s)
		r.c = r.c && x.c
		r.brk = r.brk || x.brk
		r.ne = r.ne || x.ne
		r.unsure = r.unsure || x.unsure
	}
	return r
}

func flowEval(s *fnode) flowRes {
	switch s.k {
	case fSimple:
		return flowRes{c: true}
	case fRet, fCont:
		return flowRes{}
	case fThrow:
		return flowRes{ne: true}
	case fBrk:
		return flowRes{brk: true}
	case fIf:
		a := flowEvalBlock(s.kids[0])
		b := flowRes{c: true}
		if s.els {
			b = flowEvalBlock(s.kids[1])
		}
		c := a.c || b.c
		return flowRes{c: c, brk: a.brk || b.brk, ne: a.ne || b.ne || !c, unsure: a.unsure || b.unsure}
	case fMatch:
		r := flowRes{c: !s.els}
		for _, k := range s.kids {
			a := flowEvalBlock(k)
			r.c = r.c || a.c
			r.brk = r.brk || a.brk
			r.ne = r.ne || a.ne || !a.c // an arm is a block expression of its own
			r.unsure = r.unsure || a.unsure
		}
		return r
	case fTry:
		// the try block starts with a call that may throw, so the catch block is reachable
		a, b := flowEvalBlock(s.kids[0]), flowEvalBlock(s.kids[1])
		c := a.c || b.c
		return flowRes{c: c, brk: a.brk || b.brk, ne: a.ne || b.ne || !c, unsure: a.unsure || b.unsure}
	case fBlock:
		a := flowEvalBlock(s.kids[0])
		a.ne = a.ne || !a.c
		return a
	case fLoop:
		a := flowEvalBlock(s.kids[0])
		// (until the fix of the analyzer a loop without break whose body held a never-typed expression
		// was typed null; only a break of its own lets a loop complete)
		return flowRes{c: a.brk, unsure: a.unsure}
	case fWhile, fFor:
		a := flowEvalBlock(s.kids[0])
		return flowRes{c: true, unsure: a.unsure}
	case fClo:
		a := flowEvalBlock(s.kids[0])
		return flowRes{c: true, ne: a.ne, unsure: a.unsure || a.brk}
	}
	panic("flowEval: unknown kind")
}

// flowWalk visits every node of a body.
func flowWalk(b []*fnode, f func(*fnode)) {
	for _, s := range b {
		f(s)
		for _, k := range s.kids {
			flowWalk(k, f)
		}
	}
}

// needsLoop: the body contains a break/continue that is not inside a loop of the body itself.
func needsLoop(b []*fnode) bool {
	for _, s := range b {
		switch s.k {
		case fBrk, fCont:
			return true
		case fLoop, fWhile, fFor, fClo:
		default:
			for _, k := range s.kids {
				if needsLoop(k) {
					return true
				}
			}
		}
	}
	return false
}

const (
	editPlain      = "plain"       // a return/throw/break/continue becomes a plain statement
	editBreakFirst = "break-first" // `if d { break; };` inserted as the first statement of a loop body
	editBreakLast  = "break-last"  // … as the last statement of a loop body
)

// flowEdits records on the nodes of a body that cannot complete the single edits after which it
// surely can (judged by the model on the edited body).
func flowEdits(body []*fnode) int {
	n := 0
	sure := func() bool { r := flowEvalBlock(body); return r.c && !r.unsure }
	guard := fif(1, fseq(fleaf(fBrk)))
	flowWalk(body, func(s *fnode) {
		s.edits = nil
		switch s.k {
		case fRet, fThrow, fBrk, fCont:
			k := s.k
			s.k = fSimple
			if sure() {
				s.edits = append(s.edits, editPlain)
			}
			s.k = k
		case fLoop:
			old := s.kids[0]
			s.kids[0] = append([]*fnode{guard}, old...)
			if sure() {
				s.edits = append(s.edits, editBreakFirst)
			}
			s.kids[0] = append(append([]*fnode{}, old...), guard)
			if sure() {
				s.edits = append(s.edits, editBreakLast)
			}
			s.kids[0] = old
		}
		n += len(s.edits)
	})
	return n
}

// ---------------------------------------------------------------------------------------------
// Value types of the positions
// ---------------------------------------------------------------------------------------------

type flowTy struct {
	canon, src   string
	lit, lit2    string // two values of the type
	op, partner  string // infix operator and a partner operand, "" if the type has no operator use
	member       string // a nullary member
	other, taker string // another type and the helper function taking it
}

var flowTys = []flowTy{
	{canon: "int", src: "int", lit: "1", lit2: "2", op: "+", partner: "3", member: "to_string", other: "str", taker: "take_str"},
	{canon: "str", src: "str", lit: `"a"`, lit2: `"b"`, op: "+", partner: `"c"`, member: "len", other: "int", taker: "take_int"},
	{canon: "bool", src: "bool", lit: "true", lit2: "false", op: "&&", partner: "true", member: "to_string", other: "int", taker: "take_int"},
	{canon: "float", src: "float", lit: "1.5", lit2: "2.5", op: "*", partner: "0.5", member: "to_string", other: "str", taker: "take_str"},
	{canon: "[int]", src: "[int]", lit: "[1, 2]", lit2: "[3]", member: "len", other: "int", taker: "take_int"},
	{canon: "?int", src: "?int", lit: "?4", lit2: "?5", member: "is_some", other: "int", taker: "take_int"},
}

const flowPrelude = `fn chk(n: int) -> int {
    if n < 0 {
        throw("negative");
    }
    n
}

fn take_int(x: int) -> int { x }

fn take_str(x: str) -> str { x }

`

// positions at which a body is placed
const (
	posFn = iota
	posClosure
	posBlock
	posThen
	posElse
	posArm
	posDefault
	posTry
	posCatch
	nPos
)

var posName = []string{"fn-body", "closure-body", "block-value", "then-branch", "else-branch", "match-arm", "match-default", "try-block", "catch-block"}

var flowConds = []string{"c", "d", "n > 2", "n == 0", "c && d"}
var flowIters = []string{"0..n", "0..2", `"ab"`, "[n, 1]"}

// flowUnit renders one unit: body B at position pos with value type T. hostLoop wraps the value
// binding into a loop (needed when B uses break/continue at its top level).
type flowUnit struct {
	idx      int
	pos      int
	ty       flowTy
	body     []*fnode
	hostLoop int // 0 none, 1 for, 2 while, 3 loop
	names    int
}

type flowRender struct {
	sb   strings.Builder
	u    *flowUnit
	ret  string // literal returned by `return` at the current nesting ("" inside null closures)
	rule string
}

func (r *flowRender) name(p string) string {
	r.u.names++
	return fmt.Sprintf("%s%d_%d", p, r.u.idx, r.u.names)
}

func (r *flowRender) line(ind int, s string) {
	r.sb.WriteString(strings.Repeat("    ", ind) + s + "\n")
}

func (r *flowRender) mutOf(s *fnode, kind, base, alt string) string {
	for _, e := range s.edits {
		if e == kind {
			return mk("ctx", kind, "«mut:"+r.rule+"|"+base+"¦"+alt+"»")
		}
	}
	return base
}

// stmts renders a statement list; every child block is wrapped in the ctx label of its construct.
func (r *flowRender) stmts(b []*fnode, ind int) {
	for _, s := range b {
		r.stmt(s, ind)
	}
}

func (r *flowRender) stmt(s *fnode, ind int) {
	semi := ";"
	if s.nosemi {
		semi = ""
	}
	pad := strings.Repeat("    ", ind)
	switch s.k {
	case fSimple:
		r.line(ind, "println(n);")
	case fRet:
		t := "return " + r.ret + ";"
		if r.ret == "" {
			t = "return;"
		}
		r.line(ind, r.mutOf(s, editPlain, t, "println(n);"))
	case fThrow:
		r.line(ind, r.mutOf(s, editPlain, `throw("boom");`, "println(n);"))
	case fBrk:
		r.line(ind, r.mutOf(s, editPlain, "break;", "println(n);"))
	case fCont:
		r.line(ind, r.mutOf(s, editPlain, "continue;", "println(n);"))
	case fIf:
		r.sb.WriteString(pad + "if " + flowConds[s.cond%len(flowConds)] + " «ctx:if|{\n")
		r.stmts(s.kids[0], ind+1)
		if s.els {
			r.sb.WriteString(pad + "}» else «ctx:else|{\n")
			r.stmts(s.kids[1], ind+1)
		}
		r.sb.WriteString(pad + "}»" + semi + "\n")
	case fMatch:
		r.sb.WriteString(pad + "match n {\n")
		for i, k := range s.kids {
			pat := fmt.Sprint(i + 1)
			label := "match-arm"
			if s.els && i == len(s.kids)-1 {
				pat, label = "_", "match-default"
			}
			r.sb.WriteString(pad + "    " + pat + " => «ctx:" + label + "|{\n")
			r.stmts(k, ind+2)
			r.sb.WriteString(pad + "    }»\n")
		}
		r.sb.WriteString(pad + "}" + semi + "\n")
	case fTry:
		r.sb.WriteString(pad + "try «ctx:try|{\n")
		r.line(ind+1, "chk(n);")
		r.stmts(s.kids[0], ind+1)
		r.sb.WriteString(pad + "}» catch " + r.name("e") + " «ctx:catch|{\n")
		r.stmts(s.kids[1], ind+1)
		r.sb.WriteString(pad + "}»" + semi + "\n")
	case fBlock:
		r.sb.WriteString(pad + "«ctx:block|{\n")
		r.stmts(s.kids[0], ind+1)
		r.sb.WriteString(pad + "}»" + semi + "\n")
	case fLoop:
		r.sb.WriteString(pad + "loop «ctx:loop|{\n")
		if g := r.mutOf(s, editBreakFirst, "", "if d { break; };"); g != "" {
			r.line(ind+1, g)
		}
		r.stmts(s.kids[0], ind+1)
		if g := r.mutOf(s, editBreakLast, "", "if d { break; };"); g != "" {
			r.line(ind+1, g)
		}
		r.sb.WriteString(pad + "}»\n")
	case fWhile:
		r.sb.WriteString(pad + "while " + flowConds[s.cond%len(flowConds)] + " «ctx:while|{\n")
		r.stmts(s.kids[0], ind+1)
		r.sb.WriteString(pad + "}»\n")
	case fFor:
		r.sb.WriteString(pad + "for " + r.name("_i") + " in " + flowIters[s.cond%len(flowIters)] + " «ctx:for|{\n")
		r.stmts(s.kids[0], ind+1)
		r.sb.WriteString(pad + "}»\n")
	case fClo:
		saved := r.ret
		r.ret = ""
		r.sb.WriteString(pad + "let " + r.name("_g") + " = fn() «ctx:closure|{\n")
		r.stmts(s.kids[0], ind+1)
		r.sb.WriteString(pad + "}»;\n")
		r.ret = saved
	}
}

// render emits the marked text of the unit and the statement that calls it from main.
func (u *flowUnit) render() (text, call string, nMut int) {
	res := flowEvalBlock(u.body)
	if res.unsure {
		panic("flowUnit: unsure body")
	}
	r := &flowRender{u: u, ret: u.ty.lit2, rule: "branch"}
	if u.pos == posFn || u.pos == posClosure {
		r.rule = "return"
	}
	flowWalk(u.body, func(s *fnode) { s.edits = nil })
	tail := ""
	if res.c {
		// the body can complete: a value follows it, and the value is what a mutant deletes
		tail = mk("ctx", "missing-value", "«mut:"+r.rule+"|"+u.ty.lit2+"¦»")
		nMut = 1
	} else {
		nMut = flowEdits(u.body)
	}
	T := u.ty
	fname := fmt.Sprintf("u%d", u.idx)
	sig := "fn " + fname + "(c: bool, d: bool, n: int) -> " + T.src
	label := posName[u.pos]
	body := func(ind int, first string) {
		// writes "«ctx:label|{ … }»"
		r.sb.WriteString("«ctx:" + label + "|{\n")
		if first != "" {
			r.line(ind+1, first)
		}
		r.stmts(u.body, ind+1)
		if tail != "" {
			r.line(ind+1, tail)
		}
		r.sb.WriteString(strings.Repeat("    ", ind) + "}»")
	}
	switch u.pos {
	case posFn:
		r.sb.WriteString(sig + " ")
		body(0, "")
		r.sb.WriteString("\n\n")
	case posClosure:
		r.sb.WriteString(sig + " {\n")
		cl := fmt.Sprintf("k%d", u.idx)
		r.sb.WriteString("    let " + cl + " = fn(m: int) -> " + T.src + " ")
		body(1, "println(m);")
		r.sb.WriteString(";\n    " + cl + "(n)\n}\n\n")
	default:
		r.sb.WriteString(sig + " {\n")
		ind := 1
		switch u.hostLoop {
		case 1:
			r.line(1, "for _h in 0..3 {")
			ind = 2
		case 2:
			r.line(1, "while d {")
			ind = 2
		case 3:
			r.line(1, "loop {")
			ind = 2
		}
		pad := strings.Repeat("    ", ind)
		v := fmt.Sprintf("v%d", u.idx)
		r.sb.WriteString(pad + "let " + v + " = «ty:" + T.canon + "|")
		val := "{ " + T.lit + " }"
		switch u.pos {
		case posBlock:
			body(ind, "")
		case posThen:
			r.sb.WriteString("if c ")
			body(ind, "")
			r.sb.WriteString(" else " + val)
		case posElse:
			r.sb.WriteString("if c " + val + " else ")
			body(ind, "")
		case posArm:
			r.sb.WriteString("match n {\n" + pad + "    1 => ")
			body(ind+1, "")
			r.sb.WriteString("\n" + pad + "    _ => " + val + "\n" + pad + "}")
		case posDefault:
			r.sb.WriteString("match n {\n" + pad + "    1 | 2 => " + val + "\n" + pad + "    _ => ")
			body(ind+1, "")
			r.sb.WriteString("\n" + pad + "}")
		case posTry:
			r.sb.WriteString("try ")
			body(ind, "chk(n);")
			r.sb.WriteString(" catch " + r.name("e") + " " + val)
		case posCatch:
			r.sb.WriteString("try { chk(n); " + T.lit + " } catch " + r.name("e") + " ")
			body(ind, "")
		}
		r.sb.WriteString("»;\n")
		// typed uses of the bound value: the partner of the value is what the mutants break
		r.sb.WriteString("«ctx:use-of-value|")
		if T.op != "" {
			r.line(ind, "println("+mk("opd", T.canon, v)+" "+T.op+" "+mk("opd", T.canon, T.partner)+");")
			nMut++
		}
		r.line(ind, "println("+v+"."+mk("id", "member", T.member)+"());")
		r.line(ind, "let w"+fmt.Sprint(u.idx)+": «mut:assignment|"+T.src+"¦"+T.other+"» = "+v+";")
		r.line(ind, "println(w"+fmt.Sprint(u.idx)+", «mut:argument|¦"+T.taker+"»("+v+"));")
		nMut += 3
		r.sb.WriteString("»")
		if u.hostLoop == 3 {
			r.line(ind, "if c { break; };")
		}
		if u.hostLoop != 0 {
			r.line(1, "}")
		}
		r.line(1, T.lit)
		r.sb.WriteString("}\n\n")
	}
	return r.sb.String(), "println(" + fname + "(true, false, 1));", nMut
}

// ---------------------------------------------------------------------------------------------
// Random bodies
// ---------------------------------------------------------------------------------------------

type flowGen struct{ r *fw.Rng }

func (g *flowGen) block(depth int, inLoop bool, maxLen int) []*fnode {
	n := g.r.Intn(maxLen + 1)
	var out []*fnode
	for i := 0; i < n; i++ {
		s := g.stmt(depth, inLoop)
		x := flowEval(s)
		if x.unsure {
			continue
		}
		out = append(out, s)
		if !x.c {
			break
		}
	}
	if len(out) > 0 {
		// a compound expression statement that ends a block may also be its trailing expression
		switch last := out[len(out)-1]; last.k {
		case fIf, fMatch, fTry, fBlock:
			last.nosemi = g.r.Chance(1, 3)
		}
	}
	return out
}

func (g *flowGen) stmt(depth int, inLoop bool) *fnode {
	k := g.r.Intn(20)
	if depth <= 0 && k >= 8 {
		k = g.r.Intn(8)
	}
	c := g.r.Intn(len(flowConds))
	switch {
	case k < 2:
		return fleaf(fSimple)
	case k < 4:
		return fleaf(fRet)
	case k == 4:
		return fleaf(fThrow)
	case k < 7:
		if inLoop {
			return fleaf(fBrk)
		}
		return fleaf(fRet)
	case k == 7:
		if inLoop {
			return fleaf(fCont)
		}
		return fleaf(fSimple)
	case k < 11:
		if g.r.Bool() {
			return fif(c, g.block(depth-1, inLoop, 2))
		}
		return fifElse(c, g.block(depth-1, inLoop, 2), g.block(depth-1, inLoop, 2))
	case k == 11:
		n := 1 + g.r.Intn(3)
		m := &fnode{k: fMatch, els: g.r.Chance(2, 3)}
		for i := 0; i < n; i++ {
			m.kids = append(m.kids, g.block(depth-1, inLoop, 2))
		}
		return m
	case k == 12:
		return fcomp(fTry, g.block(depth-1, inLoop, 2), g.block(depth-1, inLoop, 2))
	case k == 13:
		return fcomp(fBlock, g.block(depth-1, inLoop, 2))
	case k < 16:
		return fcomp(fLoop, g.block(depth-1, true, 3))
	case k == 16:
		return &fnode{k: fWhile, cond: c, kids: [][]*fnode{g.block(depth-1, true, 2)}}
	case k < 19:
		return &fnode{k: fFor, cond: c, kids: [][]*fnode{g.block(depth-1, true, 2)}}
	default:
		return fcomp(fClo, g.block(depth-1, false, 2))
	}
}

// body draws bodies until one has the wanted verdict (diverge or complete).
func (g *flowGen) body(inLoop, wantComplete bool) []*fnode {
	for try := 0; try < 40; try++ {
		b := g.block(3, inLoop, 3)
		r := flowEvalBlock(b)
		if r.unsure || len(b) == 0 {
			continue
		}
		if r.c == wantComplete {
			if wantComplete {
				// a value follows the body: its last statement keeps its `;`
				b[len(b)-1].nosemi = false
			}
			return b
		}
	}
	if wantComplete {
		return fseq(fleaf(fSimple))
	}
	return fseq(fleaf(fRet))
}

// ---------------------------------------------------------------------------------------------
// Systematic bodies
// ---------------------------------------------------------------------------------------------

// loopElems are the statements an infinite loop body is combined from: a `break` of the loop in
// several guises, and constructs that have their own loop control or their own branches and must
// not disturb the bookkeeping of the loop around them.
func loopElems() []func() *fnode {
	s := func() []*fnode { return fseq(fleaf(fSimple)) }
	brk := func() []*fnode { return fseq(fleaf(fBrk)) }
	return []func() *fnode{
		func() *fnode { return fif(0, brk()) },
		func() *fnode { return fifElse(1, s(), brk()) },
		func() *fnode { return fif(0, fseq(fleaf(fCont))) },
		func() *fnode { return fif(0, fseq(fleaf(fRet))) },
		func() *fnode { return fleaf(fSimple) },
		func() *fnode { return fcomp(fFor, nil) },
		func() *fnode { return fcomp(fFor, fseq(fif(1, brk()))) },
		func() *fnode { return fcomp(fWhile, s()) },
		func() *fnode { return fcomp(fWhile, fseq(fif(0, brk()))) },
		func() *fnode { return fcomp(fLoop, brk()) },
		func() *fnode { return fcomp(fLoop, fseq(fleaf(fSimple), fif(1, brk()))) },
		func() *fnode { return fcomp(fClo, s()) },
		func() *fnode { return fcomp(fClo, fseq(fcomp(fLoop, brk()))) },
		func() *fnode { return fifElse(1, s(), s()) },
		func() *fnode { return &fnode{k: fMatch, els: true, kids: [][]*fnode{s(), nil}} },
		func() *fnode { return &fnode{k: fMatch, els: true, kids: [][]*fnode{brk(), nil}} },
		func() *fnode { return fcomp(fTry, s(), nil) },
		func() *fnode { return fcomp(fTry, s(), brk()) },
		func() *fnode { return fcomp(fBlock, s()) },
		func() *fnode { return fcomp(fBlock, fseq(fif(0, brk()))) },
	}
}

// divergers are the bodies that do not complete, one per diverging construct.
func divergers() [][]*fnode {
	ret := func() []*fnode { return fseq(fleaf(fRet)) }
	return [][]*fnode{
		ret(),
		fseq(fleaf(fThrow)),
		fseq(fleaf(fBrk)),
		fseq(fleaf(fCont)),
		fseq(fleaf(fSimple), fleaf(fRet)),
		fseq(fcomp(fLoop, fseq(fleaf(fSimple)))),
		fseq(fifElse(1, ret(), fseq(fleaf(fThrow)))),
		fseq(&fnode{k: fIf, els: true, cond: 1, nosemi: true, kids: [][]*fnode{ret(), ret()}}),
		fseq(&fnode{k: fMatch, els: true, kids: [][]*fnode{ret(), ret()}}),
		fseq(fcomp(fTry, ret(), ret())),
		fseq(fcomp(fBlock, ret())),
		fseq(fif(1, ret()), fleaf(fRet)),
	}
}

// completers are bodies that do complete although some of their paths diverge.
func completers() [][]*fnode {
	ret := func() []*fnode { return fseq(fleaf(fRet)) }
	s := func() []*fnode { return fseq(fleaf(fSimple)) }
	return [][]*fnode{
		s(),
		fseq(fif(1, ret())),
		fseq(fifElse(1, s(), ret())),
		fseq(fifElse(1, ret(), s())),
		fseq(fifElse(1, s(), fseq(fleaf(fThrow)))),
		fseq(fifElse(1, s(), fseq(fleaf(fBrk)))),
		fseq(fifElse(1, fseq(fleaf(fCont)), s())),
		fseq(&fnode{k: fMatch, els: true, kids: [][]*fnode{ret(), s()}}),
		fseq(&fnode{k: fMatch, els: true, kids: [][]*fnode{s(), ret()}}),
		fseq(&fnode{k: fMatch, kids: [][]*fnode{ret(), ret()}}),
		fseq(fcomp(fTry, ret(), s())),
		fseq(fcomp(fTry, s(), ret())),
		fseq(fcomp(fLoop, fseq(fif(1, fseq(fleaf(fBrk)))))),
		fseq(fcomp(fWhile, ret())),
		fseq(fcomp(fFor, ret())),
		fseq(fcomp(fClo, ret())),
	}
}

// ---------------------------------------------------------------------------------------------
// Programs and cases
// ---------------------------------------------------------------------------------------------

func flowProgram(units []*flowUnit) string {
	var sb, calls strings.Builder
	sb.WriteString(flowPrelude)
	for i, u := range units {
		u.idx = i
		text, call, _ := u.render()
		sb.WriteString(text)
		calls.WriteString("        " + call + "\n")
	}
	sb.WriteString("fn main() {\n    if chk(0) == 1 {\n" + calls.String() + "    }\n}\n")
	return sb.String()
}

func flowCase(id, name string, units []*flowUnit) fw.Case {
	mods := map[string]string{"main": flowProgram(units)}
	if _, err := mutate.Parse(mods); err != nil {
		panic(fmt.Sprintf("c03: flow program %s has bad markers: %v\n%s", id, err, mods["main"]))
	}
	return fw.MkCase(id, "flow", Payload{Name: name, Group: "flow", Mods: mods, Main: true, Construct: "flow"})
}

// chunk splits units into programs of at most n units.
func flowChunks(prefix, name string, units []*flowUnit, n int) []fw.Case {
	var out []fw.Case
	for i := 0; i < len(units); i += n {
		j := i + n
		if j > len(units) {
			j = len(units)
		}
		k := i / n
		out = append(out, flowCase(fmt.Sprintf("%s-%d", prefix, k), fmt.Sprintf("%s-%d", name, k), units[i:j]))
	}
	return out
}

func hostLoopFor(body []*fnode, pick int) int {
	if needsLoop(body) {
		return 1 + pick%3
	}
	return 0
}

// flowSystematic: the seed-independent part of the family.
func flowSystematic() []fw.Case {
	var out []fw.Case
	// (1) every ordered pair of loop-body elements inside an infinite loop that ends a function
	//     (position rotates through the other places a diverging block may stand at)
	elems := loopElems()
	var units []*flowUnit
	k := 0
	for i := range elems {
		for j := range elems {
			first := elems[i]()
			var body []*fnode
			if flowEval(first).c {
				body = fseq(first, elems[j]())
			} else if j == 0 {
				body = fseq(first)
			} else {
				continue
			}
			lp := fcomp(fLoop, body)
			if flowEval(lp).unsure {
				continue
			}
			pos := posFn
			if k%4 == 3 {
				pos = []int{posClosure, posElse, posArm, posCatch, posThen, posDefault, posTry, posBlock}[(k/4)%8]
			}
			b := fseq(lp)
			if pos == posBlock && !flowEvalBlock(b).c {
				pos = posFn
			}
			units = append(units, &flowUnit{pos: pos, ty: flowTys[k%len(flowTys)], body: b})
			k++
		}
	}
	out = append(out, flowChunks("c03-flow-looppair", "flow-looppair", units, 16)...)
	// (2) every diverging / half-diverging construct at every position, types rotating
	units = nil
	k = 0
	for pos := 0; pos < nPos; pos++ {
		for _, mkBodies := range []func() [][]*fnode{divergers, completers} {
			for bi := range mkBodies() {
				body := mkBodies()[bi]
				if (pos == posFn || pos == posClosure) && needsLoop(body) {
					continue
				}
				if pos == posBlock && !flowEvalBlock(body).c {
					continue
				}
				if flowEvalBlock(body).c && len(body) > 0 {
					body[len(body)-1].nosemi = false
				}
				units = append(units, &flowUnit{pos: pos, ty: flowTys[k%len(flowTys)], body: body, hostLoop: hostLoopFor(body, k)})
				k++
			}
		}
	}
	out = append(out, flowChunks("c03-flow-branch", "flow-branch", units, 16)...)
	return out
}

func flowCases(tier string, seed uint64) []fw.Case {
	out := flowSystematic()
	n := 60
	if tier == "thorough" {
		n = 600
	}
	g := &flowGen{r: fw.NewRng(seed ^ 0xF10C03)}
	for i := 0; i < n; i++ {
		var units []*flowUnit
		for pos := 0; pos < nPos; pos++ {
			inLoop := pos != posFn && pos != posClosure && g.r.Chance(1, 3)
			want := g.r.Bool()
			if pos == posBlock {
				want = true
			}
			body := g.body(inLoop, want)
			u := &flowUnit{pos: pos, ty: fw.Pick(g.r, flowTys), body: body}
			if inLoop || needsLoop(body) {
				u.hostLoop = 1 + g.r.Intn(3)
			}
			units = append(units, u)
		}
		out = append(out, flowCase(fmt.Sprintf("c03-flow-rnd-%d", i), fmt.Sprintf("flow-rnd-%d", i), units))
	}
	return out
}
