package c03

func init() { Bases = append(Bases, bases2...) }

var bases2 = []Base{
	{Name: "anyobj_ops", Construct: "any-objects", Main: `
fn main() {
    let o = «ty:{?}|new { ? }»;
    o.set(«args:2|«arg:str|"k"», 1»);
    o.set("name", "x");
    let g: ?int = o.get(«args:1|«arg:str|"k"»»);
    let gi: int = o.get("k").unwrap();
    let gt = «ty:str|o.«id:member|get_type»(«arg:str|"k"»)»;
    let ks = «ty:[str]|o.keys(«args:0|»)»;
    let ts = «ty:str|o.to_string()»;
    let js = «ty:str|o.to_json()»;
    let c = «ty:{?}|new { a: 1, b: "two" } as { ? }»;
    let v0: ?int = c->a;
    let v1: str = c~>b;
    let v2 = «ty:int|c["a"] as int»;
    let v3: str = c[«idx:str|"b"»];
    let p: { ? } = «asg:{?}|new { ? }»;
    println(g, gi, gt, ks, ts, js, v0, v1, v2, v3, p);
}
`},
	{Name: "range_ops", Construct: "ranges", Main: `
fn total(r: range) -> int {
    let sum = 0;
    for i in «iter|r» {
        sum += «asg:int|i»;
    }
    «tail:int|sum»
}

fn main() {
    let a = «ty:range|1..10»;
    let b = «ty:range|0..=5»;
    let lo = 2;
    let c = «ty:range|«mut:operand|lo¦"a"¦true»..(«opd:int|lo» + «opd:int|3»)»;
    let d: range = «asg:range|7.to_range()»;
    let t = «ty:int|total(«args:1|«arg:range|a»»)»;
    let u = total(«arg:range|b.rev()»);
    for i in 0..3 {
        println(«opd:int|i» * «opd:int|2»);
    }
    let eq = «ty:bool|a == b»;
    println(c, d, t, u, eq, a.start, b.end, a.diff(), a.to_string());
}
`},
	{Name: "let_annot", Construct: "let-annotations", Main: `
fn main() {
    let i: int = «asg:int|1»;
    let f: float = «asg:float|1.5»;
    let b: bool = «asg:bool|true»;
    let s: str = «asg:str|"s"»;
    let n: null = «asg:null|null»;
    let r: range = «asg:range|1..2»;
    let l: [int] = «asg:[int]|[1]»;
    let ll: [[str]] = «asg:[[str]]|[["a"]]»;
    let o: ?float = «asg:?float|?2.5»;
    let ob: { a: int, b: [bool] } = «asg:{a:int,b:[bool]}|new { a: 1, b: [true] }»;
    let ao: { ? } = «asg:{?}|new { ? }»;
    let u0 = «ty:int|1»;
    let u1 = «ty:float|1f»;
    let u2 = «ty:null|null»;
    let u3 = «ty:{a:int,b:{c:str}}|new { a: 1, b: new { c: "x" } }»;
    let sh = «ty:int|1»;
    println(sh);
    let sh2 = «ty:str|"now a string"»;
    println(i, f, b, s, r, l, ll, o, ob, ao, u0, u1, u3, sh2);
    let n2: null = n;
    let n3: null = u2;
    let n4: null = n2;
    let n5: null = n3;
    n4;
    n5;
}
`},
	{Name: "type_alias", Construct: "type-aliases", Main: `
type Id = int;
type Ids = [Id];
type Name = str;
«dup:type|type User = { id: Id, name: Name, tags: [str], boss: ?Id };»
pub type Exported = { u: User };

fn mk(id: «id:type|Id», name: Name) -> «id:type|User» {
    let no_tags: [str] = [];
    let fresh: User = new { id: id, name: name, tags: no_tags, boss: none };
    «tail:{boss:?int,id:int,name:str,tags:[str]}|fresh»
}

fn main() {
    type Local = { v: Ids };
    let a: Id = «asg:int|1»;
    let b: Ids = «asg:[int]|[a, 2]»;
    let u: User = mk(«args:2|«arg:int|a», «arg:str|"n"»»);
    let l: «id:type|Local» = «asg:{v:[int]}|new { v: b }»;
    let e: Exported = new { u: u };
    let c = «ty:int|a as Id»;
    u.boss = «asg:?int|?2»;
    u.tags.push(«arg:str|"t"»);
    println(b, u, l, e, c);
}
`},
	{Name: "functions", Construct: "functions", Main: `
«dup:fn|fn add(«dup:param|a: int», b: int) -> int {
    «pt:-:int»
    «tail:int|«opd:int|a» + «opd:int|b»»
}»

fn fact(n: int) -> int {
    if «cond|n <= 1» {
        return «ret:int|1»;
    }
    «pt:-:int»
    «tail:int|«opd:int|n» * «opd:int|«id:fn|fact»(«args:1|«arg:int|n - 1»»)»»
}

fn is_even(n: int) -> bool {
    if n == 0 { «br:bool|true» } else { «br:bool|is_odd(«arg:int|n - 1»)» }
}

fn is_odd(n: int) -> bool {
    if n == 0 { false } else { is_even(n - 1) }
}

fn greet(name: str, times: int) {
    «pt:-:null»
    for _i in 0..times {
        «pt:L:null»
        println("hi", name);
    }
}

fn never_called(«dup:param|first: int», «dup:param|second: [str]») -> int {
    «tail:int|«opd:int|first» + «opd:int|second.len()»»
}

pub fn exported_never_called(«dup:param|only: ?float») {
    println(only);
}

fn nothing() -> null {
    «pt:-:null»
    null
}

fn explicit_null() -> null {
    return;
}

fn mixed(xs: [int], scale: float, label: ?str) -> str {
    let count = «ty:int|xs.len()»;
    let base = «ty:str|label.unwrap_or(«arg:str|"none"»)»;
    «pt:-:str»
    return «ret:str|«opd:str|base» + «opd:str|(count as float * scale).to_string()»»;
}

fn main() {
    let s = «ty:int|add(«args:2|«arg:int|1», «arg:int|2»»)»;
    let f = «ty:int|fact(«arg:int|5»)»;
    let e = «ty:bool|is_even(«arg:int|4»)»;
    greet(«args:2|«arg:str|"you"», «arg:int|2»»);
    let n = «ty:null|nothing(«args:0|»)»;
    explicit_null();
    let m = «ty:str|mixed(«args:3|«arg:[int]|[1, 2]», «arg:float|0.5», «arg:?str|none»»)»;
    let m2 = mixed([3], 1.0, «arg:?str|?"lbl"»);
    println(s, f, e, m, m2);
    let n1: null = n;
    n1;
}
`},
	{Name: "returns_nested", Construct: "nested-returns", Main: `
fn classify(n: int) -> str {
    «pt:-:str»
    if n < 0 {
        «ctx:if|«pt:-:str»
        return «ret:str|"neg"»;»
    } else if n == 0 {
        «ctx:else-if|return «ret:str|"zero"»;»
    }
    {
        «ctx:block|«pt:-:str»
        if n > 1000 {
            {
                «ctx:nested-block|return «ret:str|"huge"»;»
            }
        }»
    }
    match n {
        1 => { «ctx:match-arm|«pt:-:str» return «ret:str|"one"»;» }
        2 | 3 => { «ctx:match-arm|return «ret:str|"few"»;» }
        _ => { «ctx:match-default|«pt:-:str»» }
    }
    for i in 0..n {
        «ctx:for|«pt:L:str»
        if i == 7 {
            return «ret:str|"seven"»;
        }»
    }
    while n > 100 {
        «ctx:while|return «ret:str|"big"»;»
    }
    loop {
        «ctx:loop|«pt:L:str»
        if n > 5 {
            return «ret:str|"some"»;
        }
        break;»
    }
    try {
        «ctx:try|«pt:-:str»
        if n == 4 {
            return «ret:str|"four"»;
        }»
    } catch e {
        «ctx:catch|return «ret:str|e.message»;»
    }
    «pt:-:str»
    «tail:str|"many"»
}

fn find(xs: [int], needle: int) -> ?int {
    let idx = 0;
    for x in xs {
        if x == needle {
            «ctx:for/if|return «ret:?int|?idx»;»
        }
        idx += 1;
    }
    «tail:?int|none»
}

fn early(flag: bool) {
    if flag {
        «ctx:if|«pt:-:null»
        return;»
    }
    println("late");
}

fn main() {
    println(classify(«arg:int|3»), find(«args:2|«arg:[int]|[1, 2]», «arg:int|2»»));
    early(«arg:bool|true»);
}
`},
	{Name: "closures_basic", Construct: "closures", Main: `
fn apply_nullary(f: fn() -> int) -> int {
    «tail:int|f(«args:0|»)»
}

fn main() {
    let inc = «ty:fn(x:int)->int|fn(«dup:param|x: int») -> int «ctx:closure|{
        «pt:-:int»
        «tail:int|«opd:int|x» + «opd:int|1»»
    }»»;
    let greet = «ty:fn(name:str,n:int)->str|fn(name: str, n: int) -> str «ctx:closure|{
        if «cond|n > 1» {
            return «ret:str|name.repeat(«arg:int|n»)»;
        }
        «pt:-:str»
        «tail:str|name»
    }»»;
    let noop = «ty:fn()->null|fn() «ctx:closure|{
        «pt:-:null»
        println("noop");
    }»»;
    let base = 10;
    let capture = «ty:fn(d:int)->int|fn(d: int) -> int { «tail:int|«opd:int|base» + «opd:int|d»» }»;
    let a = «ty:int|inc(«args:1|«arg:int|1»»)»;
    let b = «ty:str|greet(«args:2|«arg:str|"ab"», «arg:int|2»»)»;
    noop(«args:0|»);
    let c = «ty:int|capture(«arg:int|5»)»;
    let d = «ty:int|apply_nullary(«args:1|fn() -> int { 42 }»)»;
    let one = «ty:[fn(x:int)->int]|[inc]»;
    let e = «ty:int|one[0](«arg:int|3»)»;
    let obj = «ty:{f:fn(x:int)->int,n:int}|new { f: inc, n: 1 }»;
    let g = «ty:int|obj.f(«arg:int|obj.n»)»;
    println(a, b, c, d, e, g);
}
`},
	{Name: "closures_in_loops", Construct: "closures-in-loops", Main: `
fn main() {
    let total = 0;
    for i in 0..3 {
        «pt:L:null»
        let step = fn(k: int) -> int «ctx:closure-in-loop|«tag:closure-ctx|{
            «pt:-:int»
            «tail:int|«opd:int|k» * «opd:int|2»»
        }»»;
        total += «asg:int|step(«arg:int|i»)»;
    }
    while total < 100 {
        let bump = fn() «ctx:closure-in-loop|«tag:closure-ctx|{
            «pt:-:null»
            println("bump");
        }»»;
        bump();
        total += 50;
    }
    loop {
        let stop = fn() -> bool «ctx:closure-in-loop|«tag:closure-ctx|{ «pt:-:bool» «tail:bool|true» }»»;
        if stop() {
            break;
        }
    }
    println(total);
}
`},
	{Name: "after_closure_null_fn", Construct: "after-closure", Main: `
fn setup() {
    let make = fn() -> int «ctx:closure|{ «tail:int|1» }»;
    «ctx:after-closure|«tag:closure-ctx|«pt:-:null»
    println(make());»»
}

fn count() -> int {
    let probe = fn() -> int «ctx:closure|{ «pt:-:int» «tail:int|2» }»;
    «ctx:after-closure|«tag:closure-ctx|«pt:-:int»
    if probe() > 5 {
        return «ret:int|0»;
    }»»
    «tail:int|probe()»
}

fn main() {
    setup();
    println(count());
}
`},
	{Name: "return_after_closure", Construct: "return-after-closure", Tags: []string{TagClosureCtx}, Main: `
fn label() -> str {
    let n = fn() -> int { 1 };
    if n() > 0 {
        return «ret:str|"positive"»;
    }
    «tail:str|"other"»
}

fn main() {
    println(label());
}
`},
	{Name: "nested_closures", Construct: "nested-closures", Tags: []string{TagClosureCtx}, Main: `
fn main() {
    let outer = fn(a: int) -> str {
        let inner = fn(b: int) -> int { «tail:int|«opd:int|b» + «opd:int|1»» };
        if inner(a) > 3 {
            return «ret:str|"big"»;
        }
        «tail:str|"small"»
    };
    println(outer(«arg:int|1»));
}
`},
	{Name: "closure_factory_nullary", Construct: "closure-factory", Main: `
fn make_counter() -> fn() -> int {
    let n = 0;
    «tail:fn()->int|fn() -> int { n += 1; «tail:int|n» }»
}

fn twice(f: fn() -> int) -> int {
    «tail:int|«opd:int|f()» + «opd:int|f()»»
}

fn main() {
    let c = «ty:fn()->int|make_counter(«args:0|»)»;
    let t = «ty:int|twice(«args:1|«arg:fn()->int|c»»)»;
    let nested = «ty:fn()->fn()->int|fn() -> fn() -> int { fn() -> int { 1 } }»;
    let v = «ty:int|nested()()»;
    println(t, v);
}
`},
	{Name: "higher_order", Construct: "fn-type-annotation", Tags: []string{TagFnTypeParams}, Main: `
fn apply(f: fn(x: int) -> int, v: int) -> int {
    «tail:int|f(«args:1|«arg:int|v»»)»
}

fn compose(f: fn(x: int) -> int, g: fn(x: int) -> int) -> fn(x: int) -> int {
    fn(x: int) -> int { f(g(x)) }
}

fn make_adder(n: int) -> fn(x: int) -> int {
    «tail:fn(x:int)->int|fn(x: int) -> int { x + n }»
}

fn double(x: int) -> int { x * 2 }

fn main() {
    let a = «ty:int|apply(«args:2|«arg:fn(x:int)->int|double», «arg:int|2»»)»;
    let add3: fn(x: int) -> int = «asg:fn(x:int)->int|make_adder(3)»;
    let both = compose(double, add3);
    let folded = «ty:int|both(«arg:int|1»)»;
    let by_name: fn(x: int, y: str) -> bool = fn(x: int, y: str) -> bool { y.len() == x };
    println(a, folded, by_name(«args:2|«arg:int|1», «arg:str|"a"»»));
}
`},
	{Name: "fn_type_min", Construct: "fn-type-annotation", Tags: []string{TagFnTypeParams}, Main: `
fn apply(f: fn(x: int) -> int, v: int) -> int {
    «tail:int|f(«args:1|«arg:int|v»»)»
}

fn main() {
    println(apply(«args:2|«arg:fn(x:int)->int|fn(x: int) -> int { x + 1 }», «arg:int|1»»));
}
`},
	{Name: "fn_type_dup_param", Construct: "fn-type-annotation", Tags: []string{TagFnTypeParams}, Main: `
type Cmp = fn(«dup:param|a: int», b: int) -> bool;

fn main() {
    let lt: Cmp = fn(a: int, b: int) -> bool { a < b };
    println(lt(1, 2));
}
`},
	{Name: "fn_list", Construct: "fn-list", Tags: []string{TagFnList}, Main: `
fn double(x: int) -> int { x * 2 }
fn triple(x: int) -> int { x * 3 }

fn main() {
    let fs = «ty:[fn(x:int)->int]|[double, triple]»;
    let total = 0;
    for f in fs {
        total += «asg:int|f(«arg:int|2»)»;
    }
    let cs = [fn() -> int { 1 }, fn() -> int { 2 }, fn() -> int { 3 }];
    println(total, cs.len());
}
`},
}
