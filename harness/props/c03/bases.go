package c03

// Hand-written well-typed base programs (DESIGN.md §3 C03, accept side (a)). Every program is
// small and carries machine-readable markers of its mutation sites (see hv/mutate). Stripping the
// markers gives a program that breaks no static rule; every marker yields single-fault mutants.

// Base is one hand-written base program.
type Base struct {
	Name      string
	Construct string   // label used in rejected-base signatures
	Tags      []string // program-level tags: the whole program depends on a construct a known finding poisons
	NoMain    bool     // the program has no main function (analysed with mainShallExist=false)
	Main      string   // marked source of the entry module
	Mods      map[string]string
}

// Tags that correspond to known-finding poisons.
const (
	TagClosureCtx   = "closure-ctx"       // DESIGN Appendix A #7: functionLiteral does not restore CurrentFunction / LoopDepth
	TagFnTypeParams = "fn-type-params"    // #8: ConvertType drops the parameters of function types
	TagMatchDiverge = "match-all-diverge" // #14: match without default whose arms all diverge is typed never
	TagFnList       = "fn-list"           // #48: list literal with two or more function values
	TagFnAssign     = "fn-assign"         // assignment of a function value to a function-typed variable/field/element is rejected
	TagLoopNever    = "loop-never"        // loop termination flag is never cleared after a throw outside of a loop
)

var Bases = []Base{
	{Name: "int_ops", Construct: "int-operators", Main: `
fn main() {
    let a = 7;
    let b = 3;
    let s0 = «ty:int|«opd:int|a» «bop:int|+» «opd:int|b»»;
    let s1 = «ty:int|«opd:int|a» «bop:int|-» «opd:int|b»»;
    let s2 = «ty:int|«opd:int|a» «bop:int|*» «opd:int|2»»;
    let s3 = «ty:int|«opd:int|a» «bop:int|/» «opd:int|b»»;
    let s4 = «ty:int|«opd:int|a» «bop:int|%» «opd:int|b»»;
    let s5 = «ty:int|«opd:int|a» «bop:int|**» «opd:int|b»»;
    let s6 = «ty:int|«opd:int|a» «bop:int|<<» «opd:int|b»»;
    let s7 = «ty:int|«opd:int|a» «bop:int|>>» «opd:int|1»»;
    let s8 = «ty:int|«opd:int|a» «bop:int||» «opd:int|b»»;
    let s9 = «ty:int|«opd:int|a» «bop:int|&» «opd:int|b»»;
    let s10 = «ty:int|«opd:int|a» «bop:int|^» «opd:int|b»»;
    let c0 = «ty:bool|«opd:int|a» «bop:int|==» «opd:int|b»»;
    let c1 = «ty:bool|«opd:int|a» «bop:int|!=» «opd:int|b»»;
    let c2 = «ty:bool|«opd:int|a» «bop:int|<» «opd:int|b»»;
    let c3 = «ty:bool|«opd:int|a» «bop:int|>» «opd:int|b»»;
    let c4 = «ty:bool|«opd:int|a» «bop:int|<=» «opd:int|b»»;
    let c5 = «ty:bool|«opd:int|a» «bop:int|>=» «opd:int|b»»;
    let n0 = «ty:int|-«neg:int|a»»;
    let n1 = «ty:int|!«not:int|a»»;
    let n2 = «ty:int|(«opd:int|a» + «opd:int|b») * «opd:int|-«neg:int|b»»»;
    let x = 1;
    «pt:-:null»
    x = «asg:int|b»;
    x += «asg:int|b»;
    x -= «asg:int|1»;
    x *= «asg:int|a»;
    x /= «asg:int|2»;
    x %= «asg:int|5»;
    x **= «asg:int|2»;
    x <<= «asg:int|1»;
    x >>= «asg:int|1»;
    x |= «asg:int|8»;
    x &= «asg:int|12»;
    x ^= «asg:int|1»;
    println(s0, s1, s2, s3, s4, s5, s6, s7, s8, s9, s10, c0, c1, c2, c3, c4, c5, n0, n1, n2, x);
}
`},
	{Name: "float_ops", Construct: "float-operators", Main: `
fn main() {
    let a = 7.5;
    let b = 2f;
    let s0 = «ty:float|«opd:float|a» «bop:float|+» «opd:float|b»»;
    let s1 = «ty:float|«opd:float|a» «bop:float|-» «opd:float|b»»;
    let s2 = «ty:float|«opd:float|a» «bop:float|*» «opd:float|0.5»»;
    let s3 = «ty:float|«opd:float|a» «bop:float|/» «opd:float|b»»;
    let s4 = «ty:float|«opd:float|a» «bop:float|**» «opd:float|b»»;
    let c0 = «ty:bool|«opd:float|a» «bop:float|==» «opd:float|b»»;
    let c1 = «ty:bool|«opd:float|a» «bop:float|!=» «opd:float|b»»;
    let c2 = «ty:bool|«opd:float|a» «bop:float|<» «opd:float|b»»;
    let c3 = «ty:bool|«opd:float|a» «bop:float|>» «opd:float|b»»;
    let c4 = «ty:bool|«opd:float|a» «bop:float|<=» «opd:float|b»»;
    let c5 = «ty:bool|«opd:float|a» «bop:float|>=» «opd:float|b»»;
    let n0 = «ty:float|-«neg:float|a»»;
    let x = 1.0;
    x «aop:float|=» «asg:float|b»;
    x «aop:float|+=» «asg:float|b»;
    x «aop:float|-=» «asg:float|0.25»;
    x «aop:float|*=» «asg:float|a»;
    x «aop:float|/=» «asg:float|2.0»;
    x «aop:float|**=» «asg:float|2.0»;
    let l = «ty:float|log(«args:2|«arg:float|2.0», «arg:float|8.0»»)»;
    println(s0, s1, s2, s3, s4, c0, c1, c2, c3, c4, c5, n0, x, l);
}
`},
	{Name: "bool_ops", Construct: "bool-operators", Main: `
fn main() {
    let a = true;
    let b = off;
    let s0 = «ty:bool|«opd:bool|a» «bop:bool|&&» «opd:bool|b»»;
    let s1 = «ty:bool|«opd:bool|a» «bop:bool|||» «opd:bool|b»»;
    let s2 = «ty:bool|«opd:bool|a» «bop:bool||» «opd:bool|b»»;
    let s3 = «ty:bool|«opd:bool|a» «bop:bool|&» «opd:bool|b»»;
    let s4 = «ty:bool|«opd:bool|a» «bop:bool|^» «opd:bool|b»»;
    let s5 = «ty:bool|«opd:bool|a» «bop:bool|==» «opd:bool|on»»;
    let s6 = «ty:bool|«opd:bool|a» «bop:bool|!=» «opd:bool|false»»;
    let n0 = «ty:bool|!«not:bool|a»»;
    let n1 = «ty:bool|!(«opd:bool|a» && «opd:bool|!«not:bool|b»»)»;
    let x = false;
    x «aop:bool|=» «asg:bool|a»;
    x «aop:bool||=» «asg:bool|b»;
    x «aop:bool|&=» «asg:bool|true»;
    x «aop:bool|^=» «asg:bool|a»;
    assert(«args:1|«arg:bool|s0 || s1»»);
    println(s0, s1, s2, s3, s4, s5, s6, n0, n1, x);
}
`},
	{Name: "str_ops", Construct: "str-operators", Main: `
fn main() {
    let a = "foo";
    let b = 'bar';
    let s0 = «ty:str|«opd:str|a» «bop:str|+» «opd:str|b»»;
    let c0 = «ty:bool|«opd:str|a» «bop:str|==» «opd:str|b»»;
    let c1 = «ty:bool|«opd:str|a» «bop:str|!=» «opd:str|"x"»»;
    let ch = «ty:str|a[«idx:int|0»]»;
    let x = "";
    x «aop:str|=» «asg:str|a»;
    x «aop:str|+=» «asg:str|b»;
    for c in «iter|a» {
        x += «asg:str|c»;
    }
    let f = «ty:str|fmt(«arg:str|"{} {}"», 1, a)»;
    println(s0, c0, c1, ch, x, f);
}
`},
	{Name: "str_members", Construct: "str-members", Main: `
fn main() {
    let s = "Hello, World";
    let m0 = «ty:int|s.«id:member|len»(«args:0|»)»;
    let m1 = «ty:str|s.replace(«args:2|«arg:str|"l"», «arg:str|"L"»»)»;
    let m2 = «ty:str|s.repeat(«args:1|«arg:int|2»»)»;
    let m3 = «ty:bool|s.contains(«args:1|«arg:str|"World"»»)»;
    let m4 = «ty:bool|s.starts_with(«args:1|«arg:str|"He"»»)»;
    let m5 = «ty:[str]|s.split(«args:1|«arg:str|", "»»)»;
    let m6 = «ty:int|"42".parse_int(«args:0|»)»;
    let m7 = «ty:float|"4.2".parse_float()»;
    let m8 = «ty:bool|"true".parse_bool()»;
    let m9 = «ty:str|s.to_lower()»;
    let m10 = «ty:str|s.«id:member|to_upper»()»;
    let m11 = «ty:int|s.compare_lev(«args:1|«arg:str|"Hallo"»»)»;
    let m12 = «ty:str|s.substring(«args:1|«arg:int|3»»)»;
    let m13: int = "7".parse_json();
    let m14 = «ty:int|m5.len() + m0»;
    println(m0, m1, m2, m3, m4, m5, m6, m7, m8, m9, m10, m11, m12, m13, m14);
}
`},
	{Name: "num_members", Construct: "num-members", Main: `
fn main() {
    let i = 42;
    let f = 2.75;
    let b = true;
    let r = 1..10;
    let m0 = «ty:str|i.«id:member|to_string»(«args:0|»)»;
    let m1 = «ty:range|i.to_range()»;
    let m2 = «ty:bool|f.is_int()»;
    let m3 = «ty:int|f.trunc()»;
    let m4 = «ty:int|f.«id:member|round»()»;
    let m5 = «ty:str|f.to_string()»;
    let m6 = «ty:str|b.to_string()»;
    let m7 = «ty:int|r.«id:member|start»»;
    let m8 = «ty:int|r.end»;
    let m9 = «ty:range|r.rev()»;
    let m10 = «ty:int|r.diff()»;
    let m11 = «ty:int|«opd:int|m3» «bop:int|+» «opd:int|r.start»»;
    println(m0, m1, m2, m3, m4, m5, m6, m7, m8, m9, m10, m11);
}
`},
	{Name: "list_ops", Construct: "lists", Main: `
fn main() {
    let xs = «ty:[int]|[1, «el:int|2», «el:int|3»]»;
    let ys: [str] = «asg:[str]|["a", «el:str|"b"»]»;
    let empty: [float] = [];
    let nested = «ty:[[int]]|[[1], «el:[int]|[2, «el:int|3»]»]»;
    let e0 = «ty:int|xs[«idx:int|0»]»;
    let e1 = «ty:int|nested[1][0]»;
    xs[0] = «asg:int|5»;
    xs[1] «aop:int|+=» «asg:int|e0»;
    nested[0] = «asg:[int]|[9]»;
    xs.push(«args:1|«arg:int|4»»);
    xs.push_front(«arg:int|0»);
    let p = «ty:?int|xs.pop()»;
    let q = «ty:?int|xs.pop_front(«args:0|»)»;
    let la = «ty:?int|xs.last()»;
    let n = «ty:int|xs.«id:member|len»()»;
    let c = «ty:bool|xs.contains(«args:1|«arg:int|2»»)»;
    xs.concat(«arg:[int]|[7, 8]»);
    let j = «ty:str|ys.join(«arg:str|", "»)»;
    xs.insert(«args:2|«arg:int|0», «arg:int|42»»);
    xs.remove(«arg:int|0»);
    xs.sort();
    ys.sort();
    let ts = «ty:str|xs.to_string()»;
    let tj = «ty:str|nested.to_json()»;
    let eq = «ty:bool|«opd:[int]|xs» «bop:[int]|==» «opd:[int]|[1, 2]»»;
    for x in «iter|xs» {
        println(«opd:int|x» + «opd:int|1»);
    }
    for row in nested {
        for v in row {
            println(v);
        }
    }
    empty.push(«arg:float|1.5»);
    println(e0, e1, p, q, la, n, c, j, ts, tj, eq, empty);
}
`},
	{Name: "option_ops", Construct: "options", Main: `
fn first(xs: [int]) -> ?int {
    if xs.len() == 0 {
        return «ret:?int|none»;
    }
    «tail:?int|?xs[0]»
}

fn main() {
    let a = «ty:?int|?42»;
    let b: ?int = «asg:?int|none»;
    let c: ?str = «asg:?str|?"x"»;
    let nested = «ty:??int|??1»;
    let i0 = «ty:bool|a.is_some()»;
    let i1 = «ty:bool|b.«id:member|is_none»(«args:0|»)»;
    let u0 = «ty:int|a.unwrap()»;
    let u1 = «ty:int|b.unwrap_or(«args:1|«arg:int|7»»)»;
    let u2 = «ty:str|c.expect(«arg:str|"must exist"»)»;
    let t = «ty:str|a.to_string()»;
    let eq = «ty:bool|«opd:?int|a» == «opd:?int|?42»»;
    let en = «ty:bool|a == none»;
    b = «asg:?int|?1»;
    b = none;
    let f = «ty:?int|first(«args:1|«arg:[int]|[1, 2]»»)»;
    let inner = «ty:?int|nested.unwrap()»;
    println(i0, i1, u0, u1, u2, t, eq, en, f, inner);
}
`},
	{Name: "object_ops", Construct: "objects", Main: `
type Point = { «dup:tfield|x: int», y: int };
type Line = { src: Point, to: Point, label: ?str };

fn origin() -> Point {
    «tail:{x:int,y:int}|new { x: 0, y: 0 }»
}

fn main() {
    let p = «ty:{x:int,y:int}|new { «dup:field|x: 1», y: 2 }»;
    let q: «id:type|Point» = «asg:{x:int,y:int}|new { y: 4, x: 3 }»;
    let l: Line = new { src: p, to: q, label: none };
    let px = «ty:int|p.«id:field|x»»;
    let ly = «ty:int|l.to.y»;
    let iy = «ty:int|p["y"]»;
    p.x = «asg:int|10»;
    l.to.y «aop:int|+=» «asg:int|5»;
    l.label = «asg:?str|?"diag"»;
    l.src = «asg:{x:int,y:int}|origin(«args:0|»)»;
    let ks = «ty:[str]|p.keys()»;
    let js = «ty:str|l.to_json()»;
    let ji = «ty:str|p.to_json_indent()»;
    let eq = «ty:bool|«opd:{x:int,y:int}|p» «bop:{x:int,y:int}|==» «opd:{x:int,y:int}|q»»;
    let objs = «ty:[{x:int,y:int}]|[p, «el:{x:int,y:int}|q», «el:{x:int,y:int}|origin()»]»;
    let quoted = new { "a b": 1 };
    println(px, ly, iy, ks, js, ji, eq, objs, quoted);
}
`},
}
