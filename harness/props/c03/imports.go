package c03

// Import-list family: what each item of an import statement brings into scope.
//
// An import statement lists items of four kinds — a value (no prefix), `type T`, `templ T`,
// `trigger t` — singly (`import type T from m;`) or in braces, in any order and any mixture. The
// kind of an item is its own: it depends neither on its position in the list nor on its
// neighbours. The shipped programs only ever write the value items first and one `type` item last.
//
// A program of the family imports a selection of the items a module offers, in a seeded order,
// spread over one or several statements (braced, single, with trailing comma), and then USES every
// imported name in the role of its kind: a value in an expression (recorded type checked), a
// function in a call, a type in an annotation, a template in an `impl` block, a trigger in a
// `trigger` statement. Modules: the builtin module `net` of the testing host (values and a type),
// a user module (functions, globals, types; directly or through a second user module), a user
// module whose functions extract its singletons (`dev`: an extraction is no argument of the call) and a
// module of the harness's own host (`hvkinds`: values, types, templates and a trigger at once, so
// that every kind can follow every other one).
//
//   - accept: 0 error diagnostics, recorded types as the module declares them.
//   - reject: every item with the prefix of another kind (a value imported with `type`, a type
//     imported without, …), every item renamed, every item listed twice, every use written with
//     the name of an item of another kind (a value name as annotation, a type name as value).

import (
	"fmt"
	"strings"

	"github.com/smarthome-go/homescript/v3/homescript/analyzer"
	"github.com/smarthome-go/homescript/v3/homescript/analyzer/ast"
	herrors "github.com/smarthome-go/homescript/v3/homescript/errors"
	pAst "github.com/smarthome-go/homescript/v3/homescript/parser/ast"

	"hv/fw"
	"hv/mutate"
)

// HostKinds names the extra builtin module of the import family (Payload.Host).
const HostKinds = "hvkinds"

// kindsImports is the module `hvkinds`: every kind of importable item in one module.
func kindsImports() map[string]map[string]analyzer.BuiltinImport {
	sp := herrors.Span{}
	i, b, s, n := ast.NewIntType(sp), ast.NewBoolType(sp), ast.NewStringType(sp), ast.NewNullType(sp)
	param := func(name string, t ast.Type) ast.FunctionTypeParam {
		return ast.NewFunctionTypeParam(pAst.NewSpannedIdent(name, sp), t, nil)
	}
	fn := func(ret ast.Type, ps ...ast.FunctionTypeParam) ast.FunctionType {
		return ast.NewFunctionType(ast.NewNormalFunctionTypeParamKind(ps), sp, ret, sp).(ast.FunctionType)
	}
	field := func(name string, t ast.Type) ast.ObjectTypeField {
		return ast.NewObjectTypeField(pAst.NewSpannedIdent(name, sp), t, sp)
	}
	templ := func(method string, sig ast.FunctionType, capability string) *ast.TemplateSpec {
		return &ast.TemplateSpec{
			BaseMethods:         map[string]ast.TemplateMethod{method: {Signature: sig, Modifier: pAst.FN_MODIFIER_NONE}},
			Capabilities:        map[string]ast.TemplateCapability{capability: {RequiresMethods: []string{method}}},
			DefaultCapabilities: []string{},
			Span:                sp,
		}
	}
	return map[string]map[string]analyzer.BuiltinImport{
		HostKinds: {
			"k_num":   {Type: i},
			"k_name":  {Type: s},
			"k_join":  {Type: fn(s, param("a", s), param("n", i))},
			"KRec":    {Type: ast.NewObjectType([]ast.ObjectTypeField{field("id", i), field("tag", s)}, sp)},
			"KIds":    {Type: ast.NewListType(i, sp)},
			"KDevice": {Template: templ("poke", fn(b, param("times", i)), "basic")},
			"KSensor": {Template: templ("read", fn(i), "plain")},
			"k_tick": {Trigger: &analyzer.TriggerFunction{
				TriggerFnType:  fn(n, param("every", i)),
				CallbackFnType: fn(n, param("elapsed", i)),
				Connective:     pAst.AtTriggerDispatchKeyword,
				ImportedAt:     sp,
			}},
		},
	}
}

// impItem is one importable item of a module with the code that uses it in its role.
type impItem struct {
	name string
	kind string // value | type | templ | trigger
	// top-level code and main-body statements using the item; %s… are filled by the generator
	top  func(g *impGen) string
	body func(g *impGen) string
}

type impGen struct {
	r    *fw.Rng
	nLet int
	// names of the imported items by kind (for the cross-role mutants)
	byKind map[string][]string
}

func (g *impGen) let() string { g.nLet++; return fmt.Sprintf("t%d", g.nLet) }

// other renders name with, as explicit unknown-name mutant, the name of an imported item of
// another kind (if there is one).
func (g *impGen) other(name, wantKind string) string {
	if ns := g.byKind[wantKind]; len(ns) > 0 {
		return "«mut:unknown-name|" + name + "¦" + ns[g.r.Intn(len(ns))] + "»"
	}
	return name
}

var (
	tyKRec  = mutate.ObjOf(mutate.Field{Name: "id", T: tInt}, mutate.Field{Name: "tag", T: tStr})
	tyShape = mutate.ObjOf(mutate.Field{Name: "w", T: tInt}, mutate.Field{Name: "h", T: tInt})
	tyResp  = mutate.MustType("{body:str,cookies:{?},status:str,status_code:int}")
)

func valueItem(name string, t *mutate.Ty) impItem {
	return impItem{name: name, kind: "value", body: func(g *impGen) string {
		return fmt.Sprintf("    let %s = %s;\n", g.let(), mk("ty", t.String(), g.other(name, "type")))
	}}
}

func typeItem(name string, t *mutate.Ty, lit string) impItem {
	return impItem{name: name, kind: "type", body: func(g *impGen) string {
		return fmt.Sprintf("    let %s: %s = %s;\n", g.let(), g.other(name, "value"), mk("asg", t.String(), lit))
	}}
}

// impModules: the modules of the family with their items.
type impModule struct {
	name  string
	host  string            // Payload.Host
	mods  map[string]string // user modules that must exist
	items []impItem
}

func impModules() []impModule {
	kinds := impModule{name: HostKinds, host: HostKinds, items: []impItem{
		valueItem("k_num", tInt),
		valueItem("k_name", tStr),
		{name: "k_join", kind: "value", body: func(g *impGen) string {
			return fmt.Sprintf("    let %s = %s;\n", g.let(), mk("ty", "str", g.other("k_join", "type")+"("+mk("args", "2", mk("arg", "str", `"a"`)+", "+mk("arg", "int", "2"))+")"))
		}},
		typeItem("KRec", tyKRec, `new { id: 1, tag: "t" }`),
		typeItem("KIds", mutate.ListOf(tInt), `[1, 2]`),
		{name: "KDevice", kind: "templ",
			top: func(g *impGen) string {
				return "$Lamp = { lit: bool };\n\nimpl " + mk("id", "templ", "KDevice") + " with { basic } for $Lamp {\n    fn poke(self: $Lamp, times: int) -> bool {\n        println(times);\n        self.lit\n    }\n}\n\n"
			},
			body: func(g *impGen) string { return "    println($Lamp.lit);\n" }},
		{name: "KSensor", kind: "templ",
			top: func(g *impGen) string {
				return "$Probe = { last: int };\n\nimpl " + mk("id", "templ", "KSensor") + " with { plain } for $Probe {\n    fn read(self: $Probe) -> int {\n        " + mk("tail", "int", "self.last") + "\n    }\n}\n\n"
			},
			body: func(g *impGen) string { return "    println($Probe.last);\n" }},
		{name: "k_tick", kind: "trigger",
			top: func(g *impGen) string {
				return "event fn on_tick(elapsed: int) {\n    println(elapsed);\n}\n\n"
			},
			body: func(g *impGen) string {
				return "    trigger on_tick at " + mk("id", "trigger", "k_tick") + "(" + mk("args", "1", mk("arg", "int", "5")) + ");\n"
			}},
	}}
	net := impModule{name: "net", items: []impItem{
		{name: "http", kind: "value", body: func(g *impGen) string {
			return fmt.Sprintf("    let %s = %s;\n", g.let(), mk("ty", tyResp.String(), g.other("http", "type")+".get("+mk("arg", "str", `"http://localhost"`)+")"))
		}},
		{name: "ping", kind: "value", body: func(g *impGen) string {
			return fmt.Sprintf("    let %s = %s;\n", g.let(), mk("ty", "bool", g.other("ping", "type")+"("+mk("args", "2", mk("arg", "str", `"127.0.0.1"`)+", "+mk("arg", "float", "0.5"))+")"))
		}},
		typeItem("HttpResponse", tyResp, `new { status: "ok", status_code: 200, body: "b", cookies: new { ? } }`),
	}}
	lib := impModule{name: "lib", mods: map[string]string{"lib": `
pub type Shape = { w: int, h: int };
pub type Id = int;
pub let UNIT = "cm";
pub let LIMIT = 10;

pub fn area(s: Shape) -> int {
    s.w * s.h
}

pub fn label(n: Id) -> str {
    n.to_string() + UNIT
}

fn main() {}
`}, items: []impItem{
		valueItem("UNIT", tStr),
		valueItem("LIMIT", tInt),
		{name: "area", kind: "value", body: func(g *impGen) string {
			return fmt.Sprintf("    let %s = %s;\n", g.let(), mk("ty", "int", g.other("area", "type")+"("+mk("args", "1", mk("arg", tyShape.String(), "new { w: 2, h: 3 }"))+")"))
		}},
		{name: "label", kind: "value", body: func(g *impGen) string {
			return fmt.Sprintf("    let %s = %s;\n", g.let(), mk("ty", "str", g.other("label", "type")+"("+mk("args", "1", mk("arg", "int", "4"))+")"))
		}},
		typeItem("Shape", tyShape, "new { w: 1, h: 2 }"),
		typeItem("Id", tInt, "7"),
	}}
	// dev: functions that extract singletons of THEIR module. An extraction (`lamp: $Lamp`) is no
	// argument: the importer calls the function with the ordinary parameters only, whatever
	// precedes them — no extraction, one, two; nothing, one or several ordinary parameters after
	// it — and an ordinary function declared next to them keeps all of its parameters.
	call := func(name, ret string, args ...string) impItem {
		return impItem{name: name, kind: "value", body: func(g *impGen) string {
			as := make([]string, 0, len(args)/2)
			for k := 0; k+1 < len(args); k += 2 {
				as = append(as, mk("arg", args[k], args[k+1]))
			}
			return fmt.Sprintf("    let %s = %s;\n", g.let(), mk("ty", ret, g.other(name, "type")+"("+mk("args", fmt.Sprint(len(as)), strings.Join(as, ", "))+")"))
		}}
	}
	dev := impModule{name: "dev", mods: map[string]string{"dev": `
$Lamp = { level: int, lit: bool };
$Count = int;

pub type Level = int;

pub fn get_level(lamp: $Lamp) -> int {
    lamp.level
}

pub fn set_level(lamp: $Lamp, value: Level) -> int {
    lamp.level = value;
    lamp.level
}

pub fn blink(lamp: $Lamp, times: int, tag: str, on: bool) -> str {
    lamp.lit = on;
    tag + times.to_string()
}

pub fn both(lamp: $Lamp, n: $Count) -> bool {
    lamp.lit && n > 0
}

pub fn tally(lamp: $Lamp, n: $Count, step: float, tag: str) -> str {
    tag + (lamp.level + n).to_string() + step.to_string()
}

pub fn scale(value: int, by: float) -> float {
    (value as float) * by
}

fn main() {
    println(get_level(), set_level(1), blink(2, "b", true), both(), tally(0.5, "t"), scale(2, 1.5));
}
`}, items: []impItem{
		call("set_level", "int", "int", "42"),
		call("get_level", "int"),
		call("blink", "str", "int", "3", "str", `"x"`, "bool", "true"),
		call("both", "bool"),
		call("tally", "str", "float", "2.5", "str", `"n"`),
		typeItem("Level", tInt, "3"),
		call("scale", "float", "int", "2", "float", "0.5"),
	}}
	return []impModule{kinds, net, lib, dev}
}

var impPrefix = map[string]string{"value": "", "type": "type ", "templ": "templ ", "trigger": "trigger "}

// wrongPrefixes: the prefixes of the other kinds an item can be written with at this position
// (`trigger` is only part of the grammar for the first item of a list).
func wrongPrefixes(kind string, first bool) []string {
	var out []string
	for _, k := range []string{"value", "type", "templ", "trigger"} {
		if k == kind || (k == "trigger" && !first) {
			continue
		}
		out = append(out, impPrefix[k])
	}
	return out
}

// renderItem renders one item of an import list: the prefix with the prefixes of the other kinds
// as mutants, the name (renamed by the unknown-name mutator), the whole item (listed twice by the
// duplicate mutator).
func renderItem(it impItem, first bool) string {
	return mk("dup", "importitem", "«mut:import|"+impPrefix[it.kind]+"¦"+strings.Join(wrongPrefixes(it.kind, first), "¦")+"»"+mk("id", "import", it.name))
}

// program renders the import statements for the ordered items (split gives the number of items of
// each statement) and the code using them. via: the imports and their uses live in a second user
// module `mid`, the entry module calls into it.
func (g *impGen) program(m impModule, items []impItem, split []int, via bool) (mods map[string]string, construct string) {
	g.byKind = map[string][]string{}
	for _, it := range items {
		g.byKind[it.kind] = append(g.byKind[it.kind], it.name)
	}
	var imp strings.Builder
	var shape []string
	k := 0
	for _, n := range split {
		part := items[k : k+n]
		k += n
		var kinds []string
		for _, it := range part {
			kinds = append(kinds, it.kind)
		}
		if n == 1 && g.r.Bool() {
			fmt.Fprintf(&imp, "import %s from %s;\n", renderItem(part[0], true), mk("id", "module", m.name))
			shape = append(shape, kinds[0])
			continue
		}
		rs := make([]string, n)
		for j, it := range part {
			rs[j] = renderItem(it, j == 0)
		}
		trail := ""
		if g.r.Chance(1, 5) {
			trail = ","
		}
		fmt.Fprintf(&imp, "import { %s%s } from %s;\n", strings.Join(rs, ", "), trail, m.name)
		shape = append(shape, "{"+strings.Join(kinds, ",")+"}")
	}
	construct = "import " + strings.Join(shape, " + ") + " from " + m.name
	var top, body strings.Builder
	for _, it := range items {
		if it.top != nil {
			top.WriteString(it.top(g))
		}
	}
	for _, it := range items {
		if it.body != nil {
			body.WriteString(it.body(g))
		}
	}
	mods = map[string]string{}
	for k, v := range m.mods {
		mods[k] = v
	}
	if via {
		mods["mid"] = imp.String() + "\n" + top.String() + "pub fn mid_entry() -> int {\n" + body.String() + "    1\n}\n\nfn main() {}\n"
		mods["main"] = "import mid_entry from mid;\n\nfn main() {\n    println(mid_entry());\n}\n"
		construct += " (in an imported module)"
	} else {
		mods["main"] = imp.String() + "\n" + top.String() + "fn main() {\n" + body.String() + "}\n"
	}
	return mods, construct
}

func impCase(id, name, construct, host string, mods map[string]string) []fw.Case {
	parsed, err := mutate.Parse(mods)
	if err != nil {
		panic(fmt.Sprintf("c03: import program %s has bad markers: %v\n%s", id, err, mods["main"]))
	}
	// the signature keeps the module only; the shape of the import statements is part of the name
	module := construct[strings.LastIndex(construct, " from ")+6:]
	if i := strings.Index(module, " "); i > 0 {
		module = module[:i]
	}
	p := Payload{Name: name + " [" + construct + "]", Group: "imports", Mods: mods, Main: true, Construct: "import-list-" + module, Host: host}
	return splitCases(id, "imports", p, nil, parsed)
}

// orderable reports whether the order is part of the grammar: `trigger` only leads a list.
func orderable(items []impItem, split []int) bool {
	k := 0
	for _, n := range split {
		for j := 0; j < n; j++ {
			if items[k+j].kind == "trigger" && j != 0 {
				return false
			}
		}
		k += n
	}
	return true
}

// impSystematic: every ordered pair of kinds next to each other in one braced list, for every
// module that offers both kinds; every kind as a single import.
func impSystematic() []fw.Case {
	var out []fw.Case
	for mi, m := range impModules() {
		firstOf := map[string][]impItem{}
		for _, it := range m.items {
			firstOf[it.kind] = append(firstOf[it.kind], it)
		}
		kinds := []string{"value", "type", "templ", "trigger"}
		n := 0
		for _, ka := range kinds {
			for _, kb := range kinds {
				if len(firstOf[ka]) == 0 || len(firstOf[kb]) == 0 {
					continue
				}
				a := firstOf[ka][0]
				b := firstOf[kb][len(firstOf[kb])-1]
				if a.name == b.name {
					continue
				}
				// the pair alone, and the pair followed by a value (what a kind that leaks reaches)
				tails := [][]impItem{nil}
				if v := firstOf["value"]; len(v) > 0 && v[0].name != a.name && v[0].name != b.name {
					tails = append(tails, []impItem{v[0]})
				}
				for ti, tail := range tails {
					items := append([]impItem{a, b}, tail...)
					split := []int{len(items)}
					if !orderable(items, split) {
						continue
					}
					g := &impGen{r: fw.NewRng(uint64(0x1A9 + 97*mi + n))}
					n++
					mods, construct := g.program(m, items, split, false)
					id := fmt.Sprintf("c03-imports-sys-%s-%s-%s-%d", m.name, ka, kb, ti)
					out = append(out, impCase(id, fmt.Sprintf("imports-%s-%s-%s-%d", m.name, ka, kb, ti), construct, m.host, mods)...)
				}
			}
		}
		for ii, it := range m.items {
			g := &impGen{r: fw.NewRng(uint64(0x2A9 + 97*mi + ii))}
			mods, construct := g.program(m, []impItem{it}, []int{1}, false)
			id := fmt.Sprintf("c03-imports-sys-%s-single-%s", m.name, it.name)
			out = append(out, impCase(id, fmt.Sprintf("imports-%s-single-%s", m.name, it.name), construct, m.host, mods)...)
		}
	}
	return out
}

func importCases(tier string, seed uint64) []fw.Case {
	out := impSystematic()
	n := 40
	if tier == "thorough" {
		n = 400
	}
	r := fw.NewRng(seed ^ 0x1A9C03)
	ms := impModules()
	for i := 0; i < n; i++ {
		g := &impGen{r: r.Fork()}
		m := ms[g.r.Intn(len(ms))]
		// a seeded selection in a seeded order
		items := append([]impItem{}, m.items...)
		for k := len(items) - 1; k > 0; k-- {
			j := g.r.Intn(k + 1)
			items[k], items[j] = items[j], items[k]
		}
		cnt := 2 + g.r.Intn(len(items)-1)
		if cnt > 5 {
			cnt = 5
		}
		items = items[:cnt]
		var split []int
		for left := cnt; left > 0; {
			c := 1 + g.r.Intn(left)
			if g.r.Chance(2, 3) {
				c = left
			}
			split = append(split, c)
			left -= c
		}
		// a trigger item leads its list: move it to the front of its statement
		k := 0
		for _, c := range split {
			for j := 1; j < c; j++ {
				if items[k+j].kind == "trigger" {
					items[k], items[k+j] = items[k+j], items[k]
				}
			}
			k += c
		}
		via := m.name != HostKinds && g.r.Chance(1, 4)
		mods, construct := g.program(m, items, split, via)
		out = append(out, impCase(fmt.Sprintf("c03-imports-rnd-%d", i), fmt.Sprintf("imports-rnd-%d", i), construct, m.host, mods)...)
	}
	return out
}
