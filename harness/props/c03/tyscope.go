package c03

// Scoped-declaration family: what a NAME denotes at a program point.
//
// A type alias (and, as its twin, a variable) may be declared again in an inner scope; from that
// statement to the end of that scope every use of the name denotes the inner declaration, after
// the scope is closed the name denotes the enclosing declaration again. The shipped programs never
// declare a name twice, so nothing but a workload of its own exercises the order in which the
// scope stack is searched.
//
// A program of the family declares a few names at module level (also as imports from a user
// module) and declares them again — with a right hand side of the SAME KIND that differs
// inside ({ value: int } / { value: str }, [int] / [str], ?int / ?bool, fn() -> int / fn() -> str,
// int / str) — in the scopes every scope-opening construct creates: function body, block,
// then / else branch, while / for / loop body, closure body, match arm, try and catch block,
// nested up to three deep. The generator carries the scope stack itself (the reference model: the
// innermost declaration that precedes the use wins) and emits, at every point, uses of the name
// in every position a type name / a variable can take:
//
//   - accept: annotation of a let (also inside [N], ?N, { f: N }, of a closure parameter and
//     result, inside a local alias `type L = [N]`), target of a cast, signature of a function whose
//     body declares the name again; every value has the type the name denotes THERE: 0 error
//     diagnostics, and the type recorded for the variable / the initialiser is that type.
//   - reject: at every such position the NEAR MISS — the value that would be right for the other
//     declaration of the same name (the shadowed one, if there is one) — is an explicit mutant
//     beside the generic wrong-type literals.
//
// Uses before the inner declaration of the same scope denote the enclosing declaration (a `type`
// statement, like a `let`, takes effect where it stands).

import (
	"fmt"
	"strings"

	"hv/fw"
	"hv/mutate"
)

// scKinds: the kinds of right hand sides; the variants of one kind are pairwise incompatible and
// never rely on the int/float distinction.
var scKinds = []string{"scalar", "list", "opt", "obj", "obj2", "fn"}

func scVariants(kind string) []*mutate.Ty {
	base := []*mutate.Ty{tInt, tStr, tBool}
	out := make([]*mutate.Ty, len(base))
	for i, b := range base {
		switch kind {
		case "list":
			out[i] = mutate.ListOf(b)
		case "opt":
			out[i] = mutate.OptOf(b)
		case "obj":
			out[i] = mutate.ObjOf(mutate.Field{Name: "value", T: b})
		case "obj2":
			out[i] = mutate.ObjOf(mutate.Field{Name: "id", T: tInt}, mutate.Field{Name: "v", T: mutate.ListOf(b)})
		case "fn":
			out[i] = mutate.FnOf(b)
		default:
			out[i] = b
		}
	}
	return out
}

// scConstructs: the constructs that open a scope.
var scConstructs = []string{"block", "if", "else", "while", "for", "loop", "closure", "match", "try", "catch"}

type scName struct {
	name     string
	isType   bool
	variants []*mutate.Ty
}

type scGen struct {
	r          *fw.Rng
	nLet, nVal int
	nAux       int
	names      []*scName
	tenv, venv []map[string]*mutate.Ty
	fns        strings.Builder // helper functions
}

func (g *scGen) push() {
	g.tenv = append(g.tenv, map[string]*mutate.Ty{})
	g.venv = append(g.venv, map[string]*mutate.Ty{})
}

func (g *scGen) pop() {
	g.tenv = g.tenv[:len(g.tenv)-1]
	g.venv = g.venv[:len(g.venv)-1]
}

func (g *scGen) env(n *scName) []map[string]*mutate.Ty {
	if n.isType {
		return g.tenv
	}
	return g.venv
}

// lookup is the reference model: the innermost declaration wins.
func (g *scGen) lookup(n *scName) *mutate.Ty {
	env := g.env(n)
	for i := len(env) - 1; i >= 0; i-- {
		if t, ok := env[i][n.name]; ok {
			return t
		}
	}
	return nil
}

// sibling is the type of another declaration of the same name: the nearest shadowed one that
// differs from the visible one, otherwise another variant.
func (g *scGen) sibling(n *scName) *mutate.Ty {
	cur := g.lookup(n)
	env := g.env(n)
	for i := len(env) - 1; i >= 0; i-- {
		if t, ok := env[i][n.name]; ok && !t.Equal(cur) {
			return t
		}
	}
	for _, v := range n.variants {
		if !v.Equal(cur) {
			return v
		}
	}
	return nil
}

// fresh picks a right hand side that differs from the visible declaration.
func (g *scGen) fresh(n *scName) *mutate.Ty {
	cur := g.lookup(n)
	var c []*mutate.Ty
	for _, v := range n.variants {
		if cur == nil || !v.Equal(cur) {
			c = append(c, v)
		}
	}
	return fw.Pick(g.r, c)
}

func (g *scGen) declaredHere(n *scName) bool {
	env := g.env(n)
	_, ok := env[len(env)-1][n.name]
	return ok
}

func (g *scGen) let() string { g.nLet++; return fmt.Sprintf("t%d", g.nLet) }
func (g *scGen) aux(p string) string {
	g.nAux++
	return fmt.Sprintf("%s%d", p, g.nAux)
}

// val renders a value of type t; successive calls give different values.
func (g *scGen) val(t *mutate.Ty) string {
	g.nVal++
	i := g.nVal
	switch t.K {
	case mutate.KInt:
		return fmt.Sprint(i % 90)
	case mutate.KBool:
		return []string{"true", "false"}[i%2]
	case mutate.KStr:
		return fmt.Sprintf(`"s%d"`, i%50)
	case mutate.KList:
		if i%3 == 0 {
			return "[" + g.val(t.Elem) + ", " + g.val(t.Elem) + "]"
		}
		return "[" + g.val(t.Elem) + "]"
	case mutate.KOpt:
		return "?" + g.val(t.Elem)
	case mutate.KObj:
		parts := make([]string, len(t.Fields))
		for k, f := range t.Fields {
			parts[k] = f.Name + ": " + g.val(f.T)
		}
		return "new { " + strings.Join(parts, ", ") + " }"
	case mutate.KFn:
		ps := make([]string, len(t.Fields))
		for k, p := range t.Fields {
			ps[k] = p.Name + ": " + p.T.Source()
		}
		return "fn(" + strings.Join(ps, ", ") + ") -> " + t.Ret.Source() + " { " + g.val(t.Ret) + " }"
	}
	panic("tyscope: no value of type " + t.String())
}

// near renders wrap(value of t) with, as explicit mutant, wrap(value of the sibling type o).
func (g *scGen) near(rule string, t, o *mutate.Ty, wrap func(string) string) string {
	if wrap == nil {
		wrap = func(s string) string { return s }
	}
	v := wrap(g.val(t))
	if o == nil {
		return v
	}
	return "«mut:" + rule + "|" + v + "¦" + wrap(g.val(o)) + "»"
}

const scTypeForms = 7

// useType emits one use of the alias n in the given form (see the head of the file).
func (g *scGen) useType(sb *strings.Builder, ind string, n *scName, form int) {
	R, S := g.lookup(n), g.sibling(n)
	N := n.name
	note := " // " + N + " = " + R.Source() + " here\n"
	if form == 1 && hasFn(R) {
		form = 0 // a function value cannot be cast
	}
	if form == 3 && R.K == mutate.KOpt {
		form = 4
	}
	switch form {
	case 0:
		fmt.Fprintf(sb, "%slet %s: %s = %s;"+note, ind, g.let(), N, mk("asg", R.String(), g.near("assignment", R, S, nil)))
	case 1:
		fmt.Fprintf(sb, "%slet %s = %s;"+note, ind, g.let(), mk("ty", R.String(), g.val(R)+" as "+N))
	case 2:
		lt := mutate.ListOf(R)
		fmt.Fprintf(sb, "%slet %s: [%s] = %s;"+note, ind, g.let(), N, mk("asg", lt.String(), g.near("assignment", R, S, func(s string) string { return "[" + s + "]" })))
	case 3:
		ot := mutate.OptOf(R)
		fmt.Fprintf(sb, "%slet %s: ?%s = %s;"+note, ind, g.let(), N, mk("asg", ot.String(), g.near("assignment", R, S, func(s string) string { return "?" + optOperand(s, R) })))
	case 4:
		ot := mutate.ObjOf(mutate.Field{Name: "f", T: R}, mutate.Field{Name: "n", T: tInt})
		fmt.Fprintf(sb, "%slet %s: { f: %s, n: int } = %s;"+note, ind, g.let(), N, mk("asg", ot.String(), g.near("assignment", R, S, func(s string) string { return "new { f: " + s + ", n: 1 }" })))
	case 5:
		f := g.aux("idf")
		fmt.Fprintf(sb, "%slet %s = fn(p: %s) -> %s { p };\n", ind, f, N, N)
		fmt.Fprintf(sb, "%slet %s = %s;"+note, ind, g.let(), mk("ty", R.String(), f+"("+mk("arg", R.String(), g.near("argument", R, S, nil))+")"))
	case 6:
		l := g.aux("Loc")
		lt := mutate.ListOf(R)
		fmt.Fprintf(sb, "%stype %s = [%s];\n", ind, l, N)
		fmt.Fprintf(sb, "%slet %s: %s = %s;"+note, ind, g.let(), l, mk("asg", lt.String(), g.near("assignment", R, S, func(s string) string { return "[" + s + "]" })))
	}
}

const scVarForms = 3

// useVar emits one use of the variable n.
func (g *scGen) useVar(sb *strings.Builder, ind string, n *scName, form int) {
	R, S := g.lookup(n), g.sibling(n)
	note := " // " + n.name + ": " + R.Source() + " here\n"
	switch form {
	case 0:
		fmt.Fprintf(sb, "%slet %s = %s;"+note, ind, g.let(), mk("ty", R.String(), n.name))
	case 1:
		ann := R.Source()
		if S != nil {
			ann = "«mut:assignment|" + R.Source() + "¦" + S.Source() + "»"
		}
		fmt.Fprintf(sb, "%slet %s: %s = %s;"+note, ind, g.let(), ann, mk("asg", R.String(), n.name))
	case 2:
		lt := mutate.ListOf(R)
		fmt.Fprintf(sb, "%slet %s = %s;"+note, ind, g.let(), mk("ty", lt.String(), "["+n.name+"]"))
	}
}

func (g *scGen) use(sb *strings.Builder, ind string, n *scName, form int) {
	if g.lookup(n) == nil {
		return
	}
	if n.isType {
		g.useType(sb, ind, n, form%scTypeForms)
	} else {
		g.useVar(sb, ind, n, form%scVarForms)
	}
}

func (g *scGen) useAll(sb *strings.Builder, ind string, n *scName) {
	forms := scVarForms
	if n.isType {
		forms = scTypeForms
	}
	for f := 0; f < forms; f++ {
		g.use(sb, ind, n, f)
	}
}

// declare emits a declaration of n in the current scope with right hand side t.
func (g *scGen) declare(sb *strings.Builder, ind string, n *scName, t *mutate.Ty) {
	if n.isType {
		fmt.Fprintf(sb, "%stype %s = %s;\n", ind, n.name, t.Source())
		g.tenv[len(g.tenv)-1][n.name] = t
		return
	}
	if g.r.Bool() {
		fmt.Fprintf(sb, "%slet %s = %s;\n", ind, n.name, g.val(t))
	} else {
		fmt.Fprintf(sb, "%slet %s: %s = %s;\n", ind, n.name, t.Source(), g.val(t))
	}
	g.venv[len(g.venv)-1][n.name] = t
}

// construct emits a scope-opening construct around body.
func (g *scGen) construct(sb *strings.Builder, ind, kind string, body func(ind string)) {
	in := ind + "    "
	run := func(i string) {
		g.push()
		body(i)
		g.pop()
	}
	switch kind {
	case "block":
		sb.WriteString(ind + "{\n")
		run(in)
		sb.WriteString(ind + "}\n")
	case "if":
		sb.WriteString(ind + "if true {\n")
		run(in)
		sb.WriteString(ind + "}\n")
	case "else":
		sb.WriteString(ind + "if false {\n" + in + "println(0);\n" + ind + "} else {\n")
		run(in)
		sb.WriteString(ind + "}\n")
	case "while":
		w := g.aux("going")
		fmt.Fprintf(sb, "%slet %s = true;\n%swhile %s {\n", ind, w, ind, w)
		run(in)
		fmt.Fprintf(sb, "%s%s = false;\n%s}\n", in, w, ind)
	case "for":
		fmt.Fprintf(sb, "%sfor %s in 0..2 {\n", ind, g.aux("i"))
		run(in)
		sb.WriteString(ind + "}\n")
	case "loop":
		sb.WriteString(ind + "loop {\n")
		run(in)
		sb.WriteString(in + "break;\n" + ind + "}\n")
	case "closure":
		c := g.aux("clo")
		fmt.Fprintf(sb, "%slet %s = fn() -> int {\n", ind, c)
		run(in)
		fmt.Fprintf(sb, "%s0\n%s};\n%sprintln(%s());\n", in, ind, ind, c)
	case "match":
		sb.WriteString(ind + "match 1 {\n" + in + "1 => {\n")
		run(in + "    ")
		sb.WriteString(in + "}\n" + in + "_ => {}\n" + ind + "}\n")
	case "try":
		e := g.aux("err")
		sb.WriteString(ind + "try {\n")
		run(in)
		fmt.Fprintf(sb, "%s} catch %s {\n%sprintln(%s.message);\n%s}\n", ind, e, in, e, ind)
	case "catch":
		e := g.aux("err")
		fmt.Fprintf(sb, "%stry {\n%sprintln(1);\n%s} catch %s {\n", ind, in, ind, e)
		run(in)
		fmt.Fprintf(sb, "%sprintln(%s.message);\n%s}\n", in, e, ind)
	default:
		panic("tyscope: unknown construct " + kind)
	}
}

// binder emits a construct whose own binder declares the variable n with type t: a for loop
// variable, a closure parameter.
func (g *scGen) binder(sb *strings.Builder, ind, kind string, n *scName, t *mutate.Ty, body func(ind string)) {
	in := ind + "    "
	switch kind {
	case "forvar":
		fmt.Fprintf(sb, "%sfor %s in [%s, %s] {\n", ind, n.name, g.val(t), g.val(t))
		g.push()
		g.venv[len(g.venv)-1][n.name] = t
		body(in)
		g.pop()
		sb.WriteString(ind + "}\n")
	case "cloparam":
		c := g.aux("clo")
		// near miss of the argument: a value of the declaration the parameter shadows
		alt := g.lookup(n)
		if alt == nil || alt.Equal(t) {
			alt = nil
			for _, v := range n.variants {
				if !v.Equal(t) {
					alt = v
					break
				}
			}
		}
		fmt.Fprintf(sb, "%slet %s = fn(%s: %s) -> int {\n", ind, c, n.name, t.Source())
		g.push()
		g.venv[len(g.venv)-1][n.name] = t
		body(in)
		g.pop()
		fmt.Fprintf(sb, "%s0\n%s};\n%sprintln(%s(%s));\n", in, ind, ind, c, mk("arg", t.String(), g.near("argument", t, alt, nil)))
	default:
		panic("tyscope: unknown binder " + kind)
	}
}

// through emits a top-level function whose signature uses the alias n with its module-level
// meaning while its body declares n again, and returns the call of it.
func (g *scGen) through(n *scName, body func(ind string)) string {
	tenv, venv := g.tenv, g.venv
	g.tenv, g.venv = []map[string]*mutate.Ty{tenv[0]}, []map[string]*mutate.Ty{venv[0]}
	R, S := g.lookup(n), g.sibling(n)
	f := g.aux("thru")
	fmt.Fprintf(&g.fns, "fn %s(p: %s) -> %s {\n", f, n.name, n.name)
	g.push()
	body("    ")
	g.pop()
	fmt.Fprintf(&g.fns, "    %s\n}\n\n", mk("tail", R.String(), "p"))
	g.tenv, g.venv = tenv, venv
	return mk("ty", R.String(), f+"("+mk("arg", R.String(), g.near("argument", R, S, nil))+")")
}

// systematic builds the program of one (kind, construct): see scSystematic.
func (g *scGen) systematic(kind, construct string, imported bool) map[string]string {
	ty := &scName{name: "Reading", isType: true, variants: scVariants(kind)}
	va := &scName{name: "level", variants: scVariants(kind)}
	g.names = []*scName{ty, va}
	g.push()
	var head strings.Builder
	mods := map[string]string{}
	t0 := ty.variants[0]
	v0 := va.variants[1]
	if hasFn(v0) {
		// a function value is not a constant initialiser: the outermost declaration is a local
		v0 = nil
	}
	if imported {
		// the outermost declarations live in a user module and are imported
		lib := "pub type Reading = " + t0.Source() + ";\n"
		if v0 != nil {
			head.WriteString("import { level, type Reading } from lib;\n\n")
			lib += "pub let level = " + constLit(v0) + ";\n"
		} else {
			head.WriteString("import { type Reading } from lib;\n\n")
		}
		mods["lib"] = lib + "\nfn main() {}\n"
	} else {
		fmt.Fprintf(&head, "type Reading = %s;\n", t0.Source())
	}
	g.tenv[0][ty.name] = t0
	head.WriteString("type Dep = [Reading];\n")
	dep := mutate.ListOf(t0)
	if v0 != nil {
		if !imported {
			fmt.Fprintf(&head, "let level = %s;\n", constLit(v0))
		}
		g.venv[0][va.name] = v0
	}
	head.WriteString("\n")

	var body strings.Builder
	body.WriteString("fn main() {\n")
	g.push()
	ind := "    "
	if v0 == nil {
		g.declare(&body, ind, va, va.variants[1])
	}
	for _, n := range g.names {
		g.useAll(&body, ind, n)
	}
	depUse := func(sb *strings.Builder, i string) {
		// the module-level alias built from Reading keeps the module-level meaning
		R := g.lookup(ty)
		var alt *mutate.Ty
		if !R.Equal(t0) {
			alt = R
		}
		fmt.Fprintf(sb, "%slet %s: Dep = %s;\n", i, g.let(), mk("asg", dep.String(), g.near("assignment", t0, alt, func(s string) string { return "[" + s + "]" })))
	}
	inner := func(i string) {
		for k, n := range g.names {
			g.use(&body, i, n, k) // before the declaration of this scope: the enclosing meaning
		}
		for _, n := range g.names {
			g.declare(&body, i, n, g.fresh(n))
			g.useAll(&body, i, n)
		}
		depUse(&body, i)
		g.construct(&body, i, "block", func(j string) {
			for k, n := range g.names {
				g.use(&body, j, n, k+1)
			}
			for _, n := range g.names {
				g.declare(&body, j, n, g.fresh(n))
				g.useAll(&body, j, n)
			}
		})
		for k, n := range g.names {
			g.use(&body, i, n, k+2) // the first inner declaration again
		}
	}
	switch construct {
	case "fnbody":
		inner(ind)
	case "through":
		call := g.through(ty, func(i string) {
			sb := &g.fns
			g.use(sb, i, ty, 0)
			g.declare(sb, i, ty, g.fresh(ty))
			g.useAll(sb, i, ty)
		})
		fmt.Fprintf(&body, "%slet %s = %s;\n", ind, g.let(), call)
	case "forvar", "cloparam":
		g.binder(&body, ind, construct, va, g.fresh(va), func(i string) {
			g.useAll(&body, i, va)
			g.use(&body, i, ty, 0)
			g.declare(&body, i, ty, g.fresh(ty))
			g.useAll(&body, i, ty)
		})
	default:
		g.construct(&body, ind, construct, inner)
	}
	// after the construct: the meaning of before
	for _, n := range g.names {
		g.useAll(&body, ind, n)
	}
	depUse(&body, ind)
	g.pop()
	body.WriteString("}\n")
	g.pop()
	mods["main"] = head.String() + g.fns.String() + body.String()
	return mods
}

// random builds a program with several names and randomly nested scopes.
func (g *scGen) random() map[string]string {
	nT, nV := 1+g.r.Intn(2), 1+g.r.Intn(2)
	tNames := []string{"Reading", "Item", "Key"}
	vNames := []string{"level", "cur", "acc"}
	g.names = nil
	g.push()
	var head strings.Builder
	for i := 0; i < nT; i++ {
		n := &scName{name: tNames[i], isType: true, variants: scVariants(fw.Pick(g.r, scKinds))}
		g.names = append(g.names, n)
		if g.r.Chance(4, 5) {
			t := g.fresh(n)
			fmt.Fprintf(&head, "type %s = %s;\n", n.name, t.Source())
			g.tenv[0][n.name] = t
		}
	}
	for i := 0; i < nV; i++ {
		n := &scName{name: vNames[i], variants: scVariants(fw.Pick(g.r, scKinds[:5]))}
		g.names = append(g.names, n)
		if g.r.Chance(2, 3) {
			t := g.fresh(n)
			fmt.Fprintf(&head, "let %s = %s;\n", n.name, constLit(t))
			g.venv[0][n.name] = t
		}
	}
	head.WriteString("\n")
	var body strings.Builder
	body.WriteString("fn main() {\n")
	g.push()
	g.stmts(&body, "    ", 0, 5+g.r.Intn(4))
	// a function whose signature uses the module-level meaning
	for _, n := range g.names {
		if n.isType && g.tenv[0][n.name] != nil && g.r.Bool() {
			nn := n
			call := g.through(nn, func(i string) {
				sb := &g.fns
				g.declare(sb, i, nn, g.fresh(nn))
				g.use(sb, i, nn, g.r.Intn(scTypeForms))
			})
			fmt.Fprintf(&body, "    let %s = %s;\n", g.let(), call)
		}
	}
	g.pop()
	body.WriteString("}\n")
	g.pop()
	return map[string]string{"main": head.String() + g.fns.String() + body.String()}
}

// stmts emits n statements into the current scope.
func (g *scGen) stmts(sb *strings.Builder, ind string, depth, n int) {
	for i := 0; i < n; i++ {
		nm := fw.Pick(g.r, g.names)
		switch c := g.r.Intn(10); {
		case c < 3:
			g.use(sb, ind, nm, g.r.Intn(scTypeForms*scVarForms))
		case c < 6:
			if nm.isType && g.declaredHere(nm) {
				g.use(sb, ind, nm, g.r.Intn(scTypeForms))
				continue
			}
			g.declare(sb, ind, nm, g.fresh(nm))
			g.use(sb, ind, nm, g.r.Intn(scTypeForms*scVarForms))
		default:
			if depth >= 3 {
				g.use(sb, ind, nm, g.r.Intn(scTypeForms*scVarForms))
				continue
			}
			body := func(j string) { g.stmts(sb, j, depth+1, 2+g.r.Intn(3)) }
			if !nm.isType && g.r.Chance(1, 3) {
				g.binder(sb, ind, fw.Pick(g.r, []string{"forvar", "cloparam"}), nm, g.fresh(nm), body)
			} else {
				g.construct(sb, ind, fw.Pick(g.r, scConstructs), body)
			}
			// the scope is closed: every name denotes what it denoted before
			for _, x := range g.names {
				if g.r.Bool() {
					g.use(sb, ind, x, g.r.Intn(scTypeForms*scVarForms))
				}
			}
		}
	}
}

func scCase(id, name, construct string, mods map[string]string) []fw.Case {
	parsed, err := mutate.Parse(mods)
	if err != nil {
		panic(fmt.Sprintf("c03: scope program %s has bad markers: %v\n%s", id, err, mods["main"]))
	}
	p := Payload{Name: name, Group: "scope", Mods: mods, Main: true, Construct: construct}
	return splitCases(id, "scope", p, nil, parsed)
}

// scSystematic: one program per (kind of right hand side) x (scope-opening construct), and for
// every construct one whose outermost declarations are imported from a user module.
func scSystematic() []fw.Case {
	var out []fw.Case
	constructs := append([]string{"fnbody", "through", "forvar", "cloparam"}, scConstructs...)
	for ki, kind := range scKinds {
		for ci, c := range constructs {
			g := &scGen{r: fw.NewRng(uint64(0x5C0BE + 31*ki + ci))}
			id := fmt.Sprintf("c03-scope-sys-%s-%s", kind, c)
			out = append(out, scCase(id, fmt.Sprintf("scope-%s-%s", kind, c), "scoped-names-"+c, g.systematic(kind, c, false))...)
		}
	}
	for ci, c := range constructs {
		kind := scKinds[ci%len(scKinds)]
		g := &scGen{r: fw.NewRng(uint64(0x5C1BE + ci))}
		id := fmt.Sprintf("c03-scope-sys-imported-%s", c)
		out = append(out, scCase(id, fmt.Sprintf("scope-imported-%s-%s", kind, c), "scoped-names-imported-"+c, g.systematic(kind, c, true))...)
	}
	return out
}

func scopeCases(tier string, seed uint64) []fw.Case {
	out := scSystematic()
	n := 30
	if tier == "thorough" {
		n = 300
	}
	r := fw.NewRng(seed ^ 0x5C09EC03)
	for i := 0; i < n; i++ {
		g := &scGen{r: r.Fork()}
		out = append(out, scCase(fmt.Sprintf("c03-scope-rnd-%d", i), fmt.Sprintf("scope-rnd-%d", i), "scoped-names", g.random())...)
	}
	return out
}
