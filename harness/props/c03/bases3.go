package c03

func init() { Bases = append(Bases, bases3...) }

var bases3 = []Base{
	{Name: "if_expr", Construct: "if-expressions", Main: `
fn sign(n: int) -> int {
    if «cond|n < 0» {
        «br:int|-1»
    } else if «cond|n == 0» {
        «br:int|0»
    } else {
        «br:int|1»
    }
}

fn main() {
    let c = true;
    let n = 5;
    let v = «ty:int|if «cond|c» { «br:int|1» } «els|else { «br:int|2» }»»;
    let s = «ty:str|if «cond|n > 3» { «br:str|"big"» } else if n > 1 { «br:str|"mid"» } else { «br:str|"small"» }»;
    let l = «ty:[int]|if c { «br:[int]|[1]» } «els|else { «br:[int]|[2, 3]» }»»;
    let o = «ty:?int|if c { «br:?int|?1» } else { «br:?int|?2» }»;
    let nested = «ty:float|if c { if n > 2 { «br:float|1.5» } else { «br:float|2.5» } } else { «br:float|0.0» }»;
    if «cond|c && n > 1» {
        «pt:-:null»
        println("then");
    }
    if c {
        println("a");
    } else {
        «pt:-:null»
        println("b");
    }
    let stmt_val = «ty:null|if c { println("x"); }»;
    let w = «ty:int|«opd:int|if c { 1 } else { 2 }» + «opd:int|sign(«arg:int|n»)»»;
    println(v, s, l, o, nested, w);
    stmt_val;
}
`},
	{Name: "match_expr", Construct: "match-expressions", Main: `
fn name(n: int) -> str {
    match n {
        «mut:condition|1¦"one"¦true» => «br:str|"one"»,
        2 | 3 => «br:str|"few"»,
        -1 => «br:str|"minus"»,
        «dflt|_ => «br:str|"many"»,»
    }
}

fn main() {
    let n = 2;
    let m = «ty:int|match n { 1 => «br:int|10», 2 => «br:int|20», «dflt|_ => «br:int|0»» }»;
    let s = «ty:bool|match "a" { "a" | "b" => «br:bool|true», «dflt|_ => «br:bool|false»» }»;
    let b = «ty:float|match true { true => «br:float|1.5», _ => «br:float|2.5» }»;
    let f = «ty:str|match 1.5 { «mut:condition|1.5¦1¦"x"» => "x", _ => "y" }»;
    let o = «ty:int|match ?1 { none => 0, ?1 => 1, _ => 2 }»;
    let nested = «ty:str|match n {
        1 => match m { 10 => «br:str|"a"», _ => «br:str|"b"» },
        _ => «br:str|name(«arg:int|n»)»,
    }»;
    match n {
        1 => println("one"),
        2 => { «pt:-:null» println("two"); }
    }
    match n {
        1 => { println("x"); }
        _ => {}
    }
    let blocks = «ty:int|match n { 1 => { let t = 1; «br:int|t + 1» } _ => { «br:int|0» } }»;
    println(m, s, b, f, o, nested, blocks);
}
`},
	{Name: "match_diverge", Construct: "match-diverging-arms", Main: `
fn pick(n: int) -> int {
    match n {
        1 => { return «ret:int|10»; }
        2 => { return «ret:int|20»; }
        «ctx:match-all-diverge|«tag:match-all-diverge|«dflt|_ => { return 0; }»»»
    }
}

fn must(n: int) -> str {
    match n {
        1 => { return "one"; }
        «ctx:match-all-diverge|«tag:match-all-diverge|«dflt|_ => throw("unsupported"),»»»
    }
}

fn mixed(n: int) -> int {
    let v = match n {
        1 => { return «ret:int|-1»; }
        2 => «br?:int|5»,
        «dflt|_ => 7,»
    };
    «tail:int|v»
}

fn main() {
    println(pick(«arg:int|1»), must(1), mixed(2));
}
`},
	{Name: "try_expr", Construct: "try-expressions", Main: `
fn risky(n: int) -> int {
    if n > 2 {
        throw("too big");
    }
    «tail:int|n»
}

fn main() {
    let t = «ty:int|try { «br:int|risky(«arg:int|5»)» } catch e { «br:int|-1» }»;
    let s = «ty:str|try { «br:str|"ok"» } catch e { «br:str|e.«id:field|message»» }»;
    let l = «ty:int|try { risky(1) } catch err { «br:int|«opd:int|err.line» + «opd:int|err.column»» }»;
    let f = «ty:str|try { "none" } catch e { e.filename }»;
    try {
        «pt:-:null»
        println(risky(3));
    } catch e {
        «pt:-:null»
        println(e.message);
    }
    let nested = «ty:int|try {
        try { «br:int|risky(9)» } catch inner { «br:int|risky(8)» }
    } catch outer {
        «br:int|0»
    }»;
    let in_loop = 0;
    for i in 0..3 {
        in_loop += «asg:int|try { risky(«arg:int|i») } catch _e { 0 }»;
    }
    println(t, s, l, f, nested, in_loop);
}
`},
	{Name: "block_expr", Construct: "block-expressions", Main: `
fn main() {
    let a = «ty:int|{ let x = 1; «opd:int|x» + «opd:int|1» }»;
    let b = «ty:str|{ { "inner" } }»;
    let c = «ty:null|{ println("side effect"); }»;
    let d = «ty:null|{}»;
    let x = 10;
    {
        «pt:-:null»
        let x = "shadow";
        println(«opd:str|x» + «opd:str|"!"»);
    }
    let e = «ty:int|«opd:int|x» + «opd:int|{ let y = 2; y * 2 }»»;
    let f = «ty:[int]|{ let t = [1]; t.push(«arg:int|2»); t }»;
    println(a, b, e, f);
    c;
    d;
}
`},
	{Name: "loops", Construct: "loops", Main: `
fn main() {
    let i = 0;
    «pt:-:null»
    while «cond|i < 10» {
        «ctx:while|«pt:L:null»
        i += «asg:int|1»;
        if i == 3 {
            continue;
        }
        if i > 7 {
            break;
        }»
    }
    let n = 0;
    loop {
        «ctx:loop|n += 1;
        if «cond|n >= 5» {
            break;
        }»
    }
    for k in «iter|0..5» {
        «ctx:for|if k % 2 == 0 {
            continue;
        }
        println(«opd:int|k» + «opd:int|n»);»
    }
    for c in «iter|"abc"» {
        println(«opd:str|c» + «opd:str|"."»);
    }
    for v in «iter|[1.5, 2.5]» {
        println(«opd:float|v» * «opd:float|2.0»);
    }
    for row in [[1, 2], [3]] {
        for cell in «iter|row» {
            «ctx:nested-for|if cell == 2 {
                break;
            }
            «pt:L:null»»
        }
        «pt:L:null»
    }
    while true {
        while false {
            continue;
        }
        break;
    }
    «pt:-:null»
    println(i, n);
}
`},
	{Name: "casts", Construct: "casts", Main: `
type Pair = { a: int, b: str };

fn main() {
    let i = 42;
    let f = 2.5;
    let b = true;
    let c0 = «ty:float|i as float»;
    let c1 = «ty:bool|i as bool»;
    let c2 = «ty:int|f as int»;
    let c3 = «ty:bool|f as bool»;
    let c4 = «ty:int|b as int»;
    let c5 = «ty:float|b as float»;
    let c6 = «ty:int|i as int»;
    let c7 = «ty:str|"s" as str»;
    let c8 = «ty:{?}|new { a: 1 } as { ? }»;
    let c9 = «ty:{a:int,b:str}|new { a: 1, b: "x" } as «id:type|Pair»»;
    let c10 = «ty:[int]|[1, 2] as [int]»;
    let c11 = «ty:?int|?1 as ?int»;
    let c12 = «ty:float|(«opd:int|i» + «opd:int|1») as float»;
    let bad0 = «ty:float|«mut:cast|i as float¦"s" as int¦[1] as [str]¦f as [float]¦"s" as [str]»»;
    let fun = fn() -> int { 1 };
    let bad1 = «ty:int|«mut:cast|fun()¦(fun as fn() -> int)()»»;
    let bad2 = «ty:{?}|«mut:cast|new { a: 1 } as { ? }¦[1] as { ? }¦1 as { ? }»»;
    println(c0, c1, c2, c3, c4, c5, c6, c7, c8, c9, c10, c11, c12, bad0, bad1, bad2);
}
`},
	{Name: "any_values", Construct: "any-values", Main: `
import { any_func, any_list } from testing;
import assert_eq from testing;

type Cfg = { name: str, port: int };

fn main() {
    let a«mut:implicit-any|: int¦» = any_func();
    let b = «ty:int|any_func()«mut:implicit-any| as int¦»»;
    let c = «ty:int|«mut:implicit-any|(any_func() as int)¦any_func()» + 1»;
    let d = «ty:int|«mut:implicit-any|(any_func() as str)¦any_func()».len()»;
    let e«mut:implicit-any|: [str]¦» = any_list;
    let f = «ty:[str]|any_list«mut:implicit-any| as [str]¦»»;
    let g«mut:implicit-any|: [int]¦» = [];
    let h«mut:implicit-any|: ?int¦» = none;
    let j«mut:implicit-any|: Cfg¦» = "{}".parse_json();
    let k = «ty:{name:str,port:int}|"{}".parse_json()«mut:implicit-any| as Cfg¦»»;
    let callee: fn() -> int = any_func();
    let l = «ty:int|«mut:implicit-any|callee¦any_func()»()»;
    let ao = new { ? };
    let m«mut:implicit-any|: int¦» = ao["k"];
    let n«mut:implicit-any|: ?str¦» = ao->k;
    let o«mut:implicit-any|: bool¦» = ao~>flag;
    let p = «ty:int|«mut:implicit-any|(ao["k"] as int)¦ao["k"]» * 2»;
    let q = «ty:int|-«mut:implicit-any|(any_func() as int)¦any_func()»»;
    let lst = «ty:[int]|[«mut:implicit-any|any_func() as int¦any_func()»]»;
    assert_eq(a, b);
    println(c, d, e, f, g, h, j, k, l, m, n, o, p, q, lst);
}
`},
	{Name: "globals", Construct: "globals", Main: `
«dup:global|let counter = «gin:int|0»;»
let ratio: float = «gin:a:float|0.5»;
let name = «gin:str|"glob"»;
let flags = «gin:[bool]|[true, false]»;
let origin = «gin:{x:int,y:int}|new { x: 0, y: 0 }»;
let span = «gin:range|1..10»;
let maybe: ?int = «gin:a:?int|?3»;
let computed = «gin:int|(1 + 2) * 3»;
let negative = «gin:int|-5»;
let casted = «gin:float|3 as float»;
let nothing: ?str = none;
let bag = new { ? };
pub let exported = «gin:str|"visible"»;

fn bump() -> int {
    counter += «asg:int|1»;
    «tail:int|«id:var|counter»»
}

fn main() {
    ratio = «asg:float|0.75»;
    flags.push(«arg:bool|true»);
    origin.x = «asg:int|computed»;
    maybe = «asg:?int|none»;
    bag.set("k", 1);
    println(bump(), ratio, name, flags, origin, span, maybe, negative, casted, nothing, exported);
}
`},
	{Name: "imports_builtin", Construct: "builtin-imports", Main: `
import «id:import|assert_eq» from «id:module|testing»;
import { http, «id:import|ping», type «id:import|HttpResponse» } from net;

fn status(r: «id:type|HttpResponse») -> int {
    «tail:int|r.status_code»
}

fn main() {
    let resp = http.get(«args:1|«arg:str|"http://localhost"»»);
    let code = «ty:int|status(«arg:{body:str,cookies:{?},status:str,status_code:int}|resp»)»;
    let body = «ty:str|resp.«id:field|body»»;
    let ck = «ty:{?}|resp.cookies»;
    let ok = «ty:bool|ping(«args:2|«arg:str|"127.0.0.1"», «arg:float|0.5»»)»;
    let full = http.generic(«args:5|«arg:str|"u"», «arg:str|"POST"», «arg:?str|?"body"», «arg:{?}|new { ? }», «arg:{?}|ck»»);
    assert_eq(code, 200);
    assert_eq(«args:2|body, full.body»);
    let now = time.now();
    let y = «ty:int|now.year»;
    let later = time.add_days(«args:2|now, «arg:int|2»»);
    time.sleep(«arg:float|0.01»);
    debug(ok, y, later.month);
}
`},
	{Name: "user_modules", Construct: "user-modules", Main: `
import { «id:import|area», «id:import|UNIT», type «id:import|Shape» } from «id:module|geometry»;
import describe from report;

fn main() {
    let s: Shape = «asg:{h:int,w:int}|new { w: 2, h: 3 }»;
    let a = «ty:int|area(«args:1|«arg:{h:int,w:int}|s»»)»;
    let u = «ty:str|UNIT»;
    let d = «ty:str|describe(«args:2|«arg:{h:int,w:int}|s», «arg:bool|true»»)»;
    println(a, u, d);
}
`, Mods: map[string]string{
		"geometry": `
«mut:import|pub ¦»type Shape = { w: int, h: int };
«mut:import|pub ¦»let UNIT = "cm";
let internal = 2;

«mut:import|pub ¦»fn area(s: Shape) -> int {
    «tail:int|«opd:int|s.w» * «opd:int|s.h» * «opd:int|internal» / «opd:int|2»»
}

pub fn perimeter(s: Shape) -> int {
    «tail:int|2 * (s.w + s.h)»
}

fn main() {}
`,
		"report": `
import { area, perimeter, UNIT, type Shape } from geometry;

«mut:import|pub ¦»fn describe(s: Shape, verbose: bool) -> str {
    let base = «ty:str|«opd:str|area(«arg:{h:int,w:int}|s»).to_string()» + «opd:str|UNIT»»;
    if «cond|verbose» {
        return «ret:str|base + " / " + perimeter(s).to_string()»;
    }
    «tail:str|base»
}

fn main() {}
`}},
	{Name: "singletons", Construct: "singletons", Main: `
«mut:duplicate|$Config = { host: str, port: int, @setting token: str };¦$Config = { host: str, port: int, @setting token: str };
$Config = { host: str };»
$Counter = int;
$Names = [str];

fn endpoint(cfg: «id:singleton|$Config») -> str {
    «tail:str|«opd:str|cfg.host» + «opd:str|cfg.port.to_string()»»
}

fn bump(c: $Counter, by: int) -> int {
    «tail:int|«opd:int|c» + «opd:int|by»»
}

fn both(cfg: $Config, names: $Names, sep: str) -> str {
    names.push(«arg:str|cfg.«id:field|host»»);
    «tail:str|names.join(«arg:str|sep»)»
}

fn main() {
    let e = «ty:str|endpoint(«args:0|»)»;
    let b = «ty:int|bump(«args:1|«arg:int|2»»)»;
    let j = «ty:str|both(«args:1|«arg:str|","»»)»;
    let direct = «ty:int|«id:singleton|$Config».port»;
    $Config.port = «asg:int|8080»;
    let whole = «ty:{host:str,port:int,token:str}|$Config»;
    println(e, b, j, direct, whole.token);
}
`},
	{Name: "singleton_params", Construct: "singleton-parameters", Main: `
$A = { v: int };
$B = { w: str };

«mut?:singleton|fn ok(a: $A, b: $B, n: int) -> int {
    a.v + b.w.len() + n
}¦fn ok(a: $A, n: int, b: $B) -> int {
    a.v + b.w.len() + n
}¦fn ok(a: $A, b: $A, n: int) -> int {
    a.v + b.v + n
}»

fn main() {
    println(ok(«args:1|«arg:int|1»»));
}
`},
	{Name: "templates_light", Construct: "impl-blocks", Main: `
import templ «id:import|FooFeature» from «id:module|templates»;

$Lamp = { level: int, lit: bool };

impl «id:templ|FooFeature» with { «mut:impl|light¦nope¦light, nope¦light, temperature» } for «id:singleton|$Lamp» {
    «mut:impl|fn dim(self: $Lamp, percent: int) -> bool {
        println(self.level, percent);
        true
    }¦¦fn dim(self: $Lamp, percent: int) -> bool {
        println(self.level, percent);
        true
    }
    fn extra(self: $Lamp) {
        println(self.lit);
    }¦fn dim(self: $Lamp, pct: int) -> bool {
        println(self.level, pct);
        true
    }¦fn dim(self: $Lamp, percent: float) -> bool {
        println(self.level, percent);
        true
    }¦fn dim(self: $Lamp) -> bool {
        println(self.level);
        true
    }¦fn dim(self: $Lamp, percent: int, more: int) -> bool {
        println(self.level, percent, more);
        true
    }¦fn dim(self: $Lamp, percent: int) -> int {
        println(self.level, percent);
        1
    }¦fn dim(self: $Lamp, percent: int) {
        println(self.level, percent);
    }¦pub fn dim(self: $Lamp, percent: int) -> bool {
        println(self.level, percent);
        true
    }¦event fn dim(self: $Lamp, percent: int) -> bool {
        println(self.level, percent);
        true
    }¦fn dim(percent: int) -> bool {
        println(percent);
        true
    }¦fn dimm(self: $Lamp, percent: int) -> bool {
        println(self.level, percent);
        true
    }¦fn dim(self: $Lamp, percent: int) -> bool {
        println(self.level, percent);
        true
    }
    fn set_temp(self: $Lamp, celsius: float) {
        println(self.lit, celsius);
    }»
}

fn main() {
    println($Lamp.lit);
}
`},
	{Name: "templates_temperature", Construct: "impl-blocks", Main: `
import templ FooFeature from templates;

$Heater = { target: float };
$Other = { x: int };

impl FooFeature with { temperature } for «mut:impl|$Heater¦$Missing» {
    «mut:impl|fn set_temp(h: $Heater, celsius: float) {
        h.target = celsius;
    }¦fn set_temp(h: $Heater, celsius: float) -> bool {
        h.target = celsius;
        true
    }¦fn set_temp(h: $Heater, celsius: int) {
        println(h.target, celsius);
    }¦fn set_temp(o: $Other, celsius: float) {
        println(o.x, celsius);
    }¦fn dim(h: $Heater, percent: int) -> bool {
        println(h.target, percent);
        true
    }»
}

fn main() {
    println($Heater.target, $Other.x);
}
`},
	{Name: "triggers", Construct: "triggers", Main: `
import trigger «id:import|minute» from «id:module|triggers»;

«mut:trigger|event fn on_minute(elapsed: int) {
    println("elapsed", elapsed);
}¦fn on_minute(elapsed: int) {
    println("elapsed", elapsed);
}¦pub fn on_minute(elapsed: int) {
    println("elapsed", elapsed);
}¦event fn on_minute(elapsed: str) {
    println("elapsed", elapsed);
}¦event fn on_minute(elapsed: int, more: int) {
    println("elapsed", elapsed, more);
}¦event fn on_minute() {
    println("elapsed");
}¦event fn on_minute(elapsed: int) -> int {
    println("elapsed", elapsed);
    1
}»

#[trigger at «id:trigger|minute»(«args:1|«arg:int|2»»)]
event fn annotated(«mut:trigger|e: int¦e: bool¦¦e: int, f: int») {
    println(e);
}

event fn self_trigger(n: int) {
    println(n);
    «mut?:trigger|¦trigger self_trigger at minute(1);»
}

fn main() {
    «pt:-:null»
    trigger «id:fn|on_minute» at «id:trigger|minute»(«args:1|«arg:int|5»»);
    trigger on_minute on minute(«arg:int|1 + 2»);
    trigger self_trigger at minute(3);
    if true {
        trigger annotated at minute(10);
    }
}
`},
	{Name: "spawn", Construct: "spawn", Main: `
fn worker(n: int, label: str) -> int {
    println(label);
    «tail:int|«opd:int|n» * «opd:int|2»»
}

fn sink(x: any) {
    println(x as int);
}

fn idle() {}

fn main() {
    let h = spawn «id:fn|worker»(«args:2|«arg:int|21», «arg:str|"w"»»);
    let r = «ty:int|h.«id:field|join»(«args:0|»)»;
    let h2 = spawn idle();
    h2.join();
    let h3 = spawn sink(«mut:spawn|1¦fn() -> int { 1 }¦fn(a: int) { println(a); }»);
    h3.join();
    spawn println(«mut:spawn|"detached"¦fn() { }»);
    let n = «ty:int|«opd:int|r» + «opd:int|1»»;
    println(n);
}
`},
	{Name: "main_shape", Construct: "main", Main: `
fn helper() -> int { 1 }

«mut:main|fn main() {
    println(helper());
}¦fn main(a: int) {
    println(helper(), a);
}¦fn main(a: int, b: str) {
    println(helper(), a, b);
}¦fn main() -> int {
    println(helper());
    1
}¦fn main() -> str {
    println(helper());
    "done"
}¦fn mian() {
    println(helper());
}¦»
`},
	{Name: "main_modifiers", Construct: "main", Main: `
«mut?:main|¦pub ¦event »fn main() {
    println("modifier");
}
`},
	{Name: "main_with_singleton", Construct: "main", Main: `
$Env = { debug: bool };

fn main(env: $Env«mut:main|¦, extra: int») {
    println(env.debug);
}
`},
	{Name: "library_no_main", Construct: "no-main", NoMain: true, Main: `
pub fn twice(n: int) -> int {
    «tail:int|«opd:int|n» * «opd:int|2»»
}

pub let VERSION = «gin:str|"1.0"»;
`},
	{Name: "never_throw", Construct: "never-type", Main: `
fn fail(msg: str) -> int {
    throw(«args:1|msg»)
}

fn checked(n: int) -> int {
    if n < 0 {
        throw("negative");
    }
    «tail:int|n»
}

fn pick(flag: bool) -> str {
    let v: str = if flag { «br?:str|"yes"» } else { throw("no") };
    «tail:str|v»
}

fn main() {
    let a = «ty:int|checked(«arg:int|1»)»;
    let b = «ty:int|if a > 0 { «br?:int|a» } else { fail(«arg:str|"bad"») }»;
    let c = «ty:int|match a { 1 => «br?:int|1», _ => throw("other") }»;
    println(a, b, c, pick(«arg:bool|true»));
}
`},
	{Name: "loop_never", Construct: "infinite-loop", Main: `
fn forever() -> int {
    loop {
        println("spin");
    }
}

fn nested_forever(n: int) -> str {
    loop {
        while n > 0 {
            break;
        }
    }
}

fn main() {
    if false {
        println(forever(), nested_forever(1));
    }
}
`},
	{Name: "loop_never_after_throw", Construct: "infinite-loop-after-throw", Tags: []string{TagLoopNever}, Main: `
fn check(n: int) -> int {
    if n < 0 {
        throw("negative");
    }
    «tail:int|n»
}

fn forever() -> int {
    loop {
        println("spin");
    }
}

fn main() {
    if false {
        println(forever(), check(1));
    }
}
`},
	{Name: "stmts_misc", Construct: "statements", Main: `
// line comment
/* block
   comment */
fn side() -> int { 1 }

fn main() {
    1;
    "expr statement";
    side();
    (side());
    null;
    none;
    [1, 2];
    new { a: 1 };
    1..2;
    -side();
    side() + 2;
    let t = 1;
    t;
    t = «asg:int|2»;
    if true { } else { }
    if true { };
    match t { _ => {} };
    try { } catch _e { };
    { };
    loop { break; }
    while false { }
    for _i in 0..1 { }
    let big = «ty:int|9223372036854775807»;
    let sep = «ty:int|1000»;
    let esc = «ty:str|"tab\t nl\n quote\" \x41 ä"»;
    println(big, sep, esc);
}
`},
	{Name: "index_assign", Construct: "index-and-member-assignment", Main: `
type Cell = { v: int, tags: [str] };

fn main() {
    let grid: [[Cell]] = [[new { v: 1, tags: ["a"] }]];
    grid[0][0].v = «asg:int|5»;
    grid[0][0].v «aop:int|*=» «asg:int|2»;
    grid[0][0].tags[0] = «asg:str|"b"»;
    grid[0][0].tags[0] «aop:str|+=» «asg:str|"c"»;
    grid[0] = «asg:[{tags:[str],v:int}]|[new { v: 2, tags: ["z"] }]»;
    let fl = [1.5];
    fl[0] «aop:float|-=» «asg:float|0.5»;
    let bs = [true];
    bs[0] «aop:bool|&=» «asg:bool|false»;
    let opts: [?int] = [?1];
    opts[0] = «asg:?int|none»;
    let o = new { inner: new { n: 1.5 } };
    o.inner.n «aop:float|+=» «asg:float|1.0»;
    o.inner = «asg:{n:float}|new { n: 0.0 }»;
    let i = «ty:int|grid[«idx:int|0»][0].v»;
    println(grid, fl, bs, opts, o, i);
}
`},
	{Name: "deep_nesting", Construct: "deep-nesting", Main: `
fn walk(rows: [[int]], limit: int) -> ?int {
    let seen = 0;
    for row in rows {
        «ctx:for|«pt:L:?int»
        for cell in row {
            «ctx:for/for|if «cond|cell > limit» {
                «ctx:for/for/if|«pt:L:?int»
                return «ret:?int|?cell»;»
            }
            let kind = match cell {
                0 => {
                    «ctx:for/for/match-arm|«pt:L:?int»
                    continue;»
                }
                1 => «br:str|"one"»,
                _ => «br:str|try { «br:str|cell.to_string()» } catch e { «br:str|e.message» }»,
            };
            seen += «asg:int|kind.len()»;
            while «cond|seen > 100» {
                «ctx:for/for/while|«pt:L:?int»
                seen -= «asg:int|10»;
                if seen < 50 {
                    break;
                }»
            }»
        }»
    }
    if seen == 0 {
        «ctx:if|return «ret:?int|none»;»
    }
    «tail:?int|?seen»
}

fn main() {
    println(walk(«args:2|«arg:[[int]]|[[1, 2], [3]]», «arg:int|2»»));
}
`},
	{Name: "scopes", Construct: "scoping", Main: `
let shared = «gin:int|1»;

fn uses_global() -> int {
    «tail:int|«opd:int|«id:var|shared»» + «opd:int|1»»
}

fn params_shadow(shared: str) -> str {
    «tail:str|«opd:str|shared» + «opd:str|"!"»»
}

fn main() {
    let a = 1;
    if true {
        let b = «ty:int|«opd:int|«id:var|a»» + «opd:int|1»»;
        {
            let c = «ty:int|«opd:int|a» + «opd:int|«id:var|b»»»;
            println(c);
        }
        println(b);
    }
    for a in ["x"] {
        println(«opd:str|«id:var|a»» + «opd:str|"y"»);
    }
    let a = "rebinding";
    let f = fn(a: bool) -> bool { «tail:bool|!«not:bool|a»» };
    try {
        throw("x");
    } catch a {
        println(a.«id:field|line»);
    }
    println(a, f(«arg:bool|true»), uses_global(), params_shadow(«arg:str|"p"»));
}
`},
	{Name: "scope_exit", Construct: "scoping", Main: `
fn helper(own_param: int) -> int {
    «tail:int|own_param»
}

fn main() {
    let outer = 1;
    {
        let inner = 2;
        println(inner);
    }
    for loop_var in 0..2 {
        println(loop_var);
    }
    try {
        println("t");
    } catch caught {
        println(caught.message);
    }
    let clo = fn(clo_param: int) -> int { clo_param };
    if outer > 0 {
        let in_then = 3;
        println(in_then);
    } else {
        let in_else = 4;
        println(in_else);
    }
    match outer {
        1 => { let in_arm = 5; println(in_arm); }
        _ => {}
    }
    type LocalT = { v: int };
    let lt: LocalT = new { v: 1 };
    println(«mut:unknown-name|outer¦inner¦loop_var¦caught¦clo_param¦in_then¦in_else¦in_arm¦own_param¦later», clo(1), helper(2), lt);
    let later = 6;
    println(later);
}

fn other() -> int {
    let v: «mut:unknown-name|int¦LocalT» = 1;
    «tail:int|v»
}
`},
	{Name: "local_dups", Construct: "duplicates", Main: `
$Single = { v: int };

fn main() {
    «dup:type|type Local = { a: int };»
    let l: Local = new { a: 1 };
    let s = «ty:str|fmt(«mut:arity|"{} {}", 1, l¦»)»;
    let o = «ty:{a:int,b:{c:int,d:str}}|new { a: 1, b: new { «dup:field|c: 2», d: "x" } }»;
    type Nested = { p: { «dup:tfield|q: int», r: str } };
    let n: Nested = new { p: new { q: 1, r: "r" } };
    let f = fn(«dup:param|x: int», y: int) -> int { x + y };
    println(s, o, n, f(1, 2), $Single.v);
}

fn uses(«dup:param|s: $Single», n: int) -> int {
    «tail:int|«opd:int|s.v» + «opd:int|n»»
}
`},
	{Name: "fn_assign", Construct: "fn-assignment", Tags: []string{TagFnAssign}, Main: `
fn one() -> int { 1 }
fn two() -> int { 2 }

fn main() {
    let f = fn() -> int { 1 };
    f = «asg:fn()->int|fn() -> int { 2 }»;
    let g = one;
    g = «asg:fn()->int|two»;
    let o = new { cb: one };
    o.cb = «asg:fn()->int|two»;
    let fs = [one];
    fs[0] = «asg:fn()->int|two»;
    println(f(), g(), o.cb(), fs[0]());
}
`},
	{Name: "event_fns", Construct: "event-functions", Main: `
import trigger minute from triggers;

event fn tick(elapsed: int) {
    println(«opd:int|elapsed» + «opd:int|1»);
}

#[allow_unused]
fn unused_helper() -> int { 1 }

«mut?:annotation|#[allow_unused]¦#[no_such_annotation]»
fn another() {}

pub fn public_api(n: int) -> int {
    «tail:int|n»
}

fn main() {
    trigger tick at minute(«arg:int|1»);
}
`},
}
