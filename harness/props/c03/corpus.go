package c03

import "hv/fw"

func corpusCases() []fw.Case { return nil }
