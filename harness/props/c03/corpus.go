package c03

import (
	"sort"
	"strings"

	"hv/fw"
	"hv/util"
)

// corpusAccepted lists the shipped programs that the analyzer accepts on the unchanged tree
// (with mainShallExist=true and their sibling files available as modules). They are used as
// extra accept cases only: a later change that makes one of them fail is reported.
var corpusAccepted = map[string]bool{
	"examples/apery.hms":                            true,
	"examples/binary.hms":                           true,
	"examples/box.hms":                              true,
	"examples/dates.hms":                            true,
	"examples/dev.hms":                              true,
	"examples/e.hms":                                true,
	"examples/fib_lib.hms":                          true,
	"examples/fibonacci.hms":                        true,
	"examples/fizzbuzz.hms":                         true,
	"examples/iterators.hms":                        true,
	"examples/linear_gradient.hms":                  true,
	"examples/linear_gradient_2d.hms":               true,
	"examples/lists.hms":                            true,
	"examples/matrix.hms":                           true,
	"examples/objects.hms":                          true,
	"examples/pi.hms":                               true,
	"examples/pow.hms":                              true,
	"examples/primes.hms":                           true,
	"examples/sig_term.hms":                         true,
	"examples/singleton1.hms":                       true,
	"tests/a.hms":                                   true,
	"tests/annotations.hms":                         true,
	"tests/any_casts.hms":                           true,
	"tests/anyobj.hms":                              true,
	"tests/builtin_members.hms":                     true,
	"tests/casts.hms":                               true,
	"tests/export.hms":                              true,
	"tests/function.hms":                            true,
	"tests/global.hms":                              true,
	"tests/imports_from_a.hms":                      true,
	"tests/ints.hms":                                true,
	"tests/iter.hms":                                true,
	"tests/loop.hms":                                true,
	"tests/match.hms":                               true,
	"tests/match2.hms":                              true,
	"tests/member.hms":                              true,
	"tests/normal_casts.hms":                        true,
	"tests/regression_anyobj_cast.hms":              true,
	"tests/regression_arguments.hms":                true,
	"tests/regression_first_class_fn.hms":           true,
	"tests/regression_foreign_globals.hms":          true,
	"tests/regression_foreign_globals_callee.hms":   true,
	"tests/regression_foreign_globals_provider.hms": true,
	"tests/regression_iterators.hms":                true,
	"tests/regression_push_clone.hms":               true,
	"tests/regression_range_type.hms":               true,
	"tests/regression_return.hms":                   true,
	"tests/regression_scoping.hms":                  true,
	"tests/statements.hms":                          true,
	"tests/string_conversion.hms":                   true,
	"tests/try.hms":                                 true,
	"tests/types.hms":                               true,
}

// corpusSources builds the source set of one corpus file: the file itself as entry module "main",
// its siblings under their base names.
func corpusSources(corpus map[string]string, name string) map[string]string {
	dir := name[:strings.Index(name, "/")+1]
	mods := map[string]string{"main": corpus[name]}
	for k, v := range corpus {
		if k != name && strings.HasPrefix(k, dir) {
			if base := strings.TrimSuffix(k[len(dir):], ".hms"); base != "main" {
				mods[base] = v
			}
		}
	}
	return mods
}

func corpusCases() []fw.Case {
	corpus := util.Corpus()
	names := make([]string, 0, len(corpus))
	for k := range corpus {
		names = append(names, k)
	}
	sort.Strings(names)
	var out []fw.Case
	for _, n := range names {
		if !corpusAccepted[n] {
			continue
		}
		// marker characters do not occur in the shipped programs
		if strings.ContainsAny(corpus[n], "«»¦") {
			continue
		}
		p := Payload{Name: n, Group: "corpus", Mods: corpusSources(corpus, n), Main: true, Construct: "corpus", NoMutants: true, NoTypes: true}
		out = append(out, fw.MkCase("c03-corpus-"+n, "corpus", p))
	}
	return out
}
