package c03

import (
	"fmt"
	"sort"

	"hv/fw"
	"hv/mutate"
)

// baseCases turns one hand-written base into cases: the main case (mutants without tags, type
// expectations), one case per region tag (only the mutants carrying it) and an accept-only case
// with the other mainShallExist value. A base with program-level tags is one case carrying them.
func baseCases(b Base) []fw.Case {
	mods := map[string]string{"main": b.Main}
	for k, v := range b.Mods {
		mods[k] = v
	}
	parsed, err := mutate.Parse(mods)
	if err != nil {
		panic(fmt.Sprintf("c03: base %s: %v", b.Name, err))
	}
	p := Payload{Name: b.Name, Group: "hand", Mods: mods, Main: !b.NoMain, Construct: b.Construct}
	out := splitCases("c03-hand-"+b.Name, "hand", p, b.Tags, parsed)
	if !b.NoMain {
		// a well-typed program with a main function is accepted whether or not the host requires one
		pa := p
		pa.Main = false
		pa.NoMutants = true
		pa.NoTypes = true
		out = append(out, fw.MkCase("c03-hand-"+b.Name+"-mainfree", "hand", pa, b.Tags...))
	} else {
		// without a main function the program is ill-formed as soon as the host requires one
		pr := p
		pr.Main = true
		pr.ExpectReject = true
		pr.Rule = "main"
		pr.NoTypes = true
		out = append(out, fw.MkCase("c03-hand-"+b.Name+"-mainrequired", "hand", pr, b.Tags...))
	}
	return out
}

// splitCases makes the main case of a program (mutants whose site carries no tag, type
// expectations) and one case per site tag (only the mutants carrying it). Every case carries the
// program-level tags; a tag case additionally carries its site tag, so that a failure can only be
// matched to the known finding that poisons exactly this construct.
func splitCases(id, kind string, p Payload, progTags []string, parsed mutate.Parsed) []fw.Case {
	var out []fw.Case
	pm := p
	pm.SkipTags = true
	out = append(out, fw.MkCase(id, kind, pm, progTags...))
	tagSet := map[string]bool{}
	for _, s := range parsed.Sites {
		for _, t := range s.Tags {
			tagSet[t] = true
		}
	}
	tags := make([]string, 0, len(tagSet))
	for t := range tagSet {
		tags = append(tags, t)
	}
	sort.Strings(tags)
	for _, t := range tags {
		pt := p
		pt.Only = t
		pt.NoTypes = true
		ct := append(append([]string{}, progTags...), t)
		out = append(out, fw.MkCase(id+"-tag-"+t, kind, pt, ct...))
	}
	return out
}

func (c03) Cases(tier string, seed uint64) []fw.Case {
	var cases []fw.Case
	for _, b := range Bases {
		cases = append(cases, baseCases(b)...)
	}
	cases = append(cases, genCases(tier, seed)...)
	cases = append(cases, flowCases(tier, seed)...)
	cases = append(cases, ginitCases(tier, seed)...)
	cases = append(cases, memCases(tier, seed)...)
	cases = append(cases, scopeCases(tier, seed)...)
	cases = append(cases, importCases(tier, seed)...)
	cases = append(cases, corpusCases()...)
	return cases
}
