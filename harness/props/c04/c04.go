// Package c04 checks property C04: the tree-walking interpreter and the VM agree.
package c04

import (
	"fmt"
	"strings"

	"hv/drive"
	"hv/fw"
	"hv/prog"
	"hv/props/c01"
	"hv/util"
)

type c04 struct{}

func init() { fw.Register(c04{}) }

func (c04) ID() string { return "C04" }

func (c04) Info(tier string) fw.Info {
	return fw.Info{
		Level: "translation_validation",
		Rule: "the generated-program stream of C01 restricted to the shared language fragment (no spawn, triggers, templates) plus the shipped tests/*.hms and examples/*.hms; every program is run by the tree-walking interpreter and compiled+run on the VM with identical hosts; " +
			"effects (text written) and outcome class/kind (+ message for uncaught throws) are compared pairwise; the reference model only labels which side is wrong. non-trivial = accepted, both backends ran, at least 3 trace lines; distinct = distinct source text",
		Assumptions: []string{
			"fragment boundary: spawn, trigger statements, `->`/`~>` member access and templates are not implemented by the interpreter by design and are excluded",
			"VM fatal messages carry a stack trace after the first line which is stripped before comparison",
		},
		CaseTimeoutS: 60,
		BatchSize:    150,
	}
}

func (c04) Cases(tier string, seed uint64) []fw.Case {
	n := 3000
	if tier == "thorough" {
		n = 60000
	}
	r := fw.NewRng(seed ^ 0xC04)
	var cases []fw.Case
	for i := 0; i < n; i++ {
		pl := c01.Payload{Seed: r.Next(), Size: 6 + r.Intn(14), Preset: "shared"}
		pr, _ := c01.Build(pl)
		cases = append(cases, fw.MkCase(fmt.Sprintf("c04-gen-%d", i), "gen", pl, prog.Hazards(pr)...))
	}
	names := []string{}
	corpus := util.Corpus()
	for _, k := range drive.SortedKeys(corpus) {
		names = append(names, k)
	}
	for _, k := range names {
		// fragment boundary: the interpreter does not implement these by design
		outside := false
		for _, tok := range []string{"->", "~>", "spawn ", "trigger ", "#[", "impl ", "templ ", "$"} {
			if strings.Contains(stripArrowReturn(corpus[k]), tok) {
				outside = true
			}
		}
		// (and a program that prints the wall clock may differ between two runs whatever runs it)
		if outside || strings.Contains(corpus[k], "time.sleep") || strings.Contains(corpus[k], "time.now") {
			continue
		}
		src := map[string]string{"main": corpus[k]}
		// imported user modules are resolved from the same corpus directory
		for _, k2 := range names {
			if strings.HasPrefix(k2, strings.SplitN(k, "/", 2)[0]+"/") {
				src[strings.TrimSuffix(strings.SplitN(k2, "/", 2)[1], ".hms")] = corpus[k2]
			}
		}
		cases = append(cases, fw.MkCase("c04-corpus-"+k, "corpus", c01.Payload{Source: src}, "corpus:"+k))
	}
	return cases
}

// Compare runs both backends.
func Compare(src map[string]string, entry string, treeBudget int64) (why, sig string, nontrivial bool, rejected string) {
	ao := drive.Analyze(src, entry, true)
	if ao.Errors > 0 {
		return "", "", false, ao.ErrorSummary()
	}
	// fragment check: the interpreter panics by design on statements it does not implement
	tr := drive.RunTree(ao.Modules, src, entry, drive.TreeOpts{StepBudget: treeBudget})
	ao2 := drive.Analyze(src, entry, true) // fresh analysis for the VM (nothing shared)
	vm := drive.RunVM(ao2.Modules, src, entry, drive.VMOpts{})
	// the property compares the output (text written); singleton loads are host calls of the VM only
	te, ve := tr.Log.Output(), vm.Log.Output()
	// singleton loads are host effects only the VM produces through LoadSingleton at init
	nontrivial = strings.Count(ve, "\n") >= 3
	if tr.Outcome.Class == "go-panic" {
		return fmt.Sprintf("the interpreter panicked (%s); VM outcome %s", util.Clip(tr.Outcome.Message, 300), vm.Outcome), "tree:go-panic:" + util.NormPanic(tr.Outcome.Message), nontrivial, ""
	}
	to, vo := tr.Outcome, vm.Outcome
	if to.Class == "step-budget" {
		return "the interpreter exceeded its step budget (the VM finished: " + vo.String() + ")", "tree:step-budget", nontrivial, ""
	}
	if to.Class != vo.Class || to.Kind != vo.Kind {
		return fmt.Sprintf("outcomes differ: tree %s, vm %s\n--- tree\n%s\n--- vm\n%s", to, vo, util.Clip(te, 1500), util.Clip(ve, 1500)), "outcome:" + to.Class + "/" + to.Kind + "-vs-" + vo.Class + "/" + vo.Kind, nontrivial, ""
	}
	if te != ve {
		return fmt.Sprintf("outputs differ at byte %d:\n--- tree\n%s\n--- vm\n%s", diffAt(te, ve), util.Clip(te, 1500), util.Clip(ve, 1500)), "effects", nontrivial, ""
	}
	if to.Class == "fatal" && to.Kind == "UncaughtThrow" && to.Message != vo.Message {
		return fmt.Sprintf("uncaught throw messages differ: tree %q, vm %q", to.Message, vo.Message), "outcome:throw-message", nontrivial, ""
	}
	return "", "", nontrivial, ""
}

// stripArrowReturn removes the `->` of function return types so that only member arrows remain.
func stripArrowReturn(src string) string {
	return strings.ReplaceAll(src, ") ->", ")")
}

func diffAt(a, b string) int {
	n := len(a)
	if len(b) < n {
		n = len(b)
	}
	for i := 0; i < n; i++ {
		if a[i] != b[i] {
			return i
		}
	}
	return n
}

func (c04) Run(c fw.Case) fw.Result {
	var p c01.Payload
	fw.Decode(c, &p)
	src := p.Source
	res := fw.Result{Verdict: fw.Held}
	var pr *prog.Program
	var treeBudget int64
	if src == nil {
		var cover map[string]bool
		pr, cover = c01.Build(p)
		m := prog.Run(pr, nil, 0)
		if m.Discard {
			// the model ran out of its step or memory budget: not a program worth comparing
			res.Cover = append(res.Cover, "model-discarded")
			return res
		}
		// non-termination of the interpreter is decided by steps: 50x what the model needed
		treeBudget = int64(m.Steps)*50 + 100000
		src = pr.Source()
		for k := range cover {
			res.Cover = append(res.Cover, k)
		}
	}
	res.Hash = fw.HashOf(src)
	why, sig, nontrivial, rejected := Compare(src, "main", treeBudget)
	if rejected != "" {
		if pr != nil {
			res.Verdict, res.Sig, res.Why = fw.Violated, "generator-program-rejected", "the analyzer rejects a generator program: "+rejected
			res.Detail = src
		} else {
			res.Cover = append(res.Cover, "corpus-rejected")
		}
		return res
	}
	res.Nontrivial = nontrivial
	res.Obs = map[string]int64{"programs": 1}
	if why != "" {
		res.Verdict, res.Why, res.Sig = fw.Violated, why, sig
		detail := map[string]any{"source": src}
		if pr != nil {
			m := prog.Run(pr, nil, 0)
			if !m.Discard {
				detail["model_effects"] = util.Clip(m.Effects, 1500)
				detail["model_outcome"] = m.Class + "/" + m.Kind
			}
		}
		res.Detail = detail
		res.Obs["disagreements"] = 1
	}
	if p.Seed%97 == 0 {
		res.Sample = map[string]any{"source": util.Clip(src["main"], 600)}
	}
	return res
}

func (c04) OnCrash(c fw.Case, cr fw.Crash) fw.Result {
	if cr.Kind == "watchdog" || cr.Kind == "killed" {
		return fw.Result{Verdict: fw.Inconclusive, Why: cr.Kind + ": " + cr.Message}
	}
	return fw.Result{Verdict: fw.Violated, Nontrivial: true,
		Sig: fmt.Sprintf("crash:%s:%s:%s", cr.Kind, util.NormPanic(cr.Message), cr.TopFrame),
		Why: fmt.Sprintf("worker died (%s: %s) at %s", cr.Kind, util.Clip(cr.Message, 300), cr.TopFrame)}
}

// Finalize adds the translation-validation keys.
func (c04) Finalize(tier string, results []fw.Result, coverage map[string]any) string {
	var programs, dis int64
	for _, r := range results {
		programs += r.Obs["programs"]
		dis += r.Obs["disagreements"]
	}
	coverage["programs"] = programs
	coverage["disagreements_checked"] = dis
	return ""
}
