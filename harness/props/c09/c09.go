// Package c09 checks property C09: configured resource limits are enforced as interrupts.
//
// Oracle (arithmetic on measured demands, no reference model needed): every program is first run
// with very large limits while the step hook records its demands F (call frames), S (operand stack
// entries) and M (memory pointer). Under a limit triple L the run must complete with the same
// output if F<=Lc, S<=Ls and M<Lm, and must end in the corresponding fatal interrupt if a demand
// exceeds its limit by more than the overshoot bound (what one 50-instruction cycle can add);
// in between both are accepted. A crash of the host is never accepted. The leak oracle runs a
// loop body k and 4k times under small limits: both complete, nothing is left behind and the
// high-water marks do not grow with the iteration count; and a body whose first dozen iterations
// stay within the limits is not stopped at all (its depth does not depend on the iteration count).
// placement.go holds the bodies which go through the host (trigger statements, builtin imports,
// template methods) and the placements of bodies (called function, nested loop, blocks).
//
// Naming dimension: limits count things, whatever they are called. The limit families are re-run
// with long function names and long module names (entry module / imported module): the verdicts
// must be the same as with short names, in particular the fatal interrupt must still be delivered
// (a back end renders the names of the functions on the call stack when it reports one).
//
// families.go holds the recursion shapes (what the recursion cycle is made of) and the generated
// iteration bodies which leave an unfinished expression (operand context x exit kind x shape x loop).
package c09

import (
	"fmt"
	"sort"
	"strings"

	"github.com/smarthome-go/homescript/v3/homescript/runtime"

	"hv/drive"
	"hv/fw"
	"hv/util"
)

type c09 struct{}

func init() { fw.Register(c09{}) }

func (c09) ID() string { return "C09" }

const overshoot = 50

func (c09) Info(tier string) fw.Info {
	return fw.Info{
		Level: "exploration",
		Rule: "parametric families rec(d) (call depth), nest(n) (operand nesting: right-nested sums, list literals, call arguments), locals(l,d) (locals per frame x depth) with parameters below/at/just above/far above each limit, x limit triples from {4,16,64,500}^3 on the VM and call limits {4,64,1000} on the interpreter; " +
			"recursion shapes (mutual, call in argument position, under try, through a function literal; interpreter only: cycles made of capturing function literals reaching themselves through a list / an object / each other / a named function / with a builtin on every level) around each call limit; " +
			"naming dimension: the limit families (recursion shapes, nest-sum/-args/-list held in a function, locals) with function names of 12/18/40/150 characters and the callables in the entry module main, in an entry module with a 30-character name or in an imported module with a 30/120-character name, just within and far above the limit the family works against, on both back ends (quick: a seed-rotated third of family x naming x limit value); " +
			"plus iter(k, body) for ~45 loop bodies and for generated bodies {~40 operand contexts: right operands, compound and place assignments, index, list/object literal elements, range end, arguments of named functions, function values, host-provided globals and member functions, try/match/if/loop in operand position} x {continue, break, return, throw} x {shape of the leaving expression} x {kind of loop left} (thorough: complete product, quick: two seed-rotated shape/loop combinations per context x exit), for ~19 bodies which go through the host on every iteration {trigger statements with 0-3 arguments of type int/str/float/bool/list, the connectives at/on/in, computed / call / block arguments; null and value functions, a throwing function, a value and an object method imported from builtin modules; template methods implemented for a singleton; singleton field access} and for placements of the host bodies and the hand-written bodies {in a function called in statement position / as operand / twice as arguments / inside try, in a function literal, in a recursive function, in an inner for / while, in try / catch / if / else / match-arm blocks, in a block in operand position} (thorough: complete product, quick: host bodies x every second placement, hand-written bodies x two seed-rotated placements; VM, and the interpreter where its host offers the import), run k and 4k times under small limits (leak oracle: residue 0 and equal high-water marks; bounded-loop oracle: when 12 iterations of a body stay within the limits, k iterations are not stopped). Demands are measured with the step hook under huge limits; non-trivial = a limit was actually decisive (demand within overshoot of a limit, or exceeded) or a leak comparison was made; distinct = (program, limits)",
		Assumptions: []string{
			"overshoot bound = 50 entries: the limits are checked once per 50-instruction cycle",
			"host memory exhaustion through data growth (huge lists/strings) is not a configured limit and not covered",
		},
		CaseTimeoutS: 120,
		BatchSize:    60,
	}
}

// Payload of a limits case.
type Payload struct {
	Family string `json:"family"` // rec | nest-sum | nest-list | nest-args | locals | iter
	A      int    `json:"a"`      // main parameter (depth / nesting / iterations k)
	B      int    `json:"b,omitempty"`
	Body   string `json:"body,omitempty"` // iter: body name
	Lc     uint   `json:"lc"`
	Ls     uint   `json:"ls"`
	Lm     uint   `json:"lm"`
	Tree   uint   `json:"tree,omitempty"` // interpreter call limit (0 = VM case)
	// naming dimension (families.go): length of the function names (0 = the short originals),
	// placement of the callables ("" | "entry" | "import") and length of that module's name
	NameLen int    `json:"nl,omitempty"`
	Mod     string `json:"mod,omitempty"`
	ModLen  int    `json:"ml,omitempty"`
}

// named: the case belongs to the naming dimension; the nest families then hold their expression
// in a function of their own (so that there is a name to vary and a function to place).
func (p Payload) named() bool { return p.NameLen > 0 || p.Mod != modMain }

type body struct {
	name  string
	decl  string // top-level declarations
	pre   string // statements before the loop
	loop  string // loop statements executed per iteration; may use `i`
	tags  []string
	throw bool
	// vmOnly: the body uses what only the VM's host offers (placement.go)
	vmOnly bool
}

var bodies = []body{
	{name: "arith", loop: "acc = acc + i * 2 - 1;"},
	{name: "call", decl: "fn id(x: int) -> int { x }", loop: "acc += id(i);"},
	{name: "call-null", decl: "fn nop(x: int) { let y = x; }", loop: "nop(i);"},
	{name: "call-3args", decl: "fn add3(a: int, b: int, c: int) -> int { a + b + c }", loop: "acc += add3(i, 1, 2);"},
	{name: "recursion-small", decl: "fn r(n: int) -> int { if n <= 0 { 0 } else { 1 + r(n - 1) } }", loop: "acc += r(3);"},
	{name: "try-no-throw", loop: "try { acc += 1; } catch e { acc -= 1; }"},
	{name: "try-throw", loop: "try { throw(\"x\"); } catch e { acc += 1; }", throw: true},
	{name: "try-value", loop: "acc += try { 1 } catch e { 2 };"},
	{name: "try-value-throw", loop: "acc += try { throw(1); 1 } catch e { 2 };", throw: true},
	{name: "throw-across-call", decl: "fn t(x: int) { throw(x); }", loop: "try { t(i); } catch e { acc += 1; }", throw: true},
	{name: "throw-across-2-calls", decl: "fn t(x: int) { throw(x); }\nfn u(x: int) -> int { t(x); 1 }", loop: "try { acc += u(i); } catch e { acc += 1; }", throw: true},
	{name: "builtin-arg-throws", decl: "fn t(x: int) -> int { throw(x); 1 }", loop: "try { println(t(i)); } catch e { acc += 1; }", throw: true},
	{name: "member-arg-throws", decl: "fn t(x: int) -> int { throw(x); 1 }", pre: "let sink = [0];", loop: "try { sink.push(t(i)); } catch e { acc += 1; }", throw: true},
	{name: "builtin-throw", loop: "let o: ?int = none; try { acc += o.unwrap(); } catch e { acc += 1; }", throw: true},
	{name: "match-hit", loop: "acc += match i % 3 { 0 => 1, 1 => 2, 2 => 3, _ => 4 };"},
	{name: "match-default", loop: "acc += match i { -1 => 1, _ => 2 };"},
	{name: "match-stmt-no-default", loop: "match i { -1 => { acc += 1; }, -2 => { acc += 2; } }"},
	{name: "match-stmt-hit", loop: "match i % 2 { 0 => { acc += 1; }, 1 => { acc += 2; } }"},
	{name: "if-expr", loop: "acc += if i % 2 == 0 { 1 } else { 2 };"},
	{name: "if-stmt", loop: "if i % 2 == 0 { acc += 1; }"},
	{name: "block-expr", loop: "acc += { let t = i; t + 1 };"},
	{name: "nested-for-break", loop: "for j in 0..5 { if j == 2 { break; } acc += j; }"},
	{name: "nested-for-continue", loop: "for j in 0..5 { if j == 2 { continue; } acc += j; }"},
	{name: "nested-while-break", loop: "let j = 0; while true { j += 1; if j > 3 { break; } }"},
	{name: "nested-loop-break", loop: "let j = 0; loop { j += 1; if j > 3 { break; } }"},
	{name: "for-list", loop: "for x in [1, 2, 3] { acc += x; }"},
	{name: "list-ops", loop: "let l = [i, i + 1]; l.push(3); acc += l.len() + l[0];"},
	{name: "list-index-assign", pre: "let keep = [0, 0];", loop: "keep[0] = i; keep[1] += 1;"},
	{name: "object-ops", loop: "let o = new { a: i, b: \"x\" }; o.a += 1; acc += o.a;"},
	{name: "closure-call", loop: "let f = fn(x: int) -> int { x + 1 }; acc += f(i);"},
	{name: "member-call", loop: "acc += i.to_string().len();"},
	{name: "string-ops", loop: "let s = \"a\" + i.to_string(); acc += s.len();"},
	{name: "option", loop: "let o = ?i; acc += o.unwrap_or(0);"},
	{name: "cast", loop: "acc += (i as float) as int;"},
	{name: "range", loop: "for j in 0..=2 { acc += j; }"},
	{name: "return-from-loop-in-fn", decl: "fn find(n: int) -> int { for j in 0..10 { if j == n { return j; } } -1 }", loop: "acc += find(i % 4);"},
	{name: "return-from-try-in-fn", decl: "fn g(n: int) -> int { try { return n; } catch e { return 0; } }", loop: "acc += g(i);"},
	{name: "break-from-try", loop: "loop { try { break; } catch e { acc += 100; } }"},
	{name: "continue-from-try", loop: "for j in 0..3 { try { continue; } catch e { acc += 100; } }"},
	{name: "short-circuit", loop: "if i > 0 && i % 2 == 0 || i == 7 { acc += 1; }"},
	{name: "expr-stmt-values", loop: "i + 1; \"s\"; [1, 2]; true;"},
	{name: "null-fn-result-unused", decl: "fn n0() { }", loop: "n0();"},
	{name: "println", loop: "if i == 1 { println(i); }"},
	{name: "global-rw", decl: "let g = 0;", loop: "g = g + 1; acc = g;"},
	// constructs that open findings make leak: tagged
	{name: "expr-ctx-continue", loop: "for j in 0..2 { acc += 1 + { if j == 0 { continue; } 2 }; }", tags: []string{"exit-from-expr-context"}},
	{name: "expr-ctx-break", loop: "for j in 0..2 { acc += 1 + { if j == 1 { break; } 2 }; }", tags: []string{"exit-from-expr-context"}},
	{name: "expr-ctx-return", decl: "fn er(x: int) -> int { 1 + { if x >= 0 { return 5; } 2 } }", loop: "acc += er(i);", tags: []string{"exit-from-expr-context"}},
	{name: "singleton-param", decl: "$S = int;\nfn sp(s: $S) -> int { s + 1 }", loop: "acc += sp();", tags: []string{"singleton-param"}},
}

func iterProgram(b body, k int) string {
	var sb strings.Builder
	if b.decl != "" {
		sb.WriteString(b.decl + "\n")
	}
	sb.WriteString("fn main() {\n    let acc = 0;\n")
	if b.pre != "" {
		sb.WriteString("    " + b.pre + "\n")
	}
	fmt.Fprintf(&sb, "    let i = 0;\n    while i < %d {\n        i += 1;\n        %s\n    }\n    println(acc);\n}\n", k, b.loop)
	return sb.String()
}

func familyProgram(p Payload) string {
	switch p.Family {
	case "nest-sum", "nest-list", "nest-args":
		if p.named() {
			q := p
			q.NameLen, q.Mod, q.ModLen = 0, modMain, 0
			flat := familyProgram(q)
			at := strings.Index(flat, "fn main() { ")
			stmts := strings.TrimSuffix(flat[at+len("fn main() { "):], " }\n")
			if p.Family == "nest-list" {
				stmts = strings.TrimSuffix(stmts, "println(1);") + "1"
			} else {
				stmts = strings.TrimSuffix(strings.TrimPrefix(stmts, "println("), ");")
			}
			return flat[:at] + "fn w() -> int { " + stmts + " }\nfn main() { println(w()); }\n"
		}
	}
	switch p.Family {
	case "nest-sum":
		return "fn main() { println(" + strings.Repeat("1 + (", p.A) + "1" + strings.Repeat(")", p.A) + "); }\n"
	case "nest-list":
		return "fn main() { let l = " + strings.Repeat("[", p.A) + "1" + strings.Repeat("]", p.A) + "; println(1); }\n"
	case "nest-args":
		// f(1, 2, …, A): all arguments are on the operand stack at once
		params, args := make([]string, p.A), make([]string, p.A)
		for i := range params {
			params[i] = fmt.Sprintf("p%d: int", i)
			args[i] = fmt.Sprint(i)
		}
		return "fn f(" + strings.Join(params, ", ") + ") -> int { p0 }\nfn main() { println(f(" + strings.Join(args, ", ") + ")); }\n"
	case "locals":
		var sb strings.Builder
		sb.WriteString("fn r(n: int) -> int {\n")
		for i := 0; i < p.B; i++ {
			fmt.Fprintf(&sb, "    let v%d = n + %d;\n", i, i)
		}
		sb.WriteString("    if n <= 0 { v0 } else { 1 + r(n - 1) }\n}\n")
		fmt.Fprintf(&sb, "fn main() { println(r(%d)); }\n", p.A)
		return sb.String()
	case "iter":
		if b, ok := baseBody(p.Body); ok {
			return iterProgram(b, p.A)
		}
		if b, ok := exitBody(p.Body); ok {
			return iterProgram(b, p.A)
		}
		if b, ok := placedBody(p.Body); ok {
			return iterProgram(b, p.A)
		}
	}
	if rf, ok := recFamilies[p.Family]; ok {
		return rf.program(p.A)
	}
	panic("c09: unknown family " + p.Family + "/" + p.Body)
}

// familySources applies the naming dimension to the family program: sources and entry module.
func familySources(p Payload) (drive.Sources, string) {
	src, entry, ok := applyNaming(familyProgram(p), p.NameLen, p.Mod, p.ModLen)
	if !ok {
		panic(fmt.Sprintf("c09: module placement %q not applicable to %s", p.Mod, p.Family))
	}
	return drive.Sources(src), entry
}

// renderSources: the program text for messages (all modules, entry last).
func renderSources(src drive.Sources, entry string) string {
	if len(src) == 1 {
		return src[entry]
	}
	var sb strings.Builder
	for _, m := range drive.SortedKeys(src) {
		if m != entry {
			sb.WriteString("// module " + m + "\n" + src[m])
		}
	}
	sb.WriteString("// module " + entry + "\n" + src[entry])
	return sb.String()
}

func (c09) Cases(tier string, seed uint64) []fw.Case {
	var cases []fw.Case
	n := 0
	add := func(p Payload, tags ...string) {
		cases = append(cases, fw.MkCase(fmt.Sprintf("c09-%d-%s-%s-%d-%d", n, p.Family, p.Body, p.A, p.B), "limits", p, tags...))
		n++
	}
	lims := []uint{4, 16, 64, 500}
	around := func(l uint) []int {
		return []int{int(l) / 2, int(l) - 3, int(l) - 1, int(l), int(l) + 1, int(l) + 3, int(l) + overshoot + 5, int(l) * 3}
	}
	thorough := tier == "thorough"
	for _, lc := range lims {
		for _, ls := range lims {
			for _, lm := range lims {
				if !thorough && (lc+ls+lm)%3 == 1 {
					continue // quick: two thirds of the triples
				}
				for _, d := range around(lc) {
					if d > 0 {
						add(Payload{Family: "rec", A: d, Lc: lc, Ls: ls, Lm: lm})
						add(Payload{Family: "rec-val", A: d, Lc: lc, Ls: ls, Lm: lm})
					}
				}
				for _, d := range around(ls) {
					if d > 0 && d <= 600 {
						add(Payload{Family: "nest-sum", A: d, Lc: lc, Ls: ls, Lm: lm})
						if d <= 200 {
							add(Payload{Family: "nest-args", A: d, Lc: lc, Ls: ls, Lm: lm})
						}
					}
				}
				for _, l := range []int{1, 3, 10} {
					for _, d := range []int{1, int(lm) / (l + 1) / 2, int(lm)/(l+1) - 1, int(lm)/(l+1) + 1, int(lm) / (l + 1) * 3} {
						if d > 0 && d < 400 {
							add(Payload{Family: "locals", A: d, B: l, Lc: lc, Ls: ls, Lm: lm})
						}
					}
				}
			}
		}
	}
	for _, lc := range []uint{4, 64, 1000} {
		for _, d := range []int{1, int(lc) / 2, int(lc) - 6, int(lc) + 6, int(lc) * 3} {
			if d > 0 {
				add(Payload{Family: "rec", A: d, Tree: lc})
				add(Payload{Family: "rec-val", A: d, Tree: lc})
			}
		}
	}
	// recursion shapes: the cycle goes through other kinds of callables. The VM sweep of these is
	// reduced to the call limit (operand stack and memory generous or medium); the oracle is the same.
	for _, fam := range recFamilyNames(true) {
		rf := recFamilies[fam]
		if !rf.treeOnly {
			for _, lc := range lims {
				for _, sm := range [][2]uint{{500, 500}, {64, 500}, {500, 64}} {
					if !thorough && sm[1] == 64 {
						continue
					}
					for _, d := range around(lc) {
						if d /= rf.perLevel; d > 0 {
							add(Payload{Family: fam, A: d, Lc: lc, Ls: sm[0], Lm: sm[1]})
						}
					}
				}
			}
		}
		for _, lc := range []uint{4, 64, 1000} {
			for _, d := range []int{1, int(lc) / 2, int(lc) - 6, int(lc) + 6, int(lc) * 3} {
				if d /= rf.perLevel; d > 0 {
					add(Payload{Family: fam, A: d, Tree: lc})
				}
			}
		}
	}
	// naming dimension: the same limit families with function names of several lengths, placed in
	// the entry module "main", in a long-named entry module or in a long-named imported module;
	// parameters just within and far above the limit the family works against. Quick runs a third
	// of (family x naming x limit value), rotated by the seed: every family meets every naming.
	type naming struct {
		nameLen int
		mod     string
		modLen  int
	}
	var namings []naming
	for _, nl := range []int{0, 12, 18, 40, 150} {
		for _, m := range []naming{{0, modMain, 0}, {0, modEntry, 30}, {0, modImport, 30}, {0, modImport, 120}} {
			if nl != 0 || m.mod != modMain {
				namings = append(namings, naming{nl, m.mod, m.modLen})
			}
		}
	}
	for fi, nf := range namingFamilies {
		perLevel := 1
		if rf, ok := recFamilies[nf.family]; ok {
			perLevel = rf.perLevel
		}
		for ni, nm := range namings {
			for li := 0; li < 3; li++ {
				if !thorough && (fi+ni+li+int(seed%3))%3 != 0 {
					continue
				}
				p := Payload{Family: nf.family, B: nf.locals, Lc: 500, Ls: 500, Lm: 500, NameLen: nm.nameLen, Mod: nm.mod, ModLen: nm.modLen}
				var ds []int
				switch nf.limit {
				case 'c':
					p.Lc = lims[li]
					ds = []int{(int(p.Lc) - 3) / perLevel, (int(p.Lc) + overshoot + 5) / perLevel}
				case 's':
					p.Ls = lims[li]
					ds = []int{int(p.Ls) - 3, int(p.Ls) + overshoot + 5}
				case 'm':
					p.Lm = lims[li+1]
					ds = []int{int(p.Lm) / (nf.locals + 1) / 2, int(p.Lm) / (nf.locals + 1) * 3}
				}
				for _, d := range ds {
					if d > 0 {
						p.A = d
						add(p)
					}
				}
			}
			// interpreter: the recursion shapes around two call limits
			if _, ok := recFamilies[nf.family]; !ok {
				continue
			}
			for li, lc := range []uint{4, 64} {
				if !thorough && (fi+ni+li+int(seed%3))%3 != 0 {
					continue
				}
				for _, d := range []int{(int(lc) - 6) / perLevel, (int(lc) + 6) / perLevel} {
					if d > 0 {
						add(Payload{Family: nf.family, A: d, Tree: lc, NameLen: nm.nameLen, Mod: nm.mod, ModLen: nm.modLen})
					}
				}
			}
		}
	}
	// leak oracle
	k := 2000
	if thorough {
		k = 100000
	}
	for _, b := range bodies {
		add(Payload{Family: "iter", Body: b.name, A: k, Lc: 16, Ls: 32, Lm: 64}, b.tags...)
		add(Payload{Family: "iter", Body: b.name, A: k / 10, Lc: 8, Ls: 16, Lm: 32, Tree: 32}, b.tags...)
	}
	// leaving an unfinished expression (operands pending) by continue / break / return / throw
	kx := 300
	if thorough {
		kx = 900
	}
	for _, name := range exitBodyNames(thorough, seed) {
		add(Payload{Family: "iter", Body: name, A: kx, Lc: 16, Ls: 32, Lm: 64}, "exit-from-expr-context")
		add(Payload{Family: "iter", Body: name, A: kx / 3, Lc: 8, Ls: 16, Lm: 32, Tree: 32}, "exit-from-expr-context")
	}
	// statements which go through the host (trigger registrations, builtin imports, template
	// methods), directly in the loop
	for _, b := range hostBodies {
		add(Payload{Family: "iter", Body: b.name, A: k, Lc: 16, Ls: 32, Lm: 64}, b.tags...)
		if !b.vmOnly {
			add(Payload{Family: "iter", Body: b.name, A: k / 10, Lc: 8, Ls: 16, Lm: 32, Tree: 32}, b.tags...)
		}
	}
	// placements: the statements of a body in a repeatedly called function / nested loop / block
	for _, name := range placedBodyNames(thorough, seed) {
		b, _ := placedBody(name)
		add(Payload{Family: "iter", Body: name, A: kx, Lc: 16, Ls: 32, Lm: 64}, b.tags...)
		if !b.vmOnly {
			add(Payload{Family: "iter", Body: name, A: kx / 3, Lc: 8, Ls: 16, Lm: 32, Tree: 32}, b.tags...)
		}
	}
	// scheduling only: the supervisor hands out batches in order, and the VM iteration cases are
	// the expensive ones (four to five runs each); they go first so that the run does not end with
	// a few workers grinding through batches of them.
	sort.SliceStable(cases, func(i, j int) bool { return heavy(cases[i]) && !heavy(cases[j]) })
	return cases
}

func heavy(c fw.Case) bool {
	var p Payload
	fw.Decode(c, &p)
	return p.Family == "iter" && p.Tree == 0
}

// probeIterations: iterations which show the demand of an iteration body (the bodies branch on
// i % 2, i % 3 and i % 4 at most).
const probeIterations = 12

// probeLimits: generous for a dozen iterations (a core allocates its whole memory when it is
// created, so the probe does not use the huge limits).
var probeLimits = runtime.CoreLimits{CallStackMaxSize: 1 << 12, StackMaxSize: 1 << 12, MaxMemorySize: 1 << 12}

var huge = runtime.CoreLimits{CallStackMaxSize: 1 << 20, StackMaxSize: 1 << 20, MaxMemorySize: 1 << 20}

func (c09) Run(c fw.Case) fw.Result {
	var p Payload
	fw.Decode(c, &p)
	src, entry := familySources(p)
	res := fw.Result{Verdict: fw.Held, Cover: []string{"family:" + p.Family}}
	if p.named() {
		res.Cover = append(res.Cover, fmt.Sprintf("naming:%s:name=%d,module=%s%d", p.Family, p.NameLen, p.Mod, p.ModLen))
	}
	ao := analyze(src, entry)
	if ao.Errors > 0 {
		res.Verdict, res.Sig, res.Why = fw.Violated, "harness:program-rejected", "family program rejected: "+ao.ErrorSummary()+"\n"+renderSources(src, entry)
		return res
	}
	fail := func(sig, why string) {
		why += "\n--- program (" + fmt.Sprintf("%+v", p) + ")\n" + util.Clip(renderSources(src, entry), 1200)
		if res.Verdict == fw.Violated {
			res.More = append(res.More, fw.SubViolation{Sig: sig, Why: why})
			return
		}
		res.Verdict, res.Sig, res.Why = fw.Violated, sig, why
	}
	if p.Tree != 0 {
		runTree(p, ao, src, entry, &res, fail)
		return res
	}
	prog, err := drive.Compile(ao.Modules, entry)
	if err != nil {
		fail("harness:compile", err.Error())
		return res
	}
	// demands under huge limits
	ref := drive.RunCompiled(prog, src, drive.VMOpts{Limits: huge, StepBudget: 200_000_000}, nil)
	if ref.Outcome.Class != "ok" {
		fail("reference-run:"+ref.Outcome.Class+"/"+ref.Outcome.Kind, "the program does not complete even under huge limits: "+ref.Outcome.String())
		return res
	}
	F, S, M := ref.MaxFrames, ref.MaxStack, ref.MaxMP
	lim := runtime.CoreLimits{CallStackMaxSize: p.Lc, StackMaxSize: p.Ls, MaxMemorySize: p.Lm}
	run := drive.RunCompiled(prog, src, drive.VMOpts{Limits: lim, StepBudget: 200_000_000}, nil)
	within := F <= int(p.Lc) && S <= int(p.Ls) && M < int64(p.Lm)
	farOver := F > int(p.Lc)+overshoot || S > int(p.Ls)+overshoot || M >= int64(p.Lm)
	res.Obs = map[string]int64{"F": int64(F), "S": int64(S), "M": M}
	decisive := farOver || F+overshoot >= int(p.Lc) || S+overshoot >= int(p.Ls) || M+overshoot >= int64(p.Lm)
	res.Nontrivial = decisive || p.Family == "iter"
	o := run.Outcome
	isLimit := o.Class == "fatal" && (o.Kind == "StackOverFlow" || o.Kind == "OutOfMemoryError")
	switch {
	case within && o.Class != "ok":
		fail("stopped-within-limits:"+o.Class+"/"+o.Kind, fmt.Sprintf("demands F=%d S=%d M=%d are within limits %+v but the run ended with %s", F, S, M, lim, o))
	case within && run.Log.Render() != ref.Log.Render():
		fail("output-differs-within-limits", "same program, limits not exceeded, different output")
	case farOver && !isLimit:
		fail("limit-not-enforced:"+o.Class+"/"+o.Kind, fmt.Sprintf("demands F=%d S=%d M=%d exceed limits %+v by more than the overshoot bound but the run ended with %s", F, S, M, lim, o))
	case !within && !farOver && o.Class != "ok" && !isLimit:
		fail("wrong-interrupt:"+o.Class+"/"+o.Kind, fmt.Sprintf("near the limits the run ended with %s", o))
	}
	if isLimit {
		// the right kind for the exceeded dimension (when only one dimension is exceeded)
		onlyMem := M >= int64(p.Lm) && F <= int(p.Lc) && S <= int(p.Ls)
		onlyStack := M < int64(p.Lm) && (F > int(p.Lc) || S > int(p.Ls))
		if onlyMem && o.Kind != "OutOfMemoryError" {
			fail("wrong-limit-kind:"+o.Kind, "only the memory limit is exceeded but the interrupt is "+o.String())
		}
		if onlyStack && o.Kind != "StackOverFlow" {
			fail("wrong-limit-kind:"+o.Kind, "only a stack limit is exceeded but the interrupt is "+o.String())
		}
	}
	if p.Family == "iter" {
		// bounded depth: the depth of a body does not depend on the iteration count, so what a
		// few iterations need is what any number of iterations may need. If that is within the
		// limits the loop must not be stopped, however long it runs.
		p0 := p
		p0.A = probeIterations
		src0, _ := familySources(p0)
		if prog0, err := drive.Compile(analyze(src0, entry).Modules, entry); err == nil && p.A > probeIterations {
			ref0 := drive.RunCompiled(prog0, src0, drive.VMOpts{Limits: probeLimits, StepBudget: 200_000_000}, nil)
			within0 := ref0.Outcome.Class == "ok" && ref0.MaxFrames <= int(p.Lc) && ref0.MaxStack <= int(p.Ls) && ref0.MaxMP < int64(p.Lm)
			if within0 && o.Class != "ok" {
				fail("bounded-loop-stopped:"+o.Class+"/"+o.Kind, fmt.Sprintf("%d iterations of the body need F=%d S=%d M=%d, within limits %+v, and the body's depth does not depend on the iteration count; %d iterations ended with %s (under huge limits they reach F=%d S=%d M=%d): frames, stack or memory are not returned from one iteration to the next",
					probeIterations, ref0.MaxFrames, ref0.MaxStack, ref0.MaxMP, lim, p.A, o, F, S, M))
			}
		}
		// leak oracle: 4k iterations under the same small limits
		p4 := p
		p4.A = p.A * 4
		src4, _ := familySources(p4)
		ao4 := analyze(src4, entry)
		prog4, _ := drive.Compile(ao4.Modules, entry)
		run4 := drive.RunCompiled(prog4, src4, drive.VMOpts{Limits: lim, StepBudget: 800_000_000}, nil)
		res.Cover = append(res.Cover, bodyCover("body:", p.Body)...)
		// demands must not grow with the iteration count (measured under huge limits)
		ref4 := drive.RunCompiled(prog4, src4, drive.VMOpts{Limits: huge, StepBudget: 800_000_000}, nil)
		if ref4.Outcome.Class != "ok" {
			fail("leak:4k-reference-run:"+ref4.Outcome.Class+"/"+ref4.Outcome.Kind, "4k iterations do not complete under huge limits: "+ref4.Outcome.String())
		} else if ref4.MaxStack != ref.MaxStack || ref4.MaxMP != ref.MaxMP || ref4.MaxFrames != ref.MaxFrames {
			fail("leak:demand-grows-with-iterations", fmt.Sprintf("demands grow with the iteration count: k=%d -> stack %d mp %d frames %d; 4k -> stack %d mp %d frames %d", p.A, ref.MaxStack, ref.MaxMP, ref.MaxFrames, ref4.MaxStack, ref4.MaxMP, ref4.MaxFrames))
		}
		for _, r := range append(append([]drive.Residue{}, ref.Residues...), ref4.Residues...) {
			if r.Stack != 0 || r.CallStack != 0 || r.MP != 0 || r.Handlers != 0 {
				fail("leak:residue", fmt.Sprintf("residue after completion: %+v", r))
				break
			}
		}
		if within {
			if run4.Outcome.Class != "ok" {
				fail("leak:4k-stopped:"+run4.Outcome.Class+"/"+run4.Outcome.Kind, fmt.Sprintf("k=%d iterations complete, 4k=%d end with %s", p.A, p4.A, run4.Outcome))
			} else if run4.MaxStack != run.MaxStack || run4.MaxMP != run.MaxMP || run4.MaxFrames != run.MaxFrames {
				fail("leak:high-water-grows", fmt.Sprintf("high-water marks grow with the iteration count: k=%d -> stack %d mp %d frames %d; 4k -> stack %d mp %d frames %d", p.A, run.MaxStack, run.MaxMP, run.MaxFrames, run4.MaxStack, run4.MaxMP, run4.MaxFrames))
			}
			for _, r := range append(append([]drive.Residue{}, run.Residues...), run4.Residues...) {
				if r.Stack != 0 || r.CallStack != 0 || r.MP != 0 || r.Handlers != 0 {
					fail("leak:residue", fmt.Sprintf("residue after completion: %+v", r))
					break
				}
			}
		}
	}
	if c.ID[len(c.ID)-1] == '7' {
		res.Sample = map[string]any{"payload": p, "F": F, "S": S, "M": M, "outcome": o.String()}
	}
	return res
}

func runTree(p Payload, ao drive.AnalyzeOut, src drive.Sources, entry string, res *fw.Result, fail func(string, string)) {
	tr := drive.RunTree(ao.Modules, src, entry, drive.TreeOpts{CallLimit: p.Tree, StepBudget: 400_000_000})
	o := tr.Outcome
	res.Nontrivial = true
	rf, isRec := recFamilies[p.Family]
	switch {
	case isRec:
		// r(d) needs 2 + perLevel*d nested user calls (main, r(0), perLevel calls per level);
		// builtins add at most one more level
		need := 2 + rf.perLevel*p.A
		res.Cover = append(res.Cover, "tree-family:"+p.Family)
		switch {
		case need+3 <= int(p.Tree) && o.Class != "ok":
			fail("tree:stopped-within-limits:"+o.Class+"/"+o.Kind, fmt.Sprintf("call depth %d is within the call limit %d but the run ended with %s", need, p.Tree, o))
		case need > int(p.Tree)+3 && !(o.Class == "fatal" && o.Kind == "StackOverFlow"):
			fail("tree:limit-not-enforced:"+o.Class+"/"+o.Kind, fmt.Sprintf("call depth %d exceeds the call limit %d but the run ended with %s", need, p.Tree, o))
		}
	case p.Family == "iter":
		res.Cover = append(res.Cover, bodyCover("tree-body:", p.Body)...)
		if o.Class != "ok" {
			fail("tree:leak:stopped:"+o.Class+"/"+o.Kind, fmt.Sprintf("%d iterations of a bounded-depth body under call limit %d ended with %s", p.A, p.Tree, o))
		}
	}
}

func (c09) OnCrash(c fw.Case, cr fw.Crash) fw.Result {
	var p Payload
	fw.Decode(c, &p)
	if cr.Kind == "watchdog" || cr.Kind == "killed" {
		return fw.Result{Verdict: fw.Inconclusive, Why: cr.Kind + ": " + cr.Message}
	}
	return fw.Result{Verdict: fw.Violated, Nontrivial: true,
		Sig: fmt.Sprintf("crash:%s:%s:%s", cr.Kind, util.NormPanic(cr.Message), cr.TopFrame),
		Why: fmt.Sprintf("the host process died (%s: %s) at %s for %+v\n%s", cr.Kind, util.Clip(cr.Message, 300), cr.TopFrame, p, util.Clip(renderSources(familySources(p)), 800))}
}

// bodyCover: coverage keys of an iteration body (the generated exit bodies are counted per coordinate).
func bodyCover(prefix, name string) []string {
	if strings.HasPrefix(name, "x:") {
		if f := strings.Split(name[2:], "/"); len(f) == 4 {
			return []string{prefix + "x:ctx:" + f[0], prefix + "x:exit:" + f[1] + "/" + f[2] + "/" + f[3]}
		}
	}
	if strings.HasPrefix(name, "p:") {
		if at := strings.Index(name, "/"); at > 0 {
			return []string{prefix + "p:placement:" + name[2:at], prefix + "p:body:" + name[at+1:]}
		}
	}
	return []string{prefix + name}
}
