package c09

import (
	"strings"

	"github.com/smarthome-go/homescript/v3/homescript/analyzer"
	"github.com/smarthome-go/homescript/v3/homescript/analyzer/ast"
	herrors "github.com/smarthome-go/homescript/v3/homescript/errors"
	pAst "github.com/smarthome-go/homescript/v3/homescript/parser/ast"

	"hv/drive"
)

// ---------------------------------------------------------------------------------------------
// Statements which go through the host
// ---------------------------------------------------------------------------------------------

// The iteration bodies of c09.go stay inside the language. The bodies below leave it on every
// iteration: trigger registrations (the only statement kind which is a host call), functions and
// values imported from builtin modules, methods of a host-specified template implemented for a
// singleton. Whatever the host hands back (a value or nothing) the iteration has to return its operands, frames and memory like any other.

// Triggers of the repository's testing host (`minute`: one int argument, connective `at`) and of
// an analyzer-side module of the harness with the other shapes: no / two / three arguments,
// arguments of type str, float, bool and list, the connectives `on` and `in`, callbacks with
// zero, one and two parameters. (Only the analyzer has to know a trigger: the VM hands every
// registration to the executor, which the harness' executor logs.)
const trigModule = "hvtriggers"

func extraImports() map[string]map[string]analyzer.BuiltinImport {
	sp := herrors.Span{}
	param := func(name string, t ast.Type) ast.FunctionTypeParam {
		return ast.NewFunctionTypeParam(pAst.NewSpannedIdent(name, sp), t, nil)
	}
	fnType := func(params ...ast.FunctionTypeParam) ast.FunctionType {
		if params == nil {
			params = []ast.FunctionTypeParam{}
		}
		return ast.NewFunctionType(ast.NewNormalFunctionTypeParamKind(params), sp, ast.NewNullType(sp), sp).(ast.FunctionType)
	}
	trig := func(conn pAst.TriggerDispatchKeywordKind, args, cb ast.FunctionType) analyzer.BuiltinImport {
		return analyzer.BuiltinImport{Trigger: &analyzer.TriggerFunction{TriggerFnType: args, CallbackFnType: cb, Connective: conn, ImportedAt: sp}}
	}
	return map[string]map[string]analyzer.BuiltinImport{
		trigModule: {
			"tick":    trig(pAst.OnTriggerDispatchKeyword, fnType(), fnType()),
			"between": trig(pAst.InTriggerDispatchKeyword, fnType(param("from", ast.NewIntType(sp)), param("to", ast.NewIntType(sp))), fnType(param("at", ast.NewIntType(sp)))),
			"named": trig(pAst.AtTriggerDispatchKeyword,
				fnType(param("name", ast.NewStringType(sp)), param("every", ast.NewFloatType(sp)), param("enabled", ast.NewBoolType(sp))),
				fnType(param("name", ast.NewStringType(sp)), param("n", ast.NewIntType(sp)))),
			"batch": trig(pAst.OnTriggerDispatchKeyword, fnType(param("ids", ast.NewListType(ast.NewIntType(sp), sp))), fnType()),
		},
	}
}

// analyze analyses a family program with the in-memory host plus the harness' trigger module.
func analyze(src drive.Sources, entry string) drive.AnalyzeOut {
	return drive.AnalyzeWith(&drive.Host{Src: src, ExtraImports: extraImports()}, src, entry, true)
}

const (
	declMinute = "import trigger minute from triggers;\nevent fn cb(elapsed: int) { }"
	declTpl    = "import templ FooFeature from templates;\n$Dev = { level: int };\n"
)

// hostBodies: one entry per way of going through the host. vmOnly: the interpreter's testing host
// offers neither triggers nor templates nor the net module.
var hostBodies = []body{
	// trigger statements: argument count, argument types, argument shapes, connectives
	{name: "h-trigger", decl: declMinute, loop: "trigger cb at minute(i);", vmOnly: true},
	{name: "h-trigger-expr-arg", decl: declMinute, loop: "trigger cb at minute(i * 2 + 1);", vmOnly: true},
	{name: "h-trigger-call-arg", decl: declMinute + "\nfn id(x: int) -> int { x }", loop: "trigger cb at minute(id(i));", vmOnly: true},
	{name: "h-trigger-block-arg", decl: declMinute, loop: "trigger cb at minute({ let t = i; t + 1 });", vmOnly: true},
	{name: "h-trigger-twice", decl: declMinute, loop: "trigger cb at minute(i); trigger cb at minute(i + 1);", vmOnly: true},
	{name: "h-trigger-0args", decl: "import trigger tick from " + trigModule + ";\nevent fn cb0() { }", loop: "trigger cb0 on tick();", vmOnly: true},
	{name: "h-trigger-2args", decl: "import trigger between from " + trigModule + ";\nevent fn cb(at: int) { }", loop: "trigger cb in between(i, i + 5);", vmOnly: true},
	{name: "h-trigger-3args-types", decl: "import trigger named from " + trigModule + ";\nevent fn cb2(name: str, n: int) { }", loop: "trigger cb2 at named(\"n\" + i.to_string(), 1.5, i % 2 == 0);", vmOnly: true},
	{name: "h-trigger-list-arg", decl: "import trigger batch from " + trigModule + ";\nevent fn cb0() { }", loop: "trigger cb0 on batch([i, i + 1]);", vmOnly: true},
	{name: "h-trigger-two-kinds", decl: "import trigger minute from triggers;\nimport trigger tick from " + trigModule + ";\nevent fn cb(elapsed: int) { }\nevent fn cb0() { }",
		loop: "if i % 2 == 0 { trigger cb at minute(i); } else { trigger cb0 on tick(); }", vmOnly: true},
	// functions and values imported from a builtin module
	{name: "h-import-fn-null", decl: "import { assert_eq } from testing;", loop: "assert_eq(i, i); acc += 1;"},
	{name: "h-import-fn-throws", decl: "import { assert_eq } from testing;", loop: "try { assert_eq(i, 0 - 1); } catch e { acc += 1; }", throw: true},
	{name: "h-import-fn-value", decl: "import { any_func } from testing;", loop: "acc += any_func() as int;"},
	{name: "h-import-fn-value-dropped", decl: "import { any_func } from testing;", loop: "any_func() as int; acc += 1;"},
	{name: "h-import-value", decl: "import { any_list } from testing;", loop: "acc += any_list.len();"},
	{name: "h-import-object-method", decl: "import { http } from net;", loop: "let r = http.get(\"u\"); acc += r.status_code;", vmOnly: true},
	// methods of a template implemented for a singleton (the host loads the singleton)
	{name: "h-template-method", decl: declTpl + "impl FooFeature with { light } for $Dev {\n    fn dim(self: $Dev, percent: int) -> bool { self.level = percent; true }\n}",
		loop: "if dim(i) { acc += 1; }", vmOnly: true},
	{name: "h-template-method-null", decl: declTpl + "impl FooFeature with { temperature } for $Dev {\n    fn set_temp(self: $Dev, celsius: float) { self.level = celsius as int; }\n}",
		loop: "set_temp(1.5); acc += 1;", vmOnly: true},
	{name: "h-singleton-field", decl: "$Cfg = { n: int };\nfn rd(c: $Cfg) -> int { c.n }\nfn wr(c: $Cfg, v: int) { c.n = v; }", loop: "wr(i); acc += rd();"},
	// (No `spawn` per iteration: a core allocates its whole memory (MaxMemorySize cells) when it is
	// created, so the reference runs under huge limits would need gigabytes for some hundred cores.
	// That is the price of the huge reference limits, not a matter of the property.)
}

// ---------------------------------------------------------------------------------------------
// Placements: where the statements of a body sit when they are executed again and again
// ---------------------------------------------------------------------------------------------

// The iteration program executes the statements of a body directly in its driver loop. A
// placement moves them: into a function which every iteration calls (in statement position, as
// an operand, twice as arguments of one call, through a function literal, recursively), into a
// nested loop, into the blocks of try / catch / if / else / match, into a block in operand
// position. The oracle is unchanged: nothing may be left behind per execution.
var placements = []string{
	"fn-stmt", "fn-operand", "fn-args", "fn-in-try", "lambda", "rec",
	"inner-for", "inner-while", "try", "catch", "if", "else", "match-arm", "block-operand",
}

func placedBodyName(placement, base string) string { return "p:" + placement + "/" + base }

// baseBody finds a hand-written or host body by name.
func baseBody(name string) (body, bool) {
	for _, b := range bodies {
		if b.name == name {
			return b, true
		}
	}
	for _, b := range hostBodies {
		if b.name == name {
			return b, true
		}
	}
	return body{}, false
}

// placedBody decodes "p:<placement>/<base body>" (worker side).
func placedBody(name string) (body, bool) {
	if !strings.HasPrefix(name, "p:") {
		return body{}, false
	}
	at := strings.Index(name, "/")
	if at < 0 {
		return body{}, false
	}
	b, ok := baseBody(name[at+1:])
	if !ok {
		return body{}, false
	}
	return place(b, name[2:at])
}

func place(b body, placement string) (body, bool) {
	out := b
	out.name = placedBodyName(placement, b.name)
	// the statements as the body of a function with parameter i: locals of its own
	fnBody := "let acc = 0; "
	if b.pre != "" {
		fnBody += b.pre + " "
	}
	fnBody += b.loop
	addDecl := func(d string) {
		if out.decl != "" {
			out.decl += "\n"
		}
		out.decl += d
	}
	switch placement {
	case "fn-stmt":
		addDecl("fn pl(i: int) { " + fnBody + " }")
		out.pre, out.loop = "", "pl(i); acc += 1;"
	case "fn-operand":
		addDecl("fn pl(i: int) -> int { " + fnBody + " acc }")
		out.pre, out.loop = "", "acc += 1 + pl(i);"
	case "fn-args":
		addDecl("fn pl(i: int) -> int { " + fnBody + " acc }\nfn padd(p: int, q: int) -> int { p + q }")
		out.pre, out.loop = "", "acc += padd(pl(i), pl(i + 1));"
	case "fn-in-try":
		addDecl("fn pl(i: int) -> int { " + fnBody + " acc }")
		out.pre, out.loop = "", "try { acc += pl(i); } catch pe { acc -= 1000; }"
	case "lambda":
		out.pre, out.loop = "let pf = fn(i: int) -> int { "+fnBody+" acc };", "acc += pf(i);"
	case "rec":
		addDecl("fn pr(i: int, n: int) -> int { " + fnBody + " if n <= 0 { acc } else { acc + pr(i, n - 1) } }")
		out.pre, out.loop = "", "acc += pr(i, 2);"
	case "inner-for":
		out.loop = "for pq in 0..3 { " + b.loop + " }"
	case "inner-while":
		out.loop = "let pq = 0; while pq < 3 { pq += 1; " + b.loop + " }"
	case "try":
		out.loop = "try { " + b.loop + " } catch pe { acc -= 1000; }"
	case "catch":
		out.loop = "try { throw(\"p\"); } catch pe { " + b.loop + " }"
		out.throw = true
	case "if":
		out.loop = "if i >= 0 { " + b.loop + " }"
	case "else":
		out.loop = "if i < 0 { acc -= 1; } else { " + b.loop + " }"
	case "match-arm":
		out.loop = "match i % 2 { 0 => { " + b.loop + " }, _ => { " + b.loop + " } }"
	case "block-operand":
		out.loop = "let pt = 1 + { " + b.loop + " 2 }; acc += pt;"
	default:
		return body{}, false
	}
	return out, true
}

// placedBodyNames lists the placed bodies of a tier. Thorough: the complete product. Quick: the
// host bodies in every second placement (alternating from body to body and with the seed, so that
// two seeds cover the product), the hand-written bodies in two seed-rotated placements.
func placedBodyNames(thorough bool, seed uint64) []string {
	var names []string
	for bi, b := range hostBodies {
		for pi, pl := range placements {
			if thorough || (bi+pi+int(seed%2))%2 == 0 {
				names = append(names, placedBodyName(pl, b.name))
			}
		}
	}
	for bi, b := range bodies {
		if thorough {
			for _, pl := range placements {
				names = append(names, placedBodyName(pl, b.name))
			}
			continue
		}
		r := int(seed%1000) + bi*5
		names = append(names, placedBodyName(placements[r%len(placements)], b.name))
		names = append(names, placedBodyName(placements[(r+len(placements)/2)%len(placements)], b.name))
	}
	return names
}
