package c09

import (
	"fmt"
	"regexp"
	"sort"
	"strings"
)

// ---------------------------------------------------------------------------------------------
// Recursion shapes: what the recursion cycle is made of
// ---------------------------------------------------------------------------------------------

// A recFamily is a program r(d) whose recursion of depth d goes through a particular kind of
// callable. The call depth limit counts activations, whatever they are activations of.
type recFamily struct {
	program  func(d int) string
	perLevel int  // nested calls per recursion level: the program needs 2 + perLevel*d nested calls
	treeOnly bool // the function literals capture variables: only the interpreter implements that (KF-vm-closure-capture)
}

const recBody = "if n <= 0 { 0 } else { 1 + %s(n - 1) }"

var recFamilies = map[string]recFamily{
	// a named function calling itself
	"rec": {perLevel: 1, program: func(d int) string {
		return fmt.Sprintf("fn r(n: int) -> int { "+recBody+" }\nfn main() { println(r(%d)); }\n", "r", d)
	}},
	// every call goes through a function value
	"rec-val": {perLevel: 1, program: func(d int) string {
		return fmt.Sprintf("fn r(n: int) -> int { let f = r; "+recBody+" }\nfn main() { let g = r; println(g(%d)); }\n", "f", d)
	}},
	// two named functions calling each other
	"rec-mutual": {perLevel: 1, program: func(d int) string {
		return fmt.Sprintf("fn ra(n: int) -> int { "+recBody+" }\nfn rb(n: int) -> int { "+recBody+" }\nfn main() { println(ra(%d)); }\n", "rb", "ra", d)
	}},
	// the recursive call is an argument of another call (operands pending in every frame)
	"rec-arg": {perLevel: 1, program: func(d int) string {
		return fmt.Sprintf("fn add2(p: int, q: int) -> int { p + q }\nfn r(n: int) -> int { if n <= 0 { 0 } else { add2(1, r(n - 1)) } }\nfn main() { println(r(%d)); }\n", d)
	}},
	// every level sits in a try block
	"rec-try": {perLevel: 1, program: func(d int) string {
		return fmt.Sprintf("fn r(n: int) -> int { if n <= 0 { 0 } else { try { 1 + r(n - 1) } catch e { 0 - 1 } } }\nfn main() { println(r(%d)); }\n", d)
	}},
	// named function -> function literal (no captures) -> named function
	"rec-lambda": {perLevel: 2, program: func(d int) string {
		return fmt.Sprintf("fn r(n: int) -> int { let f = fn(m: int) -> int { r(m) }; "+recBody+" }\nfn main() { println(r(%d)); }\n", "f", d)
	}},
	// function literals only: the closure finds itself in a list it captured
	"rec-closure-list": {perLevel: 1, treeOnly: true, program: func(d int) string {
		return fmt.Sprintf("fn main() {\n    let h = [fn(n: int) -> int { n }];\n    h[0] = fn(n: int) -> int { "+recBody+" };\n    println(h[0](%d));\n}\n", "h[0]", d)
	}},
	// ... in an object it captured
	"rec-closure-object": {perLevel: 1, treeOnly: true, program: func(d int) string {
		return fmt.Sprintf("fn main() {\n    let o = new { f: fn(n: int) -> int { n } };\n    o.f = fn(n: int) -> int { "+recBody+" };\n    println(o.f(%d));\n}\n", "o.f", d)
	}},
	// two function literals calling each other
	"rec-closure-mutual": {perLevel: 1, treeOnly: true, program: func(d int) string {
		return fmt.Sprintf("fn main() {\n    let h = [fn(n: int) -> int { n }, fn(n: int) -> int { n }];\n    h[0] = fn(n: int) -> int { "+recBody+" };\n    h[1] = fn(n: int) -> int { "+recBody+" };\n    println(h[0](%d));\n}\n", "h[1]", "h[0]", d)
	}},
	// function literal -> named function (which receives the list) -> function literal
	"rec-closure-named": {perLevel: 2, treeOnly: true, program: func(d int) string {
		return fmt.Sprintf("fn via(h: [fn(n: int) -> int], n: int) -> int { h[0](n) }\nfn main() {\n    let h = [fn(n: int) -> int { n }];\n    h[0] = fn(n: int) -> int { if n <= 0 { 0 } else { 1 + via(h, n - 1) } };\n    println(h[0](%d));\n}\n", d)
	}},
	// function literal whose every level also calls a builtin member function
	"rec-closure-builtin": {perLevel: 1, treeOnly: true, program: func(d int) string {
		return fmt.Sprintf("fn main() {\n    let h = [fn(n: int) -> int { n }];\n    h[0] = fn(n: int) -> int { if n <= 0 { 0 } else { h.len() + h[0](n - 1) } };\n    println(h[0](%d));\n}\n", d)
	}},
}

// recFamilyNames returns the names in a fixed order; the two original families come first.
func recFamilyNames(extraOnly bool) []string {
	var names []string
	for n := range recFamilies {
		if extraOnly && (n == "rec" || n == "rec-val") {
			continue
		}
		names = append(names, n)
	}
	sort.Strings(names)
	return names
}

// ---------------------------------------------------------------------------------------------
// Leaving an unfinished expression: operand context x kind of exit x shape of the exit x loop kind
// ---------------------------------------------------------------------------------------------

// An opCtx is a statement with a hole for an int expression which is evaluated while operands of
// the enclosing expression are pending (on the VM: lie on the operand stack). `a` (int) is in scope.
type opCtx struct {
	name string
	decl string // top-level declarations
	pre  string // local declarations (in the function which holds the statement)
	stmt string // %s = the hole (always parenthesised by the template)
}

var opCtxs = []opCtx{
	// operators and assignments
	{name: "infix-rhs", stmt: "a = 1 + (%s);"},
	{name: "infix-deep", stmt: "a = 1 + (2 * (3 - (%s)));"},
	{name: "cond-cmp-rhs", stmt: "if 0 <= (%s) { a += 1; }"},
	{name: "infix-prefix", stmt: "a = 1 + -(%s);"},
	{name: "infix-cast", stmt: "a = 1 + ((%s) as float) as int;"},
	{name: "str-concat", stmt: "let s = \"x\" + (%s).to_string(); a = s.len();"},
	{name: "opassign-local", stmt: "a += (%s);"},
	{name: "opassign-global", decl: "let g = 0;", stmt: "g += (%s); a = g;"},
	{name: "assign-index", pre: "let l = [0, 0];", stmt: "l[0] = (%s); a = l[0];"},
	{name: "opassign-index", pre: "let l = [0, 0];", stmt: "l[1] += (%s); a = l[1];"},
	{name: "assign-member", pre: "let o = new { f: 0 };", stmt: "o.f = (%s); a = o.f;"},
	{name: "opassign-member", pre: "let o = new { f: 0 };", stmt: "o.f += (%s); a = o.f;"},
	// indexing and literals
	{name: "index", pre: "let l = [0, 0];", stmt: "a = l[(%s) %% 2];"},
	{name: "index-nested", pre: "let l = [0, 0];", stmt: "a = l[l[(%s) %% 2]];"},
	{name: "list-last-elem", stmt: "let t = [1, 2, (%s)]; a = t[2];"},
	{name: "list-first-elem", stmt: "let t = [(%s), 2]; a = t[0];"},
	{name: "list-nested", stmt: "let t = [[1], [2, (%s)]]; a = t[1][1];"},
	{name: "object-field", stmt: "let t = new { p: 1, q: (%s) }; a = t.q;"},
	{name: "range-end", stmt: "for z in 0..((%s) %% 3) { a += z; }"},
	// arguments of calls: named function, function value, host-provided global, member function
	{name: "fn-arg-2of2", decl: "fn add2(p: int, q: int) -> int { p + q }", stmt: "a = add2(1, (%s));"},
	{name: "fn-arg-3of3", decl: "fn add3(p: int, q: int, r: int) -> int { p + q + r }", stmt: "a = add3(1, 2, (%s));"},
	{name: "fn-arg-nested", decl: "fn add2(p: int, q: int) -> int { p + q }", stmt: "a = add2(1, add2(2, (%s)));"},
	{name: "val-arg-1of2", pre: "let cl = fn(p: int, q: int) -> int { p + q };", stmt: "a = cl((%s), 1);"},
	{name: "val-arg-2of2", pre: "let cl = fn(p: int, q: int) -> int { p + q };", stmt: "a = cl(1, (%s));"},
	{name: "fnval-arg", decl: "fn add2(p: int, q: int) -> int { p + q }", pre: "let fv = add2;", stmt: "a = fv(1, (%s));"},
	{name: "host-println", stmt: "println((%s));"},
	{name: "host-println-2of2", stmt: "println(\"v\", (%s));"},
	{name: "host-print", stmt: "print((%s));"},
	{name: "host-fmt", stmt: "let s = fmt(\"%%d\", (%s)); a = s.len();"},
	{name: "host-debug", stmt: "debug((%s));"},
	{name: "host-assert-cmp", stmt: "assert(0 <= (%s));"},
	{name: "host-probe", stmt: "probe(1, (%s));"},
	{name: "host-in-fn-arg", decl: "fn add2(p: int, q: int) -> int { p + q }", stmt: "a = add2(1, { println((%s)); 2 });"},
	{name: "fn-in-host-arg", decl: "fn add2(p: int, q: int) -> int { p + q }", stmt: "println(add2(1, (%s)));"},
	{name: "method-arg", pre: "let sk = [0];", stmt: "sk.push((%s)); a = sk.len();"},
	{name: "method-arg-in-infix", pre: "let sk = [0];", stmt: "a = 1 + { sk.push((%s)); 2 };"},
	// control flow constructs in operand position
	{name: "try-stmt-infix", stmt: "try { a = 1 + (%s); } catch e2 { a = 0 - 1; }"},
	{name: "try-expr-operand", stmt: "a = 1 + try { (%s) } catch e2 { 0 };"},
	{name: "inner-loop-operand", stmt: "a = 1 + { let s = 0; for z in 0..2 { s += (%s) + z; } s };"},
	{name: "match-control-operand", stmt: "a = 1 + match (%s) { 0 => 1, _ => 2 };"},
	{name: "match-arm-operand", stmt: "a = 1 + match a %% 2 { 0 => (%s), _ => 2 };"},
	{name: "if-cond-operand", stmt: "a = 1 + if (%s) >= 0 { 1 } else { 2 };"},
}

// Kinds of exit. cond/val are written in terms of the variable the wrapper provides.
var exitKinds = []string{"continue", "break", "return", "throw"}

// Shapes of the expression which leaves: cond C, leaving statement X, value V otherwise.
var exitShapes = []string{"if-else", "block", "match-arm"}

func shapeExpr(shape, c, x, v string) string {
	switch shape {
	case "if-else":
		return fmt.Sprintf("if %s { %s } else { %s }", c, x, v)
	case "block":
		return fmt.Sprintf("{ if %s { %s } %s }", c, x, v)
	case "match-arm":
		return fmt.Sprintf("match %s { true => { %s }, _ => %s }", c, x, v)
	case "callee": // throw only: the exception comes out of a called function
		return fmt.Sprintf("thr(%s)", v)
	}
	panic("c09: unknown exit shape " + shape)
}

// Loop kinds which a continue / break leaves or restarts (and in which a return may sit).
// "outer" = the driver loop of the iteration program itself (continue only).
var loopKinds = []string{"for", "while", "loop", "outer"}

func inLoop(kind, stmt string) string {
	switch kind {
	case "for":
		return "for j in 0..4 { " + stmt + " }"
	case "while":
		return "let j = 0 - 1; while j < 3 { j += 1; " + stmt + " }"
	case "loop":
		return "let j = 0 - 1; loop { j += 1; if j > 3 { break; } " + stmt + " }"
	}
	panic("c09: unknown loop kind " + kind)
}

// exitBodyName encodes the four coordinates; exitBody decodes them again (worker side).
func exitBodyName(ctx, exit, shape, loop string) string {
	return "x:" + ctx + "/" + exit + "/" + shape + "/" + loop
}

func exitBody(name string) (body, bool) {
	if !strings.HasPrefix(name, "x:") {
		return body{}, false
	}
	f := strings.Split(name[2:], "/")
	if len(f) != 4 {
		return body{}, false
	}
	var cx *opCtx
	for i := range opCtxs {
		if opCtxs[i].name == f[0] {
			cx = &opCtxs[i]
		}
	}
	if cx == nil {
		return body{}, false
	}
	exit, shape, loop := f[1], f[2], f[3]
	b := body{name: name, decl: cx.decl}
	join := func(parts ...string) string {
		var out []string
		for _, p := range parts {
			if p != "" {
				out = append(out, p)
			}
		}
		return strings.Join(out, " ")
	}
	switch exit {
	case "continue", "break":
		v, c := "j", "j != 1"
		if exit == "break" {
			c = "j == 2"
		}
		x := exit + ";"
		if loop == "outer" {
			// the driver loop `while i < k { i += 1; … }` itself is restarted
			st := fmt.Sprintf(cx.stmt, shapeExpr(shape, "i % 4 != 1", x, "i"))
			b.pre = join("let a = 0;", cx.pre)
			b.loop = st + " acc += a;"
			return b, true
		}
		st := fmt.Sprintf(cx.stmt, shapeExpr(shape, c, x, v))
		b.pre = join("let a = 0;", cx.pre)
		b.loop = inLoop(loop, st) + " acc += a;"
	case "return":
		// the statement sits in a function (loop "none") or in a loop inside that function
		st := fmt.Sprintf(cx.stmt, shapeExpr(shape, "x % 4 != 1", "return 5;", "x"))
		if loop != "none" {
			st = inLoop(loop, "if j == 0 { continue; } "+st)
		}
		b.decl = join(cx.decl, "\nfn er(x: int) -> int { "+join("let a = 0;", cx.pre, st, "a")+" }")
		b.loop = "acc += er(i);"
	case "throw":
		b.throw = true
		if shape == "callee" {
			b.decl = join(cx.decl, "\nfn thr(x: int) -> int { if x % 4 != 1 { throw(x); } x }")
		}
		st := fmt.Sprintf(cx.stmt, shapeExpr(shape, "i % 4 != 1", "throw(1);", "i"))
		if loop != "none" {
			st = inLoop(loop, st)
		}
		b.pre = join("let a = 0;", cx.pre)
		b.loop = "try { " + st + " } catch e { acc += 1; } acc += a;"
	default:
		return body{}, false
	}
	return b, true
}

// exitBodyNames lists the bodies of a tier. The product context x exit kind is always complete;
// thorough adds the complete product with shapes and loop kinds, quick rotates through the shapes
// and loop kinds (two different combinations per (context, exit), chosen by the seed).
func exitBodyNames(thorough bool, seed uint64) []string {
	var names []string
	for ci, cx := range opCtxs {
		for ei, exit := range exitKinds {
			shapes := exitShapes
			var loops []string
			switch exit {
			case "continue":
				loops = loopKinds
			case "break":
				loops = loopKinds[:3]
			case "return":
				loops = []string{"none", "for", "while"}
			case "throw":
				shapes = append(append([]string{}, exitShapes...), "callee")
				loops = []string{"none", "for"}
			}
			if thorough {
				for _, sh := range shapes {
					for _, lp := range loops {
						names = append(names, exitBodyName(cx.name, exit, sh, lp))
					}
				}
				continue
			}
			r := int(seed%1000) + ci*7 + ei*3
			for v := 0; v < 2; v++ {
				sh := shapes[(r+v)%len(shapes)]
				lp := loops[(r/len(shapes)+v*(1+ci%2))%len(loops)]
				names = append(names, exitBodyName(cx.name, exit, sh, lp))
			}
		}
	}
	return names
}

// ---------------------------------------------------------------------------------------------
// Naming: how long the identifiers are and which module holds the callables
// ---------------------------------------------------------------------------------------------

// The limits are a matter of counts, not of what the things counted are called. The naming
// dimension re-runs the limit families with function names of a given length and with the
// callables placed in the entry module "main", in an entry module with a long name, or in an
// imported module with a long name (the names of the functions on the call stack, as
// `@<module>.<function>`, are what a back end renders when it reports a fatal interrupt).

// Module placements of the naming dimension.
const (
	modMain   = ""       // everything in the entry module "main"
	modEntry  = "entry"  // everything in an entry module whose name has ModLen characters
	modImport = "import" // all functions except main in an imported module whose name has ModLen characters
)

const identAlphabet = "abcdefghijklmnopqrstuvwxyz_0123456789ABCDEFGHIJKLMNOPQRSTUVWXYZ"

// longIdent pads base with a fixed pattern to exactly n characters (base itself if it is longer).
func longIdent(base string, n int) string {
	if len(base) >= n {
		return base
	}
	var sb strings.Builder
	sb.WriteString(base)
	sb.WriteByte('_')
	for i := 0; sb.Len() < n; i++ {
		sb.WriteByte(identAlphabet[(i*7+len(base))%len(identAlphabet)])
	}
	return sb.String()
}

var topFnRe = regexp.MustCompile(`(?m)^fn ([A-Za-z_][A-Za-z0-9_]*)\(`)

// topFunctions lists the top-level functions of a family program other than main, in source order.
func topFunctions(src string) []string {
	var names []string
	for _, m := range topFnRe.FindAllStringSubmatch(src, -1) {
		if m[1] != "main" {
			names = append(names, m[1])
		}
	}
	return names
}

// applyNaming renames the top-level functions of a family program to nameLen characters
// (0 = keep) and places them as the placement says. It returns the sources and the entry module.
// ok is false when the placement is not applicable (no function to move into another module).
func applyNaming(src string, nameLen int, mod string, modLen int) (out map[string]string, entry string, ok bool) {
	fns := topFunctions(src)
	if nameLen > 0 {
		for _, f := range fns {
			src = regexp.MustCompile(`\b`+regexp.QuoteMeta(f)+`\b`).ReplaceAllString(src, longIdent(f, nameLen))
		}
		fns = topFunctions(src)
	}
	switch mod {
	case modMain:
		return map[string]string{"main": src}, "main", true
	case modEntry:
		entry = longIdent("entry", modLen)
		return map[string]string{entry: src}, entry, true
	case modImport:
		at := strings.Index(src, "fn main()")
		if len(fns) == 0 || at <= 0 || (at > 0 && src[at-1] != '\n') {
			return nil, "", false
		}
		lib := longIdent("lib", modLen)
		return map[string]string{
			// (the analyzer wants a main function in every module)
			lib:    topFnRe.ReplaceAllString(src[:at], "pub fn $1(") + "fn main() { }\n",
			"main": "import { " + strings.Join(fns, ", ") + " } from " + lib + ";\n" + src[at:],
		}, "main", true
	}
	panic("c09: unknown module placement " + mod)
}

// namingFamilies: the limit families the naming dimension is applied to, with the limit that the
// family's parameter works against ("c" call depth, "s" operand stack, "m" memory).
var namingFamilies = []struct {
	family string
	limit  byte
	locals int // locals family: locals per frame
}{
	{"rec", 'c', 0}, {"rec-val", 'c', 0}, {"rec-mutual", 'c', 0}, {"rec-arg", 'c', 0}, {"rec-try", 'c', 0}, {"rec-lambda", 'c', 0},
	{"nest-sum", 's', 0}, {"nest-args", 's', 0}, {"nest-list", 's', 0},
	{"locals", 'm', 3}, {"locals", 'c', 1},
}
