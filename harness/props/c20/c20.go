// Package c20 checks property C20: the semantic fuzzer's rewrites preserve behaviour.
package c20

import (
	"fmt"
	"sort"
	"strings"

	"hv/drive"
	"hv/fw"
	"hv/util"
)

type c20 struct{}

func init() { fw.Register(c20{}) }

func (c20) ID() string { return "C20" }

func (c20) Info(tier string) fw.Info {
	return fw.Info{
		Level: "exploration",
		Rule: "programs of the class the property states — the shipped examples/*.hms and tests/*.hms that are accepted and finish within 3M instructions (no sleep/spawn/network), and a seeded class-restricted generator (props/c20/gen.go: pure operands wherever the transformer reorders or duplicates [+ - * < > <= >=], impure operands where it keeps the order [/ % == != && ||], integer multiplications with right operand 0..12, int literals below 2^20, floats that keep all arithmetic exact, globals, functions with early returns, recursion, while/loop/for with break/continue, if/else-if/else and blocks as statements and values, try/catch with general try and catch bodies, break/continue/return below towers of carrier constructs [then/else/else-if branches, block statements, try blocks, catch blocks, non-default match arms, value blocks in call arguments, (compound) assignments, list elements, indices, cast/prefix/division operands and let initialisers] with conditions that depend on the loop counter, a loop-control-focused sub-population, lists, casts; plus a data population (props/c20/gen_obj.go): object literals and object types whose field names are plain identifiers, every reserved word of the lexer or text that is no identifier, in every position the printed tree carries a type or a literal [inferred and annotated let, global, parameter, result, function literal, cast, type alias, list element, option, nested object, value of an if / a block, field value as carrier of a loop exit], field reads and writes by member and by index, keys/to_json, loops over lists of objects) — are analysed; " +
			"fuzzer.NewTransformer(seed).Transform is applied 1,2,3(,5) times in a chain exactly as fuzzer.Generator does, for a window of transformer seeds per program; every printed variant (AnalyzedProgram.String()) must be accepted by the analyzer and produce the same VM effects and outcome as the original (limits 2048/500/100000); a panic of Transform or String is an event. " +
			"The UNtransformed tree is printed, reparsed and run as a baseline: if it is rejected (or printing panics) the variants are still judged — every variant comes out of the same printer and the property demands that it is accepted — and the explanation says that the untransformed tree fails alike; if it is accepted but behaves differently, a generated program (whose output cannot depend on its layout or the clock) is judged as usual, a shipped program is taken to observe its own layout or the clock (error spans, dates) and only Transform panics are judged for it (counted as printer-baseline-broken). Constructs poisoned by an open finding are kept out of the main workload (checked on the analysed tree by props/c20/tags.go) and exercised by a small poisoned workload each. " +
			"non-trivial = at least one variant whose text differs from the printed original was produced (or a refuting event was seen) and the original writes at least 2 lines; distinct = distinct source text",
		Assumptions: []string{
			"variants are executed on the VM only (as cmd/validate.go does)",
			"a variant that needs more than 40x the instructions of the original plus 2M (original <= 3M) is judged non-terminating: for in-class programs rewrites add a constant per statement and pass and at most 12 iterations per multiplication, and never nest inside an unrolled multiplication",
			"the transformer is applied to the entry module only (as cmd/main.go does)",
		},
		CaseTimeoutS: 300,
		BatchSize:    12,
	}
}

// Payload of a case.
type Payload struct {
	Source map[string]string `json:"source,omitempty"`
	Gen    *GenSpec          `json:"gen,omitempty"`
	Seeds  []int64           `json:"seeds"`
	Passes []int             `json:"passes"`
}

func seedList(from, n int) []int64 {
	out := make([]int64, n)
	for i := range out {
		out[i] = int64(from + i)
	}
	return out
}

// corpusCases returns the shipped programs that can be in the class.
func corpusCases(seeds []int64, passes []int) []fw.Case {
	corpus := util.Corpus()
	names := drive.SortedKeys(corpus)
	var cases []fw.Case
	for _, k := range names {
		text := corpus[k]
		// (a program that prints the wall clock differs from its own variants whenever a minute passes between the runs)
		skip := false
		for _, tok := range []string{"time.sleep", "time.now", "spawn ", "sleep(", "net.", "http"} {
			if strings.Contains(text, tok) {
				skip = true
			}
		}
		if skip {
			continue
		}
		src := map[string]string{"main": text}
		dir := strings.SplitN(k, "/", 2)[0]
		for _, k2 := range names {
			if strings.HasPrefix(k2, dir+"/") && k2 != k {
				if mod := strings.TrimSuffix(strings.SplitN(k2, "/", 2)[1], ".hms"); mod != "main" {
					src[mod] = corpus[k2]
				}
			}
		}
		tags, _ := ConstructTags(src)
		cases = append(cases, fw.MkCase("c20-corpus-"+k, "corpus", Payload{Source: src, Seeds: seeds, Passes: passes}, append([]string{"corpus:" + k}, tags...)...))
	}
	return cases
}

func (c20) Cases(tier string, seed uint64) []fw.Case {
	var cases []fw.Case
	if tier == "thorough" {
		cases = append(cases, corpusCases(seedList(0, 24), []int{1, 2, 3, 5})...)
	} else {
		cases = append(cases, corpusCases(seedList(0, 8), []int{1, 2, 3})...)
	}
	gen := genCases(tier, seed)
	// spread the (expensive: non-terminating variants burn their whole budget) poisoned cases over
	// the batches; the order of cases has no influence on verdicts
	r := fw.NewRng(seed ^ 0x5C20)
	for i := len(gen) - 1; i > 0; i-- {
		k := r.Intn(i + 1)
		gen[i], gen[k] = gen[k], gen[i]
	}
	return append(cases, gen...)
}

func (c20) Run(c fw.Case) fw.Result {
	var p Payload
	fw.Decode(c, &p)
	src := drive.Sources(p.Source)
	if p.Gen != nil {
		src = drive.Sources{"main": p.Gen.Source()}
	}
	res := fw.Result{Verdict: fw.Held, Hash: fw.HashOf(map[string]string(src))}
	j := JudgeProgram(src, p.Seeds, p.Passes, p.Gen != nil)
	res.Evals = j.Evals + 1
	res.Obs = map[string]int64{"variants_executed": j.Variants, "variant_duplicates": j.Dups, "variants_changed": j.Changed}
	for k := range j.Cover {
		res.Cover = append(res.Cover, k)
	}
	sort.Strings(res.Cover)
	switch {
	case j.Rejected != "":
		if p.Gen != nil {
			res.Verdict, res.Sig = fw.Violated, "generator-program-rejected"
			res.Why = "harness: the analyzer rejects a generated program: " + j.Rejected
			res.Detail = src
			return res
		}
		res.Cover = append(res.Cover, "corpus-not-accepted", "corpus-not-accepted:"+diagClass(j.Rejected))
		return res
	case j.OrigBudget:
		res.Cover = append(res.Cover, "orig-too-long")
		return res
	case j.OrigCrash != "":
		res.Cover = append(res.Cover, "orig-compile-error")
		return res
	case j.Baseline != "":
		res.Cover = append(res.Cover, "printer-baseline-broken")
		res.Obs["printer_baseline_broken"] = 1
		if p.Gen != nil {
			// the generated class is meant to have a sound baseline; say so loudly but do not fail C20
			res.Cover = append(res.Cover, "printer-baseline-broken:generated:"+diagClass(j.Baseline))
		}
		if len(j.Failures) == 0 {
			return res
		}
	}
	res.Nontrivial = (j.Changed > 0 || len(j.Failures) > 0) && strings.Count(j.Orig.Effects, "\n") >= 2
	if len(j.Failures) > 0 {
		res.Verdict = fw.Violated
		// one representative per signature
		seen := map[string]bool{}
		first := true
		for _, f := range j.Failures {
			if seen[f.Sig] {
				continue
			}
			seen[f.Sig] = true
			if first {
				res.Why, res.Sig, res.Detail = f.Why, f.Sig, f.Detail
				first = false
			} else {
				res.More = append(res.More, fw.SubViolation{Why: f.Why, Sig: f.Sig, Detail: f.Detail})
			}
		}
		res.Obs["failing_variants"] = int64(len(j.Failures))
	}
	if fw.HashOf(map[string]string(src))[0] == '0' {
		res.Sample = map[string]any{"source": util.Clip(src["main"], 900), "orig_effects": util.Clip(j.Orig.Effects, 200), "variants": j.Variants}
	}
	return res
}

func (c20) OnCrash(c fw.Case, cr fw.Crash) fw.Result {
	if cr.Kind == "watchdog" || cr.Kind == "killed" || cr.Kind == "oom" {
		return fw.Result{Verdict: fw.Inconclusive, Why: cr.Kind + ": " + cr.Message}
	}
	// which execution killed the worker?
	st := ""
	for _, l := range strings.Split(cr.StderrTail, "\n") {
		if strings.HasPrefix(l, "c20-stage ") {
			st = strings.TrimPrefix(l, "c20-stage ")
		}
	}
	if !strings.HasPrefix(st, "variant-") {
		// the original itself (or its reprinted form) crashes the host: a C02 event, not a C20 one
		return fw.Result{Verdict: fw.Inconclusive, Why: fmt.Sprintf("the worker died in stage %q (%s: %s): not an execution of a variant", st, cr.Kind, util.Clip(cr.Message, 200))}
	}
	if cr.Kind == "step-budget" {
		// the effect log's size cap fired: a variant that prints without end
		return fw.Result{Verdict: fw.Violated, Nontrivial: true, Sig: "behaviour:no-termination",
			Why: fmt.Sprintf("a variant wrote more than 64 MiB of output (the original finished within %d instructions) [%s]", origBudget, st)}
	}
	what := "running"
	if strings.HasPrefix(st, "variant-analyze") {
		what = "analysing"
	}
	return fw.Result{Verdict: fw.Violated, Nontrivial: true,
		Sig: fmt.Sprintf("variant-crash:%s:%s:%s", what, util.NormPanic(cr.Message), cr.TopFrame),
		Why: fmt.Sprintf("the host process died %s a variant (%s: %s) at %s [%s]; the original ran fine", what, cr.Kind, util.Clip(cr.Message, 300), cr.TopFrame, st),
	}
}
