package c20

import (
	"fmt"
	"strings"
)

// The literal family of the generated workload (GenSpec.Lit).
//
// The transformer rewrites an integer literal n into `(n + k - k)`, `(n - k + k)` or `(n * k / k)`
// with k in {42, 69, 4711}, and it prints every string literal and every field name that is no
// identifier from its VALUE (not from the spelling the programmer used). The property admits every
// numeric literal that is "far from the overflow boundary" and says nothing that restricts strings.
// The family therefore generates
//
//   - integer literals of every magnitude from 2^20 to 2^46 (log-uniform, so that every binade is
//     seen; n * 4711 stays below 2^58.3, a factor of 25 away from the int64 boundary), with the low
//     bits random — in every position the transformer rewrites literals: let initialiser, operand of
//     a comparison, `return` value, trailing expression of a function, call argument, list element,
//     field value;
//   - string literals and quoted field names whose value holds characters that can only (or
//     preferably) be written with an escape sequence, one word per class of the lexer's
//     makeEscapeSequence: `\b`, `\'`, `\xHH` (C0 controls, DEL, Latin-1), three-digit octal, `\uHHHH`
//     (C0, C1, BMP, line/paragraph separator, BOM) and `\UHHHHHHHH` (astral plane) — alone, embedded
//     in text (ANSI colour sequences) and in comparisons, so that the printed variant has to carry the
//     value back through the lexer.
//
// Everything is judged by the unchanged oracle: the variant must be accepted and behave as the
// original does.

// wideIntLit: log-uniform magnitude 2^20 .. 2^46, random low bits; half of the literals come from
// the upper binades (2^40 .. 2^46), where the products n * k the transformer writes leave the range
// in which every integer is a float64 (2^53) while staying far inside int64.
func (g *gen) wideIntLit() ex {
	bits := 20 + g.r.Intn(26)
	if g.r.Bool() {
		bits = 40 + g.r.Intn(6)
	}
	n := int64(1)<<uint(bits) + int64(g.r.Next()>>1)%(int64(1)<<uint(bits))
	return ex{s: fmt.Sprint(n), p: pAtom}
}

// escWords: source spellings (between double quotes) of text whose value needs an escape sequence.
var escWords = []string{
	// \xHH: C0 controls, DEL, Latin-1
	`\x1b[33m`, `\x1b[0m`, `bell\x07`, `\x01\x02`, `a\x08b`, `\x0c`, `\x1f.`, `\x7f`, `\xe9t\xe9`, `\xa0`, `\x1B[1;31mred\x1B[0m`,
	// \b and the quote escapes
	`back\bspace`, `it\'s`, `\"q\"`,
	// octal (three digits)
	`\033[2J`, `\007`, `\101\102`, `\177`, `v\013t`,
	// \uHHHH: C0, C1, BMP, separators, BOM
	`\u001b[7m`, `\u0007`, `\u0085`, `\u009b`, `\u00e4\u00f6`, `\u20ac5`, `a\u2028b`, `\ufeffbom`, `\u0416`,
	// \UHHHHHHHH: astral plane
	`\U0001f600`, `\U00010348x`,
	// mixtures with the escapes the printer knows
	`\x1b\t\x1b`, `l1\n\x0bl2`, `\\\x5c`, `\r\x0e`,
}

// escStrLit returns a string literal (with its quotes) from the escape population.
func (g *gen) escStrLit() string {
	w := escWords[g.r.Intn(len(escWords))]
	if g.r.Chance(1, 3) {
		w = []string{"warn ", "x", "[", ""}[g.r.Intn(4)] + w + []string{"", " end", "]", "m"}[g.r.Intn(4)]
	}
	return `"` + w + `"`
}

// escKeys: field names (VALUES, quoteKey spells them) that hold characters of the same classes.
var escKeys = []string{
	"\x1b[", "bell\x07", "\x01", "a\bb", "\x7f", "\u0085", "\u2028", "\ufeff", "\U0001f600", "v\vt", "f\ff", "\x1f",
}

// litFunctions: functions whose result is a wide literal as a trailing expression / a return value.
func (g *gen) litFunctions() {
	g.emit("fn wide_tail() -> int {")
	g.emit("    %s", g.wideIntLit().s)
	g.emit("}")
	g.emit("")
	g.emit("fn wide_ret(n: int) -> int {")
	g.emit("    if n > %s {", g.wideIntLit().s)
	g.emit("        return %s;", g.wideIntLit().s)
	g.emit("    };")
	g.emit("    return %s;", g.wideIntLit().s)
	g.emit("}")
	g.emit("")
	g.emit("fn paint(text: str) -> str {")
	g.emit("    %s + text + %s", g.escStrLit(), g.escStrLit())
	g.emit("}")
	g.emit("")
	g.fns = append(g.fns,
		gfn{name: "wide_tail", ret: "int", pure: true},
		gfn{name: "wide_ret", params: []string{"int"}, ret: "int", pure: true},
		gfn{name: "paint", params: []string{"str"}, ret: "str", pure: true},
	)
}

// litPrelude: the first statements of main — wide literals as let initialisers and operands of
// comparisons, escape strings as values, operands of comparisons and arguments of members.
func (g *gen) litPrelude() {
	nw := 4 + g.r.Intn(5)
	var names []string
	for i := 0; i < nw; i++ {
		name := g.fresh("int")
		g.emit("let %s = %s;", name, g.wideIntLit().s)
		g.declare(&gv{name: name, t: "int"})
		names = append(names, name)
	}
	a := names[g.r.Intn(len(names))]
	op := []string{"==", "!=", "<", "<=", ">", ">="}[g.r.Intn(6)]
	g.emit(`println("wide", %s, %s %s %s, wide_tail(), wide_ret(%s));`, strings.Join(names, ", "), a, op, g.wideIntLit().s, a)
	g.emit("if %s - %s == %s {", a, g.wideIntLit().s, g.wideIntLit().s)
	g.emit(`    println("never");`)
	g.emit("};")
	ns := 1 + g.r.Intn(2)
	for i := 0; i < ns; i++ {
		name := g.fresh("str")
		lit := g.escStrLit()
		g.emit("let %s = %s;", name, lit)
		g.declare(&gv{name: name, t: "str"})
		switch g.r.Intn(3) {
		case 0:
			g.emit(`println("esc", %s.len(), %s == %s, %s != %s);`, name, name, lit, name, g.escStrLit())
		case 1:
			g.emit(`println("esc", paint(%s), paint(%s).len());`, name, name)
		default:
			g.emit(`println("esc", %s.replace(%s, "E"), %s.split(%s).len());`, name, g.escStrLit(), name, g.escStrLit())
		}
	}
}
