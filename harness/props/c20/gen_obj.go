package c20

import (
	"fmt"
	"strings"
)

// The data family of the generator (GenSpec.Data): object values and every position in which the
// printed tree carries a TYPE or a FIELD NAME.
//
// Every variant is the printed form of an analysed tree: each `let` carries its full type, function
// signatures and function literals carry theirs, casts print their target type, and object literals
// and object types print their field names — bare when the name lexes as an identifier, as a string
// literal otherwise. The property demands that all of this is accepted again. The family therefore
// generates
//
//   - object literals and object types whose field names are drawn from three populations: plain
//     identifiers (also look-alikes of keywords: `iff`, `ON`, `nulls`), EVERY word the lexer does not
//     turn into an identifier token (all keywords, both spellings of the boolean literals, `_`), and
//     text that is no identifier at all (blank, digit first, dash, dot, non-ASCII, characters that
//     need an escape);
//   - in every position a type or literal is printed: let (inferred and annotated), global,
//     parameter, result, function literal, cast, type alias, list element, option, nested object,
//     value of an if / block;
//   - reads (`o.k`, `o["k"]`, nested), writes (`o.k = e`, `o["k"] += e`), the built-in members
//     (keys, to_json), iteration over lists of objects, objects passed to and returned by functions;
//   - a loop exit inside the value block of an object field (one more carrier for exitInValue).
//
// The transformer neither reorders nor descends into object literals, so field values may be impure.

type shape struct {
	id     int
	fields []ofield
	alias  string // name of the type alias declared for this shape ("" = none)
	top    bool   // usable for variables, parameters and results (not only as a nested field)
}

type ofield struct {
	key   string
	ident bool   // the key comes from the identifier population: it may be written bare and used after a dot
	t     string // int float bool str list opt obj
	n     int    // list length
	sub   *shape
}

// identKeys: plain identifiers, among them near misses of reserved words.
var identKeys = []string{
	"x", "y", "k9", "brightness", "level", "_a", "A_b2", "name", "Type", "ON", "Off", "truth", "iff",
	"fnx", "on_", "off2", "nulls", "_0", "i", "lets", "news", "TRUE",
}

// reservedKeys: every word lexer.makeName maps to a token kind other than Identifier (the two
// boolean literals have two spellings each).
var reservedKeys = []string{
	"true", "on", "false", "off", "null", "none", "pub", "fn", "if", "else", "match", "for", "while",
	"loop", "break", "continue", "return", "import", "as", "from", "let", "in", "type", "try", "catch",
	"new", "spawn", "event", "impl", "with", "templ", "trigger", "_",
}

// textKeys: not an identifier for lexical reasons.
var textKeys = []string{
	"a b", "9lives", "x-y", "", "ä", "a.b", "x\"y", "t\tb", "back\\slash", "two\nlines", "$", "1",
	" lead", "k:v", "{", "é9", "a,b", "on off", "true!", "?",
}

var keyEscaper = strings.NewReplacer("\\", "\\\\", "\"", "\\\"", "\n", "\\n", "\t", "\\t")

// quoteKey spells a field name as a string literal; characters that have no short escape and are
// invisible (C0 controls, DEL, C1 controls, separators, BOM: the literal family's escKeys) are written
// as \xHH / \uHHHH escapes, the way a programmer has to write them.
func quoteKey(k string) string {
	var b strings.Builder
	for _, c := range keyEscaper.Replace(k) {
		switch {
		case c < 0x20 || c == 0x7f:
			fmt.Fprintf(&b, `\x%02x`, c)
		case c >= 0x80 && c < 0xa0, c == 0x2028, c == 0x2029, c == 0xfeff:
			fmt.Fprintf(&b, `\u%04x`, c)
		default:
			b.WriteRune(c)
		}
	}
	return `"` + b.String() + `"`
}

// keySrc renders a field name the way a programmer may write it in a literal or a type.
func (g *gen) keySrc(f ofield) string {
	if f.ident && g.r.Chance(3, 4) {
		return f.key
	}
	return quoteKey(f.key)
}

func (g *gen) newShape(depth int) *shape {
	sh := &shape{id: len(g.shapes)}
	g.shapes = append(g.shapes, sh)
	n := 1 + g.r.Intn(4)
	if g.r.Chance(1, 6) {
		n += 2
	}
	used := map[string]bool{}
	for len(sh.fields) < n {
		var f ofield
		switch g.r.Intn(3) {
		case 0:
			f.key, f.ident = identKeys[g.r.Intn(len(identKeys))], true
		case 1:
			f.key = reservedKeys[g.r.Intn(len(reservedKeys))]
		default:
			f.key = textKeys[g.r.Intn(len(textKeys))]
			if g.lit && g.r.Chance(1, 2) {
				f.key = escKeys[g.r.Intn(len(escKeys))]
			}
		}
		if used[f.key] {
			continue
		}
		used[f.key] = true
		switch k := g.r.Intn(12); {
		case k < 5:
			f.t = "int"
		case k < 6:
			f.t = "float"
		case k < 8:
			f.t = "bool"
		case k < 9:
			f.t = "str"
		case k < 10:
			f.t, f.n = "list", 1+g.r.Intn(3)
		case k < 11:
			f.t = "opt"
		default:
			if depth > 0 {
				f.t, f.sub = "obj", g.newShape(depth-1)
			} else {
				f.t = "int"
			}
		}
		sh.fields = append(sh.fields, f)
	}
	return sh
}

func (g *gen) fieldType(f ofield) string {
	switch f.t {
	case "list":
		return "[int]"
	case "opt":
		return "?int"
	case "obj":
		return g.typeText(f.sub)
	}
	return f.t
}

// structText: the shape written out.
func (g *gen) structText(sh *shape) string {
	var fs []string
	for _, f := range sh.fields {
		fs = append(fs, g.keySrc(f)+": "+g.fieldType(f))
	}
	return "{ " + strings.Join(fs, ", ") + " }"
}

// typeText: the alias (if there is one) or the shape written out.
func (g *gen) typeText(sh *shape) string {
	if sh.alias != "" && g.r.Chance(2, 3) {
		return sh.alias
	}
	return g.structText(sh)
}

func objT(sh *shape) string { return fmt.Sprintf("obj#%d", sh.id) }

func (g *gen) shapeOf(t string) *shape {
	var id int
	if _, err := fmt.Sscanf(t, "obj#%d", &id); err != nil || id >= len(g.shapes) {
		return nil
	}
	return g.shapes[id]
}

func (g *gen) fieldValue(f ofield, d int, pure bool) string {
	switch f.t {
	case "list":
		var el []string
		for i := 0; i < f.n; i++ {
			el = append(el, g.intExpr(0, true).s)
		}
		return "[" + strings.Join(el, ", ") + "]"
	case "opt":
		return "?" + g.intExpr(0, true).at(pAtom)
	case "obj":
		return g.objLit(f.sub, d-1, pure)
	case "str":
		return g.strExpr(d).s
	}
	return g.exprOf(f.t, d, pure).s
}

func (g *gen) objLit(sh *shape, d int, pure bool) string {
	var fs []string
	for _, f := range sh.fields {
		fs = append(fs, g.keySrc(f)+": "+g.fieldValue(f, d, pure))
	}
	return "new { " + strings.Join(fs, ", ") + " }"
}

// access: a read / write path of a field.
func (g *gen) access(base string, f ofield) string {
	if f.ident && g.r.Chance(2, 3) {
		return base + "." + f.key
	}
	return base + "[" + quoteKey(f.key) + "]"
}

// objExpr: an expression of the given shape.
func (g *gen) objExpr(sh *shape, d int, pure bool) ex {
	switch g.r.Intn(4) {
	case 0, 1:
		if v := g.pickVar(func(v *gv) bool { return v.t == "obj" && v.sh == sh }); v != nil {
			return ex{s: v.name, p: pAtom}
		}
	case 2:
		if f := g.pickFn(objT(sh), pure); f != nil && d > 0 {
			return g.call(f, d, pure)
		}
	}
	return ex{s: g.objLit(sh, d, pure), p: pAtom}
}

// fieldRead: a (pure) read of a field of type t of some visible object, at most two levels deep.
func (g *gen) fieldRead(t string) (ex, bool) {
	type cand struct {
		v    *gv
		path []ofield
	}
	var cs []cand
	for _, v := range g.vars(func(v *gv) bool { return v.t == "obj" }) {
		for _, f := range v.sh.fields {
			if f.t == t || (t == "int" && f.t == "list") {
				cs = append(cs, cand{v, []ofield{f}})
			}
			if f.t == "obj" {
				for _, f2 := range f.sub.fields {
					if f2.t == t || (t == "int" && f2.t == "list") {
						cs = append(cs, cand{v, []ofield{f, f2}})
					}
				}
			}
		}
	}
	if len(cs) == 0 {
		return ex{}, false
	}
	c := cs[g.r.Intn(len(cs))]
	s := c.v.name
	for _, f := range c.path {
		s = g.access(s, f)
	}
	if last := c.path[len(c.path)-1]; last.t == "list" {
		if g.r.Bool() {
			s += fmt.Sprintf("[%d]", g.r.Intn(last.n))
		} else {
			s += ".len()"
		}
	}
	return ex{s: s, p: pAtom}, true
}

func (g *gen) freshObj() string {
	g.nvar++
	return fmt.Sprintf("o%d", g.nvar)
}

// anyShape: a declared shape (mostly) or a new one.
func (g *gen) anyShape() *shape {
	var top []*shape
	for _, sh := range g.shapes {
		if sh.alias != "" || sh.top {
			top = append(top, sh)
		}
	}
	if len(top) > 0 && g.r.Chance(2, 3) {
		return top[g.r.Intn(len(top))]
	}
	sh := g.newShape(1)
	sh.top = true
	return sh
}

// objLet binds an object to a new variable (inferred or annotated type) and shows it.
func (g *gen) objLet(d int) {
	sh := g.anyShape()
	name := g.freshObj()
	ann := ""
	if g.r.Chance(1, 3) {
		ann = ": " + g.typeText(sh)
	}
	switch g.r.Intn(6) {
	case 0: // the value of an if
		g.emit("let %s%s = if %s { %s } else { %s };", name, ann, g.boolExpr(1, false).s, g.objLit(sh, 1, false), g.objLit(sh, 1, false))
	case 1: // the value of a block
		g.emit("let %s%s = { println(\"blk-obj\"); %s };", name, ann, g.objLit(sh, 1, false))
	default:
		g.emit("let %s%s = %s;", name, ann, g.objExpr(sh, d, false).s)
	}
	g.printVar(g.declare(&gv{name: name, t: "obj", sh: sh}))
}

// objAssign writes a field (or the whole variable) of a visible object.
func (g *gen) objAssign(d int) {
	v := g.pickVar(func(v *gv) bool { return v.t == "obj" && !v.ro })
	if v == nil {
		g.objLet(d)
		return
	}
	var fs []ofield
	for _, f := range v.sh.fields {
		if f.t == "int" || f.t == "bool" || f.t == "str" || f.t == "obj" {
			fs = append(fs, f)
		}
	}
	if len(fs) == 0 || g.r.Chance(1, 6) {
		g.emit("%s = %s;", v.name, g.objLit(v.sh, 1, false))
		g.printVar(v)
		return
	}
	f := fs[g.r.Intn(len(fs))]
	lhs := g.access(v.name, f)
	switch f.t {
	case "int":
		op := []string{"=", "+=", "-=", "*="}[g.r.Intn(4)]
		e := g.intExpr(d, false)
		if op == "*=" {
			e = g.smallExpr()
		}
		g.emit("%s %s %s;", lhs, op, e.s)
	case "bool":
		g.emit("%s = %s;", lhs, g.boolExpr(d, false).s)
	case "str":
		g.emit("%s = %s;", lhs, g.strExpr(1).s)
	default:
		g.emit("%s = %s;", lhs, g.objLit(f.sub, 1, false))
	}
	if g.r.Bool() {
		g.emit(`println("fld", %s);`, g.access(v.name, f))
	} else {
		g.printVar(v)
	}
}

// objMisc: the remaining positions in which object types and literals are printed.
func (g *gen) objMisc(d int) {
	v := g.pickVar(func(v *gv) bool { return v.t == "obj" })
	if v == nil {
		g.objLet(d)
		return
	}
	switch g.r.Intn(9) {
	case 0: // built-in members
		g.emit(`println("keys", %s.keys(), %s.keys().len());`, v.name, v.name)
	case 1:
		g.emit(`println("json", %s.to_json());`, v.name)
	case 2: // cast to the any-object type and back to a field
		name := g.freshObj()
		g.emit("let %s = %s as { ? };", name, v.name)
		g.emit(`println("any", %s);`, name)
		f := v.sh.fields[g.r.Intn(len(v.sh.fields))]
		g.emit(`println("any-fld", %s[%s] as %s);`, name, quoteKey(f.key), g.fieldType(f))
	case 3: // a redundant cast to the object's own type
		g.emit(`println("cast", %s as %s);`, v.name, g.typeText(v.sh))
	case 4: // option of an object
		name := g.freshObj()
		ann := ""
		if g.r.Bool() {
			ann = ": ?" + g.typeText(v.sh)
		}
		g.emit("let %s%s = ?%s;", name, ann, g.objExpr(v.sh, 1, true).s)
		g.emit(`println("opt", %s);`, name)
	case 5, 6: // a list of objects and a loop over it
		name := g.freshObj()
		n := 1 + g.r.Intn(3)
		var el []string
		for i := 0; i < n; i++ {
			el = append(el, g.objExpr(v.sh, 1, true).s)
		}
		ann := ""
		if g.r.Chance(1, 3) {
			ann = ": [" + g.typeText(v.sh) + "]"
		}
		g.emit("let %s%s = [%s];", name, ann, strings.Join(el, ", "))
		g.emit(`println("objs", %s);`, name)
		it := g.freshObj()
		g.emit("for %s in %s {", it, name)
		g.push()
		g.declare(&gv{name: it, t: "obj", sh: v.sh, ro: true})
		g.inLoop++
		g.body(1+g.r.Intn(2), d-1)
		g.inLoop--
		g.pop()
		g.emit("}")
	case 7: // a function literal over the object
		name := g.fresh("int")
		fname := "lam" + name
		p := g.freshObj()
		rt := []string{"int", "bool", objT(v.sh)}[g.r.Intn(3)]
		rtText := rt
		if sh := g.shapeOf(rt); sh != nil {
			rtText = g.typeText(sh)
		}
		g.emit("let %s = fn(%s: %s) -> %s {", fname, p, g.typeText(v.sh), rtText)
		g.ind++
		// the literal sees the globals and its parameter only: the VM does not implement captured
		// variables (open finding KF-vm-closure-capture of C01/C02/C04)
		saved := g.scopes
		g.scopes = [][]*gv{saved[0]}
		g.push()
		g.declare(&gv{name: p, t: "obj", sh: v.sh, ro: true})
		g.emit(`println("%s", %s);`, fname, p)
		g.emit("%s", g.exprOf(rt, 2, false).s)
		g.scopes = saved
		g.ind--
		g.emit("};")
		g.emit(`println("lam", %s(%s));`, fname, g.objExpr(v.sh, 1, true).s)
	default: // alias of the same object
		name := g.freshObj()
		g.emit("let %s = %s;", name, v.name)
		g.printVar(g.declare(&gv{name: name, t: "obj", sh: v.sh, ro: v.ro}))
	}
}

// objStmt: one statement of the data family.
func (g *gen) objStmt(d int) {
	switch g.r.Intn(8) {
	case 0, 1, 2:
		g.objLet(d)
	case 3, 4:
		g.objAssign(d)
	case 5, 6:
		g.objMisc(d)
	default:
		if f := g.pickFn("int", false); f != nil {
			g.emit(`println("call", %s);`, g.call(f, 2, false).s)
		} else {
			g.objLet(d)
		}
	}
}

// objPrelude declares the type aliases and the global objects (constant initialisers).
func (g *gen) objPrelude() {
	na := 1 + g.r.Intn(2)
	for i := 0; i < na; i++ {
		sh := g.newShape(1)
		sh.top = true
		if g.r.Chance(3, 4) {
			alias := fmt.Sprintf("T%d", i)
			g.emit("type %s = %s;", alias, g.structText(sh))
			sh.alias = alias
		}
	}
	g.emit("")
	if g.r.Bool() {
		sh := g.anyShape()
		g.constOnly++
		lit := g.objLit(sh, 0, true)
		g.constOnly--
		g.emit("let go0 = %s;", lit)
		g.declare(&gv{name: "go0", t: "obj", sh: sh, ro: true})
	}
}

// objFunctions: for every declared shape a constructor and a consumer.
func (g *gen) objFunctions() {
	var top []*shape
	for _, sh := range g.shapes {
		if sh.top {
			top = append(top, sh)
		}
	}
	for _, sh := range top {
		if g.r.Chance(1, 4) {
			continue
		}
		// constructor
		mk := gfn{name: fmt.Sprintf("mk%d", sh.id), params: []string{"int", "bool"}, ret: objT(sh)}
		g.push()
		g.declare(&gv{name: "a" + mk.name, t: "int", ro: true})
		g.declare(&gv{name: "b" + mk.name, t: "bool", ro: true})
		g.emit("fn %s(a%s: int, b%s: bool) -> %s {", mk.name, mk.name, mk.name, g.typeText(sh))
		g.inFn, g.ret = true, mk.ret
		g.ind++
		g.push()
		g.emit(`println("%s", a%s);`, mk.name, mk.name)
		for i, n := 0, g.r.Intn(3); i < n; i++ {
			g.stmt(2)
		}
		g.emit("%s", g.objLit(sh, 2, false))
		g.pop()
		g.ind--
		g.emit("}")
		g.emit("")
		g.pop()
		g.fns = append(g.fns, mk)
		// consumer
		use := gfn{name: fmt.Sprintf("use%d", sh.id), params: []string{objT(sh)}, ret: pick2(g.r, "int", "bool")}
		g.push()
		g.declare(&gv{name: "p" + use.name, t: "obj", sh: sh, ro: g.r.Bool()})
		g.emit("fn %s(p%s: %s) -> %s {", use.name, use.name, g.typeText(sh), use.ret)
		g.inFn, g.ret = true, use.ret
		g.ind++
		g.push()
		g.emit(`println("%s", p%s);`, use.name, use.name)
		for i, n := 0, g.r.Intn(3); i < n; i++ {
			g.stmt(2)
		}
		g.emit("%s", g.exprOf(use.ret, 2, false).s)
		g.pop()
		g.ind--
		g.emit("}")
		g.emit("")
		g.pop()
		g.fns = append(g.fns, use)
	}
	g.inFn, g.ret = false, "-"
}
