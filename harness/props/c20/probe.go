package c20

import (
	"fmt"
	"io"

	"hv/drive"
)

// Probe is a development aid (hvdev-c20 probe file.hms [seeds] [passes] [-v]): it prints what
// Judge finds for one source file.
func Probe(w io.Writer, src drive.Sources, seeds []int64, passes []int, verbose bool) {
	j := Judge(src, seeds, passes)
	fmt.Fprintf(w, "rejected=%q origBudget=%v baseline=%q orig=%s steps=%d evals=%d variants=%d dups=%d\n",
		j.Rejected, j.OrigBudget, j.Baseline, j.Orig.Outcome, j.Orig.Steps, j.Evals, j.Variants, j.Dups)
	fmt.Fprintf(w, "orig effects: %q\n", j.Orig.Effects)
	sigs := map[string]int{}
	for _, f := range j.Failures {
		sigs[f.Sig]++
		if sigs[f.Sig] <= 2 || verbose {
			fmt.Fprintf(w, "FAIL sig=%s\n  %s\n", f.Sig, f.Why)
			if m, ok := f.Detail.(map[string]any); ok && (verbose || sigs[f.Sig] == 1) {
				if v, ok := m["variant"]; ok {
					fmt.Fprintf(w, "---- variant\n%s\n----\n", v)
				}
			}
		}
	}
	for _, k := range drive.SortedKeys(sigs) {
		fmt.Fprintf(w, "SIG %4d %s\n", sigs[k], k)
	}
	if verbose && len(j.Failures) == 0 {
		for _, s := range seeds {
			for _, v := range Chain(src, s, passes) {
				fmt.Fprintf(w, "==== seed %d pass %d\n%s\n", v.Seed, v.Pass, v.Text)
			}
		}
	}
}
