package c20

import (
	"fmt"
	"strings"

	"hv/fw"
)

// GenSpec describes a generated program (regenerated in the worker from the seed).
type GenSpec struct {
	Seed uint64 `json:"seed"`
	Size int    `json:"size"`
	// Mode: "main" (every construct poisoned by an open finding is off) or "poison:<tag>"
	// (exactly that construct is switched on and forced to occur).
	Mode string `json:"mode"`
	// Focus: "" (the general mix) or "loopctl" (same constructs, but the statement mix is shifted to
	// loops whose bodies carry break/continue/return inside every kind of carrier construct: the
	// population the transformer's loop-control guard is about).
	Focus string `json:"focus,omitempty"`
	// Data: the data family (gen_obj.go) is switched on: object values, field names of every lexical
	// class and all positions in which the printed tree carries a type. When false the generator
	// draws exactly the random numbers it drew before the family existed.
	Data bool `json:"data,omitempty"`
	// Lit: the literal family is switched on (lit.go): integer literals over the whole range the
	// property calls far from the overflow boundary (up to 2^46: even multiplied by the largest
	// constant the transformer uses they stay 25x below 2^63), and string literals / quoted field
	// names whose VALUE holds characters of every class the lexer can produce from an escape
	// sequence (control characters, DEL, Latin-1, BMP, astral). When false the generator draws
	// exactly the random numbers it drew before the family existed.
	Lit bool `json:"lit,omitempty"`
}

// feat says which constructs outside the currently reliable fragment may be generated.
type feat struct {
	litTodo, bareReturn, finalDiverge, identCapture, mulDivMod, mulWide, addSubPow, trigger bool
}

// kfOf maps construct tags to the known finding that poisons them.
var kfOf = map[string]string{
	TagLitTodo:      "KF-c20-literal-todo",
	TagBareReturn:   "KF-c20-bare-return",
	TagFinalDiverge: "KF-c20-final-diverge",
	TagIdentCapture: "KF-c20-ident-capture",
	TagMulLhsDivMod: "KF-c20-swap-precedence",
	TagMulLhsWide:   "KF-c20-swap-then-unroll",
	TagAddSubPow:    "KF-c20-negate-pow",
	TagTrigger:      "KF-c20-trigger-stmt",
}

var allTags = []string{TagLitTodo, TagBareReturn, TagFinalDiverge, TagIdentCapture, TagMulLhsDivMod, TagMulLhsWide, TagAddSubPow, TagTrigger}

func (f *feat) set(tag string, v bool) {
	switch tag {
	case TagLitTodo:
		f.litTodo = v
	case TagBareReturn:
		f.bareReturn = v
	case TagFinalDiverge:
		f.finalDiverge = v
	case TagIdentCapture:
		f.identCapture = v
	case TagMulLhsDivMod:
		f.mulDivMod = v
	case TagMulLhsWide:
		f.mulWide = v
	case TagAddSubPow:
		f.addSubPow = v
	case TagTrigger:
		f.trigger = v
	}
}

func features(mode string) (f feat, force string) {
	for _, t := range allTags {
		f.set(t, !fw.KFOpen(kfOf[t]))
	}
	if strings.HasPrefix(mode, "poison:") {
		force = strings.TrimPrefix(mode, "poison:")
		f.set(force, true)
	}
	return f, force
}

// precedence levels of the homescript parser (lexer/token.go Prec, left binding power)
const (
	pOr     = 3
	pAnd    = 5
	pBitOr  = 7
	pBitXor = 9
	pBitAnd = 11
	pEq     = 13
	pCmp    = 15
	pShift  = 17
	pAdd    = 19
	pMul    = 21
	pAs     = 23
	pPow    = 25
	pPrefix = 29
	pAtom   = 40
)

type ex struct {
	s string
	p int
	// powSpine: printed ungrouped, the leftmost operand chain reaches a `**`
	powSpine bool
}

func pick2(r *fw.Rng, a, b string) string {
	if r.Bool() {
		return a
	}
	return b
}

func (e ex) at(min int) string {
	if e.p < min {
		return "(" + e.s + ")"
	}
	return e.s
}
func grp(e ex) ex { return ex{s: "(" + e.s + ")", p: pAtom} }

type gv struct {
	name  string
	t     string // int float bool str list
	small bool   // int in 0..12, never assigned
	nn    bool   // int in 0..1000, never assigned
	fbase bool   // float usable as a factor (|x| < 2^21, multiple of 1/4), never assigned
	ro    bool   // never assign (globals, params, loop variables)
	n     int    // list length
	sh    *shape // t == "obj"
}

type gfn struct {
	name   string
	params []string // types
	ret    string   // "" = null
	pure   bool
}

type gen struct {
	r       *fw.Rng
	f       feat
	force   string
	focus   string
	lines   []string
	ind     int
	scopes  [][]*gv
	nvar    int
	fns     []gfn
	inLoop  int
	ctrs    []string // counters / iteration variables of the enclosing loops, innermost last
	ret     string // return type of the function being generated ("" null, "-" = main)
	inFn    bool
	capPool []string
	budget  int
	noExit  int // > 0: inside a value-producing block (no break/continue/return out of expression context)
	// the data family (gen_obj.go)
	data      bool
	shapes    []*shape
	constOnly int // > 0: only literals (initialisers of globals)
	// the literal family (lit.go)
	lit bool
}

func (g *gen) emit(format string, a ...any) {
	g.lines = append(g.lines, strings.Repeat("    ", g.ind)+fmt.Sprintf(format, a...))
}
func (g *gen) push() { g.scopes = append(g.scopes, nil) }
func (g *gen) pop()  { g.scopes = g.scopes[:len(g.scopes)-1] }
func (g *gen) declare(v *gv) *gv {
	g.scopes[len(g.scopes)-1] = append(g.scopes[len(g.scopes)-1], v)
	return v
}
func (g *gen) fresh(t string) string {
	if g.f.identCapture && t == "int" && len(g.capPool) > 0 && (g.force == TagIdentCapture || g.r.Chance(1, 6)) {
		n := g.capPool[0]
		g.capPool = g.capPool[1:]
		return n
	}
	g.nvar++
	return fmt.Sprintf("%s%d", map[string]string{"int": "v", "float": "f", "bool": "b", "str": "s", "list": "l"}[t], g.nvar)
}
func (g *gen) vars(pred func(*gv) bool) []*gv {
	var out []*gv
	seen := map[string]bool{}
	for i := len(g.scopes) - 1; i >= 0; i-- {
		sc := g.scopes[i]
		for j := len(sc) - 1; j >= 0; j-- {
			v := sc[j]
			if seen[v.name] {
				continue
			}
			seen[v.name] = true
			if pred(v) {
				out = append(out, v)
			}
		}
	}
	return out
}
func (g *gen) pickVar(pred func(*gv) bool) *gv {
	vs := g.vars(pred)
	if len(vs) == 0 {
		return nil
	}
	return vs[g.r.Intn(len(vs))]
}

// ---------------------------------------------------------------------------------------------
// expressions
// ---------------------------------------------------------------------------------------------

func (g *gen) intLit() ex {
	if g.lit && g.r.Chance(1, 2) {
		return g.wideIntLit()
	}
	var n int
	switch g.r.Intn(12) {
	case 0:
		n = g.r.Intn(1 << 20) // far from the overflow boundary, as the property states
	case 1, 2:
		n = g.r.Intn(5000)
	default:
		n = g.r.Intn(100)
	}
	return ex{s: fmt.Sprint(n), p: pAtom}
}

func (g *gen) smallExpr() ex {
	if v := g.pickVar(func(v *gv) bool { return v.small }); v != nil && g.r.Chance(1, 2) {
		return ex{s: v.name, p: pAtom}
	}
	return ex{s: fmt.Sprint(g.r.Intn(13)), p: pAtom}
}

// nnExpr: provably non-negative and bounded (the tagger must be able to prove it too).
func (g *gen) nnExpr(d int) ex {
	switch g.r.Intn(6) {
	case 0, 1:
		if v := g.pickVar(func(v *gv) bool { return v.nn || v.small }); v != nil {
			return ex{s: v.name, p: pAtom}
		}
	case 2:
		if d > 0 {
			return grp(ex{s: g.nnExpr(d-1).at(pAdd) + " + " + g.nnExpr(d-1).at(pMul), p: pAdd})
		}
	}
	return ex{s: fmt.Sprint(g.r.Intn(200)), p: pAtom}
}

func (g *gen) intExpr(d int, pure bool) ex {
	if g.constOnly > 0 {
		return g.intLit()
	}
	if d <= 0 {
		if g.data && g.r.Chance(1, 4) {
			if e, ok := g.fieldRead("int"); ok {
				return e
			}
		}
		if v := g.pickVar(func(v *gv) bool { return v.t == "int" }); v != nil && g.r.Chance(3, 5) {
			return ex{s: v.name, p: pAtom}
		}
		return g.intLit()
	}
	nk := 19
	if g.data {
		nk = 22
	}
	switch g.r.Intn(nk) {
	case 0, 1: // a + b (operands are reordered by the transformer: pure)
		l, r := g.intExpr(d-1, true), g.intExpr(d-1, true)
		return g.addSub("+", l, r)
	case 2, 3:
		l, r := g.intExpr(d-1, true), g.intExpr(d-1, true)
		return g.addSub("-", l, r)
	case 4, 5, 6:
		return g.mulExpr(d)
	case 7: // division and remainder keep their operand order: impure operands allowed
		l := g.intExpr(d-1, pure)
		k := 1 + g.r.Intn(9)
		op := pick2(g.r, "/", "%")
		spine := l.p >= pMul && l.powSpine
		if !pure && g.r.Chance(1, 3) {
			return ex{s: l.at(pMul) + " " + op + " tick(" + fmt.Sprint(k) + ")", p: pMul, powSpine: spine}
		}
		return ex{s: l.at(pMul) + " " + op + " " + fmt.Sprint(k), p: pMul, powSpine: spine}
	case 8:
		l := g.smallExpr()
		return ex{s: l.at(pPow+1) + " ** " + fmt.Sprint(g.r.Intn(4)), p: pPow, powSpine: true}
	case 9:
		l, r := g.intExpr(d-1, pure), g.intExpr(d-1, pure)
		op := pick2(g.r, "&", "|")
		p := pBitAnd
		if op == "|" {
			p = pBitOr
		}
		return grp(ex{s: l.at(p) + " " + op + " " + r.at(p+1), p: p})
	case 10:
		l := g.intExpr(d-1, pure)
		return grp(ex{s: l.at(pShift) + " " + pick2(g.r, "<<", ">>") + " " + fmt.Sprint(g.r.Intn(6)), p: pShift})
	case 11:
		l := g.intExpr(d-1, pure)
		return ex{s: "-" + l.at(pPrefix), p: pPrefix}
	case 12:
		if f := g.pickFn("int", pure); f != nil {
			return g.call(f, d, pure)
		}
	case 13:
		if !pure {
			return ex{s: fmt.Sprintf("tick(%d)", g.r.Intn(50)), p: pAtom}
		}
	case 14:
		fl := g.floatExpr(d-1, true)
		return ex{s: fl.e.at(pAs+1) + " as int", p: pAs}
	case 15:
		c := g.boolExpr(d-1, pure)
		a, b := g.intExpr(d-1, pure), g.intExpr(d-1, pure)
		return grp(ex{s: "if " + c.s + " { " + a.s + " } else { " + b.s + " }", p: pAtom})
	case 16:
		if v := g.pickVar(func(v *gv) bool { return v.t == "list" && v.n > 0 }); v != nil {
			if g.r.Bool() {
				return ex{s: fmt.Sprintf("%s[%d]", v.name, g.r.Intn(v.n)), p: pAtom}
			}
			return ex{s: v.name + ".len()", p: pAtom}
		}
	case 17:
		a := g.intExpr(d-1, pure)
		return grp(ex{s: "{ let t = " + a.s + "; t + 1 }", p: pAtom})
	case 18:
		return grp(g.intExpr(d-1, pure))
	case 19, 20: // a field of an object
		if e, ok := g.fieldRead("int"); ok {
			return e
		}
	case 21:
		if v := g.pickVar(func(v *gv) bool { return v.t == "obj" }); v != nil {
			return ex{s: v.name + ".keys().len()", p: pAtom}
		}
	}
	return g.intExpr(d-1, pure)
}

// addSub prints l op r. Both operands can end up behind a generated prefix minus (a - b -> a + -b;
// a + b -> b + a -> b - -a), which binds tighter than `**`: unless that construct is allowed, an
// operand whose leftmost printed chain reaches a power is grouped.
func (g *gen) addSub(op string, l, r ex) ex {
	ls, rs := l.at(pAdd), r.at(pMul)
	lSpine := l.p >= pAdd && l.powSpine
	if lSpine && !g.f.addSubPow {
		ls = "(" + l.s + ")"
		lSpine = false
	}
	if r.p >= pMul && r.powSpine && !g.f.addSubPow {
		rs = "(" + r.s + ")"
	}
	return ex{s: ls + " " + op + " " + rs, p: pAdd, powSpine: lSpine}
}

func (g *gen) mulExpr(d int) ex {
	var l ex
	if g.f.mulWide && (g.force == TagMulLhsWide || g.r.Chance(1, 2)) {
		l = g.intExpr(d-1, true)
		if g.force == TagMulLhsWide && g.r.Bool() {
			l = ex{s: fmt.Sprintf("(0 - %d)", 1+g.r.Intn(50)), p: pAtom}
		}
	} else {
		l = g.nnExpr(d - 1)
	}
	if g.f.mulDivMod && (g.force == TagMulLhsDivMod || g.r.Chance(1, 4)) {
		a := g.nnExpr(0)
		l = ex{s: a.at(pMul) + " " + pick2(g.r, "/", "%") + " " + fmt.Sprint(2+g.r.Intn(5)), p: pMul}
	}
	r := g.smallExpr()
	return ex{s: l.at(pMul) + " * " + r.at(pAs), p: pMul, powSpine: l.p >= pMul && l.powSpine}
}

type fex struct {
	e    ex
	base bool
}

func (g *gen) floatLit() fex {
	k := g.r.Intn(200)
	if g.r.Chance(1, 10) {
		k = g.r.Intn(1 << 20)
	}
	frac := g.r.Intn(4)
	if k >= 1_000_000 {
		// the analysed-tree printer renders non-integral floats >= 1e6 as 1.0084975e+06, which does
		// not parse (printer defect, property C19): keep the baseline sound
		frac = 3
	}
	switch frac {
	case 0:
		return fex{ex{s: fmt.Sprintf("%d.5", k), p: pAtom}, true}
	case 1:
		return fex{ex{s: fmt.Sprintf("%d.25", k), p: pAtom}, true}
	}
	return fex{ex{s: fmt.Sprintf("%d.0", k), p: pAtom}, true}
}

func (g *gen) floatBase(d int) fex {
	if v := g.pickVar(func(v *gv) bool { return v.t == "float" && v.fbase }); v != nil && g.r.Chance(1, 2) {
		return fex{ex{s: v.name, p: pAtom}, true}
	}
	if d > 0 && g.r.Chance(1, 4) {
		a, b := g.floatBase(0), g.floatBase(0)
		return fex{grp(ex{s: a.e.s + " " + pick2(g.r, "+", "-") + " " + b.e.s, p: pAdd}), true}
	}
	if v := g.pickVar(func(v *gv) bool { return v.nn || v.small }); v != nil && g.r.Chance(1, 5) {
		return fex{grp(ex{s: v.name + " as float", p: pAs}), true}
	}
	return g.floatLit()
}

// floatExpr: all float arithmetic stays exact (multiples of 2^-6 below 2^46), so that the
// reassociation a reordering rewrite may cause cannot change a result.
func (g *gen) floatExpr(d int, pure bool) fex {
	if g.constOnly > 0 {
		return g.floatLit()
	}
	if d <= 0 {
		if g.data && g.r.Chance(1, 4) {
			if e, ok := g.fieldRead("float"); ok {
				return fex{e, false}
			}
		}
		if v := g.pickVar(func(v *gv) bool { return v.t == "float" }); v != nil && g.r.Chance(1, 2) {
			return fex{ex{s: v.name, p: pAtom}, v.fbase}
		}
		return g.floatLit()
	}
	switch g.r.Intn(8) {
	case 0, 1:
		a, b := g.floatExpr(d-1, true), g.floatExpr(d-1, true)
		return fex{g.addSub(pick2(g.r, "+", "-"), a.e, b.e), false}
	case 2, 3:
		a, b := g.floatBase(d-1), g.floatBase(d-1)
		return fex{ex{s: a.e.at(pMul) + " * " + b.e.at(pAs), p: pMul}, false}
	case 4:
		a := g.floatBase(d - 1)
		return fex{ex{s: a.e.at(pMul) + " / " + pick2(g.r, "2.0", "4.0"), p: pMul}, false}
	case 5:
		a := g.floatExpr(d-1, pure)
		return fex{ex{s: "-" + a.e.at(pPrefix), p: pPrefix}, a.base}
	case 6:
		a := g.floatExpr(d-1, pure)
		return fex{grp(a.e), a.base}
	}
	return g.floatExpr(d-1, pure)
}

func (g *gen) strExpr(d int) ex {
	words := []string{"a", "bc", "xyz", "hello", "w w", "Q", "k9"}
	if g.data {
		// text that the printer has to escape (written here the way the source spells it), non-ASCII, empty
		words = append(words, `q\"t`, `tab\tx`, `two\nl`, `b\\s`, "ä", "")
	}
	if g.lit && g.r.Chance(1, 2) {
		return ex{s: g.escStrLit(), p: pAtom}
	}
	if g.constOnly > 0 {
		return ex{s: `"` + words[g.r.Intn(len(words))] + `"`, p: pAtom}
	}
	if g.data && g.r.Chance(1, 5) {
		if e, ok := g.fieldRead("str"); ok {
			return e
		}
	}
	if d > 0 && g.r.Chance(1, 3) {
		return ex{s: g.strExpr(d-1).at(pAdd) + " + " + g.strExpr(d-1).at(pMul), p: pAdd}
	}
	if v := g.pickVar(func(v *gv) bool { return v.t == "str" }); v != nil && g.r.Bool() {
		return ex{s: v.name, p: pAtom}
	}
	return ex{s: `"` + words[g.r.Intn(len(words))] + `"`, p: pAtom}
}

func (g *gen) boolExpr(d int, pure bool) ex {
	if g.constOnly > 0 {
		return ex{s: pick2(g.r, "true", "false"), p: pAtom}
	}
	if g.data && g.r.Chance(1, 5) {
		if e, ok := g.fieldRead("bool"); ok {
			return e
		}
	}
	if d <= 0 {
		if v := g.pickVar(func(v *gv) bool { return v.t == "bool" }); v != nil && g.r.Bool() {
			return ex{s: v.name, p: pAtom}
		}
		return ex{s: pick2(g.r, "true", "false"), p: pAtom}
	}
	switch g.r.Intn(9) {
	case 0, 1, 2: // comparisons are reversed by the transformer: pure operands
		a, b := g.intExpr(d-1, true), g.intExpr(d-1, true)
		return ex{s: a.at(pShift) + " " + []string{"<", ">", "<=", ">="}[g.r.Intn(4)] + " " + b.at(pShift), p: pCmp}
	case 3:
		a, b := g.floatExpr(d-1, true), g.floatExpr(d-1, true)
		return ex{s: a.e.at(pShift) + " " + []string{"<", ">", "<=", ">="}[g.r.Intn(4)] + " " + b.e.at(pShift), p: pCmp}
	case 4, 5: // == and != keep their operand order: impure operands allowed
		a, b := g.intExpr(d-1, pure), g.intExpr(d-1, pure)
		return ex{s: a.at(pCmp) + " " + pick2(g.r, "==", "!=") + " " + b.at(pCmp), p: pEq}
	case 6:
		if l := g.pickVar(func(v *gv) bool { return v.t == "list" }); l != nil && g.r.Bool() {
			// == / != on lists (rewritten to !(a != b) / !(a == b))
			var el []string
			for i := 0; i < l.n; i++ {
				el = append(el, g.intExpr(0, true).s)
			}
			return ex{s: l.name + " " + pick2(g.r, "==", "!=") + " [" + strings.Join(el, ", ") + "]", p: pEq}
		}
		a, b := g.strExpr(d-1), g.strExpr(d-1)
		return ex{s: a.at(pCmp) + " " + pick2(g.r, "==", "!=") + " " + b.at(pCmp), p: pEq}
	case 7:
		a, b := g.boolExpr(d-1, pure), g.boolExpr(d-1, pure)
		if g.r.Bool() {
			return ex{s: a.at(pAnd) + " && " + b.at(pAnd+1), p: pAnd}
		}
		return ex{s: a.at(pOr) + " || " + b.at(pOr+1), p: pOr}
	default:
		a := g.boolExpr(d-1, pure)
		return ex{s: "!" + a.at(pPrefix), p: pPrefix}
	}
}

func (g *gen) pickFn(ret string, pure bool) *gfn {
	var c []*gfn
	for i := range g.fns {
		f := &g.fns[i]
		if f.ret == ret && (!pure || f.pure) {
			c = append(c, f)
		}
	}
	if len(c) == 0 {
		return nil
	}
	return c[g.r.Intn(len(c))]
}

func (g *gen) call(f *gfn, d int, pure bool) ex {
	var args []string
	for _, t := range f.params {
		// arguments stay pure: the VM evaluates arguments right to left (open finding of C01)
		args = append(args, g.exprOf(t, d-1, true).s)
	}
	return ex{s: f.name + "(" + strings.Join(args, ", ") + ")", p: pAtom}
}

func (g *gen) exprOf(t string, d int, pure bool) ex {
	switch t {
	case "small":
		return g.smallExpr()
	case "int":
		return g.intExpr(d, pure)
	case "float":
		return g.floatExpr(d, pure).e
	case "bool":
		return g.boolExpr(d, pure)
	default:
		if sh := g.shapeOf(t); sh != nil {
			return g.objExpr(sh, d, pure)
		}
		return g.strExpr(d)
	}
}

// ---------------------------------------------------------------------------------------------
// statements
// ---------------------------------------------------------------------------------------------

func (g *gen) printVar(v *gv) {
	g.emit(`println("%s", %s);`, v.name, v.name)
}

func (g *gen) letStmt(d int) {
	switch g.r.Intn(12) {
	case 0, 1, 2, 3:
		e := g.intExpr(d, false)
		name := g.fresh("int")
		g.emit("let %s = %s;", name, e.s)
		g.printVar(g.declare(&gv{name: name, t: "int"}))
	case 4:
		n := g.r.Intn(13)
		name := g.fresh("int")
		g.emit("let %s = %d;", name, n)
		g.declare(&gv{name: name, t: "int", small: true, ro: true})
	case 5:
		name := g.fresh("int")
		g.emit("let %s = %d;", name, g.r.Intn(1000))
		g.declare(&gv{name: name, t: "int", nn: true, ro: true})
	case 6, 7:
		e := g.floatExpr(d, false)
		name := g.fresh("float")
		g.emit("let %s = %s;", name, e.e.s)
		g.printVar(g.declare(&gv{name: name, t: "float", ro: true}))
	case 8:
		e := g.floatLit()
		name := g.fresh("float")
		g.emit("let %s = %s;", name, e.e.s)
		g.declare(&gv{name: name, t: "float", fbase: true, ro: true})
	case 9:
		e := g.boolExpr(d, false)
		name := g.fresh("bool")
		g.emit("let %s = %s;", name, e.s)
		g.printVar(g.declare(&gv{name: name, t: "bool"}))
	case 10:
		e := g.strExpr(d)
		name := g.fresh("str")
		g.emit("let %s = %s;", name, e.s)
		g.printVar(g.declare(&gv{name: name, t: "str"}))
	default:
		n := 1 + g.r.Intn(4)
		var el []string
		for i := 0; i < n; i++ {
			el = append(el, g.intExpr(1, true).s)
		}
		name := g.fresh("list")
		g.emit("let %s = [%s];", name, strings.Join(el, ", "))
		g.printVar(g.declare(&gv{name: name, t: "list", n: n, ro: true}))
	}
}

func (g *gen) assignStmt(d int) {
	v := g.pickVar(func(v *gv) bool { return !v.ro && (v.t == "int" || v.t == "bool" || v.t == "str") })
	if v == nil {
		g.letStmt(d)
		return
	}
	switch v.t {
	case "int":
		op := []string{"=", "+=", "-=", "*="}[g.r.Intn(4)]
		e := g.intExpr(d, false)
		if op == "*=" {
			e = g.smallExpr()
		}
		g.emit("%s %s %s;", v.name, op, e.s)
	case "bool":
		g.emit("%s = %s;", v.name, g.boolExpr(d, false).s)
	default:
		// only literals on the right: `s = s + s` in nested loops is an output bomb
		rhs := `"` + []string{"a", "bc", "xyz", "Q"}[g.r.Intn(4)] + `"`
		if g.r.Bool() {
			rhs += ` + "` + []string{"d", "ef", "k9"}[g.r.Intn(3)] + `"`
		}
		g.emit("%s %s %s;", v.name, pick2(g.r, "=", "+="), rhs)
	}
	g.printVar(v)
}

// loopBody: the body of a loop whose counter / iteration variable is ctr.
func (g *gen) loopBody(ctr string, n, d int) {
	g.inLoop++
	g.ctrs = append(g.ctrs, ctr)
	g.body(n, d)
	g.ctrs = g.ctrs[:len(g.ctrs)-1]
	g.inLoop--
}

func (g *gen) body(n, d int) {
	g.ind++
	g.push()
	for i := 0; i < n; i++ {
		g.stmt(d)
	}
	g.pop()
	g.ind--
}

// cond: a condition for an exit or one of its carriers. Inside a loop it mostly depends on the
// innermost loop's counter, so that over the iterations both outcomes occur: an exit that is never
// taken (or always taken in the first iteration) would hide a captured break/continue.
func (g *gen) cond() string {
	if n := len(g.ctrs); n > 0 && g.r.Chance(3, 4) {
		v := g.ctrs[n-1]
		if n > 1 && g.r.Chance(1, 5) {
			v = g.ctrs[n-2]
		}
		k := g.r.Intn(4)
		switch g.r.Intn(6) {
		case 0:
			return fmt.Sprintf("%s == %d", v, k)
		case 1:
			return fmt.Sprintf("%s != %d", v, k)
		case 2:
			return fmt.Sprintf("%s > %d", v, k)
		case 3:
			return fmt.Sprintf("%s <= %d", v, k)
		case 4:
			return fmt.Sprintf("%s %% 2 == %d", v, k%2)
		default:
			return fmt.Sprintf("%s >= %d && %s", v, k, g.boolExpr(1, true).at(pAnd+1))
		}
	}
	return g.boolExpr(1, true).s
}

// exitStmt emits a (mostly conditional) exit appropriate to the context: break/continue in loops,
// return in functions. The exit keyword sits inside a randomly chosen tower of carrier constructs
// (see exitIn): the transformer's loop wrappers (`while count_once < 1 {..}`, `for _i in 0..1 {..}`)
// may be applied to a statement only if no break/continue can be reached in it without crossing a
// loop, whatever the constructs in between are.
func (g *gen) exitStmt() {
	if g.noExit > 0 {
		g.emit(`println("noexit", %s);`, g.boolExpr(1, true).s)
		return
	}
	leaf := ""
	switch {
	case g.inLoop > 0 && g.r.Chance(11, 12):
		leaf = pick2(g.r, "break", "continue")
	case g.inFn && g.ret != "" && g.ret != "-":
		leaf = "return " + g.exprOf(g.ret, 1, true).s
	case g.inFn && g.ret == "" && g.f.bareReturn:
		leaf = "return"
	case g.inLoop > 0:
		leaf = pick2(g.r, "break", "continue")
	default:
		g.emit(`println("noexit", %s);`, g.boolExpr(1, true).s)
		return
	}
	depth := 0
	switch g.r.Intn(8) {
	case 0, 1, 2:
		depth = 1
	case 3, 4:
		depth = 2
	case 5:
		depth = 3
	}
	if g.focus == "loopctl" && depth == 0 && g.r.Bool() {
		depth = 1 + g.r.Intn(2)
	}
	g.exitIn(depth, false, false, leaf)
	if g.inLoop > 0 {
		// what a captured break/continue would wrongly reach
		g.emit(`println("post");`)
	}
}

// semi: a carrier that is the last element of its block is sometimes its tail expression.
func (g *gen) semi(last bool) string {
	if last && g.r.Chance(1, 3) {
		return ""
	}
	return ";"
}

// exitIn emits one statement that contains `leaf` (break / continue / return ..) below d nested
// carrier constructs. guarded: an enclosing carrier already makes the exit conditional. last: the
// statement is the last element of the enclosing block (it may then be a tail expression).
//
// Carriers: if (then / else / else-if branch), block statement, try block, catch block, both blocks
// of a try, match arm (default arm included), and value blocks in every expression position the transformer
// passes through unchanged or rebuilds (call argument, assignment and compound assignment, list
// element, index, cast operand, prefix operand, right operand of `/`, let initialiser).
//
// Deliberately NOT generated (genuine defects of the unchanged transformer, see the final report
// of the strengthening round / FINDINGS.md §9-§11):
//   - break/continue inside a while CONDITION block (repaired in /repo, kept as a pinned witness in
//     known_findings.txt only: such conditions easily make the ORIGINAL loop forever);
//   - a diverging branch in value position (`let x = if c { continue; } else { 1 };`): the branch's
//     exit is rewrapped into a null-typed statement (same root cause as KF-c20-final-diverge).
func (g *gen) exitIn(d int, guarded, last bool, leaf string) {
	if d <= 0 {
		if guarded && g.r.Chance(1, 3) {
			g.emit("%s;", leaf)
			return
		}
		g.emit("if %s { %s; }%s", g.cond(), leaf, g.semi(last))
		return
	}
	in := func(f func()) {
		g.ind++
		g.push()
		f()
		g.pop()
		g.ind--
	}
	say := func(what string) { g.emit(`println("%s");`, what) }
	switch g.r.Intn(12) {
	case 0, 1: // then branch
		g.emit("if %s {", g.cond())
		in(func() {
			say("exit-then")
			g.exitIn(d-1, true, true, leaf)
		})
		if g.r.Chance(1, 3) {
			g.emit("} else {")
			in(func() { say("exit-not") })
		}
		g.emit("}%s", g.semi(last))
	case 2: // else branch
		g.emit("if %s {", g.cond())
		in(func() { say("stay") })
		g.emit("} else {")
		in(func() {
			if g.r.Bool() {
				say("exit-else")
			}
			g.exitIn(d-1, true, true, leaf)
		})
		g.emit("}%s", g.semi(last))
	case 3: // else-if branch
		g.emit("if %s {", g.cond())
		in(func() { say("stay") })
		g.emit("} else if %s {", g.cond())
		in(func() { g.exitIn(d-1, true, true, leaf) })
		if g.r.Bool() {
			g.emit("} else {")
			in(func() { say("stay-else") })
		}
		g.emit("}%s", g.semi(last))
	case 4: // block statement
		g.emit("{")
		in(func() {
			if g.r.Bool() {
				say("blk")
			}
			tail := g.r.Bool()
			g.exitIn(d-1, guarded, tail, leaf)
			if !tail {
				say("blk-rest")
			}
		})
		g.emit("}%s", g.semi(last))
	case 5, 6: // try block (the catch block has no exit)
		g.emit("try {")
		in(func() {
			say("try")
			if g.r.Chance(1, 3) {
				g.emit(`if %s { throw("t%d"); };`, g.cond(), g.r.Intn(9))
			}
			tail := g.r.Bool()
			g.exitIn(d-1, guarded, tail, leaf)
			if !tail {
				say("try-rest")
			}
		})
		g.emit("} catch e {")
		in(func() { g.emit(`println("caught", e.message);`) })
		g.emit("}%s", g.semi(last))
	case 7: // catch block (the try block has no exit)
		always := g.r.Bool()
		g.emit("try {")
		in(func() {
			say("try")
			if always {
				g.emit(`throw("c%d");`, g.r.Intn(9))
			} else {
				g.emit(`if %s { throw("c%d"); };`, g.cond(), g.r.Intn(9))
				say("try-rest")
			}
		})
		g.emit("} catch e {")
		in(func() {
			g.emit(`println("caught", e.message);`)
			g.exitIn(d-1, guarded || !always, true, leaf)
		})
		g.emit("}%s", g.semi(last))
	case 8: // both blocks of a try
		g.emit("try {")
		in(func() {
			g.emit(`if %s { throw("b%d"); };`, g.cond(), g.r.Intn(9))
			g.exitIn(d-1, guarded, false, leaf)
			say("try-rest")
		})
		g.emit("} catch e {")
		in(func() {
			g.emit(`println("caught", e.message);`)
			g.exitIn(d-1, true, true, leaf)
		})
		g.emit("}%s", g.semi(last))
	case 9: // match arm (arm == k: the default arm)
		ctl := g.intExpr(1, true)
		k := 2 + g.r.Intn(3)
		arm := g.r.Intn(k + 1)
		g.emit("match (%s) %% %d {", ctl.s, k)
		g.ind++
		for a := 0; a < k; a++ {
			if a == arm {
				g.emit("%d => {", a)
				in(func() {
					if g.r.Bool() {
						say("arm-exit")
					}
					g.exitIn(d-1, true, true, leaf)
				})
				g.emit("},")
			} else if g.r.Chance(2, 3) {
				g.emit(`%d => println("arm%d"),`, a, a)
			}
		}
		if arm == k {
			g.emit("_ => {")
			in(func() {
				if g.r.Bool() {
					say("default-arm-exit")
				}
				g.exitIn(d-1, true, true, leaf)
			})
			g.emit("},")
		} else if g.r.Chance(2, 3) {
			g.emit(`_ => println("arm-other"),`)
		}
		g.ind--
		g.emit("}%s", g.semi(last))
	default: // a value block in expression position
		g.exitInValue(d, leaf)
	}
}

// exitInValue: the exit sits in the statements of a block whose value is used by an expression.
func (g *gen) exitInValue(d int, leaf string) {
	open, close := "", ""
	val := fmt.Sprint(1 + g.r.Intn(9))
	after := ""
	nk := 10
	if g.data {
		nk = 14
	}
	switch g.r.Intn(nk) {
	case 10, 11, 12, 13: // the value of an object field (the name is of any lexical class)
		sh := g.newShape(0)
		k := g.r.Intn(len(sh.fields))
		var fs []string
		for i, f := range sh.fields {
			if i == k {
				break
			}
			fs = append(fs, g.keySrc(f)+": "+g.fieldValue(f, 1, true)+", ")
		}
		open, close = `println("fld", new { `+strings.Join(fs, "")+g.keySrc(sh.fields[k])+": {", "} });"
	case 0:
		open, close = `println("arg", {`, `});`
	case 1:
		open, close = `println("targ", tick({`, `}));`
	case 2, 3:
		if v := g.pickVar(func(v *gv) bool { return !v.ro && v.t == "int" }); v != nil {
			open, close = v.name+" "+pick2(g.r, "=", "+=")+" {", "};"
			after = fmt.Sprintf(`println("%s", %s);`, v.name, v.name)
		}
	case 4:
		open, close = `println("el", [{`, fmt.Sprintf(`}, %d]);`, g.r.Intn(50))
	case 5:
		if l := g.pickVar(func(v *gv) bool { return v.t == "list" && v.n > 0 }); l != nil {
			open, close = `println("ix", `+l.name+"[{", "}]);"
			val = fmt.Sprint(g.r.Intn(l.n))
		}
	case 6:
		open, close = `println("cast", {`, `} as float);`
	case 7:
		open, close = `println("neg", -({`, `}));`
	case 8:
		open, close = fmt.Sprintf(`println("quot", %d / {`, 100+g.r.Intn(900)), `});`
	}
	letName := ""
	if open == "" {
		letName = g.fresh("int")
		open, close = "let "+letName+" = {", "};"
		after = fmt.Sprintf(`println("%s", %s);`, letName, letName)
	}
	g.emit("%s", open)
	g.ind++
	g.push()
	// the statement must not diverge unconditionally: the block would be typed `never`, and a let
	// bound to it is printed as `let v: never = ..`, which does not parse (printer defect, C19)
	g.exitIn(d-1, false, false, leaf)
	g.emit("%s", val)
	g.pop()
	g.ind--
	g.emit("%s", close)
	if letName != "" {
		g.declare(&gv{name: letName, t: "int"})
	}
	if after != "" {
		g.emit("%s", after)
	}
}

func (g *gen) stmt(d int) {
	g.budget--
	if g.budget < 0 || d <= 0 {
		if g.r.Bool() {
			g.letStmt(1)
		} else {
			g.assignStmt(1)
		}
		return
	}
	if g.data && g.r.Chance(1, 4) {
		g.objStmt(d)
		return
	}
	k := g.r.Intn(20)
	if g.focus == "loopctl" {
		switch {
		case g.inLoop > 0 && g.noExit == 0 && g.r.Chance(2, 5):
			k = 13
		case g.inLoop == 0 && g.r.Chance(1, 3):
			k = 9 + g.r.Intn(4)
		case g.inLoop > 0 && g.r.Chance(1, 8):
			k = 18
		}
	}
	switch k {
	case 0, 1, 2, 3, 4:
		g.letStmt(2)
	case 5, 6, 7:
		g.assignStmt(2)
	case 8: // if / else if / else
		g.emit("if %s {", g.boolExpr(2, false).s)
		g.body(1+g.r.Intn(3), d-1)
		if g.r.Chance(1, 4) {
			g.emit("} else if %s {", g.boolExpr(2, false).s)
			g.body(1+g.r.Intn(2), d-1)
		}
		if g.r.Bool() {
			g.emit("} else {")
			g.body(1+g.r.Intn(2), d-1)
		}
		g.emit("};")
	case 9: // counted while
		name := g.fresh("int")
		g.emit("let %s = 0;", name)
		g.declare(&gv{name: name, t: "int", ro: true})
		g.emit("while %s < %d {", name, 1+g.r.Intn(5))
		g.ind++
		g.emit("%s += 1;", name)
		g.ind--
		g.loopBody(name, 1+g.r.Intn(3), d-1)
		g.emit("}")
	case 10: // loop with break
		name := g.fresh("int")
		g.emit("let %s = 0;", name)
		g.declare(&gv{name: name, t: "int", ro: true})
		g.emit("loop {")
		g.ind++
		g.emit("%s += 1;", name)
		g.emit("if %s > %d {", name, 1+g.r.Intn(4))
		g.emit("    break;")
		g.emit("};")
		g.ind--
		g.loopBody(name, 1+g.r.Intn(3), d-1)
		g.emit("}")
	case 11: // for over a range
		name := g.fresh("int")
		hi := 1 + g.r.Intn(5)
		incl := ""
		if g.r.Chance(1, 4) {
			incl = "="
		}
		g.emit("for %s in 0..%s%d {", name, incl, hi)
		g.push()
		g.declare(&gv{name: name, t: "int", small: true, ro: true})
		g.loopBody(name, 1+g.r.Intn(3), d-1)
		g.pop()
		g.emit("}")
	case 12: // for over a list
		if l := g.pickVar(func(v *gv) bool { return v.t == "list" }); l != nil {
			name := g.fresh("int")
			g.emit("for %s in %s {", name, l.name)
			g.push()
			g.declare(&gv{name: name, t: "int", ro: true})
			g.loopBody(name, 1+g.r.Intn(2), d-1)
			g.pop()
			g.emit("}")
		} else {
			g.letStmt(2)
		}
	case 13, 14:
		g.exitStmt()
	case 15: // call statement
		if f := g.pickFn("", false); f != nil {
			g.emit("%s;", g.call(f, 2, false).s)
		} else {
			g.emit(`println("t", %s);`, g.intExpr(2, false).s)
		}
	case 16: // block statement
		g.emit("{")
		g.body(1+g.r.Intn(2), d-1)
		g.emit("};")
	case 17: // value of an if / block bound to a variable
		name := g.fresh("int")
		c := g.boolExpr(2, false)
		g.noExit++
		g.emit("let %s = if %s {", name, c.s)
		g.body(g.r.Intn(2), d-1)
		g.emit("    %s", g.intExpr(1, false).s)
		g.emit("} else {")
		g.body(g.r.Intn(2), d-1)
		g.emit("    %s", g.intExpr(1, false).s)
		g.emit("};")
		g.noExit--
		g.printVar(g.declare(&gv{name: name, t: "int"}))
	case 18: // try / catch in the same function; both blocks are general bodies (exits included)
		g.emit("try {")
		g.ind++
		g.emit(`println("try");`)
		g.ind--
		if n := g.r.Intn(3); n > 0 {
			g.body(n, d-1)
		}
		g.ind++
		switch g.r.Intn(4) {
		case 0, 1:
			g.emit(`throw("boom%d");`, g.r.Intn(9))
		case 2:
			g.emit(`if %s { throw("boom%d"); };`, g.boolExpr(1, true).s, g.r.Intn(9))
			g.emit(`println("try-end");`)
		}
		g.ind--
		g.emit("} catch e {")
		g.emit(`    println("caught", e.message);`)
		if n := g.r.Intn(3); n > 0 {
			g.body(n, d-1)
		}
		g.emit("};")
	default:
		g.emit(`println("p", %s, %s);`, g.intExpr(2, false).s, g.boolExpr(1, false).s)
	}
}

// ---------------------------------------------------------------------------------------------
// functions and programs
// ---------------------------------------------------------------------------------------------

func (g *gen) function(idx int) {
	ret := []string{"int", "int", "float", "bool", "", ""}[g.r.Intn(6)]
	np := g.r.Intn(3)
	f := gfn{name: fmt.Sprintf("fn%d", idx), ret: ret, pure: false}
	var ps []string
	g.push()
	for i := 0; i < np; i++ {
		t := []string{"int", "int", "float", "bool"}[g.r.Intn(4)]
		f.params = append(f.params, t)
		name := fmt.Sprintf("p%d_%d", idx, i)
		ps = append(ps, name+": "+t)
		g.declare(&gv{name: name, t: t, ro: true})
	}
	if g.data && g.r.Chance(1, 3) {
		sh := g.anyShape()
		f.params = append(f.params, objT(sh))
		name := fmt.Sprintf("p%d_o", idx)
		ps = append(ps, name+": "+g.typeText(sh))
		g.declare(&gv{name: name, t: "obj", sh: sh, ro: g.r.Bool()})
	}
	sig := fmt.Sprintf("fn %s(%s)", f.name, strings.Join(ps, ", "))
	if ret != "" {
		sig += " -> " + ret
	}
	g.emit("%s {", sig)
	g.inFn, g.ret = true, ret
	g.ind++
	g.emit(`println("%s");`, f.name)
	g.push()
	n := 1 + g.r.Intn(4)
	for i := 0; i < n; i++ {
		g.stmt(2)
	}
	if ret != "" {
		val := g.exprOf(ret, 2, false).s
		switch {
		case g.f.finalDiverge && (g.force == TagFinalDiverge || g.r.Chance(1, 3)):
			k := g.r.Intn(3)
			if k == 2 && g.force != TagFinalDiverge {
				// a final diverging `loop` is only typed as diverging if no never-typed expression
				// (throw(..), a block ending in return) was analysed before it anywhere in the module
				// (analyzer state leak, reported to C03): only the poisoned workload uses it
				k = 0
			}
			switch k {
			case 0:
				g.emit("return %s;", val)
			case 1:
				g.emit("if %s {", g.boolExpr(1, true).s)
				g.emit("    return %s;", val)
				g.emit("} else {")
				g.emit("    return %s;", g.exprOf(ret, 1, true).s)
				g.emit("}")
			default:
				g.emit("let fin%d = 0;", idx)
				g.emit("loop {")
				g.emit("    fin%d += 1;", idx)
				g.emit("    if fin%d > 1 {", idx)
				g.emit("        return %s;", val)
				g.emit("    };")
				g.emit("}")
			}
		default:
			g.emit("%s", val)
		}
	}
	g.pop()
	g.ind--
	g.inFn, g.ret = false, "-"
	g.emit("}")
	g.emit("")
	g.pop()
	g.fns = append(g.fns, f)
}

// Source generates the program text.
func (s *GenSpec) Source() string {
	f, force := features(s.Mode)
	g := &gen{r: fw.NewRng(s.Seed), f: f, force: force, focus: s.Focus, ret: "-", budget: 4 * s.Size, data: s.Data, lit: s.Lit}
	if f.identCapture {
		g.capPool = []string{"mul_count", "count_once", "_i", "lhs_init", "mul_res"}
		// shuffle deterministically
		for i := len(g.capPool) - 1; i > 0; i-- {
			j := g.r.Intn(i + 1)
			g.capPool[i], g.capPool[j] = g.capPool[j], g.capPool[i]
		}
	}
	g.push()
	useTrigger := f.trigger && (force == TagTrigger || g.r.Chance(1, 8))
	if useTrigger {
		g.emit("import trigger minute from triggers;")
		g.emit("")
	}
	if g.data {
		g.objPrelude()
	}
	// globals: constant initialisers only (the analyzer demands it); they are shuffled
	ng := g.r.Intn(4)
	for i := 0; i < ng; i++ {
		name := fmt.Sprintf("g%d", i)
		switch g.r.Intn(4) {
		case 0:
			n := g.r.Intn(13)
			g.emit("let %s = %d;", name, n)
			g.declare(&gv{name: name, t: "int", small: true, ro: true})
		case 1:
			g.emit("let %s = %s;", name, pick2(g.r, "(3 + 4) * 2", "100 - 1"))
			g.declare(&gv{name: name, t: "int", ro: true})
		case 2:
			g.emit("let %s = %s;", name, g.floatLit().e.s)
			g.declare(&gv{name: name, t: "float", fbase: true, ro: true})
		default:
			g.emit("let %s = %s;", name, fw.Pick(g.r, []string{"true", "false", "6 * 7 > 40", "3 * 4 <= 12", "2 * 5 >= 11", "9 < 2 * 4"}))
			g.declare(&gv{name: name, t: "bool", ro: true})
		}
	}
	g.emit("")
	// the impure helper: a call is observable, so any reordering or duplication of it shows
	g.emit("fn tick(n: int) -> int {")
	g.emit(`    println("tick", n);`)
	g.emit("    n")
	g.emit("}")
	g.emit("")
	if g.r.Chance(1, 3) {
		g.emit("fn rec(n: int) -> int {")
		g.emit("    if n <= 0 {")
		g.emit("        0")
		g.emit("    } else {")
		g.emit("        n + rec(n - 1)")
		g.emit("    }")
		g.emit("}")
		g.emit("")
		g.fns = append(g.fns, gfn{name: "rec", params: []string{"small"}, ret: "int", pure: true})
	}
	if useTrigger {
		g.emit("event fn on_minute(elapsed: int) {")
		g.emit(`    println("minute", elapsed);`)
		g.emit("}")
		g.emit("")
	}
	if g.data {
		g.objFunctions()
	}
	if g.lit {
		g.litFunctions()
	}
	nf := 1 + g.r.Intn(3)
	for i := 0; i < nf; i++ {
		g.function(i)
	}
	g.emit("fn main() {")
	g.ind++
	g.push()
	g.emit(`println("start");`)
	if useTrigger {
		g.emit("trigger on_minute on minute(%d);", 1+g.r.Intn(9))
	}
	if g.lit {
		g.litPrelude()
	}
	for i := 0; i < s.Size; i++ {
		g.stmt(3)
	}
	g.forced()
	// final dump of everything visible
	for _, v := range g.vars(func(v *gv) bool { return true }) {
		g.printVar(v)
	}
	if g.r.Chance(1, 25) {
		g.emit(`throw("final");`)
	}
	g.pop()
	g.ind--
	g.emit("}")
	g.pop()
	return strings.Join(g.lines, "\n") + "\n"
}

// forced appends the construct a poisoned workload is about (so that every case carries it).
func (g *gen) forced() {
	switch g.force {
	case TagLitTodo:
		switch g.r.Intn(4) {
		case 0:
			g.emit("let opt: ?int = none;")
		case 1:
			g.emit("let nu = null;")
		case 2:
			g.emit("let ao = new { ? };")
		default:
			g.emit("let opt: ?int = none;")
			g.emit(`println("isnone", opt == none);`)
		}
	case TagBareReturn:
		g.emit("if %s {", g.boolExpr(1, true).s)
		g.emit(`    println("leave");`)
		g.emit("    return;")
		g.emit("};")
	case TagIdentCapture:
		for len(g.capPool) > 2 {
			name := g.fresh("int")
			g.emit("let %s = %d;", name, 2+g.r.Intn(9))
			g.declare(&gv{name: name, t: "int", small: true, ro: true})
		}
		a := g.pickVar(func(v *gv) bool { return generatedNames[v.name] })
		if a != nil {
			g.emit("let cap = %d * %s;", 1+g.r.Intn(9), a.name)
			g.emit(`println("cap", cap, %s);`, a.name)
		}
	case TagMulLhsDivMod:
		g.emit("let dm = %d %s %d * %d;", 5+g.r.Intn(90), pick2(g.r, "/", "%"), 2+g.r.Intn(5), 2+g.r.Intn(9))
		g.emit(`println("dm", dm);`)
	case TagMulLhsWide:
		g.emit("let wl = (0 - %d) * %d;", 1+g.r.Intn(90), 1+g.r.Intn(11))
		g.emit(`println("wl", wl);`)
	case TagAddSubPow:
		g.emit("let ap = %d %s %d ** 2;", g.r.Intn(90), pick2(g.r, "-", "+"), 1+g.r.Intn(9))
		g.emit(`println("ap", ap);`)
	}
}

// genCases builds the generated part of the workload.
func genCases(tier string, seed uint64) []fw.Case {
	nMain, nFocus, nData, nPoison, nSeeds, nLit := 260, 40, 70, 24, 8, 48
	passes := []int{1, 2, 3}
	if tier == "thorough" {
		nMain, nFocus, nData, nPoison, nSeeds, nLit = 1500, 240, 300, 60, 24, 200
		passes = []int{1, 2, 3, 5}
	}
	r := fw.NewRng(seed ^ 0xC20)
	var cases []fw.Case
	mk := func(id, kind, mode, focus string, wantTag string) {
		for try := 0; try < 50; try++ {
			spec := GenSpec{Seed: r.Next(), Size: 5 + r.Intn(12), Mode: mode, Focus: focus}
			if focus == "data" {
				spec.Focus, spec.Data = "", true
				spec.Size = 4 + r.Intn(9)
			} else if focus == "lit" {
				spec.Focus, spec.Data, spec.Lit = "", true, true
				spec.Size = 3 + r.Intn(7)
			} else if focus != "" {
				spec.Size = 3 + r.Intn(6)
			}
			src := spec.Source()
			tags, ok := ConstructTags(map[string]string{"main": src})
			if !ok && wantTag != "" {
				continue // poisoned constructs may hit analyzer quirks; the main workload must not
			}
			if !ok {
				// surfaces as generator-program-rejected in the worker
				cases = append(cases, fw.MkCase(id, kind, Payload{Gen: &spec, Seeds: seedList(0, nSeeds), Passes: passes}))
				return
			}
			if wantTag == "" {
				// main workload: no construct poisoned by an open finding (post-filter; the generator
				// avoids them by construction, the tagger double-checks on the real analysed tree)
				poisoned := false
				for _, t := range tags {
					if fw.KFOpen(kfOf[t]) {
						poisoned = true
					}
				}
				if poisoned {
					continue
				}
			} else {
				has, other := false, false
				for _, t := range tags {
					if t == wantTag {
						has = true
					} else if fw.KFOpen(kfOf[t]) {
						other = true
					}
				}
				if !has || other {
					continue
				}
			}
			// transformer seeds: a window that moves with the case so that many seeds are seen
			cases = append(cases, fw.MkCase(id, kind, Payload{Gen: &spec, Seeds: seedList(int(spec.Seed%1000), nSeeds), Passes: passes}, tags...))
			return
		}
	}
	for i := 0; i < nMain; i++ {
		mk(fmt.Sprintf("c20-gen-%d", i), "gen", "main", "", "")
	}
	// the loop-control population: loops whose bodies carry exits below every kind of carrier
	for i := 0; i < nFocus; i++ {
		mk(fmt.Sprintf("c20-loopctl-%d", i), "gen", "main", "loopctl", "")
	}
	for _, t := range allTags {
		if !fw.KFOpen(kfOf[t]) {
			continue // not poisoned: the construct is part of the main workload
		}
		for i := 0; i < nPoison; i++ {
			mk(fmt.Sprintf("c20-%s-%d", t, i), "gen-poisoned", "poison:"+t, "", t)
		}
	}
	// the data population: the general mix plus object values, field names of every lexical class and
	// types in every printed position (gen_obj.go). Generated after the older populations, from its own
	// random stream, so that those stay what they were.
	r = fw.NewRng(seed ^ 0xDA7A20)
	for i := 0; i < nData; i++ {
		mk(fmt.Sprintf("c20-data-%d", i), "gen", "main", "data", "")
	}
	// the literal population (lit.go): the data mix plus integer literals of every magnitude the
	// property admits and strings / field names written with every class of escape sequence. Own
	// random stream, generated last, so that the older populations stay what they were.
	r = fw.NewRng(seed ^ 0x11720)
	for i := 0; i < nLit; i++ {
		mk(fmt.Sprintf("c20-lit-%d", i), "gen", "main", "lit", "")
	}
	return cases
}
