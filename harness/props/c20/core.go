package c20

import (
	"context"
	"fmt"
	"os"
	"regexp"
	"runtime"
	"strings"
	"sync"
	"sync/atomic"
	"time"

	"github.com/smarthome-go/homescript/v3/homescript/analyzer/ast"
	"github.com/smarthome-go/homescript/v3/homescript/fuzzer"
	hruntime "github.com/smarthome-go/homescript/v3/homescript/runtime"

	"hv/drive"
	"hv/util"
)

// vmLimits are the limits cmd/testing_run.go uses for fuzz generation and validation.
var vmLimits = hruntime.CoreLimits{CallStackMaxSize: 2048, StackMaxSize: 500, MaxMemorySize: 100 * 1000}

// pollCtx is a context that cancels itself at an exact poll index: the VM polls Done() once per
// 50 instructions per core, so a run is bounded by executed instructions, not by wall-clock time.
type pollCtx struct {
	n     atomic.Int64
	limit int64
	ch    chan struct{}
	once  sync.Once
}

func newPollCtx(steps int64) *pollCtx {
	l := steps / 50
	if l < 1 {
		l = 1
	}
	return &pollCtx{limit: l, ch: make(chan struct{})}
}
func (c *pollCtx) Deadline() (time.Time, bool) { return time.Time{}, false }
func (c *pollCtx) Done() <-chan struct{} {
	if c.n.Add(1) >= c.limit {
		c.once.Do(func() { close(c.ch) })
	}
	return c.ch
}
func (c *pollCtx) Err() error {
	select {
	case <-c.ch:
		return context.Canceled
	default:
		return nil
	}
}
func (c *pollCtx) Value(any) any { return nil }

// runObs is what one VM execution showed.
type runObs struct {
	Effects string
	Outcome drive.Outcome
	Steps   int64
	Budget  bool // the instruction budget was used up (run cancelled by the poll context)
}

func (r runObs) outcomeKey() string {
	o := r.Outcome
	switch o.Class {
	case "ok":
		return "ok"
	case "fatal":
		if o.Kind == "UncaughtThrow" {
			return "fatal/UncaughtThrow:" + o.Message
		}
		return "fatal/" + o.Kind
	}
	return o.Class + "/" + o.Kind
}

// stage markers let OnCrash tell which execution killed the worker.
func stage(format string, a ...any) {
	fmt.Fprintf(os.Stderr, "c20-stage "+format+"\n", a...)
}

// runVM compiles and runs main on the VM with an effect-logging host. It does not use the verif
// hooks (which are process-global), so several runs may proceed concurrently in one worker: the
// VM's Wait() sleeps 5 ms per run, which would otherwise dominate the cost of a check.
func runVM(mods map[string]ast.AnalyzedProgram, src drive.Sources, budget int64) runObs {
	prog, err := drive.Compile(mods, "main")
	if err != nil {
		return runObs{Outcome: drive.Outcome{Class: "compile-error", Message: err.Error()}}
	}
	log := &drive.Log{}
	exec := drive.VMExec{L: log, Src: src}
	pc := newPollCtx(budget)
	var ctx context.Context = pc
	var cf context.CancelFunc = func() {}
	vm := hruntime.NewVM(prog, exec, &ctx, &cf, exec.VMScope(), vmLimits)
	vm.SpawnAsync(hruntime.MainFn(), nil, nil, nil)
	_, i := vm.Wait()
	ro := runObs{Effects: log.Render(), Outcome: drive.VMOutcome(i), Steps: pc.n.Load() * 50}
	if ro.Outcome.Class == "terminate" {
		ro.Budget = true
	}
	return ro
}

// withEntry returns the source set with the entry module replaced.
func withEntry(src drive.Sources, text string) drive.Sources {
	out := drive.Sources{}
	for k, v := range src {
		out[k] = v
	}
	out["main"] = text
	return out
}

var (
	quotedRe = regexp.MustCompile("`[^`]*`|'[^']*'|\"[^\"]*\"")
	numRe    = regexp.MustCompile(`[0-9]+`)
)

// diagClass normalises an analyzer/parser message to its class (identifiers, types and numbers
// removed) for use in signatures.
func diagClass(msg string) string {
	msg = drive.FirstLine(msg)
	msg = quotedRe.ReplaceAllString(msg, "_")
	msg = numRe.ReplaceAllString(msg, "N")
	msg = strings.ToLower(strings.TrimSpace(msg))
	msg = strings.Join(strings.Fields(msg), "-")
	if len(msg) > 70 {
		msg = msg[:70]
	}
	return msg
}

// firstError renders the first error of an analysis and its class.
func firstError(ao drive.AnalyzeOut) (string, string) {
	if len(ao.Syntax) > 0 {
		s := ao.Syntax[0]
		return fmt.Sprintf("syntax %d:%d %s", s.Span.Start.Line, s.Span.Start.Column, s.Message), "syntax:" + diagClass(s.Message)
	}
	for _, d := range ao.Diags {
		if d.Level == 3 { // diagnostic.DiagnosticLevelError
			return fmt.Sprintf("error %d:%d %s", d.Span.Start.Line, d.Span.Start.Column, d.Message), diagClass(d.Message)
		}
	}
	return "", ""
}

// panicSite returns the innermost function of the fuzzer / ast packages on the panicking stack.
func panicSite() string {
	pcs := make([]uintptr, 64)
	n := runtime.Callers(3, pcs)
	frames := runtime.CallersFrames(pcs[:n])
	for {
		f, more := frames.Next()
		if strings.Contains(f.Function, "smarthome-go/homescript/v3/") {
			fn := f.Function
			if i := strings.LastIndex(fn, "/"); i >= 0 {
				fn = fn[i+1:]
			}
			return fn
		}
		if !more {
			break
		}
	}
	return "?"
}

// panicClass normalises a panic value.
func panicClass(v any) string {
	s := fmt.Sprint(v)
	if e, ok := v.(error); ok {
		s = e.Error()
	}
	s = util.NormPanic(s)
	s = strings.TrimPrefix(s, "runtime error: ")
	s = strings.Join(strings.Fields(s), "-")
	return s
}

// guarded runs f and converts a Go panic on this goroutine into (class, site).
func guarded(f func()) (pclass, psite, pmsg string) {
	defer func() {
		if r := recover(); r != nil {
			pclass, psite, pmsg = panicClass(r), panicSite(), fmt.Sprint(r)
		}
	}()
	f()
	return
}

// Variant is one produced variant of a chain.
type Variant struct {
	Seed int64
	Pass int
	Text string
	// failure of Transform/String themselves
	PanicClass, PanicSite, PanicMsg, PanicIn string
}

// Chain runs the transformer the way fuzzer.Generator does (one transformer per seed, the tree of
// pass i is the input of pass i+1) on a freshly analysed tree and returns the printed variants
// of the requested passes. A panic ends the chain.
func Chain(src drive.Sources, seed int64, passes []int) []Variant {
	ao := drive.Analyze(src, "main", true)
	if ao.Errors > 0 {
		return nil
	}
	tree := ao.Modules["main"]
	maxPass := 0
	want := map[int]bool{}
	for _, p := range passes {
		want[p] = true
		if p > maxPass {
			maxPass = p
		}
	}
	var out []Variant
	trans := fuzzer.NewTransformer(seed)
	for p := 1; p <= maxPass; p++ {
		pc, ps, pm := guarded(func() { tree = trans.Transform(tree) })
		if pc != "" {
			out = append(out, Variant{Seed: seed, Pass: p, PanicClass: pc, PanicSite: ps, PanicMsg: pm, PanicIn: "transform"})
			return out
		}
		if !want[p] {
			continue
		}
		v := Variant{Seed: seed, Pass: p}
		pc, ps, pm = guarded(func() { v.Text = tree.String() })
		if pc != "" {
			v.PanicClass, v.PanicSite, v.PanicMsg, v.PanicIn = pc, ps, pm, "print"
			out = append(out, v)
			return out
		}
		out = append(out, v)
		if len(v.Text) > maxVariantBytes {
			return out // size explosion: later passes are not explored (bounded workload)
		}
	}
	return out
}

const maxVariantBytes = 400_000
