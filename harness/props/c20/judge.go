package c20

import (
	"fmt"
	"strings"
	"sync"

	"hv/drive"
	"hv/util"
)

// Failure is one refuting event.
type Failure struct {
	Why    string
	Sig    string
	Detail any
}

// Judgement is the verdict material of one program.
type Judgement struct {
	Rejected   string // the original is not accepted by the analyzer (not in the class)
	OrigBudget bool   // the original does not finish within the instruction budget
	OrigCrash  string
	Baseline   string // non-empty: printing the untransformed tree already fails (printer defect, C19)
	Orig       runObs
	Failures   []Failure
	Evals      int64
	Variants   int64 // distinct variants executed
	Dups       int64
	Changed    int64 // variants whose text differs from the printed untransformed tree
	Cover      map[string]bool
}

// budgets (instructions). The original must finish within origBudget. A variant may legitimately be
// slower: every pass wraps each statement in a constant-size construct, and an unrolled
// multiplication runs its (small, by the class restriction) right operand many iterations. Rewrites
// never nest inside an unrolled multiplication (block expressions are not descended into), so the
// slowdown of an in-class program is a modest constant factor.
const origBudget = 3_000_000

func variantBudgetFor(origSteps int64) int64 {
	b := 40*origSteps + 2_000_000
	if b > 150_000_000 {
		b = 150_000_000
	}
	return b
}

func diffAt(a, b string) int {
	n := len(a)
	if len(b) < n {
		n = len(b)
	}
	for i := 0; i < n; i++ {
		if a[i] != b[i] {
			return i
		}
	}
	return n
}

// rewriteMarks lists the rewrites visible in a variant text (diagnostic aid, not a verdict).
func rewriteMarks(text string) []string {
	var out []string
	for _, m := range []struct{ needle, name string }{
		{"mul_res", "mul-unroll"}, {"count_once", "once-while"}, {"for _i in", "once-for"},
		{"if true {", "if-true"}, {"while {", "while-block-cond"}, {"while true", "loop-as-while"},
		{"!(", "negation"}, {"loop {", "loop"},
	} {
		if strings.Contains(text, m.needle) {
			out = append(out, m.name)
		}
	}
	return out
}

// Judge checks one program against the property for the given seeds and pass counts.
func Judge(src drive.Sources, seeds []int64, passes []int) Judgement {
	return JudgeProgram(src, seeds, passes, false)
}

// JudgeProgram: layoutFree says that the program's output is known not to depend on the layout of
// its source text or on the clock (true for generated programs: they print values and the messages
// of their own throws only; shipped programs may print spans of errors or the time).
//
// The baseline (print + reparse + run of the UNtransformed tree) separates what the printer does to
// the program from what the transformer does to it:
//   - the printed untransformed tree is REJECTED (or String() panics): every variant is printed by
//     the same printer, and the property demands that every variant is accepted. The variants are
//     judged as usual (they are the refuting events); the baseline's state is added to the
//     explanation.
//   - it is accepted but BEHAVES differently: for a layout-free program that is again the printer's
//     doing and the variants are judged as usual; for any other program the difference is
//     (as far as this monitor can tell) the program observing its own layout or the clock, the
//     comparison of outputs is meaningless and only panics of Transform are judged.
func JudgeProgram(src drive.Sources, seeds []int64, passes []int, layoutFree bool) Judgement {
	j := Judgement{Cover: map[string]bool{}}
	stage("orig")
	ao := drive.Analyze(src, "main", true)
	if ao.Errors > 0 {
		j.Rejected = ao.ErrorSummary()
		return j
	}
	j.Orig = runVM(ao.Modules, src, origBudget)
	if j.Orig.Budget {
		j.OrigBudget = true
		return j
	}
	if j.Orig.Outcome.Class == "compile-error" {
		j.OrigCrash = j.Orig.Outcome.Message
		return j
	}
	j.Cover["orig-outcome:"+j.Orig.Outcome.Class+"/"+j.Orig.Outcome.Kind] = true

	// baseline: print + reparse the UNtransformed tree. A failure here is a printer defect (C19).
	stage("baseline")
	var baseText string
	ao0 := drive.Analyze(src, "main", true)
	pc, ps, _ := guarded(func() { baseText = ao0.Modules["main"].String() })
	if pc != "" {
		j.Baseline = "print-panic:" + pc + ":" + ps
	} else {
		bsrc := withEntry(src, baseText)
		bao := drive.Analyze(bsrc, "main", true)
		if bao.Errors > 0 {
			msg, cls := firstError(bao)
			j.Baseline = "rejected:" + cls + " (" + msg + ")"
		} else {
			bro := runVM(bao.Modules, bsrc, origBudget*2)
			if bro.Budget || bro.Effects != j.Orig.Effects || bro.outcomeKey() != j.Orig.outcomeKey() {
				j.Baseline = "behaviour differs after print+reparse"
				if !layoutFree {
					j.panicsOnly(src, seeds, passes)
					return j
				}
			}
		}
	}
	baseNote := ""
	if j.Baseline != "" {
		baseNote = "; the printed UNtransformed tree fails alike (" + util.Clip(j.Baseline, 160) + "): the fault is in what the printer emits for this program, every variant inherits it"
	}

	// phase 1 (sequential, deterministic): produce the chains and drop duplicate texts
	type job struct {
		v        Variant
		rejected bool
		errMsg   string
		errCls   string
		errAll   string
		ro       runObs
	}
	var jobs []*job
	seen := map[string]bool{}
	if j.Baseline == "" {
		seen[baseText] = true // a variant that is the printed original again shows nothing new
	}
	for _, seed := range seeds {
		stage("chain seed=%d", seed)
		for _, v := range Chain(src, seed, passes) {
			j.Evals++
			tag := fmt.Sprintf("seed=%d pass=%d", v.Seed, v.Pass)
			if v.PanicClass != "" {
				what := "Transform"
				sig := "transform-panic:" + v.PanicClass + ":" + v.PanicSite
				if v.PanicIn == "print" {
					what = "String() of the transformed tree"
					sig = "print-panic:" + v.PanicClass + ":" + v.PanicSite
				}
				j.Failures = append(j.Failures, Failure{
					Why:    fmt.Sprintf("%s panicked (%s) in %s [%s]", what, util.Clip(v.PanicMsg, 200), v.PanicSite, tag),
					Sig:    sig,
					Detail: map[string]any{"seed": v.Seed, "pass": v.Pass, "panic": v.PanicMsg, "site": v.PanicSite, "source": src},
				})
				continue
			}
			j.Cover[fmt.Sprintf("pass:%d", v.Pass)] = true
			if seen[v.Text] {
				j.Dups++
				continue
			}
			seen[v.Text] = true
			j.Changed++
			for _, m := range rewriteMarks(v.Text) {
				j.Cover["rewrite:"+m] = true
			}
			jobs = append(jobs, &job{v: v})
		}
	}

	// phase 2 (concurrent): analyse and run every distinct variant
	stage("variant-run %d variants, seeds %v", len(jobs), seeds)
	vBudget := variantBudgetFor(j.Orig.Steps)
	sem := make(chan struct{}, variantParallel)
	var wg sync.WaitGroup
	for _, jb := range jobs {
		wg.Add(1)
		sem <- struct{}{}
		go func(jb *job) {
			defer wg.Done()
			defer func() { <-sem }()
			vsrc := withEntry(src, jb.v.Text)
			vao := drive.Analyze(vsrc, "main", true)
			if vao.Errors > 0 {
				jb.rejected = true
				jb.errMsg, jb.errCls = firstError(vao)
				jb.errAll = vao.ErrorSummary()
				return
			}
			jb.ro = runVM(vao.Modules, vsrc, vBudget)
		}(jb)
	}
	wg.Wait()

	// phase 3 (sequential): judge
	for _, jb := range jobs {
		v, vro := jb.v, jb.ro
		tag := fmt.Sprintf("seed=%d pass=%d", v.Seed, v.Pass)
		if jb.rejected {
			j.Failures = append(j.Failures, Failure{
				Why:    fmt.Sprintf("variant rejected by the analyzer: %s [%s]%s", jb.errMsg, tag, baseNote),
				Sig:    "variant-rejected:" + jb.errCls,
				Detail: map[string]any{"seed": v.Seed, "pass": v.Pass, "errors": util.Clip(jb.errAll, 1500), "variant": util.Clip(v.Text, 6000), "source": src},
			})
			continue
		}
		j.Variants++
		detail := func() map[string]any {
			return map[string]any{"seed": v.Seed, "pass": v.Pass, "variant": util.Clip(v.Text, 6000), "source": src,
				"orig_effects": util.Clip(j.Orig.Effects, 1200), "variant_effects": util.Clip(vro.Effects, 1200),
				"orig_outcome": j.Orig.Outcome.String(), "variant_outcome": vro.Outcome.String(), "rewrites": rewriteMarks(v.Text)}
		}
		switch {
		case vro.Outcome.Class == "compile-error":
			j.Failures = append(j.Failures, Failure{
				Why: fmt.Sprintf("variant accepted by the analyzer but the compiler fails: %s [%s]", vro.Outcome.Message, tag),
				Sig: "variant-compile-error:" + diagClass(vro.Outcome.Message), Detail: detail()})
		case vro.Budget:
			j.Failures = append(j.Failures, Failure{
				Why: fmt.Sprintf("variant does not finish within %d instructions (original: about %d) [%s]", vBudget, j.Orig.Steps, tag),
				Sig: "behaviour:no-termination", Detail: detail()})
		case vro.outcomeKey() != j.Orig.outcomeKey():
			j.Failures = append(j.Failures, Failure{
				Why: fmt.Sprintf("outcome differs: original %s, variant %s [%s]%s", j.Orig.Outcome, vro.Outcome, tag, baseNote),
				Sig: "behaviour:outcome:" + outcomeClass(j.Orig) + "-vs-" + outcomeClass(vro), Detail: detail()})
		case vro.Effects != j.Orig.Effects:
			j.Failures = append(j.Failures, Failure{
				Why: fmt.Sprintf("output differs at byte %d: original %q, variant %q [%s]", diffAt(j.Orig.Effects, vro.Effects),
					util.Clip(j.Orig.Effects, 300), util.Clip(vro.Effects, 300), tag) + baseNote,
				Sig: "behaviour:output", Detail: detail()})
		}
	}
	return j
}

// variantParallel: concurrent variant executions per worker (the VM sleeps 5 ms per run).
const variantParallel = 6

// panicsOnly: the printed form of the program is unusable (printer defect), but a panic inside
// Transform does not depend on the printer and is still a C20 event.
func (j *Judgement) panicsOnly(src drive.Sources, seeds []int64, passes []int) {
	for _, seed := range seeds {
		for _, v := range Chain(src, seed, passes) {
			if v.PanicClass != "" && v.PanicIn == "transform" {
				j.Evals++
				j.Failures = append(j.Failures, Failure{
					Why:    fmt.Sprintf("Transform panicked (%s) in %s [seed=%d pass=%d]", util.Clip(v.PanicMsg, 200), v.PanicSite, v.Seed, v.Pass),
					Sig:    "transform-panic:" + v.PanicClass + ":" + v.PanicSite,
					Detail: map[string]any{"seed": v.Seed, "pass": v.Pass, "panic": v.PanicMsg, "site": v.PanicSite, "source": src},
				})
			}
		}
	}
}

func outcomeClass(r runObs) string {
	if r.Outcome.Class == "ok" {
		return "ok"
	}
	return r.Outcome.Class + "/" + r.Outcome.Kind
}
