package c20

import (
	"sort"

	"github.com/smarthome-go/homescript/v3/homescript/analyzer/ast"
	pAst "github.com/smarthome-go/homescript/v3/homescript/parser/ast"

	"hv/drive"
)

// Construct tags: a case carries the tag of every construct of its ORIGINAL program that an open
// finding makes unreliable. They are computed from the analysed tree of the real analyzer (not
// from the generator's intentions) so that generated and shipped programs are tagged alike.
const (
	TagLitTodo      = "lit-null-none-anyobj" // a null / none / new { ? } literal
	TagBareReturn   = "bare-return"          // `return;` without a value
	TagFinalDiverge = "final-diverge"        // a function with a result whose body has no trailing expression (its result comes from a diverging last statement)
	TagIdentCapture = "ident-capture"        // the program uses an identifier the transformer also generates
	TagMulLhsDivMod = "mul-lhs-divmod"       // int `a / b * c` or `a % b * c` (ungrouped)
	TagMulLhsWide   = "mul-lhs-unbounded"    // int multiplication whose LEFT operand is not known to be in 0..4096
	TagAddSubPow    = "addsub-rhs-pow"       // `a - b ** c`, `b ** c + a`, ...: an operand of +/- starts (ungrouped) with a power
	TagTrigger      = "trigger-stmt"         // a trigger statement
)

var generatedNames = map[string]bool{"mul_res": true, "mul_count": true, "lhs_init": true, "count_once": true, "_i": true}

type tagger struct {
	tags map[string]bool
	// names of variables bound (anywhere) to something that is not provably a small non-negative int
	wide map[string]bool
	// bounds of variables bound exactly once to a bounded non-negative value (let of a small
	// literal without later assignment, for-range counters with literal bounds)
	bounds map[string]int64
}

// nonNegBound returns an upper bound of a provably non-negative int expression, or -1.
func (t *tagger) nonNegBound(e ast.AnalyzedExpression) int64 {
	switch n := e.(type) {
	case ast.AnalyzedIntLiteralExpression:
		if n.Value >= 0 {
			return n.Value
		}
	case ast.AnalyzedGroupedExpression:
		return t.nonNegBound(n.Inner)
	case ast.AnalyzedIdentExpression:
		if b, ok := t.bounds[n.Ident.Ident()]; ok && !t.wide[n.Ident.Ident()] {
			return b
		}
	case ast.AnalyzedInfixExpression:
		l, r := t.nonNegBound(n.Lhs), t.nonNegBound(n.Rhs)
		if l < 0 || r < 0 {
			return -1
		}
		switch n.Operator {
		case pAst.DivideInfixOperator:
			if r > 0 {
				return l
			}
		case pAst.ModuloInfixOperator:
			if r > 0 {
				return r
			}
		case pAst.PlusInfixOperator:
			return l + r
		case pAst.MultiplyInfixOperator:
			if l < 1<<20 && r < 1<<20 {
				return l * r
			}
		}
	}
	return -1
}

func (t *tagger) ident(name string) {
	if generatedNames[name] {
		t.tags[TagIdentCapture] = true
	}
}

func (t *tagger) block(b ast.AnalyzedBlock) {
	for _, s := range b.Statements {
		t.stmt(s)
	}
	if b.Expression != nil {
		t.expr(b.Expression)
	}
}

func (t *tagger) stmt(s ast.AnalyzedStatement) {
	switch n := s.(type) {
	case ast.AnalyzedLetStatement:
		t.ident(n.Ident.Ident())
		t.expr(n.Expression)
	case ast.AnalyzedReturnStatement:
		if n.ReturnValue == nil {
			t.tags[TagBareReturn] = true
		} else {
			t.expr(n.ReturnValue)
		}
	case ast.AnalyzedLoopStatement:
		t.block(n.Body)
	case ast.AnalyzedWhileStatement:
		t.expr(n.Condition)
		t.block(n.Body)
	case ast.AnalyzedForStatement:
		t.ident(n.Identifier.Ident())
		t.expr(n.IterExpression)
		t.block(n.Body)
	case ast.AnalyzedExpressionStatement:
		t.expr(n.Expression)
	case ast.AnalyzedTriggerStatement:
		t.tags[TagTrigger] = true
	}
}

func (t *tagger) expr(e ast.AnalyzedExpression) {
	switch n := e.(type) {
	case ast.AnalyzedNullLiteralExpression, ast.AnalyzedNoneLiteralExpression, ast.AnalyzedAnyObjectExpression:
		t.tags[TagLitTodo] = true
	case ast.AnalyzedIdentExpression:
		t.ident(n.Ident.Ident())
	case ast.AnalyzedRangeLiteralExpression:
		t.expr(n.Start)
		t.expr(n.End)
	case ast.AnalyzedListLiteralExpression:
		for _, v := range n.Values {
			t.expr(v)
		}
	case ast.AnalyzedObjectLiteralExpression:
		for _, f := range n.Fields {
			t.expr(f.Expression)
		}
	case ast.AnalyzedFunctionLiteralExpression:
		for _, p := range n.Parameters {
			t.ident(p.Ident.Ident())
		}
		t.fnBody(n.ReturnType, n.Body)
	case ast.AnalyzedGroupedExpression:
		t.expr(n.Inner)
	case ast.AnalyzedPrefixExpression:
		t.expr(n.Base)
	case ast.AnalyzedInfixExpression:
		t.expr(n.Lhs)
		t.expr(n.Rhs)
		if n.Operator == pAst.PlusInfixOperator || n.Operator == pAst.MinusInfixOperator {
			if k := n.Lhs.Type().Kind(); k == ast.IntTypeKind || k == ast.FloatTypeKind {
				// leftmost printed chain of either operand: both can end up behind a generated prefix
				// minus (a - b -> a + -b; a + b -> b + a -> b - -a)
				for _, op := range []ast.AnalyzedExpression{n.Lhs, n.Rhs} {
					for e := op; e != nil; {
						switch x := e.(type) {
						case ast.AnalyzedInfixExpression:
							if x.Operator == pAst.PowerInfixOperator {
								t.tags[TagAddSubPow] = true
								e = nil
							} else {
								e = x.Lhs
							}
						case ast.AnalyzedCastExpression:
							e = x.Base
						default:
							e = nil
						}
					}
				}
			}
		}
		if n.Operator == pAst.MultiplyInfixOperator && n.Lhs.Type().Kind() == ast.IntTypeKind && n.Rhs.Type().Kind() == ast.IntTypeKind {
			if l, ok := n.Lhs.(ast.AnalyzedInfixExpression); ok && (l.Operator == pAst.DivideInfixOperator || l.Operator == pAst.ModuloInfixOperator) {
				t.tags[TagMulLhsDivMod] = true
			}
			if b := t.nonNegBound(n.Lhs); b < 0 || b > 4096 {
				t.tags[TagMulLhsWide] = true
			}
		}
	case ast.AnalyzedAssignExpression:
		t.expr(n.Lhs)
		t.expr(n.Rhs)
	case ast.AnalyzedCallExpression:
		t.expr(n.Base)
		for _, a := range n.Arguments.List {
			t.expr(a.Expression)
		}
	case ast.AnalyzedIndexExpression:
		t.expr(n.Base)
		t.expr(n.Index)
	case ast.AnalyzedMemberExpression:
		t.expr(n.Base)
	case ast.AnalyzedCastExpression:
		t.expr(n.Base)
	case ast.AnalyzedBlockExpression:
		t.block(n.Block)
	case ast.AnalyzedIfExpression:
		t.expr(n.Condition)
		t.block(n.ThenBlock)
		if n.ElseBlock != nil {
			t.block(*n.ElseBlock)
		}
	case ast.AnalyzedMatchExpression:
		t.expr(n.ControlExpression)
		for _, a := range n.Arms {
			t.expr(a.Action)
		}
		if n.DefaultArmAction != nil {
			t.expr(*n.DefaultArmAction)
		}
	case ast.AnalyzedTryExpression:
		t.ident(n.CatchIdent.Ident())
		t.block(n.TryBlock)
		t.block(n.CatchBlock)
	}
}

func (t *tagger) fnBody(ret ast.Type, body ast.AnalyzedBlock) {
	if ret != nil && ret.Kind() != ast.NullTypeKind && body.Expression == nil {
		t.tags[TagFinalDiverge] = true
	}
	t.block(body)
}

// collectBounds finds variables with exactly one binding to a bounded non-negative value.
func (t *tagger) collectBounds(p ast.AnalyzedProgram) {
	bounds := t.bounds
	count := map[string]int{}
	var sBlock func(b ast.AnalyzedBlock)
	var sExpr func(e ast.AnalyzedExpression)
	note := func(name string, e ast.AnalyzedExpression) {
		count[name]++
		if e == nil {
			t.wide[name] = true
			return
		}
		if lit, ok := e.(ast.AnalyzedIntLiteralExpression); ok && lit.Value >= 0 && lit.Value <= 4096 {
			bounds[name] = lit.Value
		} else {
			t.wide[name] = true
		}
	}
	sStmt := func(s ast.AnalyzedStatement) {
		switch n := s.(type) {
		case ast.AnalyzedLetStatement:
			note(n.Ident.Ident(), n.Expression)
			sExpr(n.Expression)
		case ast.AnalyzedReturnStatement:
			if n.ReturnValue != nil {
				sExpr(n.ReturnValue)
			}
		case ast.AnalyzedLoopStatement:
			sBlock(n.Body)
		case ast.AnalyzedWhileStatement:
			sExpr(n.Condition)
			sBlock(n.Body)
		case ast.AnalyzedForStatement:
			// for k in a..b with literal bounds: k is bounded by b
			if r, ok := n.IterExpression.(ast.AnalyzedRangeLiteralExpression); ok {
				lo, ok1 := r.Start.(ast.AnalyzedIntLiteralExpression)
				hi, ok2 := r.End.(ast.AnalyzedIntLiteralExpression)
				if ok1 && ok2 && lo.Value >= 0 && hi.Value <= 4096 {
					count[n.Identifier.Ident()]++
					bounds[n.Identifier.Ident()] = hi.Value
				} else {
					note(n.Identifier.Ident(), nil)
				}
			} else {
				note(n.Identifier.Ident(), nil)
			}
			sExpr(n.IterExpression)
			sBlock(n.Body)
		case ast.AnalyzedExpressionStatement:
			sExpr(n.Expression)
		}
	}
	sBlock = func(b ast.AnalyzedBlock) {
		for _, s := range b.Statements {
			sStmt(s)
		}
		if b.Expression != nil {
			sExpr(b.Expression)
		}
	}
	sExpr = func(e ast.AnalyzedExpression) {
		switch n := e.(type) {
		case ast.AnalyzedAssignExpression:
			if id, ok := n.Lhs.(ast.AnalyzedIdentExpression); ok {
				t.wide[id.Ident.Ident()] = true
			}
			sExpr(n.Rhs)
		case ast.AnalyzedFunctionLiteralExpression:
			for _, p := range n.Parameters {
				t.wide[p.Ident.Ident()] = true
			}
			sBlock(n.Body)
		case ast.AnalyzedGroupedExpression:
			sExpr(n.Inner)
		case ast.AnalyzedPrefixExpression:
			sExpr(n.Base)
		case ast.AnalyzedInfixExpression:
			sExpr(n.Lhs)
			sExpr(n.Rhs)
		case ast.AnalyzedCallExpression:
			for _, a := range n.Arguments.List {
				sExpr(a.Expression)
			}
		case ast.AnalyzedBlockExpression:
			sBlock(n.Block)
		case ast.AnalyzedIfExpression:
			sExpr(n.Condition)
			sBlock(n.ThenBlock)
			if n.ElseBlock != nil {
				sBlock(*n.ElseBlock)
			}
		case ast.AnalyzedMatchExpression:
			for _, a := range n.Arms {
				sExpr(a.Action)
			}
			if n.DefaultArmAction != nil {
				sExpr(*n.DefaultArmAction)
			}
		case ast.AnalyzedTryExpression:
			sBlock(n.TryBlock)
			sBlock(n.CatchBlock)
		}
	}
	for _, g := range p.Globals {
		note(g.Ident.Ident(), g.Expression)
	}
	for _, f := range p.Functions {
		for _, prm := range f.Parameters.List {
			t.wide[prm.Ident.Ident()] = true
		}
		sBlock(f.Body)
	}
	for name, c := range count {
		if c > 1 {
			t.wide[name] = true
		}
	}
}

// ConstructTags computes the tags of a program (entry module of src). ok=false: not accepted.
func ConstructTags(src drive.Sources) (tags []string, ok bool) {
	ao := drive.Analyze(src, "main", true)
	if ao.Errors > 0 {
		return nil, false
	}
	p := ao.Modules["main"]
	t := &tagger{tags: map[string]bool{}, wide: map[string]bool{}, bounds: map[string]int64{}}
	t.collectBounds(p)
	for _, g := range p.Globals {
		t.ident(g.Ident.Ident())
		t.expr(g.Expression)
	}
	for _, f := range p.Functions {
		for _, prm := range f.Parameters.List {
			t.ident(prm.Ident.Ident())
		}
		t.fnBody(f.ReturnType, f.Body)
	}
	for k := range t.tags {
		tags = append(tags, k)
	}
	sort.Strings(tags)
	return tags, true
}
