// Package c15 checks property C15: modules are isolated and linked by name and visibility.
//
// Small module graphs are enumerated exhaustively (gen.go); a model linker (model.go) predicts,
// from the import statements and the `pub` markers alone, which import statements are illegal and
// what an accepted program prints. The real analyzer must report exactly the predicted illegal
// imports; accepted programs are compiled and run repeatedly on the VM (fresh analysis and
// compilation every time, module map rebuilt in a different insertion order: the compiler visits
// modules in Go map order) and once on the tree-walking interpreter; every run must print the
// predicted tags and initialise every module of the program exactly once before main prints.
package c15

import (
	"context"
	"fmt"
	"os"
	"regexp"
	"sort"
	"strings"
	"sync"

	"github.com/smarthome-go/homescript/v3/homescript/analyzer/ast"
	"github.com/smarthome-go/homescript/v3/homescript/diagnostic"
	"github.com/smarthome-go/homescript/v3/homescript/runtime"

	"hv/drive"
	"hv/fw"
	"hv/util"
)

type c15 struct{}

func init() { fw.Register(c15{}) }

func (c15) ID() string { return "C15" }

func reps(tier string) int {
	if tier == "thorough" {
		return 16
	}
	return 12
}

func (c15) Info(tier string) fw.Info {
	return fw.Info{
		Level: "exploration",
		Rule: "module graphs (entry `main` + up to 4 modules; every module declares a singleton, an edge function calling the edge functions it imports, and items named f, g, v, T reused across modules with tag-returning bodies `\"a.f(\" + v + \",\" + g() + \")\"`; " +
			"functions append a mark to their module's private globals; modules may also declare singletons `$K`, `$L` under names shared with other modules: every function of such a module appends its tag to the singleton's log and reads it back, through a singleton extraction parameter or through the expression `$K`; a call may end with the value of the last expression, with `return`, or with a `throw` of the result - directly or from a private helper - that a `try` around the call or only the entry's main catches, marking the result with `!`; edge functions may be handed a private function of another module as a value and call it, or call the function value that a pub maker function of an imported module returns; such a value is the named function or a function literal calling it; functions and the entry's main may hold, while they call other functions, a local, a parameter or a block-scoped local named like each global their module sees: such a variable is seen by that activation only, every function running meanwhile - also one of the same module called back from another module - uses the module's global) are enumerated exhaustively within this bound: " + Bound(tier) + "; plus seeded random graphs with 3-5 modules beyond the bound. " +
			"Oracle: a model linker (name -> defining module by the import statements and pub only) predicts per import statement legal / private / missing item / missing module / cyclic and, for accepted graphs, the exact text printed. " +
			"The analyzer must report an error on every illegal import statement (mentioning the item or module) and none on legal ones; accepted graphs run " + fmt.Sprint(reps(tier)) + " times on the VM (fresh Analyze+Compile each, module map re-inserted in rotating permutations) and once on the interpreter; " +
			"every run must print the predicted text (a function works on the globals and singletons of its defining module, and so does its caller after the call has ended, whichever way it ended) and load every singleton of every reachable module exactly once before the first output. " +
			"non-trivial = a reachable illegal import was judged, or an accepted graph with at least one import edge ran on both backends; distinct = distinct graph. " +
			"While a finding listed in known_findings.txt is open, graphs carrying its hazard tag are replaced by a poisoned workload of at most " + fmt.Sprint(poisonQuota) + " graphs per family.",
		Assumptions: []string{
			"the order in which the compiler visits modules (Go map iteration) cannot be set from outside: it is sampled by repetition with permuted insertion orders, not enumerated",
			"global initialisers must be constant, so a module's initialisation is observed through the host call that loads its singleton",
			"name clashes between an import and a local definition, impl blocks and the use of templates and triggers are outside the generated fragment (only their import from user modules is probed)",
			"Go iterates a small map as a rotation of its insertion order: the analysed module map is therefore re-inserted in all permutations in turn before it is handed to the compiler",
		},
		Exhaustive:   true,
		CaseTimeoutS: 60,
		BatchSize:    48,
	}
}

func (c15) Cases(tier string, seed uint64) []fw.Case { return buildCases(tier, seed) }

// Finalize publishes graph-level counts: a case bundles up to 8 executed or 32 rejected graphs, all
// graphs of a run are distinct (deduplicated when the case list is built).
func (c15) Finalize(tier string, results []fw.Result, coverage map[string]any) string {
	var graphs, nontrivial, runs int64
	for _, r := range results {
		graphs += r.Obs["graphs"]
		nontrivial += r.Obs["nontrivial_graphs"]
		runs += r.Obs["vm_runs"]
	}
	coverage["graphs"] = graphs
	coverage["distinct_nontrivial_graphs"] = nontrivial
	coverage["bound"] = Bound(tier)
	if runs == 0 {
		return "no graph was executed on the VM"
	}
	return ""
}

// ---------------------------------------------------------------------------------------------

type verdict struct {
	res fw.Result
}

func (v *verdict) fail(sig, why string, detail any) {
	if v.res.Verdict != fw.Violated {
		v.res.Verdict, v.res.Sig, v.res.Why, v.res.Detail = fw.Violated, sig, why, detail
		return
	}
	if v.res.Sig == sig {
		return
	}
	for _, m := range v.res.More {
		if m.Sig == sig {
			return
		}
	}
	v.res.More = append(v.res.More, fw.SubViolation{Why: why, Sig: sig, Detail: detail})
}

func mentions(msg, name string) bool {
	return strings.Contains(msg, "'"+name+"'") || strings.Contains(msg, "`"+name+"`")
}

// mentionsModule: the module is quoted in the message or is part of a `module a -> b -> a` path.
func mentionsModule(msg, name string) bool {
	if mentions(msg, name) {
		return true
	}
	if i := strings.Index(msg, "cyclic import: module "); i >= 0 {
		for _, part := range strings.Split(msg[i+len("cyclic import: module "):], " -> ") {
			if strings.TrimSpace(part) == name {
				return true
			}
		}
	}
	return false
}

func os_tier() string {
	if t := os.Getenv("HV_TIER"); t != "" {
		return t
	}
	return "quick"
}

// judgeDiagnostics compares the analyzer's error diagnostics with the model's verdict per import.
func judgeDiagnostics(g *Graph, lk *Link, rd Rendered, ao drive.AnalyzeOut, v *verdict) {
	type errAt struct {
		file string
		line int
		msg  string
		used bool
	}
	var errs []*errAt
	for _, s := range ao.Syntax {
		v.fail("analyzer:syntax-error", fmt.Sprintf("syntax error in generated module %s:%d: %s", s.Span.Filename, s.Span.Start.Line, s.Message), nil)
	}
	for _, d := range ao.Diags {
		if d.Level == diagnostic.DiagnosticLevelError {
			errs = append(errs, &errAt{file: d.Span.Filename, line: int(d.Span.Start.Line), msg: d.Message})
		}
	}
	onLine := func(mod string, line int) []*errAt {
		var out []*errAt
		for _, e := range errs {
			if e.file == mod && e.line == line {
				out = append(out, e)
			}
		}
		return out
	}
	hasBad := map[string]bool{}
	cycleSeen := map[string]bool{} // SCC key -> an error names the cycle
	isImportLine := func(mod string, line int) bool {
		for _, l := range rd.ImportLine[mod] {
			if l == line {
				return true
			}
		}
		return false
	}
	// "Illegal cyclic import: module a -> b -> a": the analyzer attaches it to the import statement
	// after which it noticed the cycle, not necessarily to the statement that closes it. The property
	// only asks that the cycle is reported: the path must be a real cycle of import statements
	// through the module that reports it.
	const cyc = "Illegal cyclic import: module "
	for _, e := range errs {
		if !strings.HasPrefix(e.msg, cyc) {
			continue
		}
		e.used = true
		path := strings.Split(strings.TrimPrefix(e.msg, cyc), " -> ")
		real := len(path) >= 2 && path[0] == path[len(path)-1] && path[0] == e.file && isImportLine(e.file, e.line)
		for i := 0; real && i+1 < len(path); i++ {
			m := g.mod(path[i])
			edge := false
			if m != nil {
				for _, im := range m.Imports {
					if im.From == path[i+1] {
						edge = true
					}
				}
			}
			real = edge
		}
		if !real {
			v.fail("analyzer:bogus-cycle", fmt.Sprintf("error at %s:%d reports a cycle that the import statements do not form: %s", e.file, e.line, e.msg), nil)
			continue
		}
		cycleSeen[strings.Join(lk.SCC[e.file], ",")] = true
	}
	for _, mn := range lk.ReachSeq {
		m := g.mod(mn)
		for ii, im := range m.Imports {
			vd := lk.Verdict[mn][ii]
			line := rd.ImportLine[mn][ii]
			var here []*errAt
			for _, e := range onLine(mn, line) {
				if !e.used {
					here = append(here, e)
				}
			}
			stmt := fmt.Sprintf("import statement %d of module %s (from %s)", ii+1, mn, im.From)
			if vd.Class == "ok" {
				for _, e := range here {
					e.used = true
					v.fail("analyzer:legal-import-rejected", fmt.Sprintf("%s is legal but the analyzer reports: %s", stmt, e.msg), nil)
				}
				continue
			}
			hasBad[mn] = true
			// every error on an illegal statement must be about that statement
			for _, e := range here {
				e.used = true
				ok := mentionsModule(e.msg, im.From)
				for _, x := range im.Items {
					if mentions(e.msg, x.Name) {
						ok = true
					}
				}
				if !ok {
					v.fail("analyzer:unrelated-error", fmt.Sprintf("%s: error does not name the item or module: %s", stmt, e.msg), nil)
				}
			}
			switch vd.Class {
			case "missing-module":
				found := false
				for _, e := range here {
					if mentions(e.msg, im.From) {
						found = true
					}
				}
				if !found {
					v.fail("analyzer:missing-module-accepted", fmt.Sprintf("%s: module %s does not exist but no error names it (errors on the line: %d)", stmt, im.From, len(here)), nil)
				}
				v.res.Cover = append(v.res.Cover, "import:missing-module")
			case "cycle":
				// a cycle through several modules must be reported as a cycle (checked above); for a
				// module that only imports itself any error naming the module is taken as the report
				k := strings.Join(vd.CycleMods, ",")
				if len(vd.CycleMods) == 1 {
					for _, e := range here {
						if mentionsModule(e.msg, mn) {
							cycleSeen[k] = true
						}
					}
				}
				if im.From == mn {
					v.res.Cover = append(v.res.Cover, "import:self")
				} else {
					v.res.Cover = append(v.res.Cover, "import:cycle")
				}
			}
			if vd.Class == "bad-items" {
				for _, b := range vd.Bad {
					found := false
					for _, e := range here {
						if mentions(e.msg, b.Name) {
							found = true
						}
					}
					if !found {
						v.fail("analyzer:"+b.Why+"-import-accepted", fmt.Sprintf("%s: importing %s is illegal (%s) but no error names it (errors on the line: %d)", stmt, b.Name, b.Why, len(here)), nil)
					}
					v.res.Cover = append(v.res.Cover, "import:"+b.Why)
				}
			}
		}
	}
	for _, mn := range lk.ReachSeq {
		if comp, ok := lk.SCC[mn]; ok {
			k := strings.Join(comp, ",")
			if !cycleSeen[k] {
				cycleSeen[k] = true
				v.fail("analyzer:cycle-accepted", fmt.Sprintf("import cycle through modules {%s}: no diagnostic reports the cycle", k), nil)
			}
		}
	}
	// isolation probes: a name that is neither defined nor imported must be an error where it is used
	for _, l := range lk.LeakBad {
		found := false
		for line, ll := range rd.LeakLine[l.Mod] {
			if ll != l {
				continue
			}
			for _, e := range onLine(l.Mod, line) {
				e.used = true
				if mentions(e.msg, l.Name) {
					found = true
				}
			}
		}
		if !found {
			v.fail("analyzer:unimported-name-visible", fmt.Sprintf("module %s uses %s %s which it neither defines nor imports, but no error names it", l.Mod, l.Kind, l.Name), nil)
		}
		hasBad[l.Mod] = true
		v.res.Cover = append(v.res.Cover, "leak:"+l.Kind)
	}
	// errors elsewhere are only explained as consequences of an illegal import in the same module
	for _, e := range errs {
		if e.used {
			continue
		}
		if !hasBad[e.file] || isImportLine(e.file, e.line) {
			v.fail("analyzer:spurious-error", fmt.Sprintf("error without an illegal import to explain it at %s:%d: %s", e.file, e.line, e.msg), nil)
		}
	}
}

var tokRe = regexp.MustCompile(`[A-Za-z0-9_]+\.[A-Za-z0-9_]+#[A-Za-z0-9_]+'*|[A-Za-z0-9_]+[.@][A-Za-z0-9_]+'*|[A-Za-z0-9_]+=|[(),\n]|.`)

// classify names the first difference between the expected and the observed output.
func classify(want, got string) string {
	a, b := tokRe.FindAllString(want, -1), tokRe.FindAllString(got, -1)
	for i := 0; i < len(a) && i < len(b); i++ {
		if a[i] == b[i] {
			continue
		}
		// inside a `[...]` log or on a `$K=` line: the state of a module's singleton
		depth, lineStart := 0, 0
		for j := 0; j < i; j++ {
			switch a[j] {
			case "[":
				depth++
			case "]":
				depth--
			case "\n":
				lineStart = j + 1
			}
		}
		if depth > 0 || a[i] == "[" || a[i] == "]" || a[lineStart] == "$" {
			return "wrong-singleton-state"
		}
		// `m.f#v` is the text held by the variable of function m.f that shadows global v (Graph.Shadow)
		if strings.Contains(a[i], "#") || strings.Contains(b[i], "#") {
			return "frame-local-for-global"
		}
		am, an, ap, aok := splitTag(a[i])
		bm, bn, bp, bok := splitTag(b[i])
		if !aok || !bok {
			return "output"
		}
		switch {
		case an != bn:
			return "wrong-name"
		case am != bm:
			if i+1 < len(a) && a[i+1] == "(" {
				return "wrong-module-fn"
			}
			if strings.Contains(a[i], "@") {
				return "wrong-module-type"
			}
			return "wrong-module-global"
		case ap != bp:
			return "wrong-global-state"
		}
		return "output"
	}
	if len(a) != len(b) {
		return "output-length"
	}
	return "output"
}

func splitTag(t string) (mod, name string, primes int, ok bool) {
	i := strings.IndexAny(t, ".@")
	if i <= 0 || i == len(t)-1 {
		return "", "", 0, false
	}
	rest := strings.TrimRight(t[i+1:], "'")
	return t[:i], rest, len(t) - i - 1 - len(rest), true
}

var scopeDumpRe = regexp.MustCompile(`(?s)&\{\[map\[.*\]\}`)

// judgeRun compares one execution with the model.
func judgeRun(backend string, g *Graph, lk *Link, want string, effects []drive.Effect, oc drive.Outcome, checkInit bool, v *verdict, detail any) {
	var out strings.Builder
	loads := map[string]int{}
	loadsIn := map[string]int{} // "ident@module" where the host is told the module (VM)
	late := false
	for _, e := range effects {
		switch e.Kind {
		case "write":
			out.WriteString(e.Text)
		case "singleton":
			name := e.Text
			if i := strings.Index(name, "@"); i >= 0 {
				loadsIn[name]++
				name = name[:i]
			}
			loads[name]++
			if out.Len() > 0 {
				late = true
			}
		}
	}
	got := out.String()
	if oc.Class != "ok" {
		sig := backend + ":outcome:" + oc.Class
		how := oc.String()
		if oc.Class == "go-panic" {
			// the interpreter's panics dump its scope stack (`&{[map[name:0xc000…] …]}`): keep the text around it
			short := scopeDumpRe.ReplaceAllString(oc.Message, "&{…}")
			sig = backend + ":go-panic:" + util.NormPanic(short)
			how = "a Go panic: " + short
		} else if oc.Kind != "" {
			sig += "/" + oc.Kind
		}
		v.fail(sig, fmt.Sprintf("%s: program ended with %s%s; printed so far:\n%s\n--- expected\n%s", backend, how, modeHint(g), util.Clip(got, 800), util.Clip(want, 800)), detail)
		return
	}
	if got != want {
		class := classify(want, got)
		hint := ""
		if class == "wrong-singleton-state" {
			hint = " (the first difference is in the log of a singleton: every function appends its tag to the `$K` of its defining module and reads that one back, whatever the calling module declares)"
		}
		v.fail(backend+":"+class, fmt.Sprintf("%s printed%s%s\n%s--- the import statements say\n%s", backend, hint, modeHint(g), util.Clip(got, 1200), util.Clip(want, 1200)), detail)
	}
	if checkInit {
		for _, mn := range lk.ReachSeq {
			n := loads[singletonOf(mn)]
			if g.mod(mn).Bare {
				continue
			}
			switch {
			case n == 0:
				v.fail(backend+":init-missing", fmt.Sprintf("%s: module %s was never initialised (its singleton was not loaded)", backend, mn), detail)
			case n > 1:
				v.fail(backend+":init-twice", fmt.Sprintf("%s: module %s was initialised %d times (its singleton was loaded %d times)", backend, mn, n, n), detail)
			}
			delete(loads, singletonOf(mn))
		}
		// singletons whose name several modules share: one load per reachable module that declares
		// it (the interpreter's host is not told the module, so only the total can be judged there)
		declared := map[string][]string{}
		var shared []string
		for _, mn := range lk.ReachSeq {
			for _, s := range g.mod(mn).sings() {
				if declared["$"+s.Name] == nil {
					shared = append(shared, "$"+s.Name)
				}
				declared["$"+s.Name] = append(declared["$"+s.Name], mn)
			}
		}
		for _, s := range shared {
			mods := declared[s]
			switch n := loads[s]; {
			case n < len(mods):
				v.fail(backend+":init-missing", fmt.Sprintf("%s: singleton %s is declared by the %d modules %v of the program but was loaded %d times", backend, s, len(mods), mods, n), detail)
			case n > len(mods):
				v.fail(backend+":init-twice", fmt.Sprintf("%s: singleton %s is declared by the %d modules %v of the program but was loaded %d times", backend, s, len(mods), mods, n), detail)
			}
			if len(loadsIn) > 0 {
				for _, mn := range mods {
					if n := loadsIn[s+"@"+mn]; n != 1 {
						v.fail(backend+":init-singleton-module", fmt.Sprintf("%s: singleton %s of module %s was loaded %d times for that module", backend, s, mn, n), detail)
					}
				}
			}
			delete(loads, s)
		}
		for s := range loads {
			v.fail(backend+":init-foreign", fmt.Sprintf("%s: singleton %s of a module that is not part of the program was loaded", backend, s), detail)
		}
		if late {
			v.fail(backend+":init-late", backend+": a module was initialised after main had started to print", detail)
		}
	}
}

// modeHint names what is special about the calls of the graph (nothing for the plain graphs).
func modeHint(g *Graph) string {
	var parts []string
	switch g.Exit {
	case "return":
		parts = append(parts, "every function ends with `return`")
	case "throw":
		parts = append(parts, "every function ends with `throw(result)`")
	case "throw-deep":
		parts = append(parts, "every function ends by calling a private helper of its module that throws the result")
	}
	if g.throws() {
		if g.Catch == "entry" {
			parts = append(parts, "only the entry's main catches (the exception unwinds the frames of all modules on its way) and marks the result with `!`")
		} else {
			parts = append(parts, "a `try` around every call catches it in the calling module and marks the result with `!`")
		}
	}
	switch g.Callback {
	case "own":
		parts = append(parts, "every edge function is handed the private function k of the calling module as a value and calls it")
	case "relay":
		parts = append(parts, "the entry's private function k is handed down through the edge functions as a value, each of them calls it")
	case "made":
		parts = append(parts, "every module has a pub maker function `mk_<module>` that returns its private function k as a value; every edge function calls what its own maker and the imported makers return and then goes on reading its own names")
	}
	if g.Callback != "" && g.CbForm == "lit" {
		parts = append(parts, "the function values are function literals `fn() -> str { k() }` (closures): the body of a literal belongs to the module that contains it, whichever module calls it")
	}
	switch g.Shadow {
	case "let":
		parts = append(parts, "every function and the entry's main declare, before they call anything, a local `let v = \"<module>.<function>#v\"` for every global v their module sees")
	case "param":
		parts = append(parts, "every function has a parameter for every global v its module sees, named v, for which the caller passes the text `<module>.<function>#v` (main and the functions handed out as values declare a local instead)")
	case "block":
		parts = append(parts, "every function and the entry's main make their calls inside a nested block that declares a local `let v = \"<module>.<function>#v\"` for every global v their module sees, and read the globals once more after the block")
	}
	if len(parts) == 0 {
		return ""
	}
	return " (in this program " + strings.Join(parts, "; ") + "; whichever way a call ends, the caller must go on against the globals of its own module and the callee must have run against those of its defining module)"
}

// permute returns the k-th permutation (mod n!) of xs.
func permute(xs []string, k int) []string {
	pool := append([]string{}, xs...)
	var out []string
	for n := len(pool); n > 0; n-- {
		i := k % n
		k /= n
		out = append(out, pool[i])
		pool = append(pool[:i], pool[i+1:]...)
	}
	return out
}

// Run executes the graphs of a case concurrently (a VM run spends most of its time asleep in
// VM.Wait) and merges their verdicts.
func (c15) Run(c fw.Case) fw.Result {
	var p Payload
	fw.Decode(c, &p)
	results := make([]fw.Result, len(p.Gs))
	var wg sync.WaitGroup
	for i := range p.Gs {
		wg.Add(1)
		go func(i int) {
			defer wg.Done()
			results[i] = runGraph(c, &p.Gs[i], p.Poison)
		}(i)
	}
	wg.Wait()
	out := fw.Result{Verdict: fw.Held, Obs: map[string]int64{}}
	seenCover := map[string]bool{}
	for i, r := range results {
		out.Evals += r.Evals
		out.Nontrivial = out.Nontrivial || r.Nontrivial
		if r.Nontrivial {
			out.Obs["nontrivial_graphs"]++
		}
		out.Obs["graphs"]++
		for k, n := range r.Obs {
			out.Obs[k] += n
		}
		for _, k := range r.Cover {
			if !seenCover[k] {
				seenCover[k] = true
				out.Cover = append(out.Cover, k)
			}
			out.Obs["n:"+k]++
		}
		if out.Sample == nil {
			out.Sample = r.Sample
		}
		if r.Verdict != fw.Violated {
			continue
		}
		where := ""
		if len(p.Gs) > 1 {
			where = fmt.Sprintf("[graph %d of the case: %s] ", i, Describe(&p.Gs[i]))
		}
		subs := append([]fw.SubViolation{{Why: r.Why, Sig: r.Sig, Detail: r.Detail}}, r.More...)
		for _, sv := range subs {
			sv.Why = where + sv.Why
			if out.Verdict != fw.Violated {
				out.Verdict, out.Sig, out.Why, out.Detail = fw.Violated, sv.Sig, sv.Why, sv.Detail
			} else {
				out.More = append(out.More, sv)
			}
		}
	}
	return out
}

var treeMu sync.Mutex // drive.RunTree installs a process-wide step hook

func runGraph(c fw.Case, g *Graph, poison bool) (res fw.Result) {
	lk := LinkGraph(g)
	rd := Render(g, lk)
	src := drive.Sources(rd.Src)
	v := &verdict{res: fw.Result{Verdict: fw.Held, Obs: map[string]int64{}, Evals: 1}}
	v.res.Cover = append(v.res.Cover, "family:"+g.Family, fmt.Sprintf("modules:%d", len(g.Mods)))
	for _, t := range c.Tags {
		v.res.Cover = append(v.res.Cover, "hazard:"+t)
	}
	if g.Exit != "" {
		v.res.Cover = append(v.res.Cover, "exit:"+g.Exit)
	}
	if g.throws() {
		if g.Catch == "entry" {
			v.res.Cover = append(v.res.Cover, "catch:entry")
		} else {
			v.res.Cover = append(v.res.Cover, "catch:call-site")
		}
	}
	if g.Callback != "" {
		v.res.Cover = append(v.res.Cover, "callback:"+g.Callback)
		if g.CbForm != "" {
			v.res.Cover = append(v.res.Cover, "cbform:"+g.CbForm, "callback:"+g.Callback+"/"+g.CbForm)
		} else {
			v.res.Cover = append(v.res.Cover, "cbform:named")
		}
	}
	if g.Shadow != "" {
		v.res.Cover = append(v.res.Cover, "shadow:"+g.Shadow)
		if g.Callback != "" {
			v.res.Cover = append(v.res.Cover, "shadow:"+g.Shadow+"/callback:"+g.Callback)
		}
	}
	detail := map[string]any{"graph": Describe(g), "source": rd.Src}
	defer func() {
		if r := recover(); r != nil {
			v.fail("harness-or-analyzer:go-panic:"+util.NormPanic(fmt.Sprint(r)), fmt.Sprintf("Go panic on the calling goroutine: %v", r), detail)
			res = v.res
		}
	}()

	var ao drive.AnalyzeOut
	panicked := false
	func() {
		defer func() {
			if r := recover(); r != nil {
				panicked = true
				v.fail("analyzer:go-panic:"+util.NormPanic(fmt.Sprint(r)), fmt.Sprintf("the analyzer panicked: %v", r), detail)
			}
		}()
		ao = drive.Analyze(src, g.Mods[0].Name, true)
		judgeDiagnostics(g, lk, rd, ao, v)
	}()
	if panicked {
		v.res.Nontrivial = true
		return v.res
	}
	edges := 0
	for _, mn := range lk.ReachSeq {
		edges += len(g.mod(mn).Imports)
	}
	if !lk.Accepted {
		v.res.Cover = append(v.res.Cover, "graph:rejected")
		v.res.Nontrivial = true
		if ao.Errors == 0 && v.res.Verdict != fw.Violated {
			v.fail("analyzer:illegal-graph-accepted", "the model rejects the graph but the analyzer reports no error", detail)
		}
		if v.res.Verdict == fw.Violated && v.res.Detail == nil {
			v.res.Detail = detail
		}
		return v.res
	}
	v.res.Cover = append(v.res.Cover, "graph:accepted")
	if ao.Errors > 0 {
		if v.res.Verdict != fw.Violated {
			v.fail("analyzer:legal-graph-rejected", "every import is legal but the analyzer reports: "+ao.ErrorSummary(), detail)
		}
		if v.res.Detail == nil {
			v.res.Detail = detail
		}
		return v.res
	}
	// every reachable module and nothing else is part of the analysed program
	var analysed []string
	for k := range ao.Modules {
		analysed = append(analysed, k)
	}
	sort.Strings(analysed)
	if strings.Join(analysed, ",") != strings.Join(sortedCopy(lk.ReachSeq), ",") {
		v.fail("analyzer:module-set", fmt.Sprintf("analysed modules %v, reachable through imports %v", analysed, sortedCopy(lk.ReachSeq)), detail)
	}
	want := lk.Expected(g)

	// interpreter (once) and VM (repeatedly), all concurrently: VM.Wait polls with a 5 ms sleep
	skipTreeInit := c.HasTag(TagMultiImport) && fw.KFOpen(KFReexec) && !poison
	n := reps(os_tier())
	mods := sortedCopy(lk.ReachSeq)
	entry := g.Mods[0].Name
	type vmObs struct {
		effects    []drive.Effect
		outcome    drive.Outcome
		compileErr string
		analysis   string
	}
	obs := make([]vmObs, n)
	var wg sync.WaitGroup
	for rep := 0; rep < n; rep++ {
		wg.Add(1)
		go func(rep int) {
			defer wg.Done()
			a2 := drive.Analyze(src, entry, true)
			if a2.Errors != 0 || len(a2.Modules) != len(ao.Modules) {
				obs[rep].analysis = fmt.Sprintf("errors=%d modules=%d: %s", a2.Errors, len(a2.Modules), a2.ErrorSummary())
				return
			}
			// rebuild the module map in a rotating insertion order
			re := make(map[string]ast.AnalyzedProgram, len(a2.Modules))
			for _, k := range permute(mods, rep) {
				if m, ok := a2.Modules[k]; ok {
					re[k] = m
				}
			}
			obs[rep].effects, obs[rep].outcome, obs[rep].compileErr = runVM(re, src, entry)
		}(rep)
	}
	treeMu.Lock()
	tr := drive.RunTree(ao.Modules, src, entry, drive.TreeOpts{StepBudget: 2_000_000})
	treeMu.Unlock()
	wg.Wait()
	judgeRun("tree", g, lk, want, tr.Log.Effects, tr.Outcome, !skipTreeInit, v, detail)
	outputs := map[string]bool{}
	for rep := 0; rep < n; rep++ {
		o := obs[rep]
		if o.analysis != "" {
			v.fail("analyzer:nondeterministic", "a repeated analysis of the same sources gave a different result: "+o.analysis, detail)
			continue
		}
		if o.compileErr != "" {
			v.fail("vm:compile-error", "compile error: "+o.compileErr, detail)
			continue
		}
		judgeRun("vm", g, lk, want, o.effects, o.outcome, true, v, detail)
		var text strings.Builder
		for _, e := range o.effects {
			if e.Kind == "write" {
				text.WriteString(e.Text)
			}
		}
		outputs[text.String()+"|"+o.outcome.String()] = true
		v.res.Obs["vm_runs"]++
	}
	if len(outputs) > 1 {
		v.fail("vm:nondeterministic", fmt.Sprintf("%d repetitions (fresh analysis and compilation each) printed %d different texts", n, len(outputs)), detail)
		v.res.Obs["nondeterministic_graphs"]++
	}
	v.res.Nontrivial = edges > 0
	v.res.Evals = int64(n + 2)
	if edges > 0 {
		v.res.Cover = append(v.res.Cover, "ran:linked")
	}
	if h := fw.HashOf(g.Mods); edges > 1 && h[0] == '0' && h[1] < '4' {
		v.res.Sample = map[string]any{"graph": Describe(g), "source": rd.Src, "expected_output": want, "tags": c.Tags}
	}
	return v.res
}

// runVM compiles and runs the program on a fresh VM. It does not install the step hooks of
// drive.RunVM (they are process-wide), so several runs can proceed concurrently; the generated
// programs have no loops, runaway recursion ends in the VM's own call stack limit.
func runVM(mods map[string]ast.AnalyzedProgram, src drive.Sources, entry string) ([]drive.Effect, drive.Outcome, string) {
	prog, err := drive.Compile(mods, entry)
	if err != nil {
		return nil, drive.Outcome{}, err.Error()
	}
	log := &drive.Log{}
	exec := drive.VMExec{L: log, Src: src}
	ctx, cancel := context.WithCancel(context.Background())
	defer cancel()
	var cf context.CancelFunc = cancel
	// every core allocates its whole memory up front: keep the limits small (the programs are tiny)
	limits := runtime.CoreLimits{CallStackMaxSize: 256, StackMaxSize: 256, MaxMemorySize: 4096}
	vm := runtime.NewVM(prog, exec, &ctx, &cf, exec.VMScope(), limits)
	vm.SpawnAsync(runtime.MainFn(), nil, nil, nil)
	_, i := vm.Wait()
	return log.Effects, drive.VMOutcome(i), ""
}

func (c15) OnCrash(c fw.Case, cr fw.Crash) fw.Result {
	var p Payload
	fw.Decode(c, &p)
	if cr.Kind == "watchdog" || cr.Kind == "killed" {
		return fw.Result{Verdict: fw.Inconclusive, Why: cr.Kind + ": " + cr.Message}
	}
	side := "vm"
	if strings.HasPrefix(cr.TopFrame, "analyzer") || strings.HasPrefix(cr.TopFrame, "parser") || strings.HasPrefix(cr.TopFrame, "lexer") {
		side = "analyzer"
	}
	var descr []string
	var sources []map[string]string
	for i := range p.Gs {
		descr = append(descr, Describe(&p.Gs[i]))
		sources = append(sources, Render(&p.Gs[i], LinkGraph(&p.Gs[i])).Src)
	}
	return fw.Result{Verdict: fw.Violated, Nontrivial: true,
		Sig:    fmt.Sprintf("%s:crash:%s:%s:%s", side, cr.Kind, util.NormPanic(cr.Message), cr.TopFrame),
		Why:    fmt.Sprintf("worker died (%s: %s) at %s while running %s", cr.Kind, util.Clip(cr.Message, 300), cr.TopFrame, strings.Join(descr, " || ")),
		Detail: map[string]any{"graphs": descr, "sources": sources, "crash": cr}}
}
