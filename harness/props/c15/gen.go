package c15

import (
	"fmt"

	"hv/fw"
)

// ---------------------------------------------------------------------------------------------
// Graph families. Every family is enumerated completely within its stated bound; "sample" draws
// beyond the bounds.
// ---------------------------------------------------------------------------------------------

// item kinds of the shape enumerations
const (
	kNone = iota
	kPubFn
	kPrivFn
	kPubLet
	kPrivLet
)

var kinds3fn = []int{kNone, kPubFn, kPrivFn}
var kinds3let = []int{kNone, kPubLet, kPrivLet}
var kinds5 = []int{kNone, kPubFn, kPrivFn, kPubLet, kPrivLet}
var kindsPriv = []int{kNone, kPrivFn}
var kindsPrivLet = []int{kNone, kPrivLet}

func mkItem(name string, kind int) (Item, bool) {
	switch kind {
	case kPubFn:
		return Item{Name: name, Kind: "fn", Pub: true}, true
	case kPrivFn:
		return Item{Name: name, Kind: "fn"}, true
	case kPubLet:
		return Item{Name: name, Kind: "let", Pub: true}, true
	case kPrivLet:
		return Item{Name: name, Kind: "let"}, true
	}
	return Item{}, false
}

// typeKinds: 0 none, 1 pub, 2 private
func mkType(name string, kind int) (Item, bool) {
	switch kind {
	case 1:
		return Item{Name: name, Kind: "type", Pub: true}, true
	case 2:
		return Item{Name: name, Kind: "type"}, true
	}
	return Item{}, false
}

func edgeName(mod string) string { return "e" + ident(mod) }

// newMod makes a module with its edge function and the given items.
func newMod(name string, withEdge bool, items ...Item) Mod {
	m := Mod{Name: name}
	if withEdge {
		m.Items = append(m.Items, Item{Name: edgeName(name), Kind: "fn", Pub: true, Edge: true})
	}
	m.Items = append(m.Items, items...)
	return m
}

// autoImport appends to module mi one import statement per target: the target's edge function
// plus every pub item of the target whose name the module cannot see yet. Targets that offer
// nothing new are skipped (returns false if any was skipped).
func autoImport(g *Graph, mi int, targets ...string) bool {
	m := &g.Mods[mi]
	seen := map[string]bool{key("main", false): true}
	for _, it := range m.Items {
		if it.Kind != "sing" {
			seen[key(it.Name, it.Kind == "type")] = true
		}
	}
	for _, im := range m.Imports {
		for _, x := range im.Items {
			seen[key(x.Name, x.Type)] = true
		}
	}
	all := true
	for _, t := range targets {
		tm := g.mod(t)
		var items []ImpItem
		for _, it := range tm.Items {
			k := key(it.Name, it.Kind == "type")
			if !it.Pub || seen[k] {
				continue
			}
			seen[k] = true
			items = append(items, ImpItem{Name: it.Name, Type: it.Kind == "type"})
		}
		if t == m.Name && len(items) == 0 {
			// self import: the module's own edge function
			if e := tm.edgeFn(); e != nil {
				items = append(items, ImpItem{Name: e.Name})
			}
		}
		if len(items) == 0 {
			all = false
			continue
		}
		m.Imports = append(m.Imports, Import{From: t, Items: items})
	}
	return all
}

type emitter struct {
	cases []fw.Case
	seen  map[string]bool
	count map[string]int
	// pending bundles: graphs without hazard tags run several per case (see Run)
	pend    map[string][]Graph
	pendSeq []string
	n       int
}

// bundle sizes: accepted graphs are executed (VM runs sleep in VM.Wait), rejected ones only analysed
const (
	bundleAccepted = 8
	bundleRejected = 32
)

func (e *emitter) flush(k string) {
	gs := e.pend[k]
	if len(gs) == 0 {
		return
	}
	e.pend[k] = nil
	id := fmt.Sprintf("c15-%s-%d", gs[0].Family, e.n)
	e.n += len(gs)
	e.cases = append(e.cases, fw.MkCase(id, gs[0].Family, Payload{Gs: gs}))
}

func (e *emitter) flushAll() {
	for _, k := range e.pendSeq {
		e.flush(k)
	}
}

// poisonQuota is the size of the poisoned workload per (family, finding tag).
const poisonQuota = 40

type kfTag struct{ kf, tag string }

// restricting lists the findings that restrict the main workload while they are open: graphs
// carrying the tag are generated only as a small poisoned workload (see findings.go).
func restricting() []kfTag {
	var out []kfTag
	seen := map[string]bool{}
	for _, f := range Findings {
		if f.Restricts && !seen[f.KF] {
			seen[f.KF] = true
			out = append(out, kfTag{f.KF, f.Tag})
		}
	}
	return out
}

// Payload of a case: one graph, or a bundle of graphs without hazard tags.
type Payload struct {
	Gs []Graph `json:"gs"`
	// Poison: the case belongs to a poisoned workload (hazard tags are judged in full).
	Poison bool `json:"poison,omitempty"`
}

func (e *emitter) add(g Graph) {
	h := fw.HashOf(g.Mods, g.Order, g.Mut, g.ViaValue, g.Leaks, g.SingDirect, g.Exit, g.Catch, g.Callback)
	if g.CbForm != "" {
		h = fw.HashOf(h, g.CbForm)
	}
	if g.Shadow != "" {
		h = fw.HashOf(h, "shadow", g.Shadow)
	}
	if e.seen[h] {
		return
	}
	e.seen[h] = true
	lk := LinkGraph(&g)
	tags := StructuralTags(&g)
	poison := false
	if lk.Accepted {
		tags = append(tags, Hazards(&g, lk)...)
		has := func(t string) bool {
			for _, x := range tags {
				if x == t {
					return true
				}
			}
			return false
		}
		for _, r := range restricting() {
			if has(r.tag) && fw.KFOpen(r.kf) {
				k := g.Family + "/" + r.tag
				// the first few graphs of a family, then every graph whose hash is 0 mod 4 (spreads
				// the quota over large families)
				if e.count[k] >= poisonQuota || (e.count[k] >= 8 && h[0] > '3') {
					return
				}
				e.count[k]++
				poison = true
			}
		}
		if has(TagMultiImport) && fw.KFOpen(KFReexec) {
			k := g.Family + "/" + TagMultiImport
			if e.count[k] < poisonQuota && (e.count[k] < 8 || h[1] <= '3') {
				e.count[k]++
				poison = true
			}
		}
	}
	if len(tags) == 0 {
		k, size := g.Family+"/accepted", bundleAccepted
		if !lk.Accepted {
			k, size = g.Family+"/rejected", bundleRejected
		}
		if _, ok := e.pend[k]; !ok {
			e.pendSeq = append(e.pendSeq, k)
		}
		e.pend[k] = append(e.pend[k], g)
		if len(e.pend[k]) >= size {
			e.flush(k)
		}
		return
	}
	id := fmt.Sprintf("c15-%s-%d", g.Family, e.n)
	e.n++
	e.cases = append(e.cases, fw.MkCase(id, g.Family, Payload{Gs: []Graph{g}, Poison: poison}, tags...))
}

// ---- family "pairs": entry + one module, all shapes -----------------------------------------

func famPairs(e *emitter, viaValue bool) {
	for _, af := range kinds5 {
		for _, av := range kinds5 {
			for at := 0; at < 3; at++ {
				for _, mf := range kinds3fn {
					for _, mv := range kinds3let {
						for edge := 0; edge < 2; edge++ {
							g := Graph{Order: []string{"f", "v"}, Family: "pairs", ViaValue: viaValue}
							g.Mods = []Mod{shapeMod("main", mf, mv, 0), shapeMod("a", af, av, at)}
							if edge == 1 {
								autoImport(&g, 0, "a")
							}
							e.add(g)
						}
					}
				}
			}
		}
	}
}

func shapeMod(name string, f, v, t int) Mod {
	var items []Item
	if it, ok := mkItem("f", f); ok {
		items = append(items, it)
	}
	if it, ok := mkItem("v", v); ok {
		items = append(items, it)
	}
	if it, ok := mkType("T", t); ok {
		items = append(items, it)
	}
	return newMod(name, true, items...)
}

// ---- family "triples": entry + two modules, all shapes of a bound, all edge subsets ----------

func famTriples(e *emitter, fk, vk []int) {
	for _, mf := range kindsPriv {
		for _, mv := range kindsPrivLet {
			for _, af := range fk {
				for _, av := range vk {
					for _, bf := range fk {
						for _, bv := range vk {
							for edges := 0; edges < 16; edges++ {
								orders := 1
								if edges&3 == 3 {
									orders = 2
								}
								for o := 0; o < orders; o++ {
									g := Graph{Order: []string{"f", "v"}, Family: "triples"}
									g.Mods = []Mod{shapeMod("main", mf, mv, 0), shapeMod("a", af, av, 0), shapeMod("b", bf, bv, 0)}
									// a and b import from each other before main is linked (no dependency)
									if edges&4 != 0 {
										autoImport(&g, 1, "b")
									}
									if edges&8 != 0 {
										autoImport(&g, 2, "a")
									}
									var targets []string
									if edges&1 != 0 {
										targets = append(targets, "a")
									}
									if edges&2 != 0 {
										targets = append(targets, "b")
									}
									if o == 1 {
										targets[0], targets[1] = targets[1], targets[0]
									}
									autoImport(&g, 0, targets...)
									e.add(g)
								}
							}
						}
					}
				}
			}
		}
	}
}

// ---- family "kinds": one probe import of every kind -------------------------------------------

func famKinds(e *emitter) {
	probes := []ImpItem{{Name: "f"}, {Name: "v"}, {Name: "T", Type: true}, {Name: "zz"}, {Name: "ZZ", Type: true}, {Name: "f", Type: true}, {Name: "T"}, {Name: "println"}}
	for _, tf := range kinds5 {
		for _, tv := range kinds5 {
			for tt := 0; tt < 3; tt++ {
				for _, pr := range probes {
					for importer := 0; importer < 2; importer++ {
						for mix := 0; mix < 4; mix++ {
							if mix >= 2 && (pr.Name == "T" || pr.Name == "ZZ") {
								continue
							}
							g := Graph{Order: []string{"f", "v"}, Family: "kinds"}
							var imp *Mod
							if importer == 0 {
								g.Mods = []Mod{newMod("main", true), shapeMod("a", tf, tv, tt)}
								imp = &g.Mods[0]
							} else {
								g.Mods = []Mod{newMod("main", true), newMod("a", true), shapeMod("b", tf, tv, tt)}
								autoImport(&g, 0, "a")
								imp = &g.Mods[1]
							}
							target := g.Mods[len(g.Mods)-1].Name
							items := []ImpItem{pr}
							switch mix {
							case 1:
								items = []ImpItem{{Name: edgeName(target)}, pr}
							case 2:
								// a `type` item followed by an unprefixed one: the kind must not carry over
								items = []ImpItem{{Name: "T", Type: true}, pr}
							case 3:
								items = []ImpItem{{Name: "T", Type: true}, pr, {Name: edgeName(target)}}
							}
							imp.Imports = append(imp.Imports, Import{From: target, Items: items})
							e.add(g)
						}
					}
				}
			}
		}
	}
	// missing modules, also next to legal imports
	for importer := 0; importer < 2; importer++ {
		for pos := 0; pos < 2; pos++ {
			for _, pr := range []ImpItem{{Name: "f"}, {Name: "T", Type: true}} {
				g := Graph{Order: []string{"f", "v"}, Family: "kinds"}
				g.Mods = []Mod{newMod("main", true), newMod("a", true), shapeMod("b", kPubFn, kPubLet, 1)}
				autoImport(&g, 0, "a")
				bad := Import{From: "nope", Items: []ImpItem{pr}}
				m := &g.Mods[importer]
				if pos == 0 {
					m.Imports = append([]Import{bad}, m.Imports...)
					autoImport(&g, importer, "b")
				} else {
					autoImport(&g, importer, "b")
					m.Imports = append(m.Imports, bad)
				}
				e.add(g)
			}
		}
	}
	// re-export attempts: b imports f from a, main imports f from b
	for _, k := range []int{kPubFn, kPubLet} {
		g := Graph{Order: []string{"f", "v"}, Family: "kinds"}
		it, _ := mkItem("f", k)
		g.Mods = []Mod{newMod("main", true), newMod("b", true), newMod("a", true, it)}
		autoImport(&g, 1, "a")
		g.Mods[0].Imports = []Import{{From: "b", Items: []ImpItem{{Name: edgeName("b")}, {Name: "f"}}}}
		e.add(g)
	}
	// the same probes against a module that has the names only through its own imports: the middle
	// module b imports every pub item of the owner o (all shapes); what b imported is not b's to export
	for _, tf := range kinds5 {
		for _, tv := range kinds5 {
			for tt := 0; tt < 3; tt++ {
				for _, pr := range probes {
					for mix := 0; mix < 2; mix++ {
						g := Graph{Order: []string{"f", "v"}, Family: "kinds"}
						g.Mods = []Mod{newMod("main", true), newMod("b", true), shapeMod("o", tf, tv, tt)}
						autoImport(&g, 1, "o")
						items := []ImpItem{pr}
						if mix == 1 {
							items = []ImpItem{{Name: edgeName("b")}, pr}
						}
						g.Mods[0].Imports = []Import{{From: "b", Items: items}}
						e.add(g)
					}
				}
			}
		}
	}
}

// ---- family "chain": import chains: what a module imported cannot be imported from it ----------

// famChain: owner a defines pub X (function, global or type), a chain of modules hands it on:
// m1 imports X from a (legal), m2 imports X from m1 (illegal: m1 does not define X), ... The entry
// imports the edge function of the first module of the chain. Variants: length of the chain, which
// hops exist, whether the middle modules use what they imported, whether the illegal statement
// stands alone or next to a legal name, and whether the middle module defines a private X of the
// other namespace (a value X next to the imported type X and vice versa).
func famChain(e *emitter) {
	owners := []Item{{Name: "x", Kind: "fn", Pub: true}, {Name: "x", Kind: "let", Pub: true}, {Name: "X", Kind: "type", Pub: true},
		{Name: "x", Kind: "fn"}, {Name: "x", Kind: "let"}, {Name: "X", Kind: "type"}}
	for _, own := range owners {
		imp := ImpItem{Name: own.Name, Type: own.Kind == "type"}
		for hops := 2; hops <= 3; hops++ { // number of modules that import X one from the other
			for top := 0; top < 2; top++ { // 0: the entry is the last importer, 1: a non-entry module is
				for mix := 0; mix < 3; mix++ {
					for other := 0; other < 2; other++ {
						g := Graph{Order: []string{"x"}, Family: "chain"}
						// chain[0] is the last importer, chain[len-1] imports from the owner
						var chain []string
						if top == 0 {
							chain = append(chain, "main")
						} else {
							g.Mods = append(g.Mods, newMod("main", true))
						}
						for len(chain) < hops {
							chain = append(chain, []string{"b", "c", "d"}[len(chain)])
						}
						for _, n := range chain {
							g.Mods = append(g.Mods, newMod(n, true))
						}
						g.Mods = append(g.Mods, newMod("a", true, own))
						if other == 1 {
							// the module next to the owner has a private item of the same name in the other namespace
							o := Item{Name: own.Name, Kind: "type"}
							if own.Kind == "type" {
								o = Item{Name: own.Name, Kind: "let"}
							}
							m := g.mod(chain[len(chain)-1])
							m.Items = append(m.Items, o)
						}
						if top == 1 {
							g.Mods[0].Imports = []Import{{From: chain[0], Items: []ImpItem{{Name: edgeName(chain[0])}}}}
						}
						for i, n := range chain {
							from := "a"
							if i+1 < len(chain) {
								from = chain[i+1]
							}
							items := []ImpItem{imp}
							switch mix {
							case 1:
								items = []ImpItem{{Name: edgeName(from)}, imp}
							case 2:
								// two statements: the legal one first
								g.mod(n).Imports = append(g.mod(n).Imports, Import{From: from, Items: []ImpItem{{Name: edgeName(from)}}})
							}
							g.mod(n).Imports = append(g.mod(n).Imports, Import{From: from, Items: items})
						}
						e.add(g)
					}
				}
			}
		}
	}
}

// ---- family "sing": modules with singletons of the same name ------------------------------------

// famSing: entry + a, b; every subset of the modules declares a singleton `$K` (and, for some, a
// second one `$L`); all functions of a module log into and read the module's singletons, through
// extraction parameters or through `$K` expressions, called directly or through function values;
// every subset of the edges {main->a, main->b, a->b, b->a} that links at least one module.
func famSing(e *emitter, lmasks []int) {
	names := []string{"main", "a", "b"}
	for direct := 0; direct < 2; direct++ {
		for via := 0; via < 2; via++ {
			for kmask := 0; kmask < 8; kmask++ {
				for _, lmask := range lmasks {
					if kmask == 0 && lmask == 0 {
						continue
					}
					for edges := 1; edges < 16; edges++ {
						if edges&3 == 0 {
							continue
						}
						g := Graph{Order: []string{"f", "v"}, Family: "sing", SingDirect: direct == 1, ViaValue: via == 1}
						g.Mods = []Mod{shapeMod("main", kNone, kPrivLet, 0), shapeMod("a", kPubFn, kNone, 0), shapeMod("b", kPubFn, kPubLet, 0)}
						for i := range names {
							if lmask&(1<<i) != 0 {
								g.Mods[i].Items = append(g.Mods[i].Items, Item{Name: "L", Kind: "sing"})
							}
							if kmask&(1<<i) != 0 {
								g.Mods[i].Items = append(g.Mods[i].Items, Item{Name: "K", Kind: "sing"})
							}
						}
						if edges&4 != 0 {
							autoImport(&g, 1, "b")
						}
						if edges&8 != 0 {
							autoImport(&g, 2, "a")
						}
						var targets []string
						if edges&1 != 0 {
							targets = append(targets, "a")
						}
						if edges&2 != 0 {
							targets = append(targets, "b")
						}
						autoImport(&g, 0, targets...)
						e.add(g)
					}
				}
			}
		}
	}
}

// ---- family "edges": all import edge subsets over fixed shapes (self imports, cycles, diamonds)

func famEdges(e *emitter, n int, selfLoops bool, overlapGlobals bool, reverse bool) {
	famEdgesNamed(e, []string{"main", "a", "b", "c"}[:n], selfLoops, overlapGlobals, reverse, false)
}

// famEdgesNamed: the first name is the entry module (it need not be called main, and another
// module may be).
func famEdgesNamed(e *emitter, names []string, selfLoops bool, overlapGlobals bool, reverse bool, viaValue bool) {
	n := len(names)
	type edge struct{ from, to int }
	var all []edge
	for i := 0; i < n; i++ {
		for j := 0; j < n; j++ {
			if i == j && !selfLoops {
				continue
			}
			all = append(all, edge{i, j})
		}
	}
	for mask := 0; mask < 1<<len(all); mask++ {
		g := Graph{Family: fmt.Sprintf("edges%d", n), ViaValue: viaValue}
		g.Order = []string{"f"}
		for _, nm := range names {
			v := "v" + nm
			if overlapGlobals {
				v = "v"
			}
			g.Mods = append(g.Mods, newMod(nm, true, Item{Name: "f", Kind: "fn"}, Item{Name: v, Kind: "let"}))
			if !overlapGlobals || nm == names[0] {
				g.Order = append(g.Order, v)
			}
		}
		for i := 0; i < n; i++ {
			var targets []string
			for k, ed := range all {
				if mask&(1<<k) != 0 && ed.from == i {
					targets = append(targets, names[ed.to])
				}
			}
			if reverse {
				for a, b := 0, len(targets)-1; a < b; a, b = a+1, b-1 {
					targets[a], targets[b] = targets[b], targets[a]
				}
			}
			autoImport(&g, i, targets...)
		}
		e.add(g)
	}
}

// ---- family "mangle": module and item names whose mangled forms coincide ----------------------

func famMangle(e *emitter) {
	type scheme struct{ m1, n1, m2, n2 string }
	for _, s := range []scheme{{"a", "b_c", "a_b", "c"}, {"m", "n_x1", "m_n", "x1"}} {
		for _, k1 := range []int{kPubFn, kPrivFn, kPubLet, kPrivLet} {
			for _, k2 := range []int{kPubFn, kPrivFn, kPubLet, kPrivLet} {
				for shape := 0; shape < 3; shape++ {
					g := Graph{Order: []string{s.n1, s.n2}, Family: "mangle"}
					i1, _ := mkItem(s.n1, k1)
					i2, _ := mkItem(s.n2, k2)
					g.Mods = []Mod{newMod("main", true), newMod(s.m1, true, i1), newMod(s.m2, true, i2)}
					switch shape {
					case 0: // main imports from both
						autoImport(&g, 0, s.m1, s.m2)
					case 1: // chain main -> m1 -> m2
						autoImport(&g, 1, s.m2)
						autoImport(&g, 0, s.m1)
					case 2: // chain main -> m2 -> m1
						autoImport(&g, 2, s.m1)
						autoImport(&g, 0, s.m2)
					}
					e.add(g)
				}
			}
		}
	}
}

// ---- family "mut": functions write to pub and imported globals ---------------------------------

func famMut(e *emitter) {
	for _, af := range []int{kNone, kPubFn} {
		for _, mf := range []int{kNone, kPrivFn} {
			for shape := 0; shape < 4; shape++ {
				g := Graph{Order: []string{"f", "v"}, Family: "mut", Mut: true}
				switch shape {
				case 0: // main imports a's pub global (and f)
					g.Mods = []Mod{shapeMod("main", mf, kNone, 0), shapeMod("a", af, kPubLet, 0)}
					autoImport(&g, 0, "a")
				case 1: // main -> a -> b, b's global imported by a only
					g.Mods = []Mod{shapeMod("main", mf, kNone, 0), shapeMod("a", af, kNone, 0), shapeMod("b", kNone, kPubLet, 0)}
					autoImport(&g, 1, "b")
					autoImport(&g, 0, "a")
				case 2: // diamond on the global: main and a both import b's v
					g.Mods = []Mod{shapeMod("main", mf, kNone, 0), shapeMod("a", af, kNone, 0), shapeMod("b", kPubFn, kPubLet, 0)}
					autoImport(&g, 1, "b")
					autoImport(&g, 0, "a", "b")
				case 3: // pub global that nobody imports (only its own module writes it)
					g.Mods = []Mod{shapeMod("main", mf, kNone, 0), shapeMod("a", kPubFn, kNone, 0)}
					g.Mods[1].Items = append(g.Mods[1].Items, Item{Name: "w", Kind: "let", Pub: true})
					g.Order = []string{"f", "w"}
					autoImport(&g, 0, "a")
				}
				e.add(g)
			}
		}
	}
}

// ---- family "leaks": a module uses a name of another module without importing it ---------------

func famLeaks(e *emitter) {
	defs := []Item{{Name: "x", Kind: "fn", Pub: true}, {Name: "x", Kind: "fn"}, {Name: "x", Kind: "let", Pub: true}, {Name: "x", Kind: "let"}, {Name: "X", Kind: "type", Pub: true}, {Name: "X", Kind: "type"}}
	for _, d := range defs {
		for user := 0; user < 3; user++ {
			for elsewhere := 0; elsewhere < 2; elsewhere++ {
				g := Graph{Order: []string{"x"}, Family: "leaks"}
				g.Mods = []Mod{newMod("main", true), newMod("a", true, d), newMod("b", true)}
				var who string
				switch user {
				case 0: // the entry imports something else from a
					who = "main"
					g.Mods[0].Imports = []Import{{From: "a", Items: []ImpItem{{Name: "ea"}}}}
				case 1: // b is a sibling of a
					who = "b"
					g.Mods[0].Imports = []Import{{From: "a", Items: []ImpItem{{Name: "ea"}}}, {From: "b", Items: []ImpItem{{Name: "eb"}}}}
				case 2: // a imports b: b uses a name of its importer
					who = "b"
					g.Mods[1].Imports = []Import{{From: "b", Items: []ImpItem{{Name: "eb"}}}}
					g.Mods[0].Imports = []Import{{From: "a", Items: []ImpItem{{Name: "ea"}}}}
				}
				if elsewhere == 1 {
					// some other module imports the name legally
					if !d.Pub {
						continue
					}
					other := 0
					if who == "main" {
						other = 2
						g.Mods[0].Imports = append(g.Mods[0].Imports, Import{From: "b", Items: []ImpItem{{Name: "eb"}}})
					}
					g.Mods[other].Imports = append(g.Mods[other].Imports, Import{From: "a", Items: []ImpItem{{Name: d.Name, Type: d.Kind == "type"}}})
				}
				g.Leaks = []Leak{{Mod: who, Name: d.Name, Kind: d.Kind}}
				e.add(g)
			}
		}
	}
}

// ---- family "bare": modules without singleton and without globals (empty init routines) ----------

func famBare(e *emitter) {
	for edges := 0; edges < 16; edges++ {
		for bare := 1; bare < 4; bare++ {
			for globals := 0; globals < 4; globals++ {
				g := Graph{Order: []string{"f", "va", "vb"}, Family: "bare"}
				g.Mods = []Mod{newMod("main", true, Item{Name: "f", Kind: "fn"}), newMod("a", true, Item{Name: "f", Kind: "fn"}), newMod("b", true, Item{Name: "f", Kind: "fn"})}
				for i := 1; i <= 2; i++ {
					g.Mods[i].Bare = bare&i != 0
					if globals&i != 0 {
						g.Mods[i].Items = append(g.Mods[i].Items, Item{Name: "v" + g.Mods[i].Name, Kind: "let"})
					}
				}
				if edges&4 != 0 {
					autoImport(&g, 1, "b")
				}
				if edges&8 != 0 {
					autoImport(&g, 2, "a")
				}
				var targets []string
				if edges&1 != 0 {
					targets = append(targets, "a")
				}
				if edges&2 != 0 {
					targets = append(targets, "b")
				}
				autoImport(&g, 0, targets...)
				e.add(g)
			}
		}
	}
}

// ---- family "reexport": triggers and templates a module imported from the host, imported from it -

func famReexport(e *emitter) {
	host := []HostImport{{From: "triggers", Item: ImpItem{Name: "minute", Other: "trigger"}}, {From: "templates", Item: ImpItem{Name: "FooFeature", Other: "templ"}}}
	for _, hi := range host {
		for importer := 0; importer < 2; importer++ {
			for has := 0; has < 2; has++ {
				for mix := 0; mix < 2; mix++ {
					g := Graph{Order: []string{"f"}, Family: "reexport"}
					g.Mods = []Mod{newMod("main", true), newMod("a", true), newMod("b", true, Item{Name: "f", Kind: "fn", Pub: true})}
					g.Mods[0].Imports = []Import{{From: "a", Items: []ImpItem{{Name: "ea"}}}}
					if has == 1 {
						// b imported it from the host (has == 0: b has nothing of that name at all)
						g.Mods[2].HostImports = []HostImport{hi}
					}
					items := []ImpItem{hi.Item}
					if mix == 1 {
						// (the parser accepts `trigger` only as the first element of a braced list)
						items = []ImpItem{hi.Item, {Name: "eb"}, {Name: "f"}}
					}
					g.Mods[importer].Imports = append(g.Mods[importer].Imports, Import{From: "b", Items: items})
					e.add(g)
				}
			}
		}
	}
}

// ---- family "exits": every way a call can end, across module boundaries -------------------------

// exitMode is one combination of how functions end, where thrown results are caught and whether
// function values travel across the module boundaries.
type exitMode struct{ exit, catch, callback, form string }

// exitModes lists every combination except the plain one (tail value, no callbacks), which all
// other families use: first the ones whose function values are named functions handed down, then
// the ones with function values returned by maker functions and / or written as function literals.
func exitModes() []exitMode {
	var out []exitMode
	type cbf struct{ cb, form string }
	for _, c := range []cbf{{"", ""}, {"own", ""}, {"relay", ""}, {"made", ""}, {"own", "lit"}, {"relay", "lit"}, {"made", "lit"}} {
		for _, ex := range []string{"", "return", "throw", "throw-deep"} {
			if ex == "" && c.cb == "" {
				continue
			}
			out = append(out, exitMode{ex, "", c.cb, c.form})
			if ex == "throw" || ex == "throw-deep" {
				out = append(out, exitMode{ex, "entry", c.cb, c.form})
			}
		}
	}
	return out
}

// withCallback gives every module the private function k that it hands out as a function value
// (mode "made": and the pub maker function that returns it, imported wherever the module is
// imported). It must be called after the import statements of the graph have been made.
func withCallback(g *Graph, mode, form string) {
	if mode == "" {
		return
	}
	g.Callback, g.CbForm = mode, form
	for i := range g.Mods {
		g.Mods[i].Items = append(g.Mods[i].Items, Item{Name: cbName, Kind: "fn"})
	}
	g.Order = append([]string{cbName}, g.Order...)
	if mode != "made" {
		return
	}
	for i := range g.Mods {
		g.Mods[i].Items = append(g.Mods[i].Items, Item{Name: makerName(g.Mods[i].Name), Kind: "fn", Pub: true, Maker: true})
	}
	for i := range g.Mods {
		m := &g.Mods[i]
		done := map[string]bool{m.Name: true} // (a module has its own maker already)
		for ii := range m.Imports {
			im := &m.Imports[ii]
			if g.mod(im.From) == nil || done[im.From] {
				continue
			}
			done[im.From] = true
			im.Items = append(append([]ImpItem{}, im.Items...), ImpItem{Name: makerName(im.From)})
		}
	}
}

// famExits: entry + n-1 modules, every acyclic set of import edges that reaches every module;
// every module has its edge function, a private function f and a private global (one name shared
// by all modules, or one name per module), the last module also a pub function g that its
// importers call from their own functions; every exit mode; direct calls and (vias == 2) calls
// through function values. Graphs with an illegal import are left out: the diagnostics do not depend on how
// functions end (the other families enumerate them). Plus, on one diamond, modules that all declare
// a singleton `$K`, reached through extraction parameters or `$K` expressions.
func famExits(e *emitter, n int, modes []exitMode, vias int) {
	names := []string{"main", "a", "b", "c"}[:n]
	type edge struct{ from, to int }
	var all []edge
	for i := 0; i < n; i++ {
		for j := 0; j < n; j++ {
			if i != j {
				all = append(all, edge{i, j})
			}
		}
	}
	build := func(mask int, overlap bool) Graph {
		g := Graph{Family: "exits", Order: []string{"f", "g"}}
		for i, nm := range names {
			v := "v" + nm
			if overlap {
				v = "v"
			}
			items := []Item{{Name: "f", Kind: "fn"}, {Name: v, Kind: "let"}}
			if i == n-1 {
				items = append(items, Item{Name: "g", Kind: "fn", Pub: true})
			}
			g.Mods = append(g.Mods, newMod(nm, true, items...))
			if !overlap || i == 0 {
				g.Order = append(g.Order, v)
			}
		}
		for i := 0; i < n; i++ {
			var targets []string
			for k, ed := range all {
				if mask&(1<<k) != 0 && ed.from == i {
					targets = append(targets, names[ed.to])
				}
			}
			autoImport(&g, i, targets...)
		}
		return g
	}
	for mask := 1; mask < 1<<len(all); mask++ {
		probe := build(mask, false)
		if lk := LinkGraph(&probe); !lk.Accepted || len(lk.ReachSeq) != n {
			continue
		}
		for _, md := range modes {
			for overlap := 0; overlap < 2; overlap++ {
				for via := 0; via < vias; via++ {
					g := build(mask, overlap == 1)
					g.Exit, g.Catch, g.ViaValue = md.exit, md.catch, via == 1
					withCallback(&g, md.callback, md.form)
					e.add(g)
				}
			}
		}
	}
	if n != 3 {
		return
	}
	for _, md := range modes {
		for direct := 0; direct < 2; direct++ {
			g := Graph{Family: "exits", Order: []string{"f", "v"}, SingDirect: direct == 1, Exit: md.exit, Catch: md.catch}
			g.Mods = []Mod{shapeMod("main", kPrivFn, kPrivLet, 0), shapeMod("a", kPubFn, kPrivLet, 0), shapeMod("b", kPrivFn, kPubLet, 0)}
			for i := range g.Mods {
				g.Mods[i].Items = append(g.Mods[i].Items, Item{Name: "K", Kind: "sing"})
			}
			autoImport(&g, 1, "b")
			autoImport(&g, 0, "a", "b")
			withCallback(&g, md.callback, md.form)
			e.add(g)
		}
	}
}

// ---- family "shadow": frames holding variables named like the globals of their module -----------

// shadowForms lists the ways a function can hold a variable named like a global (Graph.Shadow).
var shadowForms = []string{"let", "param", "block"}

// famShadow: the shapes of family "exits" (entry + n-1 modules, every acyclic set of import edges that
// reaches every module; edge function, private fn f, private global under one shared name or one
// name per module, a pub fn g in the last module) where every function and the entry's main hold a
// variable named like each global of their module while they call other functions - as a local, as
// a parameter or as a local of a nested block - x function values crossing the module boundaries
// {none, handed down: own / relay, returned by makers} x {named function, literal} (a function of a
// module is called back from another module while frames of its own module are still active) x how
// calls end. Plus, for n == 3: the diamond whose modules all declare `$K` (extraction parameters
// stand next to the shadowing parameters), and modules that import a pub global (the shadowed name is
// an imported one), with and without writes through it.
func famShadow(e *emitter, n int, exits []exitMode, vias int) {
	names := []string{"main", "a", "b", "c"}[:n]
	type edge struct{ from, to int }
	var all []edge
	for i := 0; i < n; i++ {
		for j := 0; j < n; j++ {
			if i != j {
				all = append(all, edge{i, j})
			}
		}
	}
	build := func(mask int, overlap bool) Graph {
		g := Graph{Family: "shadow", Order: []string{"f", "g"}}
		for i, nm := range names {
			v := "v" + nm
			if overlap {
				v = "v"
			}
			items := []Item{{Name: "f", Kind: "fn"}, {Name: v, Kind: "let"}}
			if i == n-1 {
				items = append(items, Item{Name: "g", Kind: "fn", Pub: true})
			}
			g.Mods = append(g.Mods, newMod(nm, true, items...))
			if !overlap || i == 0 {
				g.Order = append(g.Order, v)
			}
		}
		for i := 0; i < n; i++ {
			var targets []string
			for k, ed := range all {
				if mask&(1<<k) != 0 && ed.from == i {
					targets = append(targets, names[ed.to])
				}
			}
			autoImport(&g, i, targets...)
		}
		return g
	}
	type cbf struct{ cb, form string }
	cbs := []cbf{{"", ""}, {"own", ""}, {"relay", ""}, {"made", ""}, {"own", "lit"}, {"relay", "lit"}, {"made", "lit"}}
	for mask := 1; mask < 1<<len(all); mask++ {
		probe := build(mask, false)
		if lk := LinkGraph(&probe); !lk.Accepted || len(lk.ReachSeq) != n {
			continue
		}
		for _, c := range cbs {
			for _, ex := range exits {
				for overlap := 0; overlap < 2; overlap++ {
					for _, sh := range shadowForms {
						for via := 0; via < vias; via++ {
							g := build(mask, overlap == 1)
							g.Exit, g.Catch, g.ViaValue, g.Shadow = ex.exit, ex.catch, via == 1, sh
							withCallback(&g, c.cb, c.form)
							e.add(g)
						}
					}
				}
			}
		}
	}
	if n != 3 {
		return
	}
	for _, c := range cbs {
		for _, ex := range exits {
			for direct := 0; direct < 2; direct++ {
				for _, sh := range shadowForms {
					g := Graph{Family: "shadow", Order: []string{"f", "v"}, SingDirect: direct == 1, Exit: ex.exit, Catch: ex.catch, Shadow: sh}
					g.Mods = []Mod{shapeMod("main", kPrivFn, kPrivLet, 0), shapeMod("a", kPubFn, kPrivLet, 0), shapeMod("b", kPrivFn, kPubLet, 0)}
					for i := range g.Mods {
						g.Mods[i].Items = append(g.Mods[i].Items, Item{Name: "K", Kind: "sing"})
					}
					autoImport(&g, 1, "b")
					autoImport(&g, 0, "a", "b")
					withCallback(&g, c.cb, c.form)
					e.add(g)
				}
			}
		}
	}
	// the shadowed name is an imported global
	for _, c := range cbs {
		for shape := 0; shape < 3; shape++ {
			for mut := 0; mut < 2; mut++ {
				for _, sh := range shadowForms {
					g := Graph{Order: []string{"f", "v"}, Family: "shadow", Mut: mut == 1, Shadow: sh}
					switch shape {
					case 0: // main imports a's pub global and f
						g.Mods = []Mod{shapeMod("main", kNone, kNone, 0), shapeMod("a", kPubFn, kPubLet, 0)}
						autoImport(&g, 0, "a")
					case 1: // main -> a -> b, b's global imported by a only, main has its own
						g.Mods = []Mod{shapeMod("main", kPrivFn, kPrivLet, 0), shapeMod("a", kPubFn, kNone, 0), shapeMod("b", kNone, kPubLet, 0)}
						autoImport(&g, 1, "b")
						autoImport(&g, 0, "a")
					case 2: // diamond on the global: main and a both import b's v
						g.Mods = []Mod{shapeMod("main", kPrivFn, kNone, 0), shapeMod("a", kNone, kNone, 0), shapeMod("b", kPubFn, kPubLet, 0)}
						autoImport(&g, 1, "b")
						autoImport(&g, 0, "a", "b")
					}
					withCallback(&g, c.cb, c.form)
					e.add(g)
				}
			}
		}
	}
}

// ---- family "sample": random graphs beyond the enumerated bounds ------------------------------

func famSample(e *emitter, r *fw.Rng, r2 *fw.Rng, r3 *fw.Rng, r4 *fw.Rng, count int) {
	modes := exitModes()
	modNames := []string{"main", "a", "b", "c", "d"}
	for i := 0; i < count; i++ {
		n := 3 + r.Intn(3)
		g := Graph{Order: []string{"f", "g", "v"}, Family: "sample"}
		disjoint := r.Chance(1, 3)
		if disjoint {
			g.Order = nil
		}
		for mi := 0; mi < n; mi++ {
			nm := modNames[mi]
			var items []Item
			for _, base := range []string{"f", "g", "v"} {
				name := base
				if disjoint {
					name = base + nm
				}
				k := fw.Pick(r, kinds5)
				if disjoint {
					// keep name kinds apart in the disjoint mode: f,g functions, v global
					if base == "v" {
						k = fw.Pick(r, kinds3let)
					} else {
						k = fw.Pick(r, kinds3fn)
					}
				}
				if it, ok := mkItem(name, k); ok {
					items = append(items, it)
				}
			}
			tn := "T"
			if disjoint {
				tn = "T" + nm
			}
			if it, ok := mkType(tn, r.Intn(3)); ok {
				items = append(items, it)
			}
			g.Mods = append(g.Mods, newMod(nm, true, items...))
			g.Mods[mi].Bare = mi > 0 && r.Chance(1, 5)
		}
		if disjoint {
			for _, base := range []string{"f", "g", "v"} {
				for mi := 0; mi < n; mi++ {
					g.Order = append(g.Order, base+modNames[mi])
				}
			}
		}
		// edges: mostly forward (acyclic), sometimes arbitrary
		anyDir := r.Chance(1, 6)
		dens := 2 + r.Intn(3)
		for mi := n - 1; mi >= 0; mi-- {
			var targets []string
			for mj := 0; mj < n; mj++ {
				if mi == mj && !(anyDir && r.Chance(1, 8)) {
					continue
				}
				if mj < mi && !anyDir {
					continue
				}
				if r.Chance(dens, 5) {
					targets = append(targets, modNames[mj])
				}
			}
			// random statement order
			for k := len(targets) - 1; k > 0; k-- {
				j := r.Intn(k + 1)
				targets[k], targets[j] = targets[j], targets[k]
			}
			autoImport(&g, mi, targets...)
		}
		g.ViaValue = r.Chance(1, 4)
		// sometimes one statement is split in two (the same module imported twice by one module)
		if r.Chance(1, 5) {
			mi := r.Intn(n)
			m := &g.Mods[mi]
			for ii := range m.Imports {
				if its := m.Imports[ii].Items; len(its) >= 2 {
					m.Imports[ii].Items = its[:1]
					m.Imports = append(m.Imports, Import{From: m.Imports[ii].From, Items: append([]ImpItem{}, its[1:]...)})
					break
				}
			}
		}
		// sometimes one illegal import somewhere
		if r.Chance(1, 4) {
			mi := r.Intn(n)
			var bad Import
			switch r.Intn(3) {
			case 0:
				bad = Import{From: "nope", Items: []ImpItem{{Name: "zq"}}}
			case 1:
				bad = Import{From: modNames[r.Intn(n)], Items: []ImpItem{{Name: "zz"}}}
			default:
				bad = Import{From: modNames[r.Intn(n)], Items: []ImpItem{{Name: "main"}}}
			}
			m := &g.Mods[mi]
			pos := r.Intn(len(m.Imports) + 1)
			m.Imports = append(m.Imports[:pos], append([]Import{bad}, m.Imports[pos:]...)...)
		}
		// decorations drawn from a second stream (the graphs above do not depend on them)
		// singletons of the same name in several modules
		if r2.Chance(1, 3) {
			g.SingDirect = r2.Chance(1, 2)
			for mi := range g.Mods {
				if r2.Chance(1, 2) {
					g.Mods[mi].Items = append(g.Mods[mi].Items, Item{Name: "K", Kind: "sing"})
				}
				if r2.Chance(1, 4) {
					g.Mods[mi].Items = append(g.Mods[mi].Items, Item{Name: "L", Kind: "sing"})
				}
			}
		}
		// sometimes a module tries to import a name from a module that only imported it itself
		if r2.Chance(1, 6) {
			// (importer, middle module, name): the middle module imported the name legally from its
			// owner; the importer is another module that has no such name yet (a second meaning for
			// a name is a different error, and self imports are enumerated by the edges families)
			type cand struct {
				importer int
				mod      string
				item     ImpItem
			}
			var cands []cand
			for _, m := range g.Mods {
				for _, im := range m.Imports {
					for _, x := range im.Items {
						if im.From == m.Name || g.mod(im.From) == nil || g.mod(im.From).item(x.Name, x.Type) == nil {
							continue
						}
						for pi := range g.Mods {
							p := &g.Mods[pi]
							has := p.Name == m.Name || p.item(x.Name, x.Type) != nil
							for _, pim := range p.Imports {
								for _, px := range pim.Items {
									if px.Name == x.Name && px.Type == x.Type {
										has = true
									}
								}
							}
							if !has {
								cands = append(cands, cand{pi, m.Name, x})
							}
						}
					}
				}
			}
			if len(cands) > 0 {
				c := cands[r2.Intn(len(cands))]
				m := &g.Mods[c.importer]
				pos := r2.Intn(len(m.Imports) + 1)
				bad := Import{From: c.mod, Items: []ImpItem{c.item}}
				m.Imports = append(m.Imports[:pos], append([]Import{bad}, m.Imports[pos:]...)...)
			}
		}
		// a third stream: how calls end (return, throw caught at the call site or in main) and
		// function values handed across the module boundaries
		if r3.Chance(1, 3) {
			md := modes[r3.Intn(len(modes))]
			g.Exit, g.Catch = md.exit, md.catch
			withCallback(&g, md.callback, md.form)
		}
		// a fourth stream: variables named like the globals of the module in every frame
		if r4.Chance(1, 4) {
			g.Shadow = shadowForms[r4.Intn(len(shadowForms))]
		}
		e.add(g)
	}
}

// shadowExits lists how calls end in family "shadow": all six ways, or (not all) one per kind of exit.
func shadowExits(all bool) []exitMode {
	if all {
		return []exitMode{{exit: ""}, {exit: "return"}, {exit: "throw"}, {exit: "throw", catch: "entry"}, {exit: "throw-deep"}, {exit: "throw-deep", catch: "entry"}}
	}
	return []exitMode{{exit: ""}, {exit: "return"}, {exit: "throw"}, {exit: "throw-deep", catch: "entry"}}
}

// Bound describes the enumerated (exhaustive) part of a tier in words.
func Bound(tier string) string {
	tri := "f in {none, pub fn, fn}, v in {none, pub let, let}"
	e3 := "over 3 modules without self imports with one private global name shared by all modules"
	e4 := "over 4 modules without self imports (2^12)"
	singL := "none or {a, b}"
	ex4 := ""
	sh := "entry + 1 module, calls ending as {tail value, `return`, `throw(result)` caught at the call site, throw from a private helper caught in the entry's main}, or entry + 2 modules, direct calls only, calls ending as {tail value, throw from a private helper caught in the entry's main}"
	if tier == "thorough" {
		sh = "entry + 1 or 2 modules, calls ending in each of the six ways, or (direct calls only, tail values only) entry + 3 modules"
		singL = "none, {main, a}, {main, b}, {a, b} or all"
		ex4 = " or (direct calls only) 3 modules"
		tri = "f and v each in {none, pub fn, fn, pub let, let}"
		e3 = "over 3 modules including self imports also with reversed statement order and with one private global name shared by all modules"
		e4 = "over 4 modules without self imports (2^12), also with reversed statement order and with one private global name shared by all modules"
	}
	return "pairs: entry + module a; a's names f and v each in {none, pub fn, fn, pub let, let} x type T in {none, pub, private}; entry's f in {none, pub fn, fn} x v in {none, pub let, let}; with and without the import edge; direct calls and calls through function values. " +
		"triples: entry (f in {none, fn} x v in {none, let}) + modules a, b with " + tri + "; every subset of the edges {main->a, main->b, a->b, b->a}; both statement orders in main. " +
		"kinds: one probe import {f, v, type T, missing value, missing type, f as type, T as value, a builtin name} against every shape of the target (f, v each of 5 kinds x T of 3); importer = the entry or a non-entry module; alone or next to a legal name; plus missing modules (4 positions x 2 item kinds), two re-export attempts, and the same probes (alone or next to a legal name, importer = entry) against a middle module that itself imported every pub item of an owner of every shape. " +
		"chain: owner a with x as fn/let or X as type (pub or private), handed on through 2 or 3 modules that import it one from the other (only the first hop can be legal); last importer = entry or non-entry; the name alone, next to a legal name or in a second statement; with and without a private item of the same name in the other namespace next to the owner. " +
		"sing: entry + a, b where every subset of the modules declares singleton `$K` (and `$L` in " + singL + "); functions reach them through extraction parameters or `$K` expressions; direct calls and calls through function values; every subset of {main->a, main->b, a->b, b->a} containing an edge from main. " +
		"edges: every subset of import edges over 2 and 3 modules including self imports (2^4, 2^9), " + e3 + ", " + e4 + "; over 3 modules without self imports also with entry `app` importing a module called `main`, and with calls through function values; fixed shapes (edge function, private fn f in every module, private global). " +
		"bare: entry + a, b where a and/or b declare no singleton, with and without a global, every subset of {main->a, main->b, a->b, b->a}. " +
		"reexport: `import trigger minute` / `import templ FooFeature` from a user module that imported it from the host or has no such name; importer = entry or non-entry; alone or first in a braced list. " +
		"leaks: a module uses fn/let/type x (pub or private) of another module without importing it: user = entry, sibling or imported module; with and without a third module importing it legally. " +
		"exits: entry + 1 or 2 modules" + ex4 + ", every acyclic set of import edges that reaches every module (edge function, private fn f, private global under one shared name or one name per module, a pub fn g in the last module), in every combination of how functions end {tail value, `return`, `throw(result)`, throw from a private helper of the module} x where a thrown result is caught {`try` around every call, only in the entry's main} x function values crossing the boundary {none, every edge function is handed its caller's private k and calls it, the entry's k is handed down the chain, every module's pub maker function returns its private k and the importers call what it returns} x what the function value is {the named function, a function literal `fn() -> str { k() }` written where the value is made} except the plain one; direct calls and calls through function values; plus one diamond whose modules all declare `$K` (extraction parameters or `$K` expressions) in every such combination. " +
		"shadow: the graphs of exits with " + sh + ", where every function and the entry's main hold a variable named like each global of their module while they call other functions {a local declared first, a parameter, a local of a nested block around the calls after which the globals are read again} x the same function-value combinations including none; plus the `$K` diamond (same ways of ending a call) and three shapes in which the shadowed name is an imported pub global, with and without writes through it. " +
		"mangle: modules a / a_b (m / m_n) with items b_c / c (n_x1 / x1) of every kind pair (pub/private fn/let) in three import shapes. mut: 14 graphs in which functions write through pub and imported globals"
}

func buildCases(tier string, seed uint64) []fw.Case {
	e := &emitter{seen: map[string]bool{}, count: map[string]int{}, pend: map[string][]Graph{}}
	thorough := tier == "thorough"
	famPairs(e, false)
	famPairs(e, true)
	famLeaks(e)
	famBare(e)
	famReexport(e)
	famChain(e)
	if thorough {
		famSing(e, []int{0, 3, 5, 6, 7})
	} else {
		famSing(e, []int{0, 6})
	}
	famEdgesNamed(e, []string{"app", "main", "b"}, false, false, false, false)
	famEdgesNamed(e, []string{"main", "a", "b"}, false, false, false, true)
	famKinds(e)
	famMangle(e)
	famMut(e)
	famEdges(e, 2, true, false, false)
	famEdges(e, 3, true, false, false)
	famEdges(e, 4, false, false, false)
	if thorough {
		famTriples(e, kinds5, kinds5)
		famEdges(e, 3, true, false, true)
		famEdges(e, 3, true, true, false)
		famEdges(e, 4, false, false, true)
		famEdges(e, 4, false, true, false)
	} else {
		famTriples(e, kinds3fn, kinds3let)
		famEdges(e, 3, false, true, false)
	}
	n := 1200
	if thorough {
		n = 12000
	}
	famExits(e, 2, exitModes(), 2)
	famExits(e, 3, exitModes(), 2)
	if thorough {
		famExits(e, 4, exitModes(), 1)
	}
	if thorough {
		famShadow(e, 2, shadowExits(true), 2)
		famShadow(e, 3, shadowExits(true), 2)
		famShadow(e, 4, shadowExits(false)[:1], 1)
	} else {
		famShadow(e, 2, shadowExits(false), 2)
		famShadow(e, 3, []exitMode{shadowExits(false)[0], shadowExits(false)[3]}, 1)
	}
	famSample(e, fw.NewRng(seed^0xC15), fw.NewRng(seed^0xC15D), fw.NewRng(seed^0xC15E), fw.NewRng(seed^0xC15F), n)
	e.flushAll()
	return e.cases
}
