package c15

import (
	"fmt"
	"os"
	"testing"

	"hv/fw"
)

// TestShow prints the case counts per family and one rendered graph (development aid).
func TestShow(t *testing.T) {
	for _, tier := range []string{"quick", "thorough"} {
		cases := buildCases(tier, 1)
		count := map[string]int{}
		acc := map[string]int{}
		for _, c := range cases {
			var p Payload
			fw.Decode(c, &p)
			for i := range p.Gs {
				count[c.Kind]++
				if LinkGraph(&p.Gs[i]).Accepted {
					acc[c.Kind]++
				}
			}
		}
		fmt.Println(tier, len(cases), count, "accepted:", acc)
	}
	if os.Getenv("C15_SHOW") == "" {
		return
	}
	cases := buildCases("quick", 1)
	for _, c := range cases {
		if c.ID != os.Getenv("C15_SHOW") {
			continue
		}
		var p Payload
		fw.Decode(c, &p)
		g := &p.Gs[0]
		lk := LinkGraph(g)
		rd := Render(g, lk)
		fmt.Println(Describe(g), c.Tags)
		for _, m := range g.Mods {
			fmt.Printf("--- %s\n%s", m.Name, rd.Src[m.Name])
		}
		fmt.Printf("accepted=%v verdicts=%+v\n", lk.Accepted, lk.Verdict)
		if lk.Accepted {
			fmt.Print("--- expected\n", lk.Expected(g))
		}
	}
}

// TestOpenLines writes the proposed known-finding lines (C15_WRITE_KF=path).
func TestOpenLines(t *testing.T) {
	path := os.Getenv("C15_WRITE_KF")
	if path == "" {
		t.Skip("set C15_WRITE_KF")
	}
	var sb []byte
	for _, l := range OpenLines() {
		sb = append(sb, l...)
		sb = append(sb, '\n')
	}
	if err := os.WriteFile(path, sb, 0o644); err != nil {
		t.Fatal(err)
	}
}
