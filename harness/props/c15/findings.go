package c15

import (
	"encoding/json"
	"fmt"
	"strings"

	"hv/fw"
)

// Known-finding constructs (AGENT_GUIDE "Findings", details in FINDINGS.md). Each entry couples a
// finding name with the hazard tag of the construct that triggers it (computed by Hazards from
// the graph alone), the signature regex proposed for /verif/known_findings.txt and a minimal
// pinned witness. While a finding is listed as open, graphs carrying its tag leave the main
// workload and at most poisonQuota of them per family form its poisoned workload.

// Finding describes one proposed known finding.
type Finding struct {
	KF, Tag, Sig, What string
	Witness            Graph
	// Restricts: graphs with the tag are removed from the main workload while the finding is open
	// (false: they stay, only the interpreter's init count is not judged outside the poisoned subset).
	Restricts bool
}

const (
	KFSharedScope = "KF-vm-shared-compile-scope"
	KFMangle      = "KF-vm-mangle-ambiguity"
	KFReexec      = "KF-tree-module-reexec"
	KFImportCopy  = "KF-tree-import-copies-global"
	KFReexport    = "KF-analyzer-reexport-trigger-templ"
)

const vmLinkSigs = `wrong-module-(global|fn)|wrong-global-state|wrong-name|nondeterministic|outcome:fatal/StackOverFlow` +
	`|crash:go-panic:(Values of kind (string|object) cannot be called|runtime error: invalid memory address or nil pointer dereference):runtime\.\(\*Core\)\.runInstruction`

func edge(mod string) Item { return Item{Name: edgeName(mod), Kind: "fn", Pub: true, Edge: true} }

// Findings lists the proposed known findings of C15.
var Findings = []Finding{
	{
		KF: KFSharedScope, Tag: TagNameOverlap, Restricts: true,
		Sig:  `^vm:(` + vmLinkSigs + `)$`,
		What: "all modules are compiled into one root scope keyed by the unmangled name: with `let v` in two modules every function reads and writes the v of whichever module the compiler visited last (Go map order)",
		Witness: Graph{Family: "witness", Order: []string{"v"}, Mods: []Mod{
			{Name: "main", Items: []Item{{Name: "v", Kind: "let"}}, Imports: []Import{{From: "a", Items: []ImpItem{{Name: "ea"}}}}},
			{Name: "a", Items: []Item{edge("a"), {Name: "v", Kind: "let"}}},
		}},
	},
	{
		KF: KFSharedScope, Tag: TagNameOverlap, Restricts: true,
		Sig:  `^vm:(` + vmLinkSigs + `)$`,
		What: "a call of an imported function is resolved by searching all modules in Go map order (getMangledFn): `import f from a` runs b's private f when b is visited first; differs from run to run",
		Witness: Graph{Family: "witness", Order: []string{"f"}, Mods: []Mod{
			{Name: "main", Imports: []Import{{From: "a", Items: []ImpItem{{Name: "f"}}}, {From: "b", Items: []ImpItem{{Name: "eb"}}}}},
			{Name: "a", Items: []Item{{Name: "f", Kind: "fn", Pub: true}}},
			{Name: "b", Items: []Item{edge("b"), {Name: "f", Kind: "fn"}}},
		}},
	},
	{
		KF: KFSharedScope, Tag: TagNameOverlap, Restricts: true,
		Sig:  `^vm:(` + vmLinkSigs + `)$`,
		What: "a private global of another module shadows a function of the same name: main's call f() is compiled as a call of a's string global f and the VM goroutine panics (host process dies)",
		Witness: Graph{Family: "witness", Order: []string{"f"}, Mods: []Mod{
			{Name: "main", Items: []Item{{Name: "f", Kind: "fn"}}, Imports: []Import{{From: "a", Items: []ImpItem{{Name: "ea"}}}}},
			{Name: "a", Items: []Item{edge("a"), {Name: "f", Kind: "let"}}},
		}},
	},
	{
		KF: KFMangle, Tag: TagMangle, Restricts: true,
		Sig:  `^vm:(` + vmLinkSigs + `)$`,
		What: "mangled names `@<module>_<name>` are ambiguous: function b_c of module a and function c of module a_b are both `@a_b_c`, one body replaces the other",
		Witness: Graph{Family: "witness", Order: []string{"b_c", "c"}, Mods: []Mod{
			{Name: "main", Imports: []Import{{From: "a", Items: []ImpItem{{Name: "b_c"}}}, {From: "a_b", Items: []ImpItem{{Name: "c"}}}}},
			{Name: "a", Items: []Item{{Name: "b_c", Kind: "fn", Pub: true}}},
			{Name: "a_b", Items: []Item{{Name: "c", Kind: "fn", Pub: true}}},
		}},
	},
	{
		KF: KFReexec, Tag: TagMultiImport, Restricts: false,
		Sig:  `^tree:init-twice$`,
		What: "the interpreter executes a module again for every import statement that names it: a module imported by two modules is initialised twice (its singleton is loaded twice through the host)",
		Witness: Graph{Family: "witness", Mods: []Mod{
			{Name: "main", Imports: []Import{{From: "a", Items: []ImpItem{{Name: "ea"}}}, {From: "b", Items: []ImpItem{{Name: "eb"}}}}},
			{Name: "a", Items: []Item{edge("a")}, Imports: []Import{{From: "b", Items: []ImpItem{{Name: "eb"}}}}},
			{Name: "b", Items: []Item{edge("b")}},
		}},
	},
	{
		KF: KFImportCopy, Tag: TagGlobalWrite, Restricts: true,
		Sig:  `^tree:wrong-global-state$`,
		What: "the interpreter copies an imported global into the importing module: after a's function changed a's pub global v, main still reads the old value through `import v from a` (the VM links both names to one cell)",
		Witness: Graph{Family: "witness", Mut: true, Order: []string{"v"}, Mods: []Mod{
			{Name: "main", Imports: []Import{{From: "a", Items: []ImpItem{{Name: "ea"}, {Name: "v"}}}}},
			{Name: "a", Items: []Item{edge("a"), {Name: "v", Kind: "let", Pub: true}}},
		}},
	},
	{
		KF: KFReexport, Tag: TagReexport, Restricts: true,
		Sig:  `^analyzer:not-exportable-import-accepted$`,
		What: "a trigger or template that module b merely imported from a builtin module can be imported from b (`import trigger minute from b`) without any diagnostic, although b defines nothing of that name and nothing in b is `pub`",
		Witness: Graph{Family: "witness", Mods: []Mod{
			{Name: "main", Imports: []Import{{From: "b", Items: []ImpItem{{Name: "minute", Other: "trigger"}}}}},
			{Name: "b", HostImports: []HostImport{{From: "triggers", Item: ImpItem{Name: "minute", Other: "trigger"}}}},
		}},
	},
}

// WitnessCase builds the pinned witness case of a finding.
func WitnessCase(f Finding) fw.Case {
	g := f.Witness
	tags := StructuralTags(&g)
	if lk := LinkGraph(&g); lk.Accepted {
		tags = append(tags, Hazards(&g, lk)...)
	}
	return fw.MkCase("witness", "witness", Payload{Gs: []Graph{g}, Poison: true}, tags...)
}

// OpenLines renders the `open:` lines proposed for known_findings.txt.
func OpenLines() []string {
	var out []string
	for _, f := range Findings {
		c := WitnessCase(f)
		w, _ := json.Marshal(map[string]any{"kind": c.Kind, "payload": c.Payload, "tags": c.Tags})
		sig, _ := json.Marshal(f.Sig)
		tag, _ := json.Marshal(f.Tag)
		out = append(out, fmt.Sprintf("open: property=C15 %s %s :: {\"witness\":%s,\"sig\":%s,\"tag\":%s}", f.KF, strings.ReplaceAll(f.What, " :: ", " : "), w, sig, tag))
	}
	return out
}
