package c15

import (
	"fmt"
	"os"
	"path/filepath"
	"testing"
)

// TestDumpWitnesses writes the witness programs to C15_DUMP_DIR (development aid).
func TestDumpWitnesses(t *testing.T) {
	dir := os.Getenv("C15_DUMP_DIR")
	if dir == "" {
		t.Skip("set C15_DUMP_DIR")
	}
	for i, f := range Findings {
		g := f.Witness
		lk := LinkGraph(&g)
		rd := Render(&g, lk)
		d := filepath.Join(dir, fmt.Sprintf("w%d", i+1))
		os.MkdirAll(d, 0o755)
		for m, src := range rd.Src {
			os.WriteFile(filepath.Join(d, m+".hms"), []byte(src), 0o644)
		}
		os.WriteFile(filepath.Join(d, "expected.txt"), []byte(lk.Expected(&g)), 0o644)
		os.WriteFile(filepath.Join(d, "info.txt"), []byte(f.KF+"\n"+Describe(&g)+"\n"), 0o644)
	}
}
