package c15

import (
	"sort"
	"strings"
)

// ---------------------------------------------------------------------------------------------
// The model linker: what the import statements alone say about every name.
//
// It shares no code with /repo. Rules (property C15):
//   * a name means the module's own definition, or the definition in module N if the module has
//     `import name from N` and N defines name itself with `pub` (imports are not re-exported);
//   * an import statement is illegal when N does not exist, when it closes an import cycle
//     (N is the module itself or N imports the module directly or indirectly), when N does not
//     define the name (as a value resp. as a type) or defines it without `pub`;
//   * only modules reachable from the entry through import statements are part of the program;
//     each of them is initialised exactly once before main runs;
//   * a function runs its own body: every name in it means what it means in the defining module;
//     that includes the module's singletons (module-level state that cannot be imported at all):
//     a function which extracts or names `$K` works on the `$K` of its defining module.
// ---------------------------------------------------------------------------------------------

// BadItem is one illegal name of an import statement.
type BadItem struct {
	Name string
	Why  string // missing-item | private | clash
}

// ImpVerdict is the model's judgement of one import statement.
type ImpVerdict struct {
	// Class: ok | missing-module | cycle | bad-items
	Class string
	Bad   []BadItem
	// CycleMods: for Class cycle the modules of the cycle's strongly connected component.
	CycleMods []string
}

// Link is the result of linking a graph.
type Link struct {
	Reach    map[string]bool
	ReachSeq []string                // reachable modules, entry first (deterministic order)
	Verdict  map[string][]ImpVerdict // module -> per import statement
	Accepted bool                    // no illegal import statement in any reachable module
	// LeakBad: uses of names the using (reachable) module cannot see: each must be an error.
	LeakBad []Leak
	// SCC: for every module that lies on an import cycle (or imports itself) the modules of its
	// strongly connected component, sorted.
	SCC    map[string][]string
	vis    map[string]map[string]binding
	visSeq map[string][]string // module -> keys of vis in declaration order
}

func key(name string, typ bool) string {
	if typ {
		return "t:" + name
	}
	return "v:" + name
}

// LinkGraph runs the model linker.
func LinkGraph(g *Graph) *Link {
	lk := &Link{Reach: map[string]bool{}, Verdict: map[string][]ImpVerdict{}, vis: map[string]map[string]binding{}, visSeq: map[string][]string{}}
	// reachability over existing modules
	succ := func(name string) []string {
		m := g.mod(name)
		var out []string
		for _, im := range m.Imports {
			if g.mod(im.From) != nil {
				out = append(out, im.From)
			}
		}
		return out
	}
	var reachFrom func(start string) map[string]bool
	reachFrom = func(start string) map[string]bool {
		seen := map[string]bool{}
		var order []string
		var walk func(n string)
		walk = func(n string) {
			for _, s := range succ(n) {
				if !seen[s] {
					seen[s] = true
					order = append(order, s)
					walk(s)
				}
			}
		}
		walk(start)
		return seen
	}
	entry := g.Mods[0].Name
	lk.Reach[entry] = true
	for n := range reachFrom(entry) {
		lk.Reach[n] = true
	}
	for _, m := range g.Mods {
		if lk.Reach[m.Name] {
			lk.ReachSeq = append(lk.ReachSeq, m.Name)
		}
	}
	reaches := map[string]map[string]bool{}
	for _, m := range g.Mods {
		reaches[m.Name] = reachFrom(m.Name) // strict: reaches[m][m] only through a cycle
	}

	lk.SCC = map[string][]string{}
	for _, m := range g.Mods {
		if !reaches[m.Name][m.Name] {
			continue
		}
		var comp []string
		for _, x := range g.Mods {
			if x.Name == m.Name || (reaches[m.Name][x.Name] && reaches[x.Name][m.Name]) {
				comp = append(comp, x.Name)
			}
		}
		sort.Strings(comp)
		lk.SCC[m.Name] = comp
	}

	lk.Accepted = true
	for mi := range g.Mods {
		m := &g.Mods[mi]
		vis := map[string]binding{}
		var seq []string
		for _, it := range m.Items {
			if it.Kind == "sing" {
				continue // singletons are not names of the value or type namespace and cannot be imported
			}
			k := key(it.Name, it.Kind == "type")
			vis[k] = binding{Origin: m.Name, Item: it}
			seq = append(seq, k)
		}
		// `main` is defined in every module
		vis[key("main", false)] = binding{Origin: m.Name, Item: Item{Name: "main", Kind: "fn"}}
		verdicts := make([]ImpVerdict, len(m.Imports))
		for ii, im := range m.Imports {
			v := ImpVerdict{Class: "ok"}
			target := g.mod(im.From)
			switch {
			case target == nil:
				v.Class = "missing-module"
			case im.From == m.Name || reaches[im.From][m.Name]:
				v.Class = "cycle"
				v.CycleMods = lk.SCC[m.Name]
			}
			if target != nil {
				for _, x := range im.Items {
					if x.Other != "" {
						// triggers and templates come from the host only: a user module has none of its own
						v.Bad = append(v.Bad, BadItem{x.Name, "not-exportable"})
						continue
					}
					k := key(x.Name, x.Type)
					it := target.item(x.Name, x.Type)
					switch {
					case it == nil:
						v.Bad = append(v.Bad, BadItem{x.Name, "missing-item"})
						continue
					case !it.Pub:
						v.Bad = append(v.Bad, BadItem{x.Name, "private"})
						continue
					}
					if _, dup := vis[k]; dup {
						v.Bad = append(v.Bad, BadItem{x.Name, "clash"})
						continue
					}
					vis[k] = binding{Origin: target.Name, Item: *it}
					seq = append(seq, k)
				}
				if v.Class == "ok" && len(v.Bad) > 0 {
					v.Class = "bad-items"
				}
			}
			verdicts[ii] = v
			if v.Class != "ok" && lk.Reach[m.Name] {
				lk.Accepted = false
			}
		}
		for _, l := range g.Leaks {
			if l.Mod != m.Name {
				continue
			}
			if _, visible := vis[key(l.Name, l.Kind == "type")]; !visible && lk.Reach[m.Name] {
				lk.Accepted = false
				lk.LeakBad = append(lk.LeakBad, l)
			}
		}
		lk.Verdict[m.Name] = verdicts
		lk.vis[m.Name] = vis
		lk.visSeq[m.Name] = seq
	}
	return lk
}

func orderIndex(g *Graph, name string) int {
	for i, n := range g.Order {
		if n == name {
			return i
		}
	}
	return -1
}

// refs lists what the body of function fn of module mod reads, in source order.
func (lk *Link) refs(g *Graph, mod string, fn Item) []binding {
	vis := lk.vis[mod]
	var out []binding
	if fn.Edge {
		// imported edge functions in import order
		for _, k := range lk.visSeq[mod] {
			b := vis[k]
			if b.Item.Edge && b.Origin != mod {
				out = append(out, b)
			}
		}
		// the function value handed in by the caller (whatever module it comes from)
		if g.handsDown() {
			out = append(out, binding{Item: Item{Name: "cb", Kind: "cb"}})
		}
		// the maker functions the module can see (its own first): what they return is called here
		for _, k := range lk.visSeq[mod] {
			if b := vis[k]; b.Item.Maker {
				out = append(out, b)
			}
		}
		// visible types, by name
		var tk []string
		for _, k := range lk.visSeq[mod] {
			if strings.HasPrefix(k, "t:") {
				tk = append(tk, k)
			}
		}
		sort.Strings(tk)
		for _, k := range tk {
			out = append(out, vis[k])
		}
	}
	from := -1
	if !fn.Edge {
		from = orderIndex(g, fn.Name)
		if from < 0 {
			return out
		}
	}
	for i := from + 1; i < len(g.Order); i++ {
		if b, ok := vis[key(g.Order[i], false)]; ok && !b.Item.Edge {
			out = append(out, b)
		}
	}
	return out
}

// writes lists the globals (by the name they have in mod) the body of fn appends a mark to.
func (lk *Link) writes(g *Graph, mod string, fn Item) []string {
	var out []string
	for _, b := range lk.refs(g, mod, fn) {
		if b.Item.Kind != "let" {
			continue
		}
		private := b.Origin == mod && !b.Item.Pub
		if private || g.Mut {
			out = append(out, b.Item.Name)
		}
	}
	return out
}

// mainPrints lists the names the entry's main function prints.
func (lk *Link) mainPrints(g *Graph) []binding {
	entry := g.Mods[0].Name
	vis := lk.vis[entry]
	var out []binding
	for _, k := range lk.visSeq[entry] {
		if b := vis[k]; b.Item.Edge && b.Item.Kind == "fn" {
			out = append(out, b)
		}
	}
	for _, n := range g.Order {
		if b, ok := vis[key(n, false)]; ok && !b.Item.Edge {
			out = append(out, b)
		}
	}
	return out
}

// Expected evaluates the program with the model's meaning of every name and returns the text
// main prints. Only defined for accepted graphs.
func (lk *Link) Expected(g *Graph) string {
	glob := map[string]string{}
	sing := map[string]string{} // module.K -> the log of the module's singleton K
	for _, m := range g.Mods {
		for _, it := range m.Items {
			if it.Kind == "let" {
				glob[m.Name+"."+it.Name] = m.Name + "." + it.Name
			}
		}
	}
	depth := 0
	// call evaluates function fn of module origin; cb is the function value it was handed (edge
	// functions of a Callback graph). It returns the function's result and whether the result leaves
	// the function as an exception.
	var call func(origin string, fn Item, cb *binding) (string, bool)
	call = func(origin string, fn Item, cb *binding) (string, bool) {
		depth++
		if depth > 200 {
			panic("c15 model: recursion in a generated program")
		}
		defer func() { depth-- }()
		// the function's own variables named like globals (Graph.Shadow): what the function itself
		// reads under such a name while the variable exists is the variable; nobody else ever sees it
		form := g.shadowForm(fn)
		local := map[string]string{}
		if form != "" {
			for _, n := range lk.shadowNames(g, origin) {
				local[n] = localText(origin, fn.Name, n)
			}
		}
		for _, w := range lk.writes(g, origin, fn) {
			if _, mine := local[w]; mine && form == "param" {
				// a parameter exists from the start: the mark goes to it and the global stays as it is
				local[w] += "'"
				continue
			}
			b := lk.vis[origin][key(w, false)]
			glob[b.Origin+"."+b.Item.Name] += "'"
		}
		sings := g.mod(origin).sings()
		for _, s := range sings {
			sing[origin+"."+s.Name] += origin + "." + fn.Name + ";"
		}
		var parts []string
		var again []binding
		for _, r := range lk.refs(g, origin, fn) {
			switch r.Item.Kind {
			case "fn", "cb":
				target := r
				if r.Item.Kind == "cb" {
					target = *cb
				}
				if r.Item.Maker {
					// the value a maker returns stands for the private k of the maker's module
					kb, ok := lk.vis[r.Origin][key(cbName, false)]
					if !ok || kb.Origin != r.Origin {
						panic("c15 model: module " + r.Origin + " has a maker but no function " + cbName)
					}
					target = kb
				}
				text, threw := call(target.Origin, target.Item, lk.passes(g, origin, fn, target.Item, cb))
				if threw {
					if g.Catch == "entry" {
						// nobody catches it here: the rest of this function does not run
						return text, true
					}
					text = "!" + text
				}
				parts = append(parts, text)
			case "let":
				if text, mine := local[r.Item.Name]; mine {
					parts = append(parts, text)
					if form == "block" {
						again = append(again, r)
					}
					continue
				}
				parts = append(parts, glob[r.Origin+"."+r.Item.Name])
			case "type":
				parts = append(parts, r.Item.Name+"@"+r.Origin)
			}
		}
		// (form block: the block has ended, the names mean the globals again)
		for _, r := range again {
			parts = append(parts, glob[r.Origin+"."+r.Item.Name])
		}
		for _, s := range sings {
			parts = append(parts, "["+sing[origin+"."+s.Name]+"]")
		}
		return origin + "." + fn.Name + "(" + strings.Join(parts, ",") + ")", g.throws()
	}
	var sb strings.Builder
	entry := g.Mods[0].Name
	mainItem := Item{Name: "main", Kind: "fn"}
	mainForm := g.shadowForm(mainItem)
	mainShadowed := map[string]bool{}
	for _, n := range lk.shadowNames(g, entry) {
		mainShadowed[n] = mainForm != ""
	}
	var again []binding
	for _, b := range lk.mainPrints(g) {
		sb.WriteString(b.Item.Name + "=")
		if b.Item.Kind == "fn" {
			text, threw := call(b.Origin, b.Item, lk.passes(g, entry, mainItem, b.Item, nil))
			if threw {
				text = "!" + text
			}
			sb.WriteString(text)
		} else if mainShadowed[b.Item.Name] {
			sb.WriteString(localText(entry, "main", b.Item.Name))
			if mainForm == "block" {
				again = append(again, b)
			}
		} else {
			sb.WriteString(glob[b.Origin+"."+b.Item.Name])
		}
		sb.WriteByte('\n')
	}
	for _, b := range again {
		sb.WriteString(b.Item.Name + "=" + glob[b.Origin+"."+b.Item.Name] + "\n")
	}
	for _, s := range g.Mods[0].sings() {
		sb.WriteString("$" + s.Name + "=" + sing[g.Mods[0].Name+"."+s.Name] + "\n")
	}
	sb.WriteString("end\n")
	return sb.String()
}

// passes says which function value a call of target made by function fn of module mod hands over
// (fn's own parameter is cb): edge functions of a Callback graph are handed the private function k
// as the calling module sees it, or - relay - what the calling edge function was handed itself.
func (lk *Link) passes(g *Graph, mod string, fn Item, target Item, cb *binding) *binding {
	if !g.handsDown() || !target.Edge {
		return nil
	}
	if g.Callback == "relay" && fn.Edge && cb != nil {
		return cb
	}
	b, ok := lk.vis[mod][key(cbName, false)]
	if !ok {
		panic("c15 model: module " + mod + " of a callback graph has no function " + cbName)
	}
	return &b
}

// ---------------------------------------------------------------------------------------------
// Hazard tags: constructs that open findings make unreliable (FINDINGS.md)
// ---------------------------------------------------------------------------------------------

const (
	TagNameOverlap  = "xmod-name-overlap" // KF-vm-shared-compile-scope
	TagMangle       = "mangle-ambiguity"  // KF-vm-mangle-ambiguity
	TagMultiImport  = "multi-import"      // KF-tree-module-reexec
	TagGlobalWrite  = "import-global-write"
	TagReexport     = "reexport-trigger-templ" // KF-analyzer-reexport-trigger-templ
	tagSharedGlobal = "shared-global-name"
	tagGlobalVsFn   = "global-vs-fn-name"
	tagAmbiguousFn  = "imported-fn-ambiguous"
)

// StructuralTags are tags that do not depend on the graph being accepted.
func StructuralTags(g *Graph) []string {
	for _, m := range g.Mods {
		for _, im := range m.Imports {
			for _, x := range im.Items {
				if x.Other != "" {
					return []string{TagReexport}
				}
			}
		}
	}
	return nil
}

// Hazards computes the hazard tags of a graph (only meaningful for accepted graphs).
func Hazards(g *Graph, lk *Link) []string {
	tags := map[string]bool{}
	lets := map[string][]string{}
	fns := map[string][]string{}
	for _, m := range g.Mods {
		if !lk.Reach[m.Name] {
			continue
		}
		for _, it := range m.Items {
			switch it.Kind {
			case "let":
				lets[it.Name] = append(lets[it.Name], m.Name)
			case "fn":
				fns[it.Name] = append(fns[it.Name], m.Name)
			}
		}
	}
	for n, ms := range lets {
		if len(ms) >= 2 {
			tags[tagSharedGlobal] = true
			tags[TagNameOverlap] = true
		}
		if len(fns[n]) > 0 {
			tags[tagGlobalVsFn] = true
			tags[TagNameOverlap] = true
		}
	}
	for _, m := range g.Mods {
		if !lk.Reach[m.Name] {
			continue
		}
		for _, b := range lk.vis[m.Name] {
			if b.Item.Kind == "fn" && b.Origin != m.Name && len(fns[b.Item.Name]) >= 2 {
				tags[tagAmbiguousFn] = true
				tags[TagNameOverlap] = true
			}
		}
	}
	// mangled names `@<module>_<name>`
	seen := map[string]string{}
	for _, m := range g.Mods {
		if !lk.Reach[m.Name] {
			continue
		}
		names := []Item{{Name: "main", Kind: "fn"}}
		names = append(names, m.Items...)
		for _, it := range names {
			if it.Kind == "type" || it.Kind == "sing" {
				continue
			}
			k := it.Kind + ":" + m.Name + "_" + it.Name
			if prev, dup := seen[k]; dup && prev != m.Name {
				tags[TagMangle] = true
			}
			seen[k] = m.Name
		}
	}
	// modules imported by more than one statement
	indeg := map[string]int{}
	for _, m := range g.Mods {
		if !lk.Reach[m.Name] {
			continue
		}
		for _, im := range m.Imports {
			indeg[im.From]++
		}
	}
	for _, n := range indeg {
		if n >= 2 {
			tags[TagMultiImport] = true
		}
	}
	if g.Mut {
		tags[TagGlobalWrite] = true
	}
	out := make([]string, 0, len(tags))
	for t := range tags {
		out = append(out, t)
	}
	sort.Strings(out)
	return out
}
