package c15

import (
	"fmt"
	"sort"
	"strings"
)

// ---------------------------------------------------------------------------------------------
// Module graphs (the payload of a case) and their rendering as source text
// ---------------------------------------------------------------------------------------------

// Item is one top-level definition of a module.
type Item struct {
	Name string `json:"n"`
	// Kind: fn | let | type | sing. A `sing` item K is a singleton `$K = { s: str };` of the module:
	// singletons are module-level state that cannot be imported; every function of the module
	// appends its own tag to the log K.s and reads the log back (see Graph.SingDirect), so a
	// function that runs against the `$K` of another module shows in both modules' logs.
	Kind string `json:"k"`
	Pub  bool   `json:"p,omitempty"`
	// Edge: an "edge function": it calls the edge functions its module imports (so that every
	// import edge of the graph is exercised at run time) and then reads every other visible name.
	Edge bool `json:"e,omitempty"`
	// Maker: a "maker function" `pub fn mk_<module>() -> fn() -> str`: it returns a function value
	// made in its own module (see Graph.Callback "made"); its importers call what it returns.
	Maker bool `json:"mk,omitempty"`
}

// ImpItem is one name of an import statement.
type ImpItem struct {
	Name string `json:"n"`
	Type bool   `json:"t,omitempty"` // `type Name`
	// Other: "trigger" or "templ": `import trigger Name from m` / `import templ Name from m`.
	// User modules cannot define either, so importing one from a user module is never legal.
	Other string `json:"o,omitempty"`
}

func (x ImpItem) text() string {
	switch {
	case x.Other != "":
		return x.Other + " " + x.Name
	case x.Type:
		return "type " + x.Name
	}
	return x.Name
}

// HostImport is an import from a builtin (host) module: `import trigger minute from triggers`.
type HostImport struct {
	From string  `json:"f"`
	Item ImpItem `json:"i"`
}

// Import is one import statement.
type Import struct {
	From  string    `json:"f"`
	Items []ImpItem `json:"i"`
}

// Mod is one module.
type Mod struct {
	Name    string   `json:"name"`
	Items   []Item   `json:"items,omitempty"`
	Imports []Import `json:"imports,omitempty"`
	// HostImports are rendered after Imports (they are always legal: the host offers them).
	HostImports []HostImport `json:"host_imports,omitempty"`
	// Bare: the module declares no singleton (with no globals either its init routine is empty);
	// its initialisation is then not observable and not judged.
	Bare bool `json:"bare,omitempty"`
}

// Graph is a whole program: Mods[0] is the entry module ("main").
type Graph struct {
	Mods []Mod `json:"mods"`
	// Order lists the non-edge value names; a function X reads/calls the visible names that come
	// after X in this order (so generated programs cannot recurse).
	Order []string `json:"order"`
	// Mut: functions also write to the pub and imported globals they can see (default: only to
	// the private globals of their own module, which no import can alias).
	Mut bool `json:"mut,omitempty"`
	// ViaValue: functions are called through a local function value (`let h = f; h()`), which
	// takes the compiler's other name-resolution path (identifier expression instead of call).
	ViaValue bool `json:"via_value,omitempty"`
	// SingDirect: functions reach the singletons of their module through the expression `$K`;
	// default: through a singleton extraction parameter (`fn f(p_K: $K)`), which the call site
	// does not pass: it is bound when the function is entered.
	SingDirect bool `json:"sing_direct,omitempty"`
	// Leaks: uses of names that the using module neither defines nor imports (isolation probes).
	Leaks []Leak `json:"leaks,omitempty"`
	// Exit: how every function hands its result to its caller: "" as the value of its last
	// expression, "return" with a `return` statement, "throw" by throwing it (`throw(result)`),
	// "throw-deep" by throwing it from a private helper `raise` of its own module (the exception
	// leaves a frame of the same module before it crosses the module boundary). A caught result is
	// marked with a leading `!`. Whichever way a call ends, the caller goes on in its own module.
	Exit string `json:"exit,omitempty"`
	// Catch: where thrown results are caught: "" at every call site (`try { f() } catch e { .. }`
	// around each call: the exception crosses one call), "entry" only in the entry's main function
	// (the exception unwinds the frames of all modules on its way).
	Catch string `json:"catch,omitempty"`
	// Callback: function values handed across module boundaries: every module has a private
	// function k (same name everywhere); every edge function takes a parameter `cb: fn() -> str`,
	// calls it after the edge functions it imports, and passes a function on to those: "own" its own
	// module's k, "relay" the function it received (so the entry's k travels down the import
	// chain). The callback runs against the globals of the module that defines it, and the function
	// that called it (and caught what it threw) goes on against its own.
	// "made": the values travel the other way: every module has a pub maker function `mk_<module>`
	// that returns a function value for its private k; every edge function calls what the maker of its
	// own module and the makers it imports return (a value made in an imported module is called from
	// the importing one), then goes on reading its own names.
	Callback string `json:"callback,omitempty"`
	// CbForm: what the function values of a Callback graph are: "" the named function k itself, "lit"
	// a function literal `fn() -> str { k() }` written where the value is made (a closure value: its
	// body belongs to the module whose source text contains it, so the k it calls is that module's).
	// (A literal that reads a local of the function creating it is left out: the VM does not implement
	// captured variables - open finding KF-vm-closure-capture of C01/C02/C04, not a matter of modules.)
	CbForm string `json:"cb_form,omitempty"`
	// Shadow: every function (and the entry's main) has, while it calls other functions, a variable of
	// its own named like each global its module can see (own and imported ones), holding the text
	// `<module>.<function>#<name>`: "let" a local declared at the top of the body (after the function
	// has written to the globals), "param" a parameter (the caller passes the text; functions handed
	// out as values of type `fn() -> str` and main use a local instead), "block" a local of a nested
	// block around all calls and reads; after the block the function reads the globals once more.
	// Such a variable belongs to one activation of one function: whatever runs meanwhile - a function of
	// another module, or a function of the same module that another module calls back through a function
	// value while this frame is still active - reads and writes the globals of its defining module, and
	// the text `m.f#v` can only appear in the result of m.f itself.
	Shadow string `json:"shadow,omitempty"`
	// Family names the enumerator that produced the graph (evidence only).
	Family string `json:"family,omitempty"`
}

// Leak makes module Mod use a name it cannot see.
type Leak struct {
	Mod  string `json:"m"`
	Name string `json:"n"`
	Kind string `json:"k"` // fn | let | type: how the name is used
}

func (g *Graph) mod(name string) *Mod {
	for i := range g.Mods {
		if g.Mods[i].Name == name {
			return &g.Mods[i]
		}
	}
	return nil
}

func (m *Mod) item(name string, typ bool) *Item {
	for i := range m.Items {
		it := &m.Items[i]
		if it.Kind != "sing" && it.Name == name && (it.Kind == "type") == typ {
			return it
		}
	}
	return nil
}

// sings lists the singleton items of the module in declaration order.
func (m *Mod) sings() []Item {
	var out []Item
	for _, it := range m.Items {
		if it.Kind == "sing" {
			out = append(out, it)
		}
	}
	return out
}

// singAccess is the expression through which a function body reaches singleton K of its module.
func singAccess(direct bool, name string) string {
	if direct {
		return "$" + name
	}
	return "p_" + name
}

// cbName is the name of the function every module hands out as a callback (Graph.Callback).
const cbName = "k"

// throws: every function ends by throwing its result.
func (g *Graph) throws() bool { return g.Exit == "throw" || g.Exit == "throw-deep" }

// isCallback: the function is handed out as a value of type `fn() -> str`: it cannot have singleton
// extraction parameters (they are part of a function's type) and uses `$K` expressions instead.
func (g *Graph) isCallback(it Item) bool {
	return g.Callback != "" && it.Kind == "fn" && !it.Edge && it.Name == cbName
}

// caught wraps a call expression in the handler of the call site (if call sites catch).
func (g *Graph) caught(call string) string {
	if g.throws() && g.Catch == "" {
		return "try { " + call + " } catch e { \"!\" + e.message }"
	}
	return call
}

// handsDown: function values are handed down as arguments of the edge functions.
func (g *Graph) handsDown() bool { return g.Callback == "own" || g.Callback == "relay" }

// makerName is the name of the maker function of module mod.
func makerName(mod string) string { return "mk_" + ident(mod) }

// fnValue is the expression that makes a function value for the module's k.
func (g *Graph) fnValue() string {
	if g.CbForm == "lit" {
		if g.Exit == "return" {
			// (the literal hands on the result the way every function of the graph does)
			return "fn() -> str { return " + cbName + "(); }"
		}
		return "fn() -> str { " + cbName + "() }"
	}
	return cbName
}

// cbArg is the argument list of a call of function target from inside function from (nil: from
// the entry's main function).
func (g *Graph) cbArg(target Item, from *Item) string {
	if !g.handsDown() || !target.Edge {
		return ""
	}
	if g.Callback == "relay" && from != nil && from.Edge {
		return "cb"
	}
	return g.fnValue()
}

// shadowNames lists the globals module mod can see (own and imported), by the name they have there.
func (lk *Link) shadowNames(g *Graph, mod string) []string {
	if g.Shadow == "" {
		return nil
	}
	var out []string
	for _, k := range lk.visSeq[mod] {
		if b := lk.vis[mod][k]; b.Item.Kind == "let" {
			out = append(out, b.Item.Name)
		}
	}
	return out
}

// shadowForm says how function it holds its shadowing variables ("" for functions that have none).
func (g *Graph) shadowForm(it Item) string {
	if g.Shadow == "" || it.Kind != "fn" || it.Maker {
		return ""
	}
	if g.Shadow == "param" && (it.Name == "main" || g.isCallback(it)) {
		return "let"
	}
	return g.Shadow
}

// localText is the value of the variable of function fn of module mod that shadows global name.
func localText(mod, fn, name string) string { return mod + "." + fn + "#" + name }

// callArgs is the argument list of a call of the function target (as bound in the calling module)
// from inside function from (nil: from the entry's main function): the function value handed down
// and the texts for the target's shadowing parameters.
func (g *Graph) callArgs(lk *Link, target binding, from *Item) string {
	var args []string
	if a := g.cbArg(target.Item, from); a != "" {
		args = append(args, a)
	}
	if target.Item.Kind == "fn" && g.shadowForm(target.Item) == "param" {
		for _, n := range lk.shadowNames(g, target.Origin) {
			args = append(args, "\""+localText(target.Origin, target.Item.Name, n)+"\"")
		}
	}
	return strings.Join(args, ", ")
}

func (m *Mod) edgeFn() *Item {
	for i := range m.Items {
		if m.Items[i].Edge {
			return &m.Items[i]
		}
	}
	return nil
}

func ident(s string) string {
	return strings.NewReplacer(":", "_", "@", "_").Replace(s)
}

// singletonOf is the name of the singleton every module declares (its load is the observable
// effect of the module's initialisation).
func singletonOf(mod string) string { return "$S" + ident(mod) }

// typeField is the field name of the object type T defined in module mod.
func typeField(typ, mod string) string { return typ + "_" + ident(mod) }

// binding says what a name means inside a module: the defining module and the item.
type binding struct {
	Origin string
	Item   Item
}

// Rendered is the source text plus the positions the judge needs.
type Rendered struct {
	Src map[string]string
	// ImportLine[module][i] = 1-based line of the i-th import statement of the module.
	ImportLine map[string][]int
	// LeakLine[module][line] = the isolation probe whose use sits on that line.
	LeakLine map[string]map[int]Leak
}

// Render prints the program. The text depends on the link model only through the set of names
// the model resolves (names whose import is predicted to be illegal are imported but not used).
func Render(g *Graph, lk *Link) Rendered {
	out := Rendered{Src: map[string]string{}, ImportLine: map[string][]int{}, LeakLine: map[string]map[int]Leak{}}
	for mi := range g.Mods {
		m := &g.Mods[mi]
		var sb strings.Builder
		line := 1
		emit := func(s string) {
			sb.WriteString(s)
			sb.WriteByte('\n')
			line += strings.Count(s, "\n") + 1
		}
		for _, im := range m.Imports {
			out.ImportLine[m.Name] = append(out.ImportLine[m.Name], line)
			parts := make([]string, len(im.Items))
			for i, it := range im.Items {
				parts[i] = it.text()
			}
			if len(parts) == 1 {
				emit(fmt.Sprintf("import %s from %s;", parts[0], im.From))
			} else {
				emit(fmt.Sprintf("import { %s } from %s;", strings.Join(parts, ", "), im.From))
			}
		}
		for _, hi := range m.HostImports {
			emit(fmt.Sprintf("import %s from %s;", hi.Item.text(), hi.From))
		}
		if !m.Bare {
			emit(singletonOf(m.Name) + " = int;")
		}
		for _, it := range m.Items {
			pub := ""
			if it.Pub {
				pub = "pub "
			}
			switch it.Kind {
			case "type":
				emit(fmt.Sprintf("%stype %s = { %s: str };", pub, it.Name, typeField(it.Name, m.Name)))
			case "let":
				emit(fmt.Sprintf("%slet %s = \"%s.%s\";", pub, it.Name, m.Name, it.Name))
			case "sing":
				emit(fmt.Sprintf("$%s = { s: str };", it.Name))
			}
		}
		if g.Exit == "throw-deep" {
			emit("fn raise(s: str) -> str { throw(s); }")
		}
		for _, it := range m.Items {
			if it.Kind != "fn" {
				continue
			}
			it := it
			pub := ""
			if it.Pub {
				pub = "pub "
			}
			if it.Maker {
				emit(fmt.Sprintf("%sfn %s() -> fn() -> str {", pub, it.Name))
				if g.Exit == "return" {
					emit("    return " + g.fnValue() + ";")
				} else {
					emit("    " + g.fnValue())
				}
				emit("}")
				continue
			}
			sings := m.sings()
			direct := g.SingDirect || g.isCallback(it)
			var params []string
			if !direct {
				for _, s := range sings {
					params = append(params, fmt.Sprintf("p_%s: $%s", s.Name, s.Name))
				}
			}
			if g.handsDown() && it.Edge {
				params = append(params, "cb: fn() -> str")
			}
			form := g.shadowForm(it)
			shadows := lk.shadowNames(g, m.Name)
			if form == "" {
				shadows = nil
			}
			isShadow := map[string]bool{}
			for _, n := range shadows {
				isShadow[n] = true
				if form == "param" {
					params = append(params, n+": str")
				}
			}
			emit(fmt.Sprintf("%sfn %s(%s) -> str {", pub, it.Name, strings.Join(params, ", ")))
			for _, w := range lk.writes(g, m.Name, it) {
				emit(fmt.Sprintf("    %s = %s + \"'\";", w, w))
			}
			for _, s := range sings {
				acc := singAccess(direct, s.Name)
				emit(fmt.Sprintf("    %s.s = %s.s + \"%s.%s;\";", acc, acc, m.Name, it.Name))
			}
			refs := lk.refs(g, m.Name, it)
			// in (indentation) and set (how a result variable gets its value): form "block" declares the
			// result variables before the block that holds the shadowing locals and assigns inside
			in, set := "    ", "let "
			if form == "block" && len(shadows) > 0 {
				for i := range refs {
					emit(fmt.Sprintf("    let q_%s_%d = \"\";", it.Name, i))
				}
				emit("    {")
				in, set = "        ", ""
			}
			if form == "let" || form == "block" {
				for _, n := range shadows {
					emit(fmt.Sprintf("%slet %s = \"%s\";", in, n, localText(m.Name, it.Name, n)))
				}
			}
			var parts, again []string
			for i, r := range refs {
				q := fmt.Sprintf("q_%s_%d", it.Name, i)
				switch {
				case r.Item.Maker:
					// the function value a maker returns is called here, in the module of this function
					callee := r.Item.Name
					if g.ViaValue {
						emit(fmt.Sprintf("%slet m%s = %s;", in, q, callee))
						callee = "m" + q
					}
					emit(fmt.Sprintf("%slet h%s = %s();", in, q, callee))
					emit(fmt.Sprintf("%s%s%s = %s;", in, set, q, g.caught("h"+q+"()")))
					parts = append(parts, q)
					continue
				}
				switch r.Item.Kind {
				case "fn", "cb":
					// (a ref of kind cb is the call of the function value the edge function received)
					callee, arg := r.Item.Name, g.callArgs(lk, r, &it)
					if g.ViaValue {
						emit(fmt.Sprintf("%slet h%s = %s;", in, q, callee))
						callee = "h" + q
					}
					emit(fmt.Sprintf("%s%s%s = %s;", in, set, q, g.caught(callee+"("+arg+")")))
				case "let":
					emit(fmt.Sprintf("%s%s%s = %s;", in, set, q, r.Item.Name))
					if set == "" && isShadow[r.Item.Name] {
						again = append(again, r.Item.Name)
					}
				case "type":
					emit(fmt.Sprintf("%slet t%s: %s = new { %s: \"%s@%s\" };", in, q, r.Item.Name, typeField(r.Item.Name, r.Origin), r.Item.Name, r.Origin))
					emit(fmt.Sprintf("%s%s%s = t%s.%s;", in, set, q, q, typeField(r.Item.Name, r.Origin)))
				}
				parts = append(parts, q)
			}
			if set == "" {
				emit("    }")
				// the block has ended: the names mean the globals again
				for i, n := range again {
					q := fmt.Sprintf("r_%s_%d", it.Name, i)
					emit(fmt.Sprintf("    let %s = %s;", q, n))
					parts = append(parts, q)
				}
			}
			// the singleton logs are read last: after every callee has run
			for _, s := range sings {
				q := fmt.Sprintf("qs_%s_%s", it.Name, s.Name)
				emit(fmt.Sprintf("    let %s = %s.s;", q, singAccess(direct, s.Name)))
				parts = append(parts, "\"[\" + "+q+" + \"]\"")
			}
			expr := fmt.Sprintf("\"%s.%s(\"", m.Name, it.Name)
			for i, p := range parts {
				if i > 0 {
					expr += " + \",\""
				}
				expr += " + " + p
			}
			expr += " + \")\""
			switch g.Exit {
			case "return":
				emit("    return " + expr + ";")
			case "throw":
				emit("    throw(" + expr + ");")
			case "throw-deep":
				emit("    raise(" + expr + ")")
			default:
				emit("    " + expr)
			}
			emit("}")
		}
		out.LeakLine[m.Name] = map[int]Leak{}
		for li, lkk := range g.Leaks {
			if lkk.Mod != m.Name {
				continue
			}
			emit(fmt.Sprintf("fn leak_probe_%d() -> str {", li))
			out.LeakLine[m.Name][line] = lkk
			switch lkk.Kind {
			case "fn":
				emit(fmt.Sprintf("    let leaked = %s();", lkk.Name))
			case "let":
				emit(fmt.Sprintf("    let leaked = %s;", lkk.Name))
			case "type":
				emit(fmt.Sprintf("    let leaked: %s = \"x\";", lkk.Name))
			}
			emit("    \"leak\"")
			emit("}")
		}
		if mi == 0 {
			emit("fn main() {")
			mainItem := Item{Name: "main", Kind: "fn"}
			form := g.shadowForm(mainItem)
			shadows := lk.shadowNames(g, m.Name)
			in := "    "
			if form == "block" && len(shadows) > 0 {
				emit("    {")
				in = "        "
			}
			isShadow := map[string]bool{}
			for _, n := range shadows {
				isShadow[n] = true
				emit(fmt.Sprintf("%slet %s = \"%s\";", in, n, localText(m.Name, "main", n)))
			}
			var again []string
			for i, b := range lk.mainPrints(g) {
				if b.Item.Kind == "fn" && g.throws() {
					// statement form of try: the handler assigns to a local of main
					emit(fmt.Sprintf("%slet m%d = \"\";", in, i))
					emit(fmt.Sprintf("%stry { m%d = %s(%s); } catch e { m%d = \"!\" + e.message; }", in, i, b.Item.Name, g.callArgs(lk, b, nil), i))
					emit(fmt.Sprintf("%sprintln(\"%s=\" + m%d);", in, b.Item.Name, i))
				} else if b.Item.Kind == "fn" {
					emit(fmt.Sprintf("%sprintln(\"%s=\" + %s(%s));", in, b.Item.Name, b.Item.Name, g.callArgs(lk, b, nil)))
				} else {
					emit(fmt.Sprintf("%sprintln(\"%s=\" + %s);", in, b.Item.Name, b.Item.Name))
					if in != "    " && isShadow[b.Item.Name] {
						again = append(again, b.Item.Name)
					}
				}
			}
			if in != "    " {
				emit("    }")
				for _, n := range again {
					emit(fmt.Sprintf("    println(\"%s=\" + %s);", n, n))
				}
			}
			for _, s := range m.sings() {
				emit(fmt.Sprintf("    println(\"$%s=\" + $%s.s);", s.Name, s.Name))
			}
			emit("    println(\"end\");")
			emit("}")
		} else {
			emit(fmt.Sprintf("fn main() { println(\"WRONG-MAIN %s\"); }", m.Name))
		}
		out.Src[m.Name] = sb.String()
	}
	return out
}

// Describe is a compact one-line rendering of a graph (for messages and coverage).
func Describe(g *Graph) string {
	var parts []string
	for _, m := range g.Mods {
		var its []string
		for _, it := range m.Items {
			p := ""
			if it.Pub {
				p = "pub "
			}
			its = append(its, p+it.Kind+" "+it.Name)
		}
		var ims []string
		for _, im := range m.Imports {
			var ns []string
			for _, x := range im.Items {
				ns = append(ns, x.text())
			}
			ims = append(ims, fmt.Sprintf("{%s}<-%s", strings.Join(ns, ","), im.From))
		}
		for _, hi := range m.HostImports {
			ims = append(ims, fmt.Sprintf("{%s}<-builtin %s", hi.Item.text(), hi.From))
		}
		if m.Bare {
			its = append(its, "no singleton")
		}
		parts = append(parts, fmt.Sprintf("%s[%s | %s]", m.Name, strings.Join(its, "; "), strings.Join(ims, " ")))
	}
	for _, l := range g.Leaks {
		parts = append(parts, fmt.Sprintf("%s uses %s %s without importing it", l.Mod, l.Kind, l.Name))
	}
	if g.ViaValue {
		parts = append(parts, "(calls through function values)")
	}
	if g.SingDirect {
		parts = append(parts, "(singletons used through `$K` expressions)")
	}
	if g.Mut {
		parts = append(parts, "(functions write to pub and imported globals)")
	}
	switch g.Exit {
	case "return":
		parts = append(parts, "(functions end with `return`)")
	case "throw":
		parts = append(parts, "(functions end by throwing their result)")
	case "throw-deep":
		parts = append(parts, "(functions end by throwing their result from a private helper of their module)")
	}
	if g.throws() {
		if g.Catch == "entry" {
			parts = append(parts, "(caught only in the entry's main)")
		} else {
			parts = append(parts, "(caught at every call site)")
		}
	}
	switch g.Callback {
	case "own":
		parts = append(parts, "(every edge function is handed the private function k of its caller's module and calls it)")
	case "relay":
		parts = append(parts, "(the entry's private function k is handed down through all edge functions, each calls it)")
	case "made":
		parts = append(parts, "(every module has a pub maker function returning a function value for its private function k; every edge function calls what its own and the imported makers return)")
	}
	if g.CbForm == "lit" {
		parts = append(parts, "(the function values are function literals `fn() -> str { k() }`)")
	}
	switch g.Shadow {
	case "let":
		parts = append(parts, "(every function has locals named like the globals its module sees)")
	case "param":
		parts = append(parts, "(every function has parameters named like the globals its module sees)")
	case "block":
		parts = append(parts, "(every function makes its calls inside a block with locals named like the globals its module sees)")
	}
	return strings.Join(parts, "  ")
}

func sortedCopy(xs []string) []string {
	out := append([]string{}, xs...)
	sort.Strings(out)
	return out
}
