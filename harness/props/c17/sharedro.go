package c17

// Program family "shared-ro": data which several cores only READ at overlapping times.
//
// The property says that accesses to globals from several cores are free of data races and that a
// spawned function runs to completion with the argument values given at the spawn. A value which is
// never written by the program must therefore behave, for every core, exactly as it does for a
// single core -- also if the runtime keeps hidden per-value state (iteration cursors of ranges,
// lists and strings live in the value; `for` is expected to give each loop a cursor of its own).
//
// The family: globals holding ranges (ascending / descending / inclusive / empty), lists of int,
// lists of str and strings; worker functions which consume them -- and the range / list / string
// parameters they were spawned with, which main takes from a global, from one of its locals shared
// by several spawns, or from a literal -- through every loop form: full `for`, `for` left with
// `break` (and entered again later), `for` with `continue`, nested `for` (also over the same value
// twice), `for` over a local copy of the global, and plain index/len reads. Some workers spawn a
// child with their own parameters (nested spawn). Every loop body calls the host function
// `tick(id, j)`, the scheduling point of the family (see monitor.tick).
//
// Oracle: differential. The reference is the sequential twin of the program, i.e. the same source
// with every `spawn f(..)` replaced by the call `f(..)`, run on one core without any yields just
// before the threaded run: every core must print exactly the result line its function prints when
// it is called with the same arguments. No model of what an iteration yields is involved. On top
// come the common C17 oracles (race detector, fin before wait-returned, exactly-once output).

import (
	"fmt"
	"strings"

	"hv/fw"
)

// roSrc is something a worker can iterate.
type roSrc struct {
	expr string // how the worker names it
	kind string // range | ilist | slist | str
}

// roRange: a range literal with at least min steps (min 0: now and then an empty one).
func roRange(r *fw.Rng, min int) string {
	a := r.Intn(20)
	n := min + r.Intn(31-min)
	if min == 0 && r.Intn(8) == 0 {
		n = 0
	}
	op := ".."
	if r.Intn(3) == 0 {
		op = "..="
	}
	if r.Intn(3) == 0 { // descending
		return fmt.Sprintf("%d%s%d", a+n, op, a)
	}
	return fmt.Sprintf("%d%s%d", a, op, a+n)
}

func roIntList(r *fw.Rng, min int) string {
	n := min + r.Intn(21-min)
	el := make([]string, n)
	for i := range el {
		el[i] = fmt.Sprint(r.Intn(1000))
	}
	return "[" + strings.Join(el, ", ") + "]"
}

const roAlphabet = "abcdefghijklmnopqrstuvwxyzABCDEFGHIJKLMNOPQRSTUVWXYZ0123456789"

func roWord(r *fw.Rng, min, max int) string {
	n := min + r.Intn(max-min+1)
	var sb strings.Builder
	for i := 0; i < n; i++ {
		if r.Intn(25) == 0 {
			sb.WriteString("é") // a multi-byte character now and then
			continue
		}
		sb.WriteByte(roAlphabet[r.Intn(len(roAlphabet))])
	}
	return sb.String()
}

func roStrList(r *fw.Rng, min int) string {
	n := min + r.Intn(9-min)
	el := make([]string, n)
	for i := range el {
		el[i] = fmt.Sprintf("%q", roWord(r, 0, 4))
	}
	return "[" + strings.Join(el, ", ") + "]"
}

// roVal is the int a loop over a source of this kind folds into the checksum.
func roVal(kind, v string) string {
	if kind == "slist" || kind == "str" {
		return v + ".len()"
	}
	return v
}

// roBody is the common loop body: count, order-sensitive checksum, (for str elements) the elements
// themselves, and the scheduling point.
func roBody(sb *strings.Builder, ind string, s roSrc, v string) {
	fmt.Fprintf(sb, "%sc += 1;\n%ss = (s * 31 + %s) %% 1000003;\n", ind, ind, roVal(s.kind, v))
	if s.kind == "slist" || s.kind == "str" {
		fmt.Fprintf(sb, "%sacc += %s;\n", ind, v)
	}
	fmt.Fprintf(sb, "%stick(id, c);\n", ind)
}

// roOp writes one consuming operation (number o of its function) over src (and src2 for nested loops).
func roOp(sb *strings.Builder, r *fw.Rng, o int, form string, s, s2 roSrc) {
	x, y, j := fmt.Sprintf("x%d", o), fmt.Sprintf("y%d", o), fmt.Sprintf("j%d", o)
	switch form {
	case "full":
		fmt.Fprintf(sb, "    for %s in %s {\n", x, s.expr)
		roBody(sb, "        ", s, x)
		sb.WriteString("    }\n")
	case "break":
		fmt.Fprintf(sb, "    let %s = 0;\n    for %s in %s {\n        if %s == k {\n            break;\n        }\n        %s += 1;\n", j, x, s.expr, j, j)
		roBody(sb, "        ", s, x)
		sb.WriteString("    }\n")
	case "continue":
		fmt.Fprintf(sb, "    let %s = 0;\n    for %s in %s {\n        %s += 1;\n        if %s %% 2 == k %% 2 {\n            continue;\n        }\n", j, x, s.expr, j, j)
		roBody(sb, "        ", s, x)
		sb.WriteString("    }\n")
	case "nested":
		fmt.Fprintf(sb, "    for %s in %s {\n        for %s in %s {\n            c += 1;\n            s = (s * 31 + %s * 7 + %s) %% 1000003;\n        }\n        tick(id, c);\n    }\n",
			x, s.expr, y, s2.expr, roVal(s.kind, x), roVal(s2.kind, y))
	case "local":
		loc := fmt.Sprintf("loc%d", o)
		fmt.Fprintf(sb, "    let %s = %s;\n    for %s in %s {\n", loc, s.expr, x, loc)
		roBody(sb, "        ", s, x)
		sb.WriteString("    }\n")
	case "index": // s.kind == ilist
		fmt.Fprintf(sb, "    s = (s * 31 + %s[k %% %s.len()] + %s.len()) %% 1000003;\n    c += 1;\n    tick(id, c);\n", s.expr, s.expr, s.expr)
	}
}

// roTickBudget bounds the iterations one function of the family may count (the real maximum is below 4000:
// at most 4 operations of at most 31*31 steps).
const roTickBudget = 20000

// roGlobals is the number of read-only globals of a program (R0 R1 L0 T0 S0).
const roGlobals = 5

var roForms = []string{"full", "full", "break", "continue", "nested", "local", "index"}

// buildSharedRO builds the threaded program (seq=false) or its sequential twin (seq=true); both are the
// same pure function of the seed, the only difference is the word `spawn`.
func buildSharedRO(p Payload, seq bool) spec {
	r := fw.NewRng(p.Seed ^ 0x5a4ed)
	sp := spec{lines: map[string]int{}}
	var sb strings.Builder
	spawn := "spawn "
	if seq {
		spawn = ""
	}
	// read-only globals
	globals := []roSrc{{"R0", "range"}, {"R1", "range"}, {"L0", "ilist"}, {"T0", "slist"}, {"S0", "str"}}
	// the global all workers meet on is never (nearly) empty
	hotMin := func(g, min, otherwise int) int {
		if p.Hot%len(globals) == g {
			return min
		}
		return otherwise
	}
	fmt.Fprintf(&sb, "let R0 = %s;\nlet R1 = %s;\nlet L0 = %s;\nlet T0 = %s;\nlet S0 = %q;\n",
		roRange(r, hotMin(0, 8, 0)), roRange(r, hotMin(1, 8, 0)), roIntList(r, hotMin(2, 6, 1)), roStrList(r, hotMin(3, 4, 1)), roWord(r, hotMin(4, 6, 1), 20))
	params := []roSrc{{"pr", "range"}, {"pl", "ilist"}, {"ps", "str"}}
	// every program has one value kind which all of its workers consume (that is where cores meet); the
	// other operations are drawn freely
	hot := globals[p.Hot%len(globals)]
	pick := func() roSrc {
		switch r.Intn(5) {
		case 0, 1:
			return hot
		case 2:
			return params[r.Intn(len(params))]
		}
		return globals[r.Intn(len(globals))]
	}
	nfn := 1 + r.Intn(3)
	for f := 0; f < nfn; f++ {
		fmt.Fprintf(&sb, "fn w%d(id: int, k: int, pr: range, pl: [int], ps: str) {\n    let c = 0;\n    let s = 0;\n    let acc = \"\";\n", f)
		nops := 2 + r.Intn(3)
		prev := roSrc{}
		prevForm := ""
		for o := 0; o < nops; o++ {
			s, form := pick(), roForms[r.Intn(len(roForms))]
			if o == 0 {
				s = hot
			}
			if prevForm == "break" && r.Intn(2) == 0 {
				s, form = prev, "full" // enter a value again whose previous loop was left half way
			}
			if form == "index" && s.kind != "ilist" {
				form = "full"
			}
			s2 := s
			if r.Intn(2) == 0 {
				s2 = pick()
			}
			roOp(&sb, r, o, form, s, s2)
			prev, prevForm = s, form
		}
		sb.WriteString("    println(\"r\", id, c, s, acc);\n    fin(id);\n}\n")
	}
	// a parent: spawns a child with its own parameters, then consumes the shared values itself
	hasParent := r.Intn(3) == 0
	if hasParent {
		fmt.Fprintf(&sb, "fn parent(id: int, k: int, pr: range, pl: [int], ps: str) {\n    %sw%d(id + 50, k + 1, pr, pl, ps);\n    let c = 0;\n    let s = 0;\n    let acc = \"\";\n", spawn, r.Intn(nfn))
		roOp(&sb, r, 0, "full", hot, hot)
		roOp(&sb, r, 1, roForms[r.Intn(len(roForms)-1)], params[0], pick())
		sb.WriteString("    println(\"r\", id, c, s, acc);\n    fin(id);\n}\n")
	}
	// main
	fmt.Fprintf(&sb, "fn main() {\n    let lr = %s;\n    let ll = %s;\n    let ls = %q;\n", roRange(r, 0), roIntList(r, 1), roWord(r, 1, 20))
	nw := 2 + r.Intn(7)
	sp.cores = nw + 1
	for wi := 1; wi <= nw; wi++ {
		ra := []string{"R0", "R1", "lr", "lr", roRange(r, 0)}[r.Intn(5)]
		la := []string{"L0", "ll", "ll", roIntList(r, 1)}[r.Intn(4)]
		sa := []string{"S0", "ls", "ls", fmt.Sprintf("%q", roWord(r, 0, 12))}[r.Intn(4)]
		k := r.Intn(13)
		fn := fmt.Sprintf("w%d", r.Intn(nfn))
		if hasParent && r.Intn(4) == 0 {
			fn = "parent"
			sp.fins = append(sp.fins, int64(wi+50))
			sp.cores++
		}
		fmt.Fprintf(&sb, "    %s%s(%d, %d, %s, %s, %s);\n", spawn, fn, wi, k, ra, la, sa)
		sp.fins = append(sp.fins, int64(wi))
	}
	sb.WriteString("    fin(0);\n}\n")
	sp.fins = append(sp.fins, 0)
	sp.src = sb.String()
	return sp
}

// roResults maps core id -> result line ("r <id> <count> <checksum> <acc>\n"); other chunks are returned in rest.
func roResults(chunks []string) (byID map[string][]string, rest []string) {
	byID = map[string][]string{}
	for _, c := range chunks {
		if c == "" {
			continue
		}
		f := strings.SplitN(c, " ", 3)
		if len(f) == 3 && f[0] == "r" {
			byID[f[1]] = append(byID[f[1]], c)
			continue
		}
		rest = append(rest, c)
	}
	return byID, rest
}
