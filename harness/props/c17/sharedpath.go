package c17

// Program family "shared-path": the shared-ro idea (sharedro.go) for values which a core does not name
// directly but REACHES: the iterable of a loop is an expression which evaluates to (a part of) a value
// shared between cores.
//
// A global object, a global list of lists / of ranges / of objects, an object nested in an object, and the
// object / list-of-lists parameters a worker was spawned with (which main takes from a global, from a part
// of a global, from one of its locals shared by several spawns, or from a literal) hold ranges, int lists,
// str lists and strings. Nobody ever writes any of them. Workers consume these parts through the loop forms
// of the shared-ro family (full / break and re-entry / continue / nested / local copy / index+len), the
// iterable (or indexed value) being an expression of every kind which can yield a shared value:
//
//	member          O0.l   po.r             member of member   N0.o.l
//	index           M0[1]  Q0[0]  T0[0]     computed index     M0[k % M0.len()]   pm[k % pm.len()]
//	member, index   N0.m[0]  O0.t[0]        index, member      A0[0].l   A0[k % A0.len()].s
//	call result     gol()  gm(k)            (functions returning a global or a part of one)
//	grouping        (E)    block  { E }     if / else  if c { E } else { E' }     cast  E as T
//
// next to the plain identifiers of the shared-ro family. Every program has one such expression on which all
// of its workers meet (stratified over the programs).
//
// Oracle: the one of shared-ro -- every core prints exactly the result line its function prints in the
// sequential twin of the program -- plus the common C17 oracles (race detector, fin before wait-returned,
// exactly-once output).

import (
	"fmt"
	"sort"
	"strings"

	"hv/fw"
)

// pathSrc is an iterable expression of the family.
type pathSrc struct {
	roSrc
	class   string // construct class (coverage)
	postfix bool   // `expr[..]` and `expr.len()` can be written directly behind it
	param   bool   // reaches through a parameter of the worker
}

// roPathHot: the expressions a program's workers can be made to meet on, most basic classes first (the quick
// tier covers a prefix).
var roPathHot = []pathSrc{
	{roSrc{"O0.l", "ilist"}, "member", true, false},
	{roSrc{"M0[0]", "ilist"}, "index", true, false},
	{roSrc{"N0.m[0]", "ilist"}, "member-index", true, false},
	{roSrc{"A0[0].l", "ilist"}, "index-member", true, false},
	{roSrc{"po.l", "ilist"}, "param-member", true, true},
	{roSrc{"pm[0]", "ilist"}, "param-index", true, true},
	{roSrc{"gol()", "ilist"}, "call", true, false},
	{roSrc{"O0.r", "range"}, "member", true, false},
	{roSrc{"Q0[0]", "range"}, "index", true, false},
	{roSrc{"O0.s", "str"}, "member", true, false},
	{roSrc{"T0[0]", "str"}, "index", true, false},
	{roSrc{"N0.o.l", "ilist"}, "member-member", true, false},
	{roSrc{"O0.t", "slist"}, "member", true, false},
	{roSrc{"M0[k % M0.len()]", "ilist"}, "index-computed", true, false},
	{roSrc{"A0[0].r", "range"}, "index-member", true, false},
	{roSrc{"po.r", "range"}, "param-member", true, true},
	{roSrc{"gm(0)", "ilist"}, "call", true, false},
	{roSrc{"(O0.l)", "ilist"}, "group:member", true, false},
	{roSrc{"{ M0[0] }", "ilist"}, "block:index", false, false},
	{roSrc{"O0.l as [int]", "ilist"}, "cast:member", false, false},
	{roSrc{"if k >= 0 { O0.l } else { M0[0] }", "ilist"}, "if:member", false, false},
	{roSrc{"L0", "ilist"}, "ident", true, false},
}

// roPathHots is the number of programs after which the hot expressions repeat.
var roPathHots = len(roPathHot)

func roTypeOf(kind string) string {
	switch kind {
	case "range":
		return "range"
	case "ilist":
		return "[int]"
	case "slist":
		return "[str]"
	}
	return "str"
}

// roObj is an object literal { r, l, t, s }; full: no part is (nearly) empty.
func roObj(r *fw.Rng, full bool) string {
	rm, lm, tm, sm := 0, 1, 1, 0
	if full {
		rm, lm, tm, sm = 6, 5, 3, 5
	}
	return fmt.Sprintf("new { r: %s, l: %s, t: %s, s: %q }", roRange(r, rm), roIntList(r, lm), roStrList(r, tm), roWord(r, sm, 16))
}

const roObjType = "{ r: range, l: [int], t: [str], s: str }"

// roRows is a list of n int lists; the first one is never (nearly) empty.
func roRows(r *fw.Rng, n int) string {
	el := make([]string, n)
	for i := range el {
		min := 1
		if i == 0 {
			min = 5
		}
		el[i] = roIntList(r, min)
	}
	return "[" + strings.Join(el, ", ") + "]"
}

func buildSharedPath(p Payload, seq bool) spec {
	r := fw.NewRng(p.Seed ^ 0x9a7b5)
	sp := spec{lines: map[string]int{}}
	var sb strings.Builder
	spawn := "spawn "
	if seq {
		spawn = ""
	}
	hot := roPathHot[p.Hot%len(roPathHot)]
	// read-only globals: plain ones, an object, an object in an object, lists of lists / ranges / objects
	mRows, qRows, aRows, nRows := 2+r.Intn(3), 2+r.Intn(2), 2+r.Intn(2), 2+r.Intn(2)
	fmt.Fprintf(&sb, "let R0 = %s;\nlet L0 = %s;\nlet T0 = [%q, %s;\nlet S0 = %q;\n",
		roRange(r, 0), roIntList(r, 5), roWord(r, 5, 12), roStrList(r, 1)[1:], roWord(r, 1, 20))
	fmt.Fprintf(&sb, "let O0 = %s;\n", roObj(r, true))
	fmt.Fprintf(&sb, "let N0 = new { o: %s, m: %s };\n", roObj(r, true), roRows(r, nRows))
	fmt.Fprintf(&sb, "let M0 = %s;\n", roRows(r, mRows))
	q := []string{roRange(r, 6)}
	for i := 1; i < qRows; i++ {
		q = append(q, roRange(r, 0))
	}
	fmt.Fprintf(&sb, "let Q0 = [%s];\n", strings.Join(q, ", "))
	a := []string{roObj(r, true)}
	for i := 1; i < aRows; i++ {
		a = append(a, roObj(r, false))
	}
	fmt.Fprintf(&sb, "let A0 = [%s];\n", strings.Join(a, ", "))
	// functions whose result is a shared value
	sb.WriteString("fn gl() -> [int] {\n    L0\n}\nfn gol() -> [int] {\n    O0.l\n}\nfn gm(i: int) -> [int] {\n    M0[i % M0.len()]\n}\nfn gr() -> range {\n    O0.r\n}\nfn gs() -> str {\n    N0.o.s\n}\nfn gt() -> [str] {\n    A0[0].t\n}\n")

	// every expression of the family
	var all []pathSrc
	add := func(expr, kind, class string, param bool) {
		all = append(all, pathSrc{roSrc{expr, kind}, class, true, param})
	}
	for _, f := range [][2]string{{"r", "range"}, {"l", "ilist"}, {"t", "slist"}, {"s", "str"}} {
		add("O0."+f[0], f[1], "member", false)
		add("N0.o."+f[0], f[1], "member-member", false)
		add("po."+f[0], f[1], "param-member", true)
		add(fmt.Sprintf("A0[%d].%s", r.Intn(aRows), f[0]), f[1], "index-member", false)
		add("A0[k % A0.len()]."+f[0], f[1], "index-computed-member", false)
	}
	for i := 0; i < mRows; i++ {
		add(fmt.Sprintf("M0[%d]", i), "ilist", "index", false)
	}
	for i := 0; i < qRows; i++ {
		add(fmt.Sprintf("Q0[%d]", i), "range", "index", false)
	}
	for i := 0; i < nRows; i++ {
		add(fmt.Sprintf("N0.m[%d]", i), "ilist", "member-index", false)
	}
	add("M0[k % M0.len()]", "ilist", "index-computed", false)
	add("Q0[k % Q0.len()]", "range", "index-computed", false)
	add("N0.m[k % N0.m.len()]", "ilist", "member-index-computed", false)
	add("T0[0]", "str", "index", false)
	add("T0[k % T0.len()]", "str", "index-computed", false)
	add("O0.t[0]", "str", "member-index", false)
	add("N0.o.t[k % N0.o.t.len()]", "str", "member-index-computed", false)
	add("pm[0]", "ilist", "param-index", true)
	add("pm[k % pm.len()]", "ilist", "param-index-computed", true)
	add("gl()", "ilist", "call", false)
	add("gol()", "ilist", "call", false)
	add("gm(k)", "ilist", "call", false)
	add("gr()", "range", "call", false)
	add("gs()", "str", "call", false)
	add("gt()", "slist", "call", false)
	add("R0", "range", "ident", false)
	add("L0", "ilist", "ident", false)
	add("T0", "slist", "ident", false)
	add("S0", "str", "ident", false)
	byKind := map[string][]pathSrc{}
	for _, s := range all {
		byKind[s.kind] = append(byKind[s.kind], s)
	}
	classes := map[string]bool{}
	// wrap: now and then the expression sits inside a grouping / block / if-else / cast
	wrap := func(s pathSrc) pathSrc {
		switch r.Intn(12) {
		case 0:
			return pathSrc{roSrc{"(" + s.expr + ")", s.kind}, "group:" + s.class, true, s.param}
		case 1:
			return pathSrc{roSrc{"{ " + s.expr + " }", s.kind}, "block:" + s.class, false, s.param}
		case 2:
			alt := byKind[s.kind][r.Intn(len(byKind[s.kind]))]
			cond := []string{"k % 2 == 0", "k >= 0", "id < 0"}[r.Intn(3)]
			return pathSrc{roSrc{fmt.Sprintf("if %s { %s } else { %s }", cond, s.expr, alt.expr), s.kind}, "if:" + s.class, false, s.param || alt.param}
		case 3:
			return pathSrc{roSrc{s.expr + " as " + roTypeOf(s.kind), s.kind}, "cast:" + s.class, false, s.param}
		}
		return s
	}
	pick := func() pathSrc {
		var s pathSrc
		if r.Intn(5) < 2 {
			s = hot
		} else {
			s = wrap(all[r.Intn(len(all))])
		}
		return s
	}
	use := func(s pathSrc) pathSrc {
		classes[s.class] = true
		return s
	}
	const sig = "(id: int, k: int, po: " + roObjType + ", pm: [[int]])"
	nfn := 1 + r.Intn(3)
	for f := 0; f < nfn; f++ {
		fmt.Fprintf(&sb, "fn w%d%s {\n    let c = 0;\n    let s = 0;\n    let acc = \"\";\n", f, sig)
		nops := 2 + r.Intn(3)
		prev := pathSrc{}
		prevForm := ""
		for o := 0; o < nops; o++ {
			s, form := pick(), roForms[r.Intn(len(roForms))]
			if o == 0 {
				s = hot
			}
			if prevForm == "break" && r.Intn(2) == 0 {
				s, form = prev, "full" // enter a value again whose previous loop was left half way
			}
			if form == "index" && (s.kind != "ilist" || !s.postfix) {
				form = "full"
			}
			s2 := s
			if r.Intn(2) == 0 {
				s2 = pick()
			}
			use(s)
			if form == "nested" {
				use(s2)
			}
			classes["form:"+form] = true
			roOp(&sb, r, o, form, s.roSrc, s2.roSrc)
			prev, prevForm = s, form
		}
		sb.WriteString("    println(\"r\", id, c, s, acc);\n    fin(id);\n}\n")
	}
	// a parent: spawns a child with its own parameters, then consumes the shared values itself
	hasParent := r.Intn(3) == 0
	if hasParent {
		fmt.Fprintf(&sb, "fn parent%s {\n    %sw%d(id + 50, k + 1, po, pm);\n    let c = 0;\n    let s = 0;\n    let acc = \"\";\n", sig, spawn, r.Intn(nfn))
		roOp(&sb, r, 0, "full", use(hot).roSrc, hot.roSrc)
		ps := []pathSrc{{roSrc{"po.l", "ilist"}, "param-member", true, true}, {roSrc{"pm[0]", "ilist"}, "param-index", true, true}, {roSrc{"po.s", "str"}, "param-member", true, true}}[r.Intn(3)]
		roOp(&sb, r, 1, roForms[r.Intn(len(roForms)-1)], use(ps).roSrc, use(pick()).roSrc)
		sb.WriteString("    println(\"r\", id, c, s, acc);\n    fin(id);\n}\n")
	}
	// main
	fmt.Fprintf(&sb, "fn main() {\n    let lo = %s;\n    let lm = %s;\n", roObj(r, true), roRows(r, 2+r.Intn(2)))
	nw := 2 + r.Intn(7)
	sp.cores = nw + 1
	for wi := 1; wi <= nw; wi++ {
		oa := []string{"O0", "N0.o", "A0[0]", "lo", "lo", roObj(r, false)}[r.Intn(6)]
		ma := []string{"M0", "N0.m", "lm", "lm", roRows(r, 1+r.Intn(3))}[r.Intn(5)]
		if hot.param && r.Intn(4) > 0 { // the workers are to meet on a parameter: mostly the same shared value
			oa, ma = "lo", "lm"
			if p.Seed%2 == 0 {
				oa, ma = "O0", "M0"
			}
		}
		k := r.Intn(13)
		fn := fmt.Sprintf("w%d", r.Intn(nfn))
		if hasParent && r.Intn(4) == 0 {
			fn = "parent"
			sp.fins = append(sp.fins, int64(wi+50))
			sp.cores++
		}
		fmt.Fprintf(&sb, "    %s%s(%d, %d, %s, %s);\n", spawn, fn, wi, k, oa, ma)
		sp.fins = append(sp.fins, int64(wi))
	}
	sb.WriteString("    fin(0);\n}\n")
	sp.fins = append(sp.fins, 0)
	sp.src = sb.String()
	for c := range classes {
		sp.cover = append(sp.cover, "path:"+c)
	}
	sort.Strings(sp.cover)
	return sp
}
