package c17

// Program family "fatal": one core (sometimes two) dies of a fatal error while the others run.
//
// The property: "the host's wait ... reports the first fatal interrupt of any core and cancels the rest".
// The shape "fail" of the base workload has one way of dying (an index error in the spawned function
// itself). This family varies everything around the moment of death:
//   - the error: integer / float division and remainder by zero, zero to a negative power, negative shift
//     counts, an uncaught throw, unwrap of none, a failing cast, a failing assert, an index out of bounds,
//     unbounded recursion (call stack limit), recursion of a function with many locals (memory limit);
//   - the call stack at that moment: the error is raised 0..3 calls below the function the core was
//     started with, optionally below a self-recursive function, inside for / while / if / try bodies;
//   - the names of the functions on that stack: 2..48 characters;
//   - who dies: a worker spawned by main (first / in the middle / last), a child spawned by a worker, or
//     main itself; after a seed-chosen number of ticks;
//   - who else is there: cores which never end, cores which end early, cores still being spawned.
//
// Oracle: differential again. The reference for "the fatal interrupt of the failing core" is what the real
// VM reports for the twin program whose main does nothing but CALL the failing function with the same
// arguments (one core, no yields): class, kind, message (first line) and source position must be those the
// wait of the threaded run returns (with two failing cores: those of either). After the wait has returned,
// no goroutine may stay inside Core.Run (the rest is cancelled). A process which dies instead is reported
// through OnCrash.

import (
	"fmt"
	"regexp"
	"strings"

	"hv/drive"
	"hv/fw"
)

// fatalKinds: name -> statements raising the error (locals available: id: int; z == 0 and m == -1 computed at run time).
var fatalKinds = []struct{ name, stmt string }{
	{"div-int", "let q = (id + 10) / z;\nprintln(q);"},
	{"div-float", "let q = 1.5 / (z as float);\nprintln(q);"},
	{"rem-int", "let q = (id + 10) % z;\nprintln(q);"},
	{"pow-neg", "let q = z ** m;\nprintln(q);"},
	{"shl-neg", "let q = 1 << m;\nprintln(q);"},
	{"shr-neg", "let q = 64 >> m;\nprintln(q);"},
	{"throw", "throw(\"boom \" + id.to_string());"},
	{"unwrap-none", "let o: ?int = none;\nprintln(o.unwrap());"},
	{"cast", "let a: any = \"x\";\nlet q = a as int;\nprintln(q);"},
	{"assert", "assert(z == 1);"},
	{"index", "let l = [1];\nprintln(l[id + 5]);"},
	{"recursion", ""}, // call stack limit
	{"memory", ""},    // memory limit
}

// fatalChain writes the functions of one failing call chain and returns the name of its root (signature (id: int, n: int)).
func fatalChain(sb *strings.Builder, r *fw.Rng, kind int, used map[string]bool) (root string, cover []string) {
	name := func() string {
		for {
			n := osName(r, osNameLen(r))
			if !used[n] {
				used[n] = true
				return n
			}
		}
	}
	fk := fatalKinds[kind]
	depth := r.Intn(4)
	names := make([]string, depth+1)
	maxLen := 0
	for i := range names {
		names[i] = name()
		if len(names[i]) > maxLen {
			maxLen = len(names[i])
		}
	}
	cover = append(cover, "fatal-kind:"+fk.name, fmt.Sprintf("fatal-depth:%d", depth), fmt.Sprintf("fatal-name-len:%d", (maxLen/8)*8))
	// the innermost function raises the error
	last := names[depth]
	switch fk.name {
	case "recursion":
		fmt.Fprintf(sb, "fn %s(id: int, n: int) {\n    %s(id, n + 1);\n}\n", last, last)
	case "memory":
		fmt.Fprintf(sb, "fn %s(id: int, n: int) {\n", last)
		for i := 0; i < 150; i++ {
			fmt.Fprintf(sb, "    let v%d = n;\n", i)
		}
		fmt.Fprintf(sb, "    %s(id, n + v149 - v0 + 1);\n}\n", last)
	default:
		fmt.Fprintf(sb, "fn %s(id: int, n: int) {\n    let z = id - id;\n    let m = z - 1;\n", last)
		body := "    " + strings.ReplaceAll(fk.stmt, "\n", "\n    ") + "\n"
		switch w := r.Intn(5); {
		case w == 0:
			sb.WriteString("    for j in 0..3 {\n        if j == 1 {\n" + strings.ReplaceAll(body, "    ", "            ") + "        }\n    }\n")
			cover = append(cover, "fatal-in:for-if")
		case w == 1:
			sb.WriteString("    let j = 0;\n    while j < 2 {\n        j += 1;\n" + strings.ReplaceAll(body, "    ", "        ") + "    }\n")
			cover = append(cover, "fatal-in:while")
		case w == 2 && fk.name != "throw" && fk.name != "unwrap-none" && fk.name != "cast":
			// fatal errors are not catchable (throws are: they stay outside)
			sb.WriteString("    try {\n" + strings.ReplaceAll(body, "    ", "        ") + "    } catch e {\n        println(\"caught\", e.message);\n    }\n")
			cover = append(cover, "fatal-in:try")
		default:
			sb.WriteString(body)
			cover = append(cover, "fatal-in:plain")
		}
		sb.WriteString("}\n")
	}
	// the functions above it: tick a while, then call the next one (sometimes after recursing a few levels)
	for i := depth - 1; i >= 0; i-- {
		if r.Intn(4) == 0 {
			fmt.Fprintf(sb, "fn %s(id: int, n: int) {\n    if n > 0 {\n        tick(id, n);\n        %s(id, n - 1);\n    } else {\n        %s(id, %d);\n    }\n}\n", names[i], names[i], names[i+1], r.Intn(6))
			cover = append(cover, "fatal-below:recursive")
			continue
		}
		fmt.Fprintf(sb, "fn %s(id: int, n: int) {\n    let c = 0;\n    while c < n {\n        c += 1;\n        tick(id, c);\n    }\n    %s(id, %d);\n    println(\"after\", id);\n}\n", names[i], names[i+1], r.Intn(6))
	}
	return names[0], cover
}

type fatalSpec struct {
	spec
	twins []string // one twin program per failing call
}

// buildFatal builds the threaded program and the twin(s).
func buildFatal(p Payload) fatalSpec {
	r := fw.NewRng(p.Seed ^ 0xfa7a1)
	var defs strings.Builder
	fs := fatalSpec{spec: spec{lines: map[string]int{}}}
	used := map[string]bool{}
	kind := p.Hot % len(fatalKinds)
	type failing struct {
		root string
		id   int
		n    int
	}
	var fails []failing
	root, cover := fatalChain(&defs, r, kind, used)
	fs.cover = append(fs.cover, cover...)
	fails = append(fails, failing{root, 1, r.Intn(40)})
	if r.Intn(4) == 0 {
		k2 := r.Intn(len(fatalKinds) - 2) // the second one is never one of the (slow) limit errors
		root2, cover2 := fatalChain(&defs, r, k2, used)
		fs.cover = append(fs.cover, cover2...)
		fs.cover = append(fs.cover, "fatal-two-failing")
		fails = append(fails, failing{root2, 2, r.Intn(40)})
	}
	// bystanders
	forever, finite, parent := osName(r, osNameLen(r))+"f", osName(r, osNameLen(r))+"e", osName(r, osNameLen(r))+"p"
	fmt.Fprintf(&defs, "fn %s(id: int) {\n    let c = 0;\n    loop {\n        c = (c + 1) %% 1000;\n        if c %% 50 == 0 {\n            tick(id, c);\n        }\n    }\n}\n", forever)
	fmt.Fprintf(&defs, "fn %s(id: int, n: int) {\n    let c = 0;\n    while c < n {\n        c += 1;\n        tick(id, c);\n    }\n    println(\"done\", id);\n}\n", finite)
	who := []string{"worker", "worker", "child", "main"}[r.Intn(4)]
	fs.cover = append(fs.cover, "fatal-who:"+who)
	if who == "child" {
		// a worker which spawns the failing function and goes on
		fmt.Fprintf(&defs, "fn %s(id: int, n: int) {\n    spawn %s(id, n);\n    let c = 0;\n    loop {\n        c = (c + 1) %% 1000;\n    }\n}\n", parent, fails[0].root)
	}
	var sb strings.Builder
	sb.WriteString(defs.String())
	sb.WriteString("fn main() {\n")
	nOther := 1 + r.Intn(6)
	fs.cores = nOther + len(fails) + 1
	failAt := r.Intn(nOther + 1) // position of the failing spawn among the others
	emitFail := func(f failing, first bool) {
		switch {
		case first && who == "child":
			fmt.Fprintf(&sb, "    spawn %s(%d, %d);\n", parent, f.id, f.n)
			fs.cores++
		case first && who == "main":
			// main fails itself, after all spawns (see below)
		default:
			fmt.Fprintf(&sb, "    spawn %s(%d, %d);\n", f.root, f.id, f.n)
		}
	}
	for i := 0; i <= nOther; i++ {
		if i == failAt {
			emitFail(fails[0], true)
			if len(fails) > 1 {
				emitFail(fails[1], false)
			}
		}
		if i == nOther {
			break
		}
		if r.Intn(2) == 0 {
			fmt.Fprintf(&sb, "    spawn %s(%d);\n", forever, 10+i)
		} else {
			fmt.Fprintf(&sb, "    spawn %s(%d, %d);\n", finite, 10+i, r.Intn(60))
		}
	}
	if who == "main" {
		fmt.Fprintf(&sb, "    %s(%d, %d);\n", fails[0].root, fails[0].id, fails[0].n)
	}
	sb.WriteString("    loop {\n        let y = 1;\n    }\n}\n")
	fs.src = sb.String()
	fs.failKind = "twin"
	for _, f := range fails {
		fs.twins = append(fs.twins, fmt.Sprintf("%sfn main() {\n    %s(%d, %d);\n}\n", defs.String(), f.root, f.id, f.n))
	}
	return fs
}

var fatalExceededBy = regexp.MustCompile(`exceeded by \d+|\(mp=\d+\)|of \d+ variables`)

// fatalIdentity renders what identifies a fatal interrupt: class, kind, message, position. How far a limit was
// exceeded (and where the core was when the limit check ran) depends on how many instructions the core had
// executed before, which differs between a called and a spawned function: not part of the identity.
func fatalIdentity(o drive.Outcome) string {
	msg := fatalExceededBy.ReplaceAllString(o.Message, "#")
	if o.Kind == "StackOverFlow" || o.Kind == "OutOfMemoryError" || !o.HasSpan {
		return fmt.Sprintf("%s/%s: %s", o.Class, o.Kind, msg)
	}
	return fmt.Sprintf("%s/%s: %s @%d:%d", o.Class, o.Kind, msg, o.Span.Start.Line, o.Span.Start.Column)
}
