package c17

// Program family "shared-code": values which are written in the CODE of a function that several cores
// execute at overlapping times.
//
// All cores run the same (read-only) program. A literal -- a string, a range, a list of ints or of
// strings -- which stands in the body of a spawned function is evaluated by every core that runs the
// function, at the same source site. The property says that a spawned function runs to completion with
// the values given to it and that only the globals are shared between cores: whatever the literal
// evaluates to must therefore behave, for every core, exactly as it does when the function runs alone,
// also if the implementation keeps one constant per site and hands it to all cores (the hidden per-value
// state -- iteration cursors live inside the iterated value -- must not leak from one core to another
// through the code).
//
// The family: 2..8 workers running 1..3 functions (most of them the first one, so that the cores meet at
// the same sites); every consuming operation of the shared-ro family (full `for`, `for` left with `break`
// and entered again, `for` with `continue`, nested `for`, `for` over a local bound to the value, index +
// len) and, for lists of strings, a loop over the elements of the elements, has as its iterable (indexed
// value) an expression made of literals only:
//
//	literal         "abc"   3..17   [1, 2, 3]   ["ab", "cd"]
//	grouping        ("abc")         block   { "abc" }       if / else   if c { "abc" } else { "de" }
//	cast            "abc" as str    element of a list literal   ["ab", "cd"][k % 2]
//	member of an object literal     new { v: "abc" }.v
//	call result     cs()            (a function whose body is the literal)
//	argument        as(("abc"))     (a function returning its parameter, called with the literal)
//	concatenation   "ab" + "cd"     method result   "abc".to_upper()   "a,b,c".split(",")
//
// Each operation has a literal of its own (a source site of its own). One (kind, expression class, loop
// form) per program is the one every function starts with (stratified over the programs); it also stands
// in a helper function which all workers (and, in some programs, main) call, and some workers spawn a
// child before they consume the literals themselves. Every loop body calls tick(id, c).
//
// Oracle: the sequential twin (see sharedro.go) -- the same source without the word `spawn`, run on one
// core just before: every core must print exactly the result line its function prints there -- plus the
// common C17 oracles (race detector, no crash of the process, fin before wait-returned, exactly-once
// output).

import (
	"fmt"
	"sort"
	"strings"

	"hv/fw"
)

// scHot is what all functions of a program start with.
type scHot struct {
	kind  string // str | ilist | range | slist
	class string // expression class
	form  string // loop form ("": full)
}

// scHots: basic classes first (the quick tier covers a prefix).
var scHots = []scHot{
	{"str", "lit", ""},
	{"ilist", "lit", ""},
	{"range", "lit", ""},
	{"slist", "lit", ""},
	{"str", "group", ""},
	{"str", "call", ""},
	{"str", "elem", ""},
	{"slist", "lit", "elems"},
	{"str", "if", ""},
	{"str", "member", ""},
	{"str", "concat", ""},
	{"str", "arg", ""},
	{"str", "lit", "break"},
	{"ilist", "group", ""},
	{"str", "block", ""},
	{"str", "cast", ""},
	{"ilist", "call", ""},
	{"range", "group", ""},
	{"ilist", "elem", "index"},
	{"str", "lit", "nested"},
	{"range", "call", ""},
	{"slist", "split", ""},
	{"str", "method", ""},
	{"ilist", "member", ""},
	{"range", "if", ""},
	{"str", "lit", "local"},
	{"slist", "call", "elems"},
	{"ilist", "lit", "index"},
	{"str", "lit", "continue"},
	{"range", "elem", ""},
}

var scClasses = []string{"lit", "lit", "lit", "lit", "lit", "lit", "group", "block", "if", "cast", "call", "arg", "elem", "member", "concat", "split", "method"}

var scForms = []string{"full", "full", "break", "continue", "nested", "local", "index", "elems"}

// scGen builds the expressions of one program.
type scGen struct {
	r       *fw.Rng
	helpers strings.Builder
	nh      int
}

// lit: a literal of the kind; big: long enough for several cores to be inside a loop over it at the same time.
func (g *scGen) lit(kind string, big bool) string {
	switch kind {
	case "range":
		if big {
			return roRange(g.r, 8)
		}
		return roRange(g.r, 0)
	case "ilist":
		if big {
			return roIntList(g.r, 6)
		}
		return roIntList(g.r, 1)
	case "slist":
		n := 1 + g.r.Intn(6)
		if big {
			n = 4 + g.r.Intn(5)
		}
		el := make([]string, n)
		for i := range el {
			el[i] = fmt.Sprintf("%q", roWord(g.r, 0, 6))
		}
		return "[" + strings.Join(el, ", ") + "]"
	}
	if big {
		return fmt.Sprintf("%q", roWord(g.r, 8, 40))
	}
	return fmt.Sprintf("%q", roWord(g.r, 0, 24))
}

// expr: a fresh expression (own literals, own source site) of the kind and class; the class actually used is
// returned (not every class exists for every kind).
func (g *scGen) expr(kind, class string, big bool) (s roSrc, used string, postfix bool) {
	l := g.lit(kind, big)
	if kind == "range" && class != "lit" && class != "elem" && class != "member" {
		l = "(" + l + ")" // a range literal as an operand
	}
	t := roTypeOf(kind)
	s.kind, used, postfix = kind, class, true
	switch class {
	case "group":
		s.expr = "(" + l + ")"
	case "block":
		s.expr, postfix = "{ "+l+" }", false
	case "if":
		cond := []string{"k % 2 == 0", "k >= 0", "id < 0"}[g.r.Intn(3)]
		s.expr, postfix = fmt.Sprintf("if %s { %s } else { %s }", cond, l, g.lit(kind, big)), false
	case "cast":
		s.expr, postfix = l+" as "+t, false
	case "call":
		g.nh++
		fmt.Fprintf(&g.helpers, "fn c%d() -> %s {\n    %s\n}\n", g.nh, t, l)
		s.expr = fmt.Sprintf("c%d()", g.nh)
	case "arg":
		g.nh++
		fmt.Fprintf(&g.helpers, "fn a%d(p: %s) -> %s {\n    p\n}\n", g.nh, t, t)
		s.expr = fmt.Sprintf("a%d(%s)", g.nh, l)
	case "elem":
		s.expr = fmt.Sprintf("[%s, %s][k %% 2]", l, g.lit(kind, big))
	case "member":
		s.expr = fmt.Sprintf("new { v: %s }.v", l)
	default:
		switch {
		case class == "concat" && kind == "str":
			s.expr, postfix = l+" + "+g.lit("str", false), false
		case class == "method" && kind == "str":
			s.expr = l + ".to_upper()"
		case class == "split" && kind == "slist":
			n := 2 + g.r.Intn(5)
			if big {
				n = 4 + g.r.Intn(5)
			}
			w := make([]string, n)
			for i := range w {
				w[i] = roWord(g.r, 0, 6)
			}
			s.expr = fmt.Sprintf("%q.split(\",\")", strings.Join(w, ","))
		default:
			s.expr, used = l, "lit"
		}
	}
	return s, used, postfix
}

// scOp writes one consuming operation.
func scOp(sb *strings.Builder, r *fw.Rng, o int, form string, s, s2 roSrc) {
	if form != "elems" {
		roOp(sb, r, o, form, s, s2)
		return
	}
	// the elements of a list of strings are iterated themselves
	x, y := fmt.Sprintf("x%d", o), fmt.Sprintf("y%d", o)
	fmt.Fprintf(sb, "    for %s in %s {\n        for %s in %s {\n            c += 1;\n            s = (s * 31 + %s.len()) %% 1000003;\n            acc += %s;\n        }\n        tick(id, c);\n    }\n", x, s.expr, y, x, y, y)
}

func buildSharedCode(p Payload, seq bool) spec {
	r := fw.NewRng(p.Seed ^ 0xc0de5)
	sp := spec{lines: map[string]int{}}
	g := &scGen{r: r}
	var sb strings.Builder
	spawn := "spawn "
	if seq {
		spawn = ""
	}
	hot := scHots[p.Hot%len(scHots)]
	sp.cover = append(sp.cover, "shared-code-hot:"+hot.kind+":"+hot.class+":"+hot.form)
	classes := map[string]bool{}
	kinds := []string{"str", "str", "ilist", "range", "slist"}
	// op: one operation; first: over the hot (kind, class, form)
	op := func(o int, first bool) {
		kind, class, form := kinds[r.Intn(len(kinds))], scClasses[r.Intn(len(scClasses))], scForms[r.Intn(len(scForms))]
		if first {
			kind, class, form = hot.kind, hot.class, hot.form
			if form == "" {
				form = "full"
			}
		}
		s, used, postfix := g.expr(kind, class, first || r.Intn(2) == 0)
		if form == "index" && (kind != "ilist" || !postfix) {
			form = "full"
		}
		if form == "elems" && kind != "slist" {
			form = "full"
		}
		s2 := s
		if form == "nested" && r.Intn(2) == 0 {
			var u2 string
			s2, u2, _ = g.expr(kinds[r.Intn(len(kinds))], scClasses[r.Intn(len(scClasses))], false)
			classes[s2.kind+":"+u2] = true
		}
		classes[kind+":"+used] = true
		classes["form:"+form] = true
		scOp(&sb, r, o, form, s, s2)
		if form == "break" && r.Intn(2) == 0 {
			// the same site is entered again by a loop around it (its previous loop was left half way)
			sb.WriteString("    for q in 0..2 {\n        k = k + q;\n")
			var in strings.Builder
			scOp(&in, r, o+10, "break", s, s)
			for _, ln := range strings.SplitAfter(in.String(), "\n") {
				if ln != "" {
					sb.WriteString("    " + ln)
				}
			}
			sb.WriteString("    }\n")
		}
	}
	// the helper all workers call: the hot operation at a site inside a called function
	sb.WriteString("fn hs(id: int, k0: int, c0: int) -> int {\n    let k = k0;\n    let c = c0;\n    let s = 0;\n    let acc = \"\";\n")
	op(0, true)
	sb.WriteString("    s + acc.len() + c\n}\n")
	nfn := 1 + r.Intn(3)
	for f := 0; f < nfn; f++ {
		fmt.Fprintf(&sb, "fn w%d(id: int, k0: int) {\n    let k = k0;\n    let c = 0;\n    let s = 0;\n    let acc = \"\";\n    let h = 0;\n", f)
		nops := 2 + r.Intn(3)
		hsAt := r.Intn(nops + 1)
		for o := 0; o < nops; o++ {
			if o == hsAt {
				sb.WriteString("    h = hs(id, k, 1000);\n")
			}
			op(o, o == 0)
		}
		if hsAt == nops {
			sb.WriteString("    h = hs(id, k, 1000);\n")
		}
		sb.WriteString("    println(\"r\", id, c, s, acc, h);\n    fin(id);\n}\n")
	}
	hasParent := r.Intn(3) == 0
	if hasParent {
		fmt.Fprintf(&sb, "fn parent(id: int, k0: int) {\n    %sw%d(id + 50, k0 + 1);\n    let k = k0;\n    let c = 0;\n    let s = 0;\n    let acc = \"\";\n", spawn, r.Intn(nfn))
		op(0, true)
		op(1, false)
		sb.WriteString("    let h = hs(id, k, 2000);\n    println(\"r\", id, c, s, acc, h);\n    fin(id);\n}\n")
	}
	sb.WriteString("fn main() {\n")
	nw := 2 + r.Intn(7)
	sp.cores = nw + 1
	for wi := 1; wi <= nw; wi++ {
		fn := "w0"
		if r.Intn(3) == 0 {
			fn = fmt.Sprintf("w%d", r.Intn(nfn))
		}
		if hasParent && r.Intn(4) == 0 {
			fn = "parent"
			sp.fins = append(sp.fins, int64(wi+50))
			sp.cores++
		}
		fmt.Fprintf(&sb, "    %s%s(%d, %d);\n", spawn, fn, wi, r.Intn(13))
		sp.fins = append(sp.fins, int64(wi))
	}
	if r.Intn(3) == 0 {
		// main is a core as well: it passes the common site while the workers run
		fmt.Fprintf(&sb, "    let hm = hs(90, %d, 0);\n    if hm < 0 {\n        fin(91);\n    }\n", r.Intn(13))
		classes["main-at-site"] = true
	}
	sb.WriteString("    fin(0);\n}\n")
	sp.fins = append(sp.fins, 0)
	sp.src = g.helpers.String() + sb.String()
	for c := range classes {
		sp.cover = append(sp.cover, "code:"+c)
	}
	sort.Strings(sp.cover)
	return sp
}
