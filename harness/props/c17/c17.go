// Package c17 checks property C17: spawned threads run to completion, are waited for, and do not
// race. Workers are built with -race; schedules are perturbed through the VerifYield hook.
package c17

import (
	"context"
	"fmt"
	"math/rand"
	goruntime "runtime"
	"sort"
	"strings"
	"sync"
	"sync/atomic"
	"time"

	"github.com/anishathalye/porcupine"
	hms "github.com/smarthome-go/homescript/v3/homescript"
	"github.com/smarthome-go/homescript/v3/homescript/analyzer"
	"github.com/smarthome-go/homescript/v3/homescript/analyzer/ast"
	herrors "github.com/smarthome-go/homescript/v3/homescript/errors"
	pAst "github.com/smarthome-go/homescript/v3/homescript/parser/ast"
	"github.com/smarthome-go/homescript/v3/homescript/runtime"
	vvalue "github.com/smarthome-go/homescript/v3/homescript/runtime/value"

	"hv/drive"
	"hv/fw"
	"hv/util"
)

type c17 struct{}

func init() { fw.Register(c17{}) }

func (c17) ID() string { return "C17" }

func (c17) Info(tier string) fw.Info {
	return fw.Info{
		Level: "exploration",
		Rule: "seeded programs spawning 1..8 cores (also nested spawns) that print unique lines, write unique values to scalar globals and read them between op_begin/op_end, receive distinct scalar and list arguments, finish at very different times, optionally with one core failing at a chosen step; each program is run under the race detector with GOMAXPROCS in {1,2,4,16} and seed-determined yield plans at the VM's scheduling points (wait lock-upgrade gap, spawn, globals lock). " +
			"oracle: no race report with a /repo frame; every expected line appears exactly once and whole; arguments echo the spawn-time values; every fin(id) event precedes the wait-returned event; a failing core's fatal interrupt is what the wait returns; the history of global reads/writes is linearizable per global (porcupine, register model). " +
			"family shared-ro: globals holding ranges, int lists, str lists and strings which the cores only read, and range/list/str spawn arguments taken from a global, from a local of main shared by several spawns or from a literal, consumed by 2..8 cores at overlapping times through for / for+break (and re-entry) / for+continue / nested for / for over a local copy / index+len, with a host scheduling point tick() in every loop body and GOMAXPROCS set per case; oracle: every core prints exactly the result line its function prints in the sequential twin of the program (each `spawn f(..)` replaced by the call `f(..)`), plus the oracles above. " +
			"family shared-path: the same for shared values which a core reaches through an expression: a global object, an object nested in an object, global lists of int lists / ranges / objects and object / list-of-lists spawn arguments (taken from a global, a part of a global, a shared local of main or a literal) hold the ranges, lists and strings; the iterable (or indexed value) of every loop form is a member, member-of-member, constant or computed index, member-then-index, index-then-member expression, the result of a call to a function returning a global or a part of one, or such an expression inside a grouping, block, if/else or cast; same twin oracle. " +
			"family shared-obj: a global object, a singleton and the same singleton through an extraction parameter, never written, whose members (data fields, nested fields, to_json, keys) the 2..8 workers are the first to touch -- main only spawns; same twin oracle. " +
			"family shared-code: the same for values written as literals in the code of the functions 2..8 cores execute at overlapping times (most cores the same function, so that they meet at the same source sites, also inside a helper all of them call, also main, also a child spawned by a worker): the iterable (or indexed value) of every loop form -- and of a loop over the elements of the elements of a str list -- is a str / range / int list / str list literal, or such a literal inside a grouping, block, if/else or cast, an element of a list literal, a member of an object literal, the result of a function whose body is the literal or which returns its parameter, a concatenation or a method result of literals; every operation has a literal (a source site) of its own; same twin oracle. " +
			"family own-state: 2..8 cores which each build their own any-objects, lists, lists of lists, objects (with nested containers) and strings at source sites all cores evaluate (in the worker, in a helper, in a loop body, as a field / element of another literal, as a literal argument of a spawn, also of one spawn statement in a loop) and mutate them through set / push / push_front / insert / pop / element, field and compound assignment with tick() in every loop body; same twin oracle. " +
			"family fatal: one core (sometimes two; a worker, a child of a worker or main) dies of integer/float division or remainder by zero, a negative power of zero, a negative shift count, an uncaught throw, unwrap of none, a failing cast, a failing assert, an index error, the call stack limit or the memory limit, raised 0..3 calls below the function the core was started with (plain, in for/if, while, try bodies, below a recursive function), all functions having names of 2..48 characters, while 1..6 other cores run forever or end early; oracle: the wait returns the fatal interrupt (class, kind, message, position) which the VM reports when main of a one-core twin program calls the failing function (of either failing function), and afterwards no goroutine stays inside Core.Run. " +
			"non-trivial = at least 2 cores ran and the run finished; distinct = distinct (program, plan, GOMAXPROCS); interleavings_distinct counts distinct per-core event orders observed",
		Assumptions: []string{
			"schedules are sampled (yield plans + GOMAXPROCS), not enumerated",
			"mutable containers reachable from several cores are not synchronised by design notes in the code (TODO deepcopy) and are only read in the main workload",
			"family fatal: the identity of a fatal interrupt is class, kind, first message line (numbers saying by how much a limit was exceeded masked) and, except for the limit errors, the source position",
			"families shared-ro, shared-path and shared-code: the reference result of a worker is what the real VM computes for the same function called sequentially (twin run, one core); what an iteration yields is not modelled",
		},
		CaseTimeoutS: 60,
		BatchSize:    40,
		Race:         true,
		BatchEnv: func(b int) []string {
			return []string{fmt.Sprintf("GOMAXPROCS=%d", []int{1, 2, 4, 16}[b%4])}
		},
	}
}

// Payload of a thread case.
type Payload struct {
	Seed  uint64 `json:"seed"`
	Plan  uint64 `json:"plan"`
	Shape string `json:"shape"` // print | globals | args | mixed | fail | nested | late-spawn | shared-ro | shared-path | shared-code | shared-obj | own-state | fatal
	// ForceGap: always sleep in the wait lock-upgrade gap (pinned witnesses).
	ForceGap bool `json:"force_gap,omitempty"`
	// Procs: GOMAXPROCS for this case (0 = whatever the batch runs with).
	Procs int `json:"procs,omitempty"`
	// Hot: shared-ro / shared-path / shared-code: index of the global (of the expression) every worker of the program consumes;
	// own-state: index of the container / site kind every worker builds; fatal: index of the error the failing core
	// dies of (stratified over the programs).
	Hot int `json:"hot,omitempty"`
}

var shapes = []string{"print", "globals", "args", "mixed", "fail", "nested", "late-spawn"}

func (c17) Cases(tier string, seed uint64) []fw.Case {
	r := fw.NewRng(seed ^ 0xC17)
	np, plans := 40, 4
	if tier == "thorough" {
		np, plans = 200, 8
	}
	var cases []fw.Case
	n := 0
	for i := 0; i < np; i++ {
		ps := r.Next()
		shape := shapes[i%len(shapes)]
		for j := 0; j < plans*4; j++ { // 4 consecutive batches get the 4 GOMAXPROCS values
			cases = append(cases, fw.MkCase(fmt.Sprintf("c17-%04d-%s-%d", n, shape, j), "threads", Payload{Seed: ps, Plan: r.Next(), Shape: shape, ForceGap: shape == "late-spawn" && j%4 == 0}))
			n++
		}
	}
	// family shared-ro (see sharedro.go): own generator stream, so that the cases above do not move.
	// Plan-major order; every (program, plan) pair runs under each GOMAXPROCS value.
	rr := fw.NewRng(seed ^ 0xC17520)
	nro, roPlans := 10, 3
	if tier == "thorough" {
		nro, roPlans = 40, 8
	}
	roSeeds := make([]uint64, nro)
	for i := range roSeeds {
		roSeeds[i] = rr.Next()
	}
	for j := 0; j < roPlans; j++ {
		for i := 0; i < nro; i++ {
			plan := rr.Next()
			for _, procs := range []int{1, 2, 4, 16} {
				cases = append(cases, fw.MkCase(fmt.Sprintf("c17-ro-%03d-%d-p%d", i, j, procs), "threads", Payload{Seed: roSeeds[i], Plan: plan, Shape: "shared-ro", Procs: procs, Hot: i % roGlobals}))
			}
		}
	}
	// family shared-path (see sharedpath.go): the same with shared values reached through member / index / call
	// expressions; again an own generator stream.
	rp := fw.NewRng(seed ^ 0xC17947)
	npa, paPlans := 12, 3
	if tier == "thorough" {
		npa, paPlans = 2*roPathHots, 6
	}
	paSeeds := make([]uint64, npa)
	for i := range paSeeds {
		paSeeds[i] = rp.Next()
	}
	for j := 0; j < paPlans; j++ {
		for i := 0; i < npa; i++ {
			plan := rp.Next()
			for _, procs := range []int{1, 2, 4, 16} {
				cases = append(cases, fw.MkCase(fmt.Sprintf("c17-pa-%03d-%d-p%d", i, j, procs), "threads", Payload{Seed: paSeeds[i], Plan: plan, Shape: "shared-path", Procs: procs, Hot: i % roPathHots}))
			}
		}
	}
	// family own-state (see ownstate.go): containers every core builds for itself at source sites shared by all cores.
	ro := fw.NewRng(seed ^ 0xC170e5)
	nos, osPlans := len(osHots), 2
	if tier == "thorough" {
		nos, osPlans = 3*len(osHots), 6
	}
	osSeeds := make([]uint64, nos)
	for i := range osSeeds {
		osSeeds[i] = ro.Next()
	}
	for j := 0; j < osPlans; j++ {
		for i := 0; i < nos; i++ {
			plan := ro.Next()
			for _, procs := range []int{1, 2, 4, 16} {
				cases = append(cases, fw.MkCase(fmt.Sprintf("c17-os-%03d-%d-p%d", i, j, procs), "threads", Payload{Seed: osSeeds[i], Plan: plan, Shape: "own-state", Procs: procs, Hot: i % len(osHots)}))
			}
		}
	}
	// family shared-code (see sharedcode.go): literals in the code of functions which several cores execute.
	rc := fw.NewRng(seed ^ 0xC17c0de)
	nsc, scPlans := 12, 2
	if tier == "thorough" {
		nsc, scPlans = 2*len(scHots), 5
	}
	scSeeds := make([]uint64, nsc)
	for i := range scSeeds {
		scSeeds[i] = rc.Next()
	}
	for j := 0; j < scPlans; j++ {
		for i := 0; i < nsc; i++ {
			plan := rc.Next()
			for _, procs := range []int{1, 2, 4, 16} {
				cases = append(cases, fw.MkCase(fmt.Sprintf("c17-sc-%03d-%d-p%d", i, j, procs), "threads", Payload{Seed: scSeeds[i], Plan: plan, Shape: "shared-code", Procs: procs, Hot: i % len(scHots)}))
			}
		}
	}
	// family shared-obj (see sharedobj.go): objects and singletons whose members the workers are the first to touch.
	rb := fw.NewRng(seed ^ 0xC170b1)
	nso, soPlans := 8, 2
	if tier == "thorough" {
		nso, soPlans = 40, 4
	}
	soSeeds := make([]uint64, nso)
	for i := range soSeeds {
		soSeeds[i] = rb.Next()
	}
	for j := 0; j < soPlans; j++ {
		for i := 0; i < nso; i++ {
			plan := rb.Next()
			for _, procs := range []int{2, 4, 16} {
				cases = append(cases, fw.MkCase(fmt.Sprintf("c17-so-%03d-%d-p%d", i, j, procs), "threads", Payload{Seed: soSeeds[i], Plan: plan, Shape: "shared-obj", Procs: procs}))
			}
		}
	}
	// family fatal (see fatal.go): a core dying of every kind of fatal error, at every call depth, below functions
	// with names of every length.
	rf := fw.NewRng(seed ^ 0xC17fa7)
	nfa, faPlans := 2*len(fatalKinds), 1
	if tier == "thorough" {
		nfa, faPlans = 8*len(fatalKinds), 3
	}
	faSeeds := make([]uint64, nfa)
	for i := range faSeeds {
		faSeeds[i] = rf.Next()
	}
	for j := 0; j < faPlans; j++ {
		for i := 0; i < nfa; i++ {
			plan := rf.Next()
			for _, procs := range []int{1, 2, 4, 16} {
				cases = append(cases, fw.MkCase(fmt.Sprintf("c17-fa-%03d-%d-p%d", i, j, procs), "threads", Payload{Seed: faSeeds[i], Plan: plan, Shape: "fatal", Procs: procs, Hot: i % len(fatalKinds)}))
			}
		}
	}
	return cases
}

// ---------------------------------------------------------------------------------------------
// Program construction
// ---------------------------------------------------------------------------------------------

type spec struct {
	src      string
	lines    map[string]int // expected output lines -> count
	fins     []int64        // ids that must report fin
	failKind string         // expected fatal kind ("" = normal completion)
	globals  []string
	cores    int
	cover    []string // construct classes the program contains (coverage keys)
}

// roShape: the families whose oracle is the sequential twin.
func roShape(shape string) bool {
	return shape == "shared-ro" || shape == "shared-path" || shape == "own-state" || shape == "shared-code" || shape == "shared-obj"
}

// roWhat says what the workers of a twin-judged family do.
func roWhat(shape string) string {
	if shape == "own-state" {
		return "writing only into containers it has created itself (r id ticks, then size and content of each container)"
	}
	if shape == "shared-code" {
		return "consuming only values written as literals in its own code (r id count checksum elements helper-result)"
	}
	if shape == "shared-obj" {
		return "reading members of objects and singletons which no core ever writes and which main never touched (r id count checksum)"
	}
	return "consuming values which no core ever writes (r id count checksum elements)"
}

// buildRO builds a program of such a family (seq: its sequential twin).
func buildRO(p Payload, seq bool) spec {
	switch p.Shape {
	case "shared-path":
		return buildSharedPath(p, seq)
	case "own-state":
		return buildOwnState(p, seq)
	case "shared-code":
		return buildSharedCode(p, seq)
	case "shared-obj":
		return buildSharedObj(p, seq)
	}
	return buildSharedRO(p, seq)
}

func build(p Payload) spec {
	if roShape(p.Shape) {
		return buildRO(p, false)
	}
	if p.Shape == "fatal" {
		return buildFatal(p).spec
	}
	r := fw.NewRng(p.Seed)
	var sb strings.Builder
	sp := spec{lines: map[string]int{}}
	nw := 1 + r.Intn(8)
	if p.Shape == "fail" && nw < 2 {
		nw = 2
	}
	sp.cores = nw + 1
	ng := 1 + r.Intn(3)
	for g := 0; g < ng; g++ {
		fmt.Fprintf(&sb, "let g%d = 0;\n", g)
		sp.globals = append(sp.globals, fmt.Sprintf("g%d", g))
	}
	usePrint := p.Shape == "print" || p.Shape == "mixed" || p.Shape == "nested" || p.Shape == "late-spawn" || p.Shape == "fail"
	useGlob := p.Shape == "globals" || p.Shape == "mixed"
	useArgs := p.Shape == "args" || p.Shape == "mixed"
	// worker function
	sb.WriteString("fn w(id: int, n: int, l: [int], s: str) {\n")
	if useArgs {
		sb.WriteString("    println(\"arg\", id, n, l, s);\n")
	}
	sb.WriteString("    let i = 0;\n    while i < n {\n        i += 1;\n")
	if usePrint {
		sb.WriteString("        println(\"c\" + id.to_string() + \"-\" + i.to_string());\n")
	}
	if useGlob {
		for g := 0; g < ng; g++ {
			fmt.Fprintf(&sb, "        let t%d = op_begin();\n        g%d = id * 100000 + i * 10 + %d;\n        op_end(t%d, true, %d, id * 100000 + i * 10 + %d);\n", g, g, g, g, g, g)
			fmt.Fprintf(&sb, "        let u%d = op_begin();\n        let x%d = g%d;\n        op_end(u%d, false, %d, x%d);\n", g, g, g, g, g, g)
		}
	}
	sb.WriteString("    }\n    fin(id);\n}\n")
	if p.Shape == "fail" {
		sb.WriteString("fn bad(id: int, n: int) {\n    let i = 0;\n    while i < n {\n        i += 1;\n    }\n    let l = [1];\n    println(l[id + 5]);\n    fin(id);\n}\n")
		sb.WriteString("fn forever(id: int) {\n    loop {\n        let x = id;\n    }\n}\n")
	}
	if p.Shape == "nested" {
		sb.WriteString("fn parent(id: int, n: int) {\n    spawn w(id + 50, n, [id], \"nested\");\n    let i = 0;\n    while i < n {\n        i += 1;\n    }\n    fin(id);\n}\n")
	}
	sb.WriteString("fn main() {\n")
	expectWorker := func(id, n int64, l string, s string) {
		sp.fins = append(sp.fins, id)
		if useArgs {
			sp.lines[fmt.Sprintf("arg %d %d %s %s\n", id, n, l, s)]++
		}
		if usePrint {
			for i := int64(1); i <= n; i++ {
				sp.lines[fmt.Sprintf("c%d-%d\n", id, i)]++
			}
		}
	}
	for wi := 1; wi <= nw; wi++ {
		n := int64(r.Intn(6))
		switch r.Intn(4) {
		case 0:
			n = int64(20 + r.Intn(200))
		case 1:
			n = 0
		}
		l := fmt.Sprintf("[%d, %d]", wi, wi*7)
		s := fmt.Sprintf("s%d", wi)
		switch {
		case p.Shape == "fail" && wi == 1:
			fmt.Fprintf(&sb, "    spawn bad(%d, %d);\n", wi, 30+r.Intn(300))
			sp.failKind = "IndexOutOfBounds"
		case p.Shape == "fail" && wi == 2:
			fmt.Fprintf(&sb, "    spawn forever(%d);\n", wi)
		case p.Shape == "nested" && wi%2 == 0:
			fmt.Fprintf(&sb, "    spawn parent(%d, %d);\n", wi, n)
			sp.fins = append(sp.fins, int64(wi))
			sp.cores++
			expectWorker(int64(wi+50), n, fmt.Sprintf("[%d]", wi), "nested")
		default:
			fmt.Fprintf(&sb, "    spawn w(%d, %d, %s, \"%s\");\n", wi, n, l, s)
			if p.Shape != "fail" {
				expectWorker(int64(wi), n, l, s)
			}
		}
		if p.Shape == "late-spawn" {
			// keep main busy between spawns so that early workers finish while later ones are spawned
			busy := 20 + r.Intn(400)
			if p.ForceGap {
				busy = 4000
			}
			fmt.Fprintf(&sb, "    let k%d = 0;\n    while k%d < %d {\n        k%d += 1;\n    }\n", wi, wi, busy, wi)
		}
	}
	if p.Shape == "fail" {
		sb.WriteString("    loop {\n        let y = 1;\n    }\n")
		sp.lines = map[string]int{}
		sp.fins = nil
	} else {
		sb.WriteString("    fin(0);\n")
		sp.fins = append(sp.fins, 0)
	}
	sb.WriteString("}\n")
	sp.src = sb.String()
	return sp
}

// ---------------------------------------------------------------------------------------------
// Host with event log and history recording
// ---------------------------------------------------------------------------------------------

type event struct {
	kind string // fin | wait-returned
	id   int64
	t    int64
}

type regOp struct {
	write bool
	key   int64
	val   int64
}

type monitor struct {
	clock  atomic.Int64
	mu     sync.Mutex
	events []event
	ops    []porcupine.Operation
	opSeq  int
	// per-core event order (for interleaving hashes)
	order []string
	// yield plan
	prng     *rand.Rand
	planMode map[string]int
	// tick (the scheduling point programs call themselves): mode and salt are fixed before the run starts
	tickMode int
	tickSalt uint64
	// cores created (scheduling point "spawn", passed once per core) and cores which have reached the exit hook
	// (called just before a core sends its final signal)
	spawned, exited atomic.Int64
}

// tick is the host function `tick(id, j)`. Unlike yield it touches no shared memory at all (its decision is
// a pure function of the plan and its arguments): a mutex or an atomic here would order the cores'
// surrounding memory accesses for the race detector and hide exactly the races the caller is placed next to.
func (m *monitor) tick(id, j int64) {
	if m.tickMode == 0 {
		return
	}
	h := (m.tickSalt ^ uint64(id)*0x9E3779B97F4A7C15 ^ uint64(j)*0xC2B2AE3D27D4EB4F) * 0xFF51AFD7ED558CCD
	x := int((h >> 33) % 100)
	switch m.tickMode {
	case 1:
		if x < 50 {
			goruntime.Gosched()
		}
	case 2:
		if x < 30 {
			time.Sleep(time.Duration(50+x*10) * time.Microsecond)
		}
	case 3:
		time.Sleep(100 * time.Microsecond)
	}
}

func (m *monitor) yield(site string) {
	m.mu.Lock()
	mode := m.planMode[site]
	x := m.prng.Intn(100)
	m.mu.Unlock()
	switch mode {
	case 1:
		if x < 50 {
			goruntime.Gosched()
		}
	case 2:
		if x < 30 {
			time.Sleep(time.Duration(50+x*10) * time.Microsecond)
		}
	case 3:
		time.Sleep(300 * time.Microsecond)
	case 4:
		time.Sleep(20 * time.Millisecond)
	}
}

var (
	curMon    atomic.Pointer[monitor]
	hooksOnce sync.Once
)

func installHooks() {
	hooksOnce.Do(func() {
		runtime.VerifYield = func(site string) {
			if m := curMon.Load(); m != nil {
				if site == "spawn" {
					m.spawned.Add(1)
				}
				m.yield(site)
			}
		}
		// an atomic at the very end of a core orders nothing that the core still does
		runtime.VerifCoreExit = func(*runtime.Core) {
			if m := curMon.Load(); m != nil {
				m.exited.Add(1)
			}
		}
	})
}

func analyzerScope() map[string]analyzer.Variable {
	s := drive.AnalyzerScope()
	sp := herrors.Span{}
	param := func(name string, t ast.Type) ast.FunctionTypeParam {
		return ast.NewFunctionTypeParam(pAst.NewSpannedIdent(name, sp), t, nil)
	}
	s["fin"] = analyzer.NewBuiltinVar(ast.NewFunctionType(ast.NewNormalFunctionTypeParamKind([]ast.FunctionTypeParam{param("id", ast.NewIntType(sp))}), sp, ast.NewNullType(sp), sp))
	s["op_begin"] = analyzer.NewBuiltinVar(ast.NewFunctionType(ast.NewNormalFunctionTypeParamKind([]ast.FunctionTypeParam{}), sp, ast.NewIntType(sp), sp))
	s["op_end"] = analyzer.NewBuiltinVar(ast.NewFunctionType(ast.NewNormalFunctionTypeParamKind([]ast.FunctionTypeParam{
		param("t", ast.NewIntType(sp)), param("write", ast.NewBoolType(sp)), param("key", ast.NewIntType(sp)), param("val", ast.NewIntType(sp)),
	}), sp, ast.NewNullType(sp), sp))
	s["tick"] = analyzer.NewBuiltinVar(ast.NewFunctionType(ast.NewNormalFunctionTypeParamKind([]ast.FunctionTypeParam{param("id", ast.NewIntType(sp)), param("j", ast.NewIntType(sp))}), sp, ast.NewNullType(sp), sp))
	return s
}

func (m *monitor) vmScope(exec drive.VMExec) map[string]vvalue.Value {
	s := exec.VMScope()
	s["fin"] = *vvalue.NewValueBuiltinFunction(func(_ vvalue.Executor, _ *context.Context, _ herrors.Span, args ...vvalue.Value) (*vvalue.Value, *vvalue.VmInterrupt) {
		id := args[0].(vvalue.ValueInt).Inner
		t := m.clock.Add(1)
		m.mu.Lock()
		m.events = append(m.events, event{"fin", id, t})
		m.mu.Unlock()
		return vvalue.NewValueNull(), nil
	})
	s["tick"] = *vvalue.NewValueBuiltinFunction(func(_ vvalue.Executor, _ *context.Context, span herrors.Span, args ...vvalue.Value) (*vvalue.Value, *vvalue.VmInterrupt) {
		id, j := args[0].(vvalue.ValueInt).Inner, args[1].(vvalue.ValueInt).Inner
		// j is the caller's own count of loop iterations: beyond roTickBudget (no worker of the family can get
		// anywhere near it) some loop does not terminate. Deterministic and again without shared memory.
		if j > roTickBudget {
			return nil, vvalue.NewVMFatalException(fmt.Sprintf("tick budget: the function with id %d has counted %d loop iterations, its loops over finite values do not terminate", id, j), vvalue.Vm_HostErrorKind, span)
		}
		m.tick(id, j)
		return vvalue.NewValueNull(), nil
	})
	s["op_begin"] = *vvalue.NewValueBuiltinFunction(func(_ vvalue.Executor, _ *context.Context, _ herrors.Span, args ...vvalue.Value) (*vvalue.Value, *vvalue.VmInterrupt) {
		return vvalue.NewValueInt(m.clock.Add(1)), nil
	})
	s["op_end"] = *vvalue.NewValueBuiltinFunction(func(_ vvalue.Executor, _ *context.Context, _ herrors.Span, args ...vvalue.Value) (*vvalue.Value, *vvalue.VmInterrupt) {
		t1 := m.clock.Add(1)
		t0 := args[0].(vvalue.ValueInt).Inner
		w := args[1].(vvalue.ValueBool).Inner
		key := args[2].(vvalue.ValueInt).Inner
		val := args[3].(vvalue.ValueInt).Inner
		m.mu.Lock()
		client := int(val / 100000)
		if !w {
			client = m.opSeq % 64 // readers: any distinct-ish client id is fine (ops of one core never overlap)
		}
		m.opSeq++
		op := porcupine.Operation{ClientId: client, Call: t0, Return: t1}
		if w {
			op.Input = regOp{true, key, val}
			op.Output = int64(0)
		} else {
			op.Input = regOp{false, key, 0}
			op.Output = val
		}
		m.ops = append(m.ops, op)
		m.mu.Unlock()
		return vvalue.NewValueNull(), nil
	})
	return s
}

var regModel = porcupine.Model{
	Partition: func(history []porcupine.Operation) [][]porcupine.Operation {
		byKey := map[int64][]porcupine.Operation{}
		for _, op := range history {
			k := op.Input.(regOp).key
			byKey[k] = append(byKey[k], op)
		}
		keys := make([]int64, 0, len(byKey))
		for k := range byKey {
			keys = append(keys, k)
		}
		sort.Slice(keys, func(i, j int) bool { return keys[i] < keys[j] })
		out := make([][]porcupine.Operation, 0, len(keys))
		for _, k := range keys {
			out = append(out, byKey[k])
		}
		return out
	},
	Init: func() interface{} { return int64(0) },
	Step: func(state, input, output interface{}) (bool, interface{}) {
		in := input.(regOp)
		if in.write {
			return true, in.val
		}
		return output.(int64) == state.(int64), state
	},
	DescribeOperation: func(input, output interface{}) string {
		in := input.(regOp)
		if in.write {
			return fmt.Sprintf("write(g%d, %d)", in.key, in.val)
		}
		return fmt.Sprintf("read(g%d) -> %d", in.key, output.(int64))
	},
}

// execution is what one run of a program under a monitor yields.
type execution struct {
	log        *drive.Log
	out        drive.Outcome
	tWait      int64
	stragglers int
	// leftover: goroutines still inside Core.Run at the end of the grace period
	leftover int
	// unfinished: cores which had not reached their exit hook when the wait returned
	unfinished int64
}

// execute analyzes, compiles and runs src on the real VM. hooks=false: no yields at the VM's scheduling points
// (the sequential twin). A non-empty sig means the program did not get as far as running.
func execute(src string, mon *monitor, hooks bool) (ex execution, sig, why string) {
	srcs := drive.Sources{"main": src}
	host := &drive.Host{Src: srcs}
	mods, diags, syn := hms.Analyze(hms.InputProgram{ProgramText: src, Filename: "main"}, analyzerScope(), host, true)
	ao := drive.AnalyzeOut{Diags: diags, Syntax: syn}
	if len(syn) > 0 || strings.Contains(ao.ErrorSummary(), "error ") {
		return ex, "harness:program-rejected", "generated thread program rejected: " + ao.ErrorSummary() + "\n" + src
	}
	prog, err := drive.Compile(mods, "main")
	if err != nil {
		return ex, "harness:compile", err.Error()
	}
	installHooks()
	if hooks {
		curMon.Store(mon)
	} else {
		curMon.Store(nil)
	}
	defer curMon.Store(nil)
	ex.log = &drive.Log{}
	exec := drive.VMExec{L: ex.log, Src: srcs}
	ctx, cancel := context.WithCancel(context.Background())
	defer cancel()
	limits := runtime.CoreLimits{CallStackMaxSize: 100, StackMaxSize: 500, MaxMemorySize: 10000}
	var cf context.CancelFunc = cancel
	vm := runtime.NewVM(prog, exec, &ctx, &cf, mon.vmScope(exec), limits)
	vm.SpawnAsync(runtime.MainFn(), nil, nil, nil)
	_, intr := vm.Wait()
	ex.tWait = mon.clock.Add(1)
	if hooks {
		ex.unfinished = mon.spawned.Load() - mon.exited.Load()
	}
	ex.out = drive.VMOutcome(intr)
	// let stragglers (cores that Wait did not wait for) reveal themselves: sample until stable
	// (after a fatal interrupt the other cores are cancelled, not waited for: they get a longer grace period)
	grace := 200
	if intr != nil {
		grace = 3000
	}
	for i := 0; i < grace; i++ {
		n := coreGoroutines()
		ex.leftover = n
		if n == 0 {
			break
		}
		ex.stragglers = n
		time.Sleep(time.Millisecond)
	}
	return ex, "", ""
}

func writes(l *drive.Log) []string {
	var out []string
	for _, e := range l.Snapshot() {
		if e.Kind == "write" {
			out = append(out, e.Text)
		}
	}
	return out
}

func (c17) Run(c fw.Case) fw.Result {
	var p Payload
	fw.Decode(c, &p)
	if p.Procs > 0 {
		defer goruntime.GOMAXPROCS(goruntime.GOMAXPROCS(p.Procs))
	}
	sp := build(p)
	res := fw.Result{Verdict: fw.Held, Cover: []string{"shape:" + p.Shape, fmt.Sprintf("gomaxprocs:%d", goruntime.GOMAXPROCS(0))}}
	res.Cover = append(res.Cover, sp.cover...)
	// family shared-ro: the reference is the sequential twin, run first (one core, no yields)
	var twin map[string][]string
	if roShape(p.Shape) {
		tsrc := buildRO(p, true).src
		tex, sig, why := execute(tsrc, &monitor{planMode: map[string]int{}}, false)
		if sig == "" && tex.out.Class != "ok" {
			sig, why = "twin:outcome:"+tex.out.Class+"/"+tex.out.Kind, fmt.Sprintf("the sequential twin ended with %s\n--- twin\n%s", tex.out, tsrc)
		}
		if sig != "" {
			res.Verdict, res.Sig, res.Why = fw.Violated, sig, why
			return res
		}
		var rest []string
		// one core: the twin's output is one well-defined text, however it was handed to the host
		twin, rest = roResults(strings.SplitAfter(strings.Join(writes(tex.log), ""), "\n"))
		if len(rest) > 0 || len(twin) != len(sp.fins)-1 {
			res.Verdict, res.Sig, res.Why = fw.Violated, "harness:twin-output", fmt.Sprintf("the sequential twin printed %d result lines for %d workers and %d other chunks\n--- twin\n%s", len(twin), len(sp.fins)-1, len(rest), tsrc)
			return res
		}
	}
	// family fatal: the reference is what the VM reports when main simply calls the failing function
	var fatalWant []string
	if p.Shape == "fatal" {
		for _, tsrc := range buildFatal(p).twins {
			tex, sig, why := execute(tsrc, &monitor{planMode: map[string]int{}}, false)
			if sig == "" && tex.out.Class != "fatal" {
				sig, why = "harness:fatal-twin-outcome", fmt.Sprintf("the twin (main calls the failing function) ended with %s, not with a fatal error\n--- twin\n%s", tex.out, tsrc)
			}
			if sig != "" {
				res.Verdict, res.Sig, res.Why = fw.Violated, sig, why
				return res
			}
			fatalWant = append(fatalWant, fatalIdentity(tex.out))
			res.Cover = append(res.Cover, "fatal-outcome:"+tex.out.Kind)
		}
	}
	pr := rand.New(rand.NewSource(int64(p.Plan)))
	mon := &monitor{prng: pr, planMode: map[string]int{}}
	for _, site := range []string{"spawn", "wait-gap", "wait-gap-err", "glob-get", "glob-set"} {
		mon.planMode[site] = pr.Intn(4)
	}
	// the lock-upgrade gap is the interesting window: bias towards a long sleep there
	if pr.Intn(2) == 0 {
		mon.planMode["wait-gap"] = 3
	}
	if p.ForceGap {
		mon.planMode["wait-gap"] = 4
	}
	if roShape(p.Shape) || p.Shape == "fatal" {
		// one plan in eight leaves the loop bodies alone; the others yield / sleep in them
		if x := pr.Intn(8); x > 0 {
			mon.tickMode = 1 + x%3
		}
		mon.tickSalt = p.Plan
	}
	ex, sig, why := execute(sp.src, mon, true)
	if sig != "" {
		res.Verdict, res.Sig, res.Why = fw.Violated, sig, why
		return res
	}
	log, out, tWait, stragglers := ex.log, ex.out, ex.tWait, ex.stragglers
	res.Nontrivial = sp.cores >= 2
	mon.mu.Lock()
	events := append([]event{}, mon.events...)
	ops := append([]porcupine.Operation{}, mon.ops...)
	mon.mu.Unlock()
	fail := func(sig, why string) {
		if res.Verdict == fw.Violated {
			res.More = append(res.More, fw.SubViolation{Sig: sig, Why: why})
			return
		}
		res.Verdict, res.Sig, res.Why = fw.Violated, sig, why+"\n--- program\n"+sp.src
	}
	// outcome
	if sp.failKind == "" {
		if out.Class != "ok" {
			fail("outcome:"+out.Class+"/"+out.Kind, fmt.Sprintf("the wait returned %s for a program in which no core fails", out))
		}
	} else if fatalWant != nil {
		have, ok := fatalIdentity(out), false
		for _, w := range fatalWant {
			ok = ok || w == have
		}
		if !ok {
			fail("outcome:not-first-fatal:"+out.Class+"/"+out.Kind, fmt.Sprintf("the wait returned %q; the fatal interrupt of the failing core is (the same function called by main on a single core) %q", have, fatalWant))
		}
	} else if out.Class != "fatal" || out.Kind != sp.failKind {
		fail("outcome:not-first-fatal:"+out.Class+"/"+out.Kind, fmt.Sprintf("the wait returned %s, expected the failing core's fatal %s", out, sp.failKind))
	}
	if sp.failKind != "" && out.Class == "fatal" && ex.leftover > 0 {
		fail("fatal:rest-not-cancelled", fmt.Sprintf("%d goroutine(s) were still inside Core.Run 3 s after the wait had returned the fatal interrupt %s: the other cores were not cancelled", ex.leftover, out))
	}
	// fin events before wait-returned
	if sp.failKind == "" {
		seen := map[int64]int64{}
		for _, e := range events {
			if e.kind == "fin" {
				seen[e.id] = e.t
			}
		}
		for _, id := range sp.fins {
			t, ok := seen[id]
			switch {
			case !ok:
				fail("wait-returned-early:core-not-finished", fmt.Sprintf("core with id %d had not finished when the wait returned (and did not finish within the grace period)", id))
			case t > tWait:
				fail("wait-returned-early:fin-after-wait", fmt.Sprintf("core with id %d finished at logical time %d, after the wait returned at %d", id, t, tWait))
			}
		}
		// (a goroutine which has sent its final signal and has not yet returned from Core.Run is not a running core:
		// what counts is the exit hook, which every core passes just before that signal)
		if ex.unfinished > 0 {
			fail("wait-returned-early:cores-still-running", fmt.Sprintf("%d core(s) had not reached the end of Core.Run when the wait returned normally (%d goroutine(s) seen inside Core.Run afterwards)", ex.unfinished, stragglers))
		}
	}
	// output: exactly once and whole
	effects := log.Snapshot()
	got := map[string]int{}
	for _, e := range effects {
		if e.Kind == "write" {
			got[e.Text]++
		}
	}
	if twin != nil {
		gotByID, rest := roResults(writes(log))
		ids := make([]string, 0, len(twin))
		for id := range twin {
			ids = append(ids, id)
		}
		sort.Strings(ids)
		for _, id := range ids {
			want, have := twin[id], gotByID[id]
			switch {
			case len(have) == 0:
				fail("output:count", fmt.Sprintf("the result line of core %s is missing; sequential twin: %q", id, want))
			case len(have) != len(want):
				fail("output:count", fmt.Sprintf("core %s printed %d result lines %q, sequential twin %d: %q", id, len(have), have, len(want), want))
			case have[0] != want[0] && strings.HasPrefix(want[0], have[0]):
				fail("output:unexpected-or-torn", fmt.Sprintf("core %s: the line %q reached the host torn, first chunk %q", id, util.Clip(want[0], 300), util.Clip(have[0], 300)))
			case have[0] != want[0]:
				fail(p.Shape+":result-differs-from-sequential", fmt.Sprintf("core %s, %s, printed %q; the same function called sequentially with the same arguments prints %q", id, roWhat(p.Shape), util.Clip(have[0], 300), util.Clip(want[0], 300)))
			}
		}
		for id := range gotByID {
			if _, ok := twin[id]; !ok {
				rest = append(rest, gotByID[id]...)
			}
		}
		if len(rest) > 0 {
			sort.Strings(rest)
			fail("output:unexpected-or-torn", fmt.Sprintf("unexpected (torn?) output chunk %q", rest[0]))
		}
	} else if sp.failKind == "" {
		for line, n := range sp.lines {
			if got[line] != n {
				fail("output:count", fmt.Sprintf("line %q appears %d times, expected %d", line, got[line], n))
				break
			}
		}
		for line := range got {
			if _, ok := sp.lines[line]; !ok {
				fail("output:unexpected-or-torn", fmt.Sprintf("unexpected (torn?) output chunk %q", line))
				break
			}
		}
	}
	// linearizability of global accesses
	lin := "none"
	if len(ops) > 0 {
		r, _ := porcupine.CheckOperationsVerbose(regModel, ops, 20*time.Second)
		switch r {
		case porcupine.Ok:
			lin = "ok"
		case porcupine.Illegal:
			lin = "illegal"
			fail("globals:not-linearizable", fmt.Sprintf("the history of %d global reads/writes is not linearizable as registers", len(ops)))
		default:
			lin = "unknown"
			res.Cover = append(res.Cover, "porcupine-timeout")
		}
	}
	res.Cover = append(res.Cover, "porcupine:"+lin)
	// interleaving hash: order of the first 40 output chunks + fin order
	var ord []string
	for i, e := range effects {
		if i >= 40 {
			break
		}
		ord = append(ord, strings.SplitN(e.Text, "-", 2)[0])
	}
	for _, e := range events {
		ord = append(ord, fmt.Sprint("f", e.id))
	}
	res.Cover = append(res.Cover, "il:"+fw.HashOf(ord, p.Seed))
	res.Obs = map[string]int64{"cores": int64(sp.cores), "register_ops": int64(len(ops)), "fin_events": int64(len(events)), "output_chunks": int64(len(effects))}
	res.Hash = fw.HashOf(p.Seed, p.Plan, goruntime.GOMAXPROCS(0))
	if p.Plan%13 == 0 {
		res.Sample = map[string]any{"shape": p.Shape, "program": sp.src, "plan": mon.planMode, "gomaxprocs": goruntime.GOMAXPROCS(0), "outcome": out.String(), "register_ops": len(ops), "porcupine": lin}
	}
	return res
}

func coreGoroutines() int {
	buf := make([]byte, 1<<20)
	m := goruntime.Stack(buf, true)
	n := 0
	for _, g := range strings.Split(string(buf[:m]), "\n\n") {
		if strings.Contains(g, "homescript/runtime.(*Core).Run") {
			n++
		}
	}
	return n
}

func (c17) OnCrash(c fw.Case, cr fw.Crash) fw.Result {
	var p Payload
	fw.Decode(c, &p)
	if cr.Kind == "watchdog" || cr.Kind == "killed" {
		return fw.Result{Verdict: fw.Inconclusive, Why: cr.Kind + ": " + cr.Message}
	}
	return fw.Result{Verdict: fw.Violated, Nontrivial: true,
		Sig: fmt.Sprintf("crash:%s:%s:%s", cr.Kind, util.NormPanic(cr.Message), cr.TopFrame),
		Why: fmt.Sprintf("the process running the VM died (%s: %s) at %s: no core ran to completion and the wait never returned (shape %s)\n%s\n--- program\n%s", cr.Kind, util.Clip(cr.Message, 300), cr.TopFrame, p.Shape, util.Clip(cr.StderrTail, 1200), build(p).src)}
}

// Finalize counts the distinct interleavings observed.
func (c17) Finalize(tier string, results []fw.Result, coverage map[string]any) string {
	il := map[string]bool{}
	pc := map[string]int{}
	for _, r := range results {
		for _, k := range r.Cover {
			if strings.HasPrefix(k, "il:") {
				il[k] = true
			}
			if strings.HasPrefix(k, "porcupine:") {
				pc[strings.TrimPrefix(k, "porcupine:")]++
			}
		}
	}
	coverage["interleavings_distinct"] = len(il)
	coverage["porcupine"] = pc
	if cons, ok := coverage["constructs"].(map[string]int64); ok {
		for k := range cons {
			if strings.HasPrefix(k, "il:") {
				delete(cons, k)
			}
		}
	}
	if len(il) < 2 {
		return "fewer than 2 distinct interleavings observed"
	}
	return ""
}
