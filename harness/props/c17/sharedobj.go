package c17

// Program family "shared-obj": object values which all cores reach but none writes -- a global object, a
// singleton, the same singleton through an extraction parameter -- and whose MEMBERS the workers are the
// first to touch: main only spawns. Whatever an implementation builds lazily on the first `obj.member`
// (a member table, a cache inside the value) is then built by several cores at overlapping times. The
// property says spawned threads do not race: the race detector and the sequential twin (see sharedro.go)
// judge the runs like those of the other read-only families.

import (
	"fmt"
	"strings"

	"hv/fw"
)

func buildSharedObj(p Payload, seq bool) spec {
	r := fw.NewRng(p.Seed ^ 0x0b1ec7)
	sp := spec{lines: map[string]int{}}
	spawn := "spawn "
	if seq {
		spawn = ""
	}
	var sb strings.Builder
	// the shared values: nobody assigns them
	nf := 2 + r.Intn(4)
	var fields, reads []string
	for i := 0; i < nf; i++ {
		switch r.Intn(4) {
		case 0:
			fields = append(fields, fmt.Sprintf("n%d: %d", i, r.Intn(90)))
			reads = append(reads, fmt.Sprintf("s = (s * 31 + cfg.n%d) %% 1000003;", i))
		case 1:
			fields = append(fields, fmt.Sprintf("t%d: \"v%d\"", i, r.Intn(90)))
			reads = append(reads, fmt.Sprintf("s = (s * 31 + cfg.t%d.len()) %% 1000003;", i))
		case 2:
			fields = append(fields, fmt.Sprintf("l%d: [%d, %d, %d]", i, r.Intn(9), r.Intn(9), r.Intn(9)))
			reads = append(reads, fmt.Sprintf("c = c + cfg.l%d.len();", i), fmt.Sprintf("s = (s * 31 + cfg.l%d[%d]) %% 1000003;", i, r.Intn(3)))
		default:
			fields = append(fields, fmt.Sprintf("o%d: new { x: %d, y: \"w\" }", i, r.Intn(90)))
			reads = append(reads, fmt.Sprintf("s = (s * 31 + cfg.o%d.x + cfg.o%d.y.len()) %% 1000003;", i, i))
		}
	}
	reads = append(reads, "c = c + cfg.to_json().len();", "c = c + cfg.keys().len();", "s = (s * 31 + $Dev.level + $Dev.tags.len()) % 1000003;", "c = c + $Dev.to_json().len();")
	fmt.Fprintf(&sb, "let cfg = new { %s };\n$Dev = { level: int, tags: [str], box: { lit: bool } };\n", strings.Join(fields, ", "))
	sp.cover = append(sp.cover, "shared-obj:global", "shared-obj:singleton")
	body := func() {
		idx := make([]int, len(reads))
		for i := range idx {
			idx[i] = i
		}
		for i := len(idx) - 1; i > 0; i-- {
			j := r.Intn(i + 1)
			idx[i], idx[j] = idx[j], idx[i]
		}
		n := 2 + r.Intn(len(reads)-1)
		for _, i := range idx[:n] {
			sb.WriteString("    " + reads[i] + "\n    tick(id, c);\n")
		}
	}
	nfn := 1 + r.Intn(2)
	for f := 0; f < nfn; f++ {
		fmt.Fprintf(&sb, "fn w%d(id: int, k0: int) {\n    let c = k0;\n    let s = 0;\n", f)
		body()
		sb.WriteString("    println(\"r\", id, c, s);\n    fin(id);\n}\n")
	}
	// the singleton through an extraction parameter
	sb.WriteString("fn wd(d: $Dev, id: int, k0: int) {\n    let c = k0;\n    let s = 0;\n    s = (s * 31 + d.level + d.tags.len()) % 1000003;\n    tick(id, c);\n    if d.box.lit {\n        c = c + 1;\n    }\n    c = c + d.to_json().len();\n")
	body()
	sb.WriteString("    println(\"r\", id, c, s);\n    fin(id);\n}\n")
	sp.cover = append(sp.cover, "shared-obj:extraction")
	sb.WriteString("fn main() {\n")
	nw := 2 + r.Intn(7)
	sp.cores = nw + 1
	for wi := 1; wi <= nw; wi++ {
		fn := "w0"
		switch r.Intn(4) {
		case 0:
			fn = "wd"
		case 1:
			fn = fmt.Sprintf("w%d", r.Intn(nfn))
		}
		fmt.Fprintf(&sb, "    %s%s(%d, %d);\n", spawn, fn, wi, r.Intn(13))
		sp.fins = append(sp.fins, int64(wi))
	}
	sb.WriteString("    fin(0);\n}\n")
	sp.fins = append(sp.fins, 0)
	sp.src = sb.String()
	return sp
}
