package c17

// Program family "own-state": mutable values which every core BUILDS FOR ITSELF.
//
// The property says that a spawned function runs to completion and that only the globals are shared
// between cores. A container which a core creates while it runs -- an any-object `new { ? }`, a list
// literal, an object literal (and the containers nested in its fields), a list of lists, a string it
// appends to -- is therefore private to that core, also if several cores create theirs by evaluating
// the SAME source site at overlapping times: writing into it must not be visible to, or race with,
// any other core.
//
// The family: 2..8 workers, each creating one or more containers of every literal kind at sites of
// every kind -- directly in the worker function, in a helper function all workers call, in a loop
// body (the site is evaluated several times by one core as well), as a field of an object literal,
// as an element of a list literal, or as a literal in the argument list of the spawn (also of a spawn
// inside a loop of main, so that one site feeds several cores) -- and mutating them in a loop through
// every mutating operation of the kind (any-object set with per-core and with common keys, list push /
// push_front / insert / pop / element assignment, field assignment and compound assignment, nested
// member-then-method, index-then-method, string +=). Every loop body calls tick(id, c), the scheduling
// point of the family. At the end the worker prints what its containers hold.
//
// Oracle: the sequential twin (see sharedro.go): the same source without the word `spawn`, run on one
// core just before; every core must print the result line of the twin. Plus the common C17 oracles:
// no race report, no crash of the process, every fin before wait-returned.

import (
	"fmt"
	"strings"

	"hv/fw"
)

// osHots: the container kind all workers of a program are guaranteed to build (stratified over the programs).
var osHots = []string{"any", "ilist", "obj", "llist", "any-helper", "any-loop", "any-field", "any-arg", "ilist-arg", "slist"}

// osName: an identifier of n characters (n >= 2) which ends in a digit (so it is never a keyword or a builtin).
func osName(r *fw.Rng, n int) string {
	const first = "abcdefghijklmnopqrstuvwxyz"
	const rest = "abcdefghijklmnopqrstuvwxyz_0123456789"
	if n < 2 {
		n = 2
	}
	b := make([]byte, n)
	b[0] = first[r.Intn(len(first))]
	for i := 1; i < n-1; i++ {
		b[i] = rest[r.Intn(len(rest))]
	}
	b[n-1] = "0123456789"[r.Intn(10)]
	return string(b)
}

// osNameLen draws the length of a function name: short, around the usual column widths, long.
func osNameLen(r *fw.Rng) int {
	switch r.Intn(5) {
	case 0:
		return 2 + r.Intn(5)
	case 1:
		return 7 + r.Intn(6)
	case 2:
		return 13 + r.Intn(4)
	case 3:
		return 17 + r.Intn(8)
	}
	return 25 + r.Intn(24)
}

// osVar is one container a worker owns.
type osVar struct {
	name string
	kind string // any | ilist | slist | llist | obj | str
}

// osKey: the key expression of an any-object store.
func osKey(r *fw.Rng) string {
	switch r.Intn(4) {
	case 0:
		return `"same"`
	case 1:
		return `"w" + id.to_string() + "_" + i.to_string()`
	case 2:
		return `"k" + (i % 3).to_string()`
	}
	return `"k" + i.to_string()`
}

func osAnyVal(r *fw.Rng) string {
	return []string{"i", "i * id", "[i, id]", `"v" + i.to_string()`, "i % 2 == 0"}[r.Intn(5)]
}

// osMutate writes one mutating statement on v (loop variable i, core id `id`).
func osMutate(sb *strings.Builder, r *fw.Rng, ind string, v osVar) {
	switch v.kind {
	case "any":
		fmt.Fprintf(sb, "%s%s.set(%s, %s);\n", ind, v.name, osKey(r), osAnyVal(r))
	case "ilist":
		switch r.Intn(6) {
		case 0:
			fmt.Fprintf(sb, "%s%s.push_front(i + id);\n", ind, v.name)
		case 1:
			fmt.Fprintf(sb, "%s%s.insert(0, i);\n", ind, v.name)
		case 2:
			fmt.Fprintf(sb, "%sif %s.len() > 0 {\n%s    %s[0] = %s[0] + i;\n%s}\n", ind, v.name, ind, v.name, v.name, ind)
		case 3:
			fmt.Fprintf(sb, "%sif %s.len() > 3 {\n%s    %s.pop();\n%s}\n", ind, v.name, ind, v.name, ind)
		default:
			fmt.Fprintf(sb, "%s%s.push(i * 3 + id);\n", ind, v.name)
		}
	case "slist":
		if r.Intn(3) == 0 {
			fmt.Fprintf(sb, "%s%s.push_front(id.to_string());\n", ind, v.name)
		} else {
			fmt.Fprintf(sb, "%s%s.push(\"e\" + i.to_string());\n", ind, v.name)
		}
	case "llist":
		switch r.Intn(3) {
		case 0:
			fmt.Fprintf(sb, "%s%s[1][0] += i;\n", ind, v.name)
		case 1:
			fmt.Fprintf(sb, "%s%s.push([id, i]);\n", ind, v.name)
		default:
			fmt.Fprintf(sb, "%s%s[0].push(i + id);\n", ind, v.name)
		}
	case "obj": // { n: int, l: [int], s: str, a: { ? } }
		switch r.Intn(5) {
		case 0:
			fmt.Fprintf(sb, "%s%s.n += i;\n", ind, v.name)
		case 1:
			fmt.Fprintf(sb, "%s%s.s += \"x\";\n", ind, v.name)
		case 2:
			fmt.Fprintf(sb, "%s%s.n = %s.n * 3 + id;\n", ind, v.name, v.name)
		case 3:
			fmt.Fprintf(sb, "%s%s.a.set(%s, %s);\n", ind, v.name, osKey(r), osAnyVal(r))
		default:
			fmt.Fprintf(sb, "%s%s.l.push(i + id);\n", ind, v.name)
		}
	case "str":
		fmt.Fprintf(sb, "%s%s += id.to_string();\n", ind, v.name)
	}
}

// osObserve: the expressions (one line of text each) which show what v holds.
func osObserve(v osVar) string {
	switch v.kind {
	case "any":
		return fmt.Sprintf("%s.keys().len(), %s.to_json()", v.name, v.name)
	case "obj":
		return fmt.Sprintf("%s.n, %s.l, %s.s, %s.a.keys().len(), %s.a.to_json()", v.name, v.name, v.name, v.name, v.name)
	case "str":
		return fmt.Sprintf("%s.len(), %s", v.name, v.name)
	}
	return fmt.Sprintf("%s.len(), %s", v.name, v.name)
}

const osObjLit = `new { n: 0, l: [7], s: "", a: new { ? } }`

// buildOwnState builds the threaded program (seq=false) or its sequential twin (seq=true).
func buildOwnState(p Payload, seq bool) spec {
	r := fw.NewRng(p.Seed ^ 0x0e57a7e)
	sp := spec{lines: map[string]int{}}
	var sb strings.Builder
	spawn := "spawn "
	if seq {
		spawn = ""
	}
	hot := osHots[p.Hot%len(osHots)]
	sp.cover = append(sp.cover, "own-state-hot:"+hot)
	// helpers: sites which every core evaluates through a call
	hAny, hList, hObj, hLL := osName(r, osNameLen(r)), osName(r, osNameLen(r)), osName(r, osNameLen(r)), osName(r, osNameLen(r))
	fmt.Fprintf(&sb, "fn %s(id: int) -> { ? } {\n    let o = new { ? };\n    o.set(\"made_by\", id);\n    o\n}\n", hAny)
	fmt.Fprintf(&sb, "fn %s(id: int) -> [int] {\n    let l = [1, 2];\n    l.push(id);\n    l\n}\n", hList)
	fmt.Fprintf(&sb, "fn %s(id: int) -> { n: int, l: [int], s: str, a: { ? } } {\n    let o = %s;\n    o.n = id;\n    o\n}\n", hObj, osObjLit)
	fmt.Fprintf(&sb, "fn %s(id: int) -> [[int]] {\n    [[id], [0], [9]]\n}\n", hLL)
	// worker functions; all take (id, k, pa: { ? }, pl: [int])
	nfn := 1 + r.Intn(3)
	names := make([]string, nfn)
	for f := 0; f < nfn; f++ {
		names[f] = osName(r, osNameLen(r))
		for g := 0; g < f; g++ {
			if names[g] == names[f] {
				names[f] += "0"
			}
		}
		fmt.Fprintf(&sb, "fn %s(id: int, k: int, pa: { ? }, pl: [int]) {\n    let c = 0;\n", names[f])
		vars := []osVar{{"pa", "any"}, {"pl", "ilist"}}
		decl := func(kind string) {
			n := fmt.Sprintf("v%d", len(vars))
			v := osVar{name: n}
			switch kind {
			case "any":
				fmt.Fprintf(&sb, "    let %s = new { ? };\n", n)
				v.kind = "any"
			case "any-helper":
				fmt.Fprintf(&sb, "    let %s = %s(id);\n", n, hAny)
				v.kind = "any"
			case "any-field": // any-object literal as a field of an object literal
				fmt.Fprintf(&sb, "    let %s = %s;\n", n, osObjLit)
				v.kind = "obj"
			case "obj":
				if r.Intn(2) == 0 {
					fmt.Fprintf(&sb, "    let %s = %s(id);\n", n, hObj)
				} else {
					fmt.Fprintf(&sb, "    let %s = %s;\n", n, osObjLit)
				}
				v.kind = "obj"
			case "ilist":
				switch r.Intn(3) {
				case 0:
					fmt.Fprintf(&sb, "    let %s: [int] = [];\n", n)
				case 1:
					fmt.Fprintf(&sb, "    let %s = %s(id);\n", n, hList)
				default:
					fmt.Fprintf(&sb, "    let %s = [id, 5];\n", n)
				}
				v.kind = "ilist"
			case "slist":
				fmt.Fprintf(&sb, "    let %s = [\"a\"];\n", n)
				v.kind = "slist"
			case "llist":
				if r.Intn(2) == 0 {
					fmt.Fprintf(&sb, "    let %s = %s(id);\n", n, hLL)
				} else {
					fmt.Fprintf(&sb, "    let %s = [[1], [2]];\n", n)
				}
				v.kind = "llist"
			case "str":
				fmt.Fprintf(&sb, "    let %s = \"\";\n", n)
				v.kind = "str"
			default:
				return // any-loop / any-arg / ilist-arg: no declaration of their own
			}
			vars = append(vars, v)
		}
		decl(hot)
		kinds := []string{"any", "any-helper", "any-field", "obj", "ilist", "slist", "llist", "str"}
		for n := r.Intn(3); n > 0; n-- {
			decl(kinds[r.Intn(len(kinds))])
		}
		// the mutation loop: the hot container (the last of the parameters for the *-arg hots) is written in every iteration
		hv := vars[len(vars)-1]
		switch hot {
		case "any-arg":
			hv = vars[0]
		case "ilist-arg":
			hv = vars[1]
		default:
			if len(vars) > 2 {
				hv = vars[2]
			}
		}
		sb.WriteString("    for i in 0..k {\n        c += 1;\n")
		osMutate(&sb, r, "        ", hv)
		for n := 1 + r.Intn(3); n > 0; n-- {
			osMutate(&sb, r, "        ", vars[r.Intn(len(vars))])
		}
		sb.WriteString("        tick(id, c);\n    }\n")
		// containers created in a loop body: one site, evaluated several times by one core (and by all cores)
		loopSite := hot == "any-loop" || r.Intn(3) == 0
		if loopSite {
			lit := "new { ? }"
			lk := "any"
			if hot != "any-loop" {
				switch r.Intn(3) {
				case 0:
					lit, lk = "[id]", "ilist"
				case 1:
					lit, lk = osObjLit, "obj"
				}
			}
			fmt.Fprintf(&sb, "    let tot = 0;\n    let txt = \"\";\n    for i in 0..%d {\n        c += 1;\n        let t = %s;\n", 2+r.Intn(4), lit)
			t := osVar{"t", lk}
			osMutate(&sb, r, "        ", t)
			sb.WriteString("        tick(id, c);\n")
			osMutate(&sb, r, "        ", t)
			switch lk {
			case "any":
				sb.WriteString("        tot += t.keys().len();\n        txt += t.to_json();\n")
			case "ilist":
				sb.WriteString("        tot += t.len();\n        txt += t.to_string();\n")
			case "obj":
				sb.WriteString("        tot += t.n + t.l.len() + t.a.keys().len();\n        txt += t.s + t.a.to_json();\n")
			}
			sb.WriteString("    }\n")
		}
		sb.WriteString("    println(\"r\", id, c")
		for _, v := range vars {
			sb.WriteString(", " + osObserve(v))
		}
		if loopSite {
			sb.WriteString(", tot, txt")
		}
		sb.WriteString(");\n    fin(id);\n}\n")
	}
	// main
	sb.WriteString("fn main() {\n")
	nw := 2 + r.Intn(7)
	sp.cores = nw + 1
	wi := 1
	for wi <= nw {
		fn := names[r.Intn(nfn)]
		k := 3 + r.Intn(12)
		la := []string{"[0]", "[id, 1, 2]", "[4, 5, 6, 7]"}[r.Intn(3)]
		if nw-wi >= 1 && r.Intn(3) == 0 {
			// one spawn statement (and its argument literals) feeding several cores
			n := 2 + r.Intn(nw-wi)
			fmt.Fprintf(&sb, "    for q in 0..%d {\n        %s%s(%d + q, %d, new { ? }, %s);\n    }\n", n, spawn, fn, wi, k, strings.ReplaceAll(la, "id", "q"))
			for j := 0; j < n; j++ {
				sp.fins = append(sp.fins, int64(wi+j))
			}
			wi += n
			continue
		}
		fmt.Fprintf(&sb, "    %s%s(%d, %d, new { ? }, %s);\n", spawn, fn, wi, k, strings.ReplaceAll(la, "id", fmt.Sprint(wi)))
		sp.fins = append(sp.fins, int64(wi))
		wi++
	}
	sb.WriteString("    fin(0);\n}\n")
	sp.fins = append(sp.fins, 0)
	sp.src = sb.String()
	return sp
}
