// Package c10 checks property C10: cancellation always stops execution promptly.
//
// A counting context ends at an exact poll index k (a poll = a call of Done() or Err(); the
// unchanged code only calls Done() and context.Cause()), in one of the ways a host ends a context:
// cancel(), cancel(cause), deadline expired, deadline expired with a cause. For every program and every k the monitor checks: the wait returns, with a
// termination interrupt or the program's own outcome; no core executes more than B steps after the
// cancelling poll (step hook, decided by steps, not time); no goroutine stays inside Core.Run.
package c10

import (
	"context"
	"errors"
	"fmt"
	"regexp"
	goruntime "runtime"
	"sort"
	"strings"
	"sync"
	"sync/atomic"
	"syscall"
	"time"

	hms "github.com/smarthome-go/homescript/v3/homescript"
	"github.com/smarthome-go/homescript/v3/homescript/compiler"
	"github.com/smarthome-go/homescript/v3/homescript/interpreter"
	"github.com/smarthome-go/homescript/v3/homescript/runtime"

	"hv/drive"
	"hv/fw"
	"hv/util"
)

type c10 struct{}

func init() { fw.Register(c10{}) }

func (c10) ID() string { return "C10" }

// noPollCount: a poll index no run reaches (the context of such a run is ended by an event or by the
// monitor, never by the count).
const noPollCount = 1 << 40

// preCancelSteps: if poll k is not reached after this many steps, the context is cancelled anyway.
const preCancelSteps = 400000

// StepBound B: steps a core may execute after the cancelling poll (DESIGN.md §3 C10).
const StepBound = 10000

func (c10) Info(tier string) fw.Info {
	return fw.Info{
		Level: "exploration",
		Rule: "for each of the listed programs (straight-line, empty and working infinite loops, recursion, try/catch with throws, blocking builtin, 1-4 spawned cores, a core failing; multi-module programs: work in the global initialisers of imported modules - one level, nested, diamond, an initialiser failing by itself (interpreter only) -, the same / different / several builtins imported by several modules, the loop inside an imported function, cores spawned on imported functions; fatal errors - index, division by zero, uncaught throw, unwrap of none, call stack overflow - raised while functions with names of 5/10/14/18/27 characters are on the call stack: direct, chains, recursion, function literals, inside try, in functions of a module with a long name, in a spawned core next to finite and next to never-ending cores; builtin members that loop over their receiver - sort on int/float/str lists in nine initial orders, contains, join, concat, insert, remove, push_front, pop_front, to_json, split, replace, repeat, substring, compare_lev, parse_json, rev, diff, to_range, iteration over lists, strings and reversed ranges - finite, inside infinite loops and on several cores; per seed: random-list sort programs and fatal-error programs with random name lengths 8..48, text carried in the payload) and each backend, the context is cancelled at the k-th poll for every k in 1..Kmax (VM: every k; interpreter: every k up to 60, then strides) by the host's cancel(); the same programs and backends again with the context ended the other ways a host ends it - deadline expired (Err()=DeadlineExceeded; quick: a ladder of k = 1,2,3,5,8,.. kmax, kmax+1 and three seed-chosen k, thorough: every k), cancel(cause) and deadline-with-cause (every third rung); a poll is a call of Done() or Err(); " +
			"index expressions at the edges of their base (families2.go): empty / drained / one-element / three-element / nested-empty lists and empty / three-character strings indexed with -1, -(len+2), len and the valid wrapping indices, as value, as assignment target and as compound-assignment target, both back ends, per seed further members of the product; " +
			"spawn sequences (VM): main spawns short jobs and one long-running core (endless blocking-builtin loop, endless stepping loop, long finite) in six orders, with and without waiting for the jobs through globals; these and the listed programs with several finite cores run again with the moment of cancellation given by an event - the host ends the context once n = 1..N cores have finished and the wait has collected them - under two schedules: free, and 'settle' (every spawn happens after the wait has collected the cores finished so far); " +
			"the repository's own blocking builtin (hostsleep.go): time.sleep(300 s) of the testing hosts of both back ends - plain, inside a catch handler, on three cores at once - cancelled at each of the first polls of the sleep; while the context is alive the period between two polls is watched and the run is reported only when three consecutive gaps each exceeded 1 s (the builtin's period is 10 ms whatever the duration: a period that grows with the duration slept makes the stop latency a function of a program input); " +
			"oracle: wait/run returns a termination interrupt or the program's own outcome (known from an uncancelled run when the program is finite; a program with a core that never finishes has none: the wait must not return while the context is alive); every core stops within B=10000 steps after the cancelling poll (step hook); after return no goroutine of the run has a frame in Core.Run (stack samples until 5 identical ones; a core inside a timed sleep of a host builtin is a transient state and sampled again); the host calls (NewVM, Wait) return: a run in which no core steps any more and every goroutine inside the VM is blocked on a lock or channel (the wait idling between polls) is cancelled by the monitor if its context is still alive and refutes the property if it stays in that state; race log empty. " +
			"non-trivial = the context actually ended during the run; distinct = (program, backend, end mode, k)",
		Assumptions: []string{
			"host builtins that ignore the context are the host's responsibility (the harness builtin vsleep polls it)",
			"a host call (NewVM, Wait) that neither returns nor steps is decided by goroutine state samples (50 consecutive consistent snapshots in which every goroutine inside the VM runtime is blocked on a lock or channel, the wait idling in its poll sleep, and the step counter does not move), otherwise by the per-case watchdog (inconclusive)",
		},
		Exhaustive: true,
		// a case takes milliseconds; a tree whose Go code spins between two polls costs this period per case
		CaseTimeoutS: 30,
		BatchSize:    60,
		Race:         true,
	}
}

type program struct {
	name     string
	src      string
	infinite bool
	kmaxVM   int
	kmaxTree int
	multi    bool // spawns cores: VM only
	// mods: the further modules of a multi-module program (module name -> source); src is the
	// entry module "main"
	mods map[string]string
	// treeOnly: a module initialiser of the program fails by itself; runtime.NewVM reports that by
	// panicking, which has nothing to do with cancellation, so the program only runs on the interpreter
	treeOnly bool
	// sparseTree: the quick tier cancels the interpreter run at a ladder of polls (sampleKs) instead of
	// at every poll (families whose subject is a mechanism of the VM; thorough: every poll)
	sparseTree bool
	// ownFails (with infinite): the program never finishes except by the fatal error of one of its
	// cores, which the wait then returns - that failure is "the program's own outcome if it finished
	// first"; after the context ended the wait returns a termination interrupt or that failure
	ownFails bool
	// finite (programs with several cores): the number of cores, main included, that finish by
	// themselves without failing, whatever the schedule (eventCases: cancellation after the n-th of them)
	finite int
	// eventOnly: the program only runs in eventCases (its subject is the order of spawns and exits, which
	// a cancellation within the first polls never reaches)
	eventOnly bool
	// hostSleep: the program sits in the repository's own blocking builtin time.sleep (hostsleep.go):
	// the period between its polls of the context is watched
	hostSleep bool
}

// sources: all modules of the program, the entry module under the name "main".
func (p program) sources() drive.Sources {
	src := drive.Sources{"main": p.src}
	for name, code := range p.mods {
		src[name] = code
	}
	return src
}

// render: the program text for samples and violation texts (modules in name order).
func (p program) render() string {
	if len(p.mods) == 0 {
		return p.src
	}
	names := make([]string, 0, len(p.mods))
	for name := range p.mods {
		names = append(names, name)
	}
	sort.Strings(names)
	var sb strings.Builder
	sb.WriteString("// module main\n" + p.src)
	for _, name := range names {
		sb.WriteString("\n// module " + name + "\n" + p.mods[name])
	}
	return sb.String()
}

// programs: the single-module programs followed by the multi-module ones (modules.go). Payloads
// refer to programs by index or name: only ever append.
var programs = append(append(append(append(append(append(append([]program{}, singlePrograms...), modulePrograms...), fatalPrograms...), memberPrograms...), indexPrograms...), seqPrograms...), hostSleepPrograms...)

var singlePrograms = []program{
	{name: "straight", src: `fn main() { let a = 1; let b = a + 2; println(b); println(b * 2); }`, kmaxVM: 6, kmaxTree: 40},
	{name: "loop-empty", src: `fn main() { loop { } }`, infinite: true, kmaxVM: 12, kmaxTree: 40},
	{name: "while-true-empty", src: `fn main() { while true { } }`, infinite: true, kmaxVM: 12, kmaxTree: 40},
	{name: "loop-work", src: `fn main() { let i = 0; loop { i += 1; let l = [i, i + 1]; l.push(i); } }`, infinite: true, kmaxVM: 30, kmaxTree: 120},
	{name: "for-work", src: `fn main() { let s = 0; for i in 0..400 { s += i * 2; } println(s); }`, kmaxVM: 60, kmaxTree: 300},
	{name: "nested-loops", src: `fn main() { let s = 0; for i in 0..30 { let j = 0; while j < 10 { j += 1; s += j; } } println(s); }`, kmaxVM: 80, kmaxTree: 300},
	{name: "recursion", src: "fn f(n: int) -> int { if n <= 0 { 0 } else { 1 + f(n - 1) } }\nfn main() { println(f(150)); println(f(150)); }", kmaxVM: 80, kmaxTree: 300},
	{name: "recursion-infinite", src: "fn f(n: int) -> int { f(n + 1) }\nfn main() { println(f(0)); }", kmaxVM: 30, kmaxTree: 200},
	{name: "try-throw-loop", src: `fn main() { let i = 0; loop { i += 1; try { if i % 2 == 0 { throw("x"); } let y = i * 2; } catch e { let z = e.message; } } }`, infinite: true, kmaxVM: 40, kmaxTree: 200},
	{name: "try-finite", src: `fn main() { for i in 0..40 { try { throw(i); } catch e { println(e.message); } } println("done"); }`, kmaxVM: 50, kmaxTree: 300},
	{name: "catch-heavy", src: `fn main() { try { throw("a"); } catch e { let i = 0; while i < 300 { i += 1; } println(i); } println("after"); }`, kmaxVM: 60, kmaxTree: 300},
	{name: "throw-across-calls", src: "fn g(n: int) { if n == 0 { throw(\"deep\"); } g(n - 1); }\nfn main() { let i = 0; while i < 30 { i += 1; try { g(5); } catch e { let m = e.message; } } println(i); }", kmaxVM: 80, kmaxTree: 300},
	{name: "vsleep", src: `fn main() { println("a"); vsleep(500); println("b"); vsleep(500); println("c"); }`, kmaxVM: 40, kmaxTree: 60},
	{name: "vsleep-loop", src: `fn main() { loop { vsleep(3); } }`, infinite: true, kmaxVM: 40, kmaxTree: 80},
	{name: "strings", src: `fn main() { let s = ""; for i in 0..60 { s += i.to_string(); } println(s.len()); }`, kmaxVM: 40, kmaxTree: 200},
	{name: "match-loop", src: `fn main() { let i = 0; loop { i += 1; let r = match i % 3 { 0 => 1, 1 => 2, _ => 3 }; } }`, infinite: true, kmaxVM: 30, kmaxTree: 150},
	{name: "uncaught-throw", src: `fn main() { let i = 0; while i < 200 { i += 1; } throw("bye"); }`, kmaxVM: 40, kmaxTree: 200},
	{name: "fatal-index", src: `fn main() { let l = [1]; let i = 0; while i < 200 { i += 1; } println(l[5]); }`, kmaxVM: 40, kmaxTree: 200},
	{name: "for-empty-huge", src: `fn main() { for i in 0..9000000000000000000 { } }`, infinite: true, kmaxVM: 12, kmaxTree: 30},
	{name: "for-call-empty", src: "fn nop() { }\nfn main() { for i in 0..9000000000000000000 { nop(); } }", infinite: true, kmaxVM: 20, kmaxTree: 60},
	{name: "retry-loop", src: "fn flaky(n: int) { if n % 2 == 0 { throw(\"flaky\"); } }\nfn main() { let attempts = 0; loop { try { flaky(attempts); flaky(attempts + 1); } catch e { attempts += 1; } } }", infinite: true, kmaxVM: 40, kmaxTree: 150},
	{name: "spawn-1", finite: 2, src: "fn w(n: int) { let i = 0; while i < n { i += 1; } println(\"w\", n); }\nfn main() { spawn w(300); let j = 0; while j < 300 { j += 1; } println(\"main\"); }", multi: true, kmaxVM: 60},
	{name: "spawn-3-inf", src: "fn w(n: int) { loop { let x = n + 1; } }\nfn main() { spawn w(1); spawn w(2); spawn w(3); loop { } }", multi: true, infinite: true, kmaxVM: 40},
	{name: "spawn-4-mixed", finite: 5, src: "fn w(n: int) { let i = 0; while i < n { i += 1; } println(\"w\", n); }\nfn main() { spawn w(10); spawn w(2000); spawn w(50); spawn w(4000); println(\"main\"); }", multi: true, kmaxVM: 120},
	{name: "spawn-fail", src: "fn bad(n: int) { let i = 0; while i < n { i += 1; } let l = [1]; println(l[7]); }\nfn w(n: int) { loop { let x = n; } }\nfn main() { spawn w(1); spawn bad(400); spawn w(2); loop { } }", multi: true, infinite: true, kmaxVM: 60},
	{name: "spawn-early-finish", finite: 3, src: "fn w(n: int) { println(\"w\", n); }\nfn main() { spawn w(1); spawn w(2); let i = 0; while i < 1500 { i += 1; } println(\"main\"); }", multi: true, kmaxVM: 60},
}

// Payload of a cancellation case.
type Payload struct {
	Prog int `json:"prog"`
	// Name of the program (takes precedence over Prog when set; used by pinned witnesses).
	Name    string `json:"name,omitempty"`
	Backend string `json:"backend"` // vm | tree
	K       int64  `json:"k"`
	// ArmEarly: count polls from the creation of the VM (includes @init) instead of after NewVM.
	ArmEarly bool `json:"arm_early,omitempty"`
	// End: how the context ends at poll K (one of endModes; empty = cancel).
	End string `json:"end,omitempty"`
	// Src (generated programs, families.go): the payload carries the program itself - entry module,
	// further modules, whether it runs for ever, whether it spawns cores; Name is then only a label.
	Src      string            `json:"src,omitempty"`
	Mods     map[string]string `json:"mods,omitempty"`
	Infinite bool              `json:"infinite,omitempty"`
	Multi    bool              `json:"multi,omitempty"`
	OwnFails bool              `json:"own_fails,omitempty"`
	// Settle (schedule of a VM run with several cores): every spawn happens only after the host's wait has
	// collected the cores that had finished by then (without it a short program spawns all its cores
	// before the wait, which idles 5 ms between two rounds, has looked at any of them).
	Settle bool `json:"settle,omitempty"`
	// AfterExit n > 0: the moment of cancellation is an event instead of a poll index - the host ends the
	// context once n cores have finished and the wait has collected them (K is then out of reach).
	AfterExit int `json:"after_exit,omitempty"`
}

// programOf: the program a payload refers to.
func programOf(p Payload) program {
	if p.Src != "" {
		return genProgram(p)
	}
	return programs[resolve(p)]
}

func (p Payload) end() string {
	if p.End == "" {
		return endCancel
	}
	return p.End
}

// sampleKs: cancellation points for the end modes that are not enumerated exhaustively: the first
// polls, a geometric ladder up to kmax, the poll after the last one of the uncancelled run, and
// three seed-chosen ones.
func sampleKs(kmax int, rng *fw.Rng) []int {
	set := map[int]bool{}
	for a, b := 1, 2; a <= kmax; a, b = b, a+b {
		set[a] = true
	}
	set[kmax] = true
	set[kmax+1] = true
	for i := 0; i < 3; i++ {
		set[1+rng.Intn(kmax+1)] = true
	}
	ks := make([]int, 0, len(set))
	for k := range set {
		ks = append(ks, k)
	}
	sort.Ints(ks)
	return ks
}

// endCases: the same programs and backends with the context ended in the other ways a host ends a
// context. Deadline expiry gets the whole ladder (thorough: every k of the cancel enumeration),
// the cause-carrying variants every third rung.
func endCases(tier string, seed uint64) []fw.Case {
	var cases []fw.Case
	rng := fw.NewRng(seed ^ 0xC10E4D)
	for pi, p := range programs {
		if p.eventOnly {
			continue
		}
		for _, be := range []string{"vm", "tree"} {
			kmax := p.kmaxVM
			if be == "vm" && p.treeOnly {
				continue
			}
			if be == "tree" {
				if p.multi {
					continue
				}
				kmax = p.kmaxTree
			}
			ladder := sampleKs(kmax, rng.Fork())
			for _, mode := range endModes[1:] {
				ks := ladder
				if mode == endDeadline && tier == "thorough" {
					ks = ks[:0:0]
					for k := 1; k <= kmax+1; k++ {
						ks = append(ks, k)
					}
				}
				for i, k := range ks {
					if mode != endDeadline && len(ks) > 4 && i%3 != pi%3 {
						continue
					}
					tags := []string{"end-" + mode}
					if be == "tree" && strings.Contains(p.name, "empty") {
						tags = append(tags, "empty-loop")
					}
					cases = append(cases, fw.MkCase(fmt.Sprintf("c10-%s-%s-%s-%d", p.name, be, mode, k), "cancel", Payload{Prog: pi, Backend: be, K: int64(k), End: mode}, tags...))
				}
			}
		}
	}
	return cases
}

func (c10) Cases(tier string, seed uint64) []fw.Case {
	var cases []fw.Case
	// first: these runs are the longest (the settled schedule waits for the host's wait at every spawn)
	cases = append(cases, eventCases(tier, seed)...)
	ladderRng := fw.NewRng(seed ^ 0xC105BA45E)
	for pi, p := range programs {
		if p.eventOnly {
			continue
		}
		for k := 1; k <= p.kmaxVM+1 && !p.treeOnly; k++ {
			cases = append(cases, fw.MkCase(fmt.Sprintf("c10-%s-vm-%d", p.name, k), "cancel", Payload{Prog: pi, Backend: "vm", K: int64(k)}))
		}
		if p.multi {
			continue
		}
		onLadder := map[int]bool{}
		if p.sparseTree && tier != "thorough" {
			for _, k := range sampleKs(p.kmaxTree, ladderRng.Fork()) {
				onLadder[k] = true
			}
		}
		for k := 1; k <= p.kmaxTree+1; k++ {
			if k > 60 && k%7 != 0 && tier != "thorough" {
				continue
			}
			if len(onLadder) > 0 && !onLadder[k] {
				continue
			}
			tags := []string{}
			if strings.Contains(p.name, "empty") {
				tags = append(tags, "empty-loop")
			}
			cases = append(cases, fw.MkCase(fmt.Sprintf("c10-%s-tree-%d", p.name, k), "cancel", Payload{Prog: pi, Backend: "tree", K: int64(k)}, tags...))
		}
	}
	// cancellation during @init (NewVM panicked on the host goroutine until efcf7f6)
	for pi, p := range programs[:3] {
		cases = append(cases, fw.MkCase(fmt.Sprintf("c10-%s-vm-init-1", p.name), "cancel-init", Payload{Prog: pi, Backend: "vm", K: 1, ArmEarly: true}, "cancel-during-init"))
	}
	// the same for the @init code of multi-module programs (several polls fall into NewVM there)
	for pi, p := range programs {
		if len(p.mods) < 2 || p.treeOnly || p.multi || p.infinite {
			continue
		}
		for k := 1; k <= 2; k++ {
			cases = append(cases, fw.MkCase(fmt.Sprintf("c10-%s-vm-init-%d", p.name, k), "cancel-init", Payload{Prog: pi, Backend: "vm", K: int64(k), ArmEarly: true}, "cancel-during-init"))
		}
	}
	cases = append(cases, endCases(tier, seed)...)
	cases = append(cases, genCases(tier, seed)...)
	cases = append(cases, genIndexCases(tier, seed)...)
	return cases
}

func resolve(p Payload) int {
	if p.Name != "" {
		for i, pg := range programs {
			if pg.name == p.Name {
				return i
			}
		}
		panic("c10: unknown program " + p.Name)
	}
	return p.Prog
}

// End modes: HOW the host's context ends at the k-th poll. The property speaks of the context
// being cancelled "at any moment"; a host ends a context either by calling its cancel function or
// by letting its deadline expire (that is how every host in the repository bounds the run time:
// context.WithTimeout), each optionally with a cause. The code under test must stop in all of them.
const (
	endCancel        = "cancel"         // cancel(): Err()==Canceled, Cause==Canceled
	endDeadline      = "deadline"       // deadline expired: Err()==DeadlineExceeded
	endCause         = "cause"          // cancel(cause): Err()==Canceled, Cause==custom error
	endDeadlineCause = "deadline-cause" // WithDeadlineCause expired: Err()==DeadlineExceeded, Cause==custom error
)

var endModes = []string{endCancel, endDeadline, endCause, endDeadlineCause}

var errHostCause = errors.New("host: stop requested")

// endedContext returns a REAL context of package context that has ended in the given way (no
// wall-clock involved: a deadline at the Unix epoch has always expired, WithDeadline then ends the
// context synchronously). The counting context delegates Err/Value/Deadline to it once ended, so
// the code under test sees exactly what a real context reports (including context.Cause).
func endedContext(mode string) context.Context {
	bg := context.Background()
	switch mode {
	case endDeadline:
		c, cancel := context.WithDeadline(bg, time.Unix(1, 0))
		_ = cancel
		return c
	case endDeadlineCause:
		c, cancel := context.WithDeadlineCause(bg, time.Unix(1, 0), errHostCause)
		_ = cancel
		return c
	case endCause:
		c, cancel := context.WithCancelCause(bg)
		cancel(errHostCause)
		return c
	default:
		c, cancel := context.WithCancel(bg)
		cancel()
		return c
	}
}

// countingCtx ends itself at the k-th poll once armed. A poll is any question "are we done?" put
// to the context by the code under test: a call of Done() or of Err() (both are legitimate ways
// to poll; the unchanged code only uses Done()).
type countingCtx struct {
	mu     sync.Mutex
	k      int64
	mode   string // how the context ends at the k-th poll
	polls  int64
	armed  bool
	ch     chan struct{}
	closed atomic.Bool
	ended  atomic.Pointer[context.Context] // set before closed
	// gap watch (programs that sit in a blocking host builtin, hostsleep.go): the time between two
	// consecutive polls while the context is alive. bigRun = current run of consecutive gaps longer
	// than pollGapBound; gapEnded: the context ended itself because bigRun reached pollGapRun.
	gapWatch bool
	last     time.Time
	gaps     int64
	bigRun   int
	maxGap   time.Duration
	gapEnded bool
}

func newCountingCtx(k int64) *countingCtx { return newCountingCtxMode(k, endCancel) }

func newCountingCtxMode(k int64, mode string) *countingCtx {
	if mode == "" {
		mode = endCancel
	}
	return &countingCtx{k: k, mode: mode, ch: make(chan struct{})}
}

// farFuture is the deadline reported by the deadline modes while the context is alive.
var farFuture = time.Unix(1<<40, 0)

func (c *countingCtx) Deadline() (time.Time, bool) {
	if e := c.ended.Load(); e != nil {
		return (*e).Deadline()
	}
	if c.mode == endDeadline || c.mode == endDeadlineCause {
		return farFuture, true
	}
	return time.Time{}, false
}

// end must be called with mu held.
func (c *countingCtx) end(mode string) {
	if c.closed.Load() {
		return
	}
	e := endedContext(mode)
	c.ended.Store(&e)
	c.closed.Store(true)
	close(c.ch)
}

// poll must be called with mu held.
func (c *countingCtx) poll() {
	if c.armed && !c.closed.Load() {
		c.polls++
		if c.gapWatch {
			now := time.Now()
			if !c.last.IsZero() {
				gap := now.Sub(c.last)
				c.gaps++
				if gap > c.maxGap {
					c.maxGap = gap
				}
				if gap > pollGapBound {
					c.bigRun++
				} else {
					c.bigRun = 0
				}
				if c.bigRun >= pollGapRun {
					c.gapEnded = true
					c.end(c.mode)
					return
				}
			}
			c.last = now
		}
		if c.polls >= c.k {
			c.end(c.mode)
		}
	}
}

func (c *countingCtx) Done() <-chan struct{} {
	c.mu.Lock()
	c.poll()
	c.mu.Unlock()
	return c.ch
}
func (c *countingCtx) Err() error {
	c.mu.Lock()
	c.poll()
	c.mu.Unlock()
	if e := c.ended.Load(); e != nil {
		return (*e).Err()
	}
	return nil
}
func (c *countingCtx) Value(key any) any {
	// context.Cause finds the cause through Value
	if e := c.ended.Load(); e != nil {
		return (*e).Value(key)
	}
	return nil
}

// cancelNow is the host's cancel function: an explicit cancel() whatever the mode.
func (c *countingCtx) cancelNow() {
	c.mu.Lock()
	c.end(endCancel)
	c.mu.Unlock()
}
func endText(mode string) string {
	switch mode {
	case endDeadline:
		return "deadline expired: Err()=context.DeadlineExceeded"
	case endDeadlineCause:
		return "deadline expired with a cause: Err()=context.DeadlineExceeded, Cause=custom error"
	case endCause:
		return "cancel(cause): Err()=context.Canceled, Cause=custom error"
	}
	return "cancel(): Err()=context.Canceled"
}

// describe says how and when the context ended (for the violation text).
func (c *countingCtx) describe() string {
	c.mu.Lock()
	defer c.mu.Unlock()
	e := c.ended.Load()
	if e == nil {
		if c.k >= noPollCount {
			return fmt.Sprintf("was not ended (no poll count was set for this run, %d polls so far)", c.polls)
		}
		return fmt.Sprintf("was not ended (k=%d, %d polls)", c.k, c.polls)
	}
	how := endText(c.mode)
	if (*e).Err() == context.Canceled && c.mode != endCancel && c.mode != endCause {
		how = endText(endCancel) + " by the cancel function"
	}
	at := fmt.Sprintf("at poll %d", c.k)
	if c.k >= noPollCount {
		at = "asynchronously (no poll count was set for this run)"
	} else if c.polls < c.k {
		at = fmt.Sprintf("asynchronously after %d polls (poll k=%d was never reached)", c.polls, c.k)
	}
	return fmt.Sprintf("was ended (%s) %s", how, at)
}

// endNow ends the context asynchronously in its own mode (a deadline expires whether or not
// anybody polls).
func (c *countingCtx) endNow() {
	c.mu.Lock()
	c.end(c.mode)
	c.mu.Unlock()
}
func (c *countingCtx) arm() { c.mu.Lock(); c.armed = true; c.mu.Unlock() }

// runState is the monitor state of the current VM run. The hook callbacks are installed once per
// process (writing the hook variables while cores of an earlier run may still read them would be a
// data race of the harness itself) and reach the current run through an atomic pointer.
type runState struct {
	cc       *countingCtx
	mu       sync.Mutex
	after    map[uint]int64
	maxAfter int64
	total    atomic.Int64
	steps    atomic.Int64 // all steps of all cores of the run (progress indicator for the wedge verdict)
	// schedule and event bookkeeping (Payload.Settle / Payload.AfterExit)
	settle    bool
	afterExit int64
	spawns    atomic.Int64 // cores spawned so far
	exited    atomic.Int64 // cores that left Core.Run's loop (about to signal the wait)
	collected atomic.Int64 // signals the wait has taken from a core
}

// waitIdle: the period the host's wait sleeps between two rounds over the cores.
const waitIdle = runtime.VMWaitIdleSleep

// settleSpawn (hook at the start of a spawn, on the spawning goroutine): lets the cores that are about
// to finish do so and the wait collect them before the new core is created. Scheduling only: nothing
// here enters a verdict.
func (st *runState) settleSpawn() {
	if st.spawns.Add(1) == 1 {
		return // the host spawning main: nothing runs yet
	}
	// in slices, and not at all once the context has ended: a core must not be held back from stopping
	const slice = 250 * time.Microsecond
	nap := func(d time.Duration, while func() bool) {
		for ; d > 0 && !st.cc.closed.Load() && while(); d -= slice {
			time.Sleep(slice)
		}
	}
	nap(waitIdle/2, func() bool { return true })
	nap(2*waitIdle, func() bool { return st.collected.Load() < st.exited.Load() })
	// the wait removes the collected core from its list right after the hook
	nap(time.Millisecond, func() bool { return true })
}

var (
	cur       atomic.Pointer[runState]
	hooksOnce sync.Once
)

func installHooks() {
	hooksOnce.Do(func() {
		runtime.VerifStep = func(c *runtime.Core) {
			st := cur.Load()
			if st == nil {
				return
			}
			st.steps.Add(1)
			if !st.cc.closed.Load() {
				// the k-th poll was not reached within the step budget (the core may have stopped
				// polling): the host cancels asynchronously, "at any moment of the run"
				if st.total.Add(1) == preCancelSteps && st.cc.k < 1<<50 {
					st.cc.endNow()
				}
				return
			}
			st.mu.Lock()
			st.after[c.Corenum]++
			n := st.after[c.Corenum]
			if n > st.maxAfter {
				st.maxAfter = n
			}
			st.mu.Unlock()
			if n > StepBound {
				panic(fw.StepBudgetMsg)
			}
		}
		runtime.VerifCoreExit = func(*runtime.Core) {
			if st := cur.Load(); st != nil {
				st.exited.Add(1)
			}
		}
		runtime.VerifYield = func(site string) {
			st := cur.Load()
			if st == nil {
				return
			}
			switch site {
			case "wait-gap", "wait-gap-err":
				st.collected.Add(1)
			case "spawn":
				if st.settle {
					st.settleSpawn()
				}
			}
		}
	})
}

// coreRunGoroutines counts goroutines with a frame in runtime.(*Core).Run.
func coreRunGoroutines() (n int, blockedDump string) {
	buf := make([]byte, 1<<20)
	m := goruntime.Stack(buf, true)
	for _, g := range strings.Split(string(buf[:m]), "\n\n") {
		if strings.Contains(g, "homescript/runtime.(*Core).Run") {
			n++
			blockedDump += g + "\n\n"
		}
	}
	return
}

// asleepRe: header of a goroutine in time.Sleep.
var asleepRe = regexp.MustCompile(`(?m)^goroutine \d+ \[sleep[,\]]`)

func stableCoreGoroutines() (n int, dump string, stable bool) {
	last, same := -1, 0
	for i := 0; i < 400; i++ {
		n, dump = coreRunGoroutines()
		if asleepRe.MatchString(dump) {
			// a core inside a timed sleep of a host builtin (time.sleep of the repository's testing hosts
			// sleeps 10 ms between two looks at the context) wakes by itself and then sees the ended
			// context: a transient state, not "left behind" - sample again
			last, same = -1, 0
			goruntime.Gosched()
			time.Sleep(500 * time.Microsecond)
			continue
		}
		if n == last {
			same++
			if same >= 5 {
				return n, dump, true
			}
		} else {
			last, same = n, 0
		}
		goruntime.Gosched()
		time.Sleep(500 * time.Microsecond)
	}
	return n, dump, false
}

func (c10) Run(c fw.Case) fw.Result {
	var p Payload
	fw.Decode(c, &p)
	pg := programOf(p)
	src := pg.sources()
	res := fw.Result{Verdict: fw.Held, Cover: []string{"prog:" + pg.name, "backend:" + p.Backend, "end:" + p.end(), p.Backend + "/end:" + p.end()}}
	ao := drive.Analyze(src, "main", true)
	if ao.Errors > 0 {
		res.Verdict, res.Sig, res.Why = fw.Violated, "harness:program-rejected", "listed program rejected: "+ao.ErrorSummary()
		return res
	}
	if p.Backend == "tree" {
		return runTree(p, pg, ao, src, res)
	}
	return runVM(p, pg, ao, src, res)
}

// spinCPU: processor time (seconds, all threads of the worker) that may pass without a single step
// of the program before the monitor acts: first it ends the context, then - another spinCPU later -
// it gives the verdict. A step takes microseconds; Go code of the repository that runs between two
// steps (a builtin member, the unwinding of a call stack) is bounded by the size of its data, here a
// few dozen elements. Measured in the worker's own processor time, which machine load does not
// inflate (a starved worker does not accumulate it), never in wall-clock time.
const spinCPU = 2.0

// processCPU: processor time (user + system, all threads) this process has consumed so far.
func processCPU() float64 {
	var ru syscall.Rusage
	if syscall.Getrusage(syscall.RUSAGE_SELF, &ru) != nil {
		return 0
	}
	return float64(ru.Utime.Sec+ru.Stime.Sec) + float64(ru.Utime.Usec+ru.Stime.Usec)/1e6
}

const repoPkg = "smarthome-go/homescript/v3/homescript/"

// repoRunning: the innermost repository frames of the goroutines that are running or runnable inside
// the repository's code ("" if there is none: everything is blocked, asleep or outside).
func repoRunning() string {
	buf := make([]byte, 1<<20)
	m := goruntime.Stack(buf, true)
	var where []string
	seen := map[string]bool{}
	for _, g := range strings.Split(string(buf[:m]), "\n\n") {
		if !strings.Contains(g, repoPkg) {
			continue
		}
		lines := strings.Split(g, "\n")
		if !strings.Contains(lines[0], "[running") && !strings.Contains(lines[0], "[runnable") {
			continue
		}
		if f := innermostFrame(lines, repoPkg); f != "" && !seen[f] {
			seen[f] = true
			where = append(where, f)
		}
	}
	sort.Strings(where)
	return strings.Join(where, " | ")
}

// spinWatch decides "the program executes no step any more, yet Go code of the repository keeps a
// processor busy" from the step counter, the worker's processor time and goroutine dumps.
type spinWatch struct {
	steps int64
	cpu   float64
}

// check is called periodically with the current step count; it returns the repository frames that
// are running when no step was executed during spinCPU seconds of processor time ("" otherwise).
func (w *spinWatch) check(steps int64) string {
	now := processCPU()
	if steps != w.steps || w.cpu == 0 {
		w.steps, w.cpu = steps, now
		return ""
	}
	if now-w.cpu < spinCPU {
		return ""
	}
	w.cpu = now
	a := repoRunning()
	if a == "" {
		return ""
	}
	goruntime.Gosched()
	if b := repoRunning(); b != a {
		return ""
	}
	return a
}

// spunRefs: programs whose uncancelled reference run was found spinning in this worker process
// (key backend/name -> the verdict text). The reference run does not depend on the cancellation
// point, so the other cases of the program in this worker report the same observation instead of
// repeating it (every repetition leaves another goroutine spinning in the worker).
var spunRefs = map[string]string{}

// treeRun is what the host saw of one interpreter run.
type treeRun struct {
	out      drive.Outcome
	exceeded bool   // more than StepBound steps after the context ended
	spinning string // the run did not return: repository frames that kept running without a step
	after    int64
}

// hostRunTree plays the host of an interpreter run: homescript.Run on its own goroutine, so that a run
// which never returns can be observed. budget > 0: step budget of an uncancelled reference run.
func hostRunTree(ao drive.AnalyzeOut, src drive.Sources, cc *countingCtx, budget int64) treeRun {
	var total, after atomic.Int64
	var exceeded atomic.Bool
	interpreter.VerifStep = func() {
		n := total.Add(1)
		if budget > 0 {
			if n > budget {
				panic(fw.StepBudgetMsg)
			}
			return
		}
		if n == preCancelSteps && !cc.closed.Load() {
			// the k-th poll was not reached within the step budget (the code may not poll at all):
			// the host cancels asynchronously, "at any moment of the run"
			cc.endNow()
		}
		if cc.closed.Load() {
			if after.Add(1) > StepBound {
				exceeded.Store(true)
				panic(fw.StepBudgetMsg)
			}
		}
	}
	done := make(chan drive.Outcome, 1)
	go func() {
		var out drive.Outcome
		defer func() {
			if r := recover(); r != nil {
				out = drive.Outcome{Class: "go-panic", Message: fmt.Sprint(r)}
				if r == any(fw.StepBudgetMsg) && budget > 0 {
					out = drive.Outcome{Class: "step-budget", Message: fw.StepBudgetMsg}
				}
			}
			done <- out
		}()
		// not drive.RunTree: it installs its own step hook
		out = runTreeRaw(ao, src, cc, 100)
	}()
	var w spinWatch
	for i := 0; ; i++ {
		select {
		case out := <-done:
			interpreter.VerifStep = nil
			return treeRun{out: out, exceeded: exceeded.Load(), after: after.Load()}
		default:
		}
		if i < 200 {
			goruntime.Gosched()
		} else {
			time.Sleep(200 * time.Microsecond)
		}
		if i%50 != 49 {
			continue
		}
		where := w.check(total.Load())
		if where == "" {
			continue
		}
		if !cc.closed.Load() {
			cc.endNow()
			continue
		}
		// the goroutine stays behind (it never calls the step hook again)
		return treeRun{spinning: where, exceeded: exceeded.Load(), after: after.Load()}
	}
}

func runTree(p Payload, pg program, ao drive.AnalyzeOut, src drive.Sources, res fw.Result) fw.Result {
	// own outcome of finite programs: a run whose context never ends by itself (only the monitor ends
	// it, when the run spins)
	var own drive.Outcome
	if !pg.infinite {
		if why, ok := spunRefs["tree/"+pg.name]; ok {
			res.Nontrivial = true
			res.Verdict, res.Sig, res.Why = fw.Violated, "tree:run-never-returns", why
			return res
		}
		rc := newCountingCtx(1 << 60)
		rc.arm()
		ref := hostRunTree(ao, src, rc, 5_000_000)
		if ref.spinning != "" {
			why := fmt.Sprintf("homescript.Run does not return: the interpreter executes no step any more while Go code of the repository keeps running (%s), for more than %.0f s of processor time before and again after the host ended the context (program %s, run without a cancellation point; the context %s)", ref.spinning, spinCPU, pg.name, rc.describe())
			spunRefs["tree/"+pg.name] = why + " [observed on the uncancelled run of the same program earlier in this worker]"
			res.Nontrivial = true
			res.Verdict, res.Sig, res.Why = fw.Violated, "tree:run-never-returns", why
			return res
		}
		own = ref.out
	}
	cc := newCountingCtxMode(p.K, p.end())
	cc.gapWatch = pg.hostSleep
	cc.arm()
	tr := hostRunTree(ao, src, cc, 0)
	out, exceeded, after := tr.out, tr.exceeded, tr.after
	res.Nontrivial = cc.closed.Load()
	cc.mu.Lock()
	polls := cc.polls
	gapEnded, gapText := cc.gapEnded, cc.gapDescribe()
	if pg.hostSleep {
		res.Obs = map[string]int64{"poll_gaps": cc.gaps}
	}
	cc.mu.Unlock()
	if res.Obs == nil {
		res.Obs = map[string]int64{}
	}
	res.Obs["polls"], res.Obs["steps_after_cancel"] = polls, after
	switch {
	case gapEnded:
		res.Verdict, res.Sig = fw.Violated, "tree:blocking-builtin-poll-period"
		res.Why = fmt.Sprintf("the interpreter host's blocking builtin looks at the context too rarely for a cancellation to stop it promptly: %s (program %s)", gapText, pg.name)
	case tr.spinning != "":
		res.Verdict, res.Sig = fw.Violated, "tree:run-never-returns"
		res.Why = fmt.Sprintf("homescript.Run does not return: the interpreter executes no step any more while Go code of the repository keeps running (%s), for more than %.0f s of processor time after the context %s (program %s)", tr.spinning, spinCPU, cc.describe(), pg.name)
	case exceeded:
		res.Verdict, res.Sig = fw.Violated, "tree:no-stop-within-bound"
		res.Why = fmt.Sprintf("interpreter executed more than %d steps after the context %s (program %s)", StepBound, cc.describe(), pg.name)
	case out.Class == "go-panic":
		res.Verdict, res.Sig = fw.Violated, "tree:go-panic:"+util.NormPanic(out.Message)
		res.Why = fmt.Sprintf("interpreter panicked: %s (program %s, k=%d, end=%s)", out.Message, pg.name, p.K, p.end())
	case cc.closed.Load() && out.Class != "terminate" && (pg.infinite || !sameOutcome(out, own)):
		res.Verdict, res.Sig = fw.Violated, "tree:wrong-outcome:"+out.Class
		res.Why = fmt.Sprintf("after the context %s the interpreter returned %s (own outcome %s) for program %s", cc.describe(), out, own, pg.name)
	case !cc.closed.Load() && !pg.infinite && !sameOutcome(out, own):
		res.Verdict, res.Sig = fw.Violated, "tree:outcome-changed-without-cancel"
		res.Why = fmt.Sprintf("without cancellation the interpreter returned %s, expected %s", out, own)
	case !cc.closed.Load() && pg.infinite:
		res.Nontrivial = true
		res.Verdict, res.Sig = fw.Violated, "tree:run-returned-before-cancel:"+out.Class
		res.Why = fmt.Sprintf("homescript.Run returned %s although the context %s and the program %s never finishes", out, cc.describe(), pg.name)
	}
	return res
}

func sameOutcome(a, b drive.Outcome) bool {
	return a.Class == b.Class && a.Kind == b.Kind && drive.FirstLine(a.Message) == drive.FirstLine(b.Message)
}

func runVM(p Payload, pg program, ao drive.AnalyzeOut, src drive.Sources, res fw.Result) fw.Result {
	prog, err := drive.Compile(ao.Modules, "main")
	if err != nil {
		res.Verdict, res.Sig, res.Why = fw.Violated, "harness:compile", err.Error()
		return res
	}
	limits := runtime.CoreLimits{CallStackMaxSize: 100, StackMaxSize: 500, MaxMemorySize: 10000}
	var own drive.Outcome
	if why, ok := spunRefs["vm/"+pg.name]; ok && !pg.infinite {
		res.Nontrivial = true
		res.Verdict, res.Sig, res.Why = fw.Violated, "vm:wait-never-returns", why
		return res
	}
	if !pg.infinite {
		// uncancelled reference run with the same (once installed) hooks
		installHooks()
		// the context of this run never ends by itself (k is out of reach); only the monitor ends it, when
		// the run is wedged
		rc := newCountingCtx(1 << 60)
		cur.Store(&runState{cc: rc, after: map[uint]int64{}})
		var rctx context.Context = rc
		var rcancel context.CancelFunc = rc.cancelNow
		ex := drive.VMExec{L: &drive.Log{}, Src: src}
		ref := hostRun(prog, ex, &rctx, &rcancel, limits, cur.Load(), rc, nil)
		own = ref.out
		if ref.newVMPanic != "" {
			own = drive.Outcome{Class: "go-panic", Message: ref.newVMPanic}
		}
		if own.Class == "deadlock" {
			// the host cancelled a run that no poll count would ever have cancelled, and it still did not return
			res.Nontrivial = true
			res.Verdict, res.Sig = fw.Violated, "vm:wait-never-returns"
			res.Why = fmt.Sprintf("%s (program %s, run without a cancellation point; the context %s)", own.Message, pg.name, rc.describe())
			if ref.spinning {
				spunRefs["vm/"+pg.name] = res.Why + " [observed on the uncancelled run of the same program earlier in this worker]"
			}
			return res
		}
		stableCoreGoroutines()
	}
	// goroutines that earlier runs of this worker left inside Core.Run (a wedged run was reported by
	// its own case) are not charged to this run
	base, _ := coreRunGoroutines()
	cc := newCountingCtxMode(p.K, p.end())
	cc.gapWatch = pg.hostSleep
	if p.ArmEarly {
		cc.arm()
	}
	st := &runState{cc: cc, after: map[uint]int64{}, settle: p.Settle, afterExit: int64(p.AfterExit)}
	installHooks()
	cur.Store(st)
	mu := &st.mu
	var ctx context.Context = cc
	var cancel context.CancelFunc = cc.cancelNow
	log := &drive.Log{}
	exec := drive.VMExec{L: log, Src: src}
	hr := hostRun(prog, exec, &ctx, &cancel, limits, st, cc, cc.arm)
	out, newVMPanic := hr.out, hr.newVMPanic
	res.Nontrivial = cc.closed.Load()
	mu.Lock()
	maxAfter := st.maxAfter
	res.Obs = map[string]int64{"polls": cc.polls, "max_steps_after_cancel": maxAfter}
	mu.Unlock()
	fail := func(sig, why string) {
		if res.Verdict == fw.Violated {
			res.More = append(res.More, fw.SubViolation{Sig: sig, Why: why})
			return
		}
		res.Verdict, res.Sig, res.Why = fw.Violated, sig, why
	}
	if newVMPanic != "" {
		fail("vm:newvm-panic:"+util.NormPanic(newVMPanic), fmt.Sprintf("NewVM panicked on the host's goroutine: %s (program %s, k=%d)", newVMPanic, pg.name, p.K))
		return res
	}
	cc.mu.Lock()
	gapEnded, gapText := cc.gapEnded, cc.gapDescribe()
	if pg.hostSleep {
		res.Obs["poll_gaps"] = cc.gaps
	}
	cc.mu.Unlock()
	if gapEnded {
		fail("vm:blocking-builtin-poll-period", fmt.Sprintf("the VM host's blocking builtin looks at the context too rarely for a cancellation to stop it promptly: %s (program %s)", gapText, pg.name))
	}
	switch {
	case out.Class == "deadlock":
		fail("vm:wait-never-returns", fmt.Sprintf("%s (program %s, context %s)", out.Message, pg.name, cc.describe()))
		return res
	case cc.closed.Load() && out.Class != "terminate" && ((pg.infinite && !(pg.ownFails && out.Class == "fatal")) || (!pg.infinite && !pg.multi && !sameOutcome(out, own)) || (!pg.infinite && pg.multi && out.Class != own.Class)):
		fail("vm:wrong-outcome:"+out.Class, fmt.Sprintf("after the context %s the wait returned %s (own outcome %s) for program %s", cc.describe(), out, own, pg.name))
	case !cc.closed.Load() && !pg.infinite && out.Class != own.Class:
		fail("vm:outcome-changed-without-cancel", fmt.Sprintf("without cancellation the wait returned %s, expected %s", out, own))
	case !cc.closed.Load() && pg.infinite && !(pg.ownFails && out.Class == "fatal"):
		// the program has a core that never finishes and nobody ended the context: the wait has nothing to return
		res.Nontrivial = true
		fail("vm:wait-returned-before-cancel:"+out.Class, fmt.Sprintf("the wait returned %s although the context %s and the program %s has a core that never finishes: the wait stopped waiting for a running core (no termination interrupt, nothing for the host to cancel any more)", out, cc.describe(), pg.name))
	}
	// leak check
	n, dump, stable := stableCoreGoroutines()
	if !stable {
		res.Cover = append(res.Cover, "leak-sample-unstable")
	} else if n > base {
		fail("vm:core-goroutine-left", fmt.Sprintf("%d goroutine(s) still inside Core.Run after the wait returned (program %s, context %s):\n%s", n-base, pg.name, cc.describe(), util.Clip(dump, 1500)))
	}
	if !cc.closed.Load() {
		// the wait is over: whatever it left running is not to burden the later cases of this worker
		cc.endNow()
		stableCoreGoroutines()
	}
	if p.Settle {
		res.Cover = append(res.Cover, "schedule:settle")
	}
	if p.AfterExit > 0 {
		res.Cover = append(res.Cover, "cancel-at:core-exit")
		res.Obs["cores_exited"] = st.exited.Load()
	}
	if p.K == 3 {
		res.Sample = map[string]any{"program": pg.name, "src": pg.render(), "backend": "vm", "k": p.K, "end": p.end(), "outcome": out.String(), "polls": cc.polls, "max_steps_after_cancel": maxAfter}
	}
	return res
}

// hostResult is what the host saw of one VM run.
type hostResult struct {
	out        drive.Outcome
	newVMPanic string
	spinning   bool // out.Class "deadlock" because Go code of the repository spins without a step
}

// wedgeSamples: consecutive goroutine-state samples in which the VM must be wedged before the monitor
// acts on it (a sample every 10 rounds of the host's wait loop; every round once one looked wedged).
const wedgeSamples = 50

// hostRun plays the host of a VM run: NewVM (which runs the @init code of all modules), spawn main,
// wait. The host calls run on their own goroutine so that a call which never returns can be
// observed, whichever of them it is. The verdict "never returns" is state based: no core of the run
// steps any more and no goroutine inside the VM can run again (vmWedged), sample after sample. When
// that state is reached while the context is still alive (the k-th poll is then never reached:
// nobody polls any more), the monitor ends the context itself - a host cancels "at any moment of the
// run" - and only if the state persists after that the run is reported as outliving cancellation.
// cc == nil: the uncancelled reference run (nothing to end).
func hostRun(prog compiler.CompileOutput, exec drive.VMExec, ctx *context.Context, cancel *context.CancelFunc, limits runtime.CoreLimits, st *runState, cc *countingCtx, afterNewVM func()) hostResult {
	done := make(chan hostResult, 1)
	var phase atomic.Value
	phase.Store("runtime.NewVM (the @init code of the modules)")
	go func() {
		var r hostResult
		var vm runtime.VM
		func() {
			defer func() {
				if rec := recover(); rec != nil {
					r.newVMPanic = fmt.Sprint(rec)
				}
			}()
			vm = runtime.NewVM(prog, exec, ctx, cancel, exec.VMScope(), limits)
			if afterNewVM != nil {
				afterNewVM()
			}
			phase.Store("VM.Wait")
			vm.SpawnAsync(runtime.MainFn(), nil, nil, nil)
		}()
		if r.newVMPanic == "" {
			_, i := vm.Wait()
			r.out = drive.VMOutcome(i)
		}
		done <- r
	}()
	wedged, lastSteps := 0, int64(-1)
	var spin spinWatch
	eventRounds := 0
	for i := 0; ; i++ {
		select {
		case r := <-done:
			return r
		default:
		}
		time.Sleep(200 * time.Microsecond)
		if cc != nil && st.afterExit > 0 && !cc.closed.Load() && st.exited.Load() >= st.afterExit {
			// cancellation at an event: afterExit cores have finished; the host cancels once the wait has
			// collected them (or has had four of its idle periods to do so)
			eventRounds++
			if (st.collected.Load() >= st.exited.Load() && eventRounds >= 5) || eventRounds >= 20*int(waitIdle/time.Millisecond) {
				cc.endNow()
			}
		}
		if i%50 == 49 {
			// no core steps, nothing is blocked, but Go code of the repository keeps a processor busy
			if where := spin.check(st.steps.Load()); where != "" {
				if cc != nil && !cc.closed.Load() {
					cc.endNow()
				} else {
					return hostResult{spinning: true, out: drive.Outcome{Class: "deadlock", Message: fmt.Sprintf("%s does not return: no core executes a step any more while Go code of the repository keeps running (%s), for more than %.0f s of processor time before and again after the context was ended", phase.Load(), where, spinCPU)}}
				}
			}
		}
		if i%10 != 9 && wedged == 0 {
			continue
		}
		steps := st.steps.Load()
		is, where := vmWedged()
		if !is || steps != lastSteps {
			wedged, lastSteps = 0, steps
			continue
		}
		wedged++
		if wedged < wedgeSamples {
			continue
		}
		if cc != nil && !cc.closed.Load() {
			cc.endNow()
			wedged = 0
			continue
		}
		return hostResult{out: drive.Outcome{Class: "deadlock", Message: fmt.Sprintf("%s does not return: no core executes a step any more and every goroutine inside the VM is blocked on a lock or channel (the host's wait idling between two polls of the signal channels): %s", phase.Load(), where)}}
	}
}

// vmWedged: no goroutine of the VM can run again by itself. Every goroutine with a frame of the VM
// runtime is either blocked on a lock or channel, or is the host's VM.Wait idling between two polls
// of the cores' signal channels (it only acts when a core signals); at least one is blocked. The
// goroutine dump is one consistent snapshot: a lock any of them waits for is then held by nobody who
// could release it.
// where names the innermost repository frame of each blocked goroutine.
func vmWedged() (bool, string) {
	buf := make([]byte, 1<<20)
	m := goruntime.Stack(buf, true)
	const rt = "smarthome-go/homescript/v3/homescript/runtime."
	var where []string
	seen := map[string]bool{}
	for _, g := range strings.Split(string(buf[:m]), "\n\n") {
		if !strings.Contains(g, rt) {
			continue
		}
		lines := strings.Split(g, "\n")
		head := lines[0]
		blocked := strings.Contains(head, "[chan send") || strings.Contains(head, "[chan receive") || strings.Contains(head, "[semacquire") || strings.Contains(head, "[sync.") || strings.Contains(head, "[select")
		if !blocked {
			// the host's wait between two polls of the signal channels: inside time.Sleep called by
			// VM.Wait (asleep, or due and waiting for a processor); it only acts when a core signals
			if !(len(lines) > 1 && strings.HasPrefix(lines[1], "time.Sleep(") && innermostFrame(lines, rt) == "(*VM).Wait") {
				return false, ""
			}
			continue
		}
		state := head
		if i := strings.Index(head, "["); i >= 0 {
			state = strings.TrimSuffix(strings.TrimSpace(head[i:]), ":")
			if j := strings.Index(state, ","); j > 0 { // "[sync.Mutex.Lock, 2 minutes]"
				state = state[:j] + "]"
			}
		}
		if w := innermostFrame(lines, rt) + " " + state; !seen[w] {
			seen[w] = true
			where = append(where, w)
		}
	}
	if len(where) == 0 {
		return false, ""
	}
	sort.Strings(where)
	return true, strings.Join(where, " | ")
}

// innermostFrame: the innermost function of package rt on a goroutine's stack (lines of its dump).
func innermostFrame(lines []string, rt string) string {
	for _, ln := range lines[1:] {
		if strings.HasPrefix(ln, "\t") || strings.HasPrefix(ln, "created by ") {
			continue
		}
		if i := strings.Index(ln, rt); i >= 0 {
			f := ln[i+len(rt):]
			if j := strings.LastIndex(f, "("); j > 0 {
				f = f[:j]
			}
			return f
		}
	}
	return ""
}

func (c10) OnCrash(c fw.Case, cr fw.Crash) fw.Result {
	var p Payload
	fw.Decode(c, &p)
	pg := programOf(p)
	switch cr.Kind {
	case "watchdog", "killed":
		return fw.Result{Verdict: fw.Inconclusive, Why: fmt.Sprintf("%s: %s (program %s, backend %s, k=%d, end=%s)", cr.Kind, cr.Message, pg.name, p.Backend, p.K, p.end())}
	case "step-budget":
		return fw.Result{Verdict: fw.Violated, Nontrivial: true, Sig: p.Backend + ":no-stop-within-bound",
			Why: fmt.Sprintf("a core executed more than %d steps after the context was ended (%s) at poll %d (program %s)", StepBound, endText(p.end()), p.K, pg.name)}
	}
	return fw.Result{Verdict: fw.Violated, Nontrivial: true,
		Sig: fmt.Sprintf("%s:crash:%s:%s:%s", p.Backend, cr.Kind, util.NormPanic(cr.Message), cr.TopFrame),
		Why: fmt.Sprintf("worker died (%s: %s) at %s (program %s, k=%d, end=%s)\n%s", cr.Kind, util.Clip(cr.Message, 300), cr.TopFrame, pg.name, p.K, p.end(), util.Clip(cr.StderrTail, 1500))}
}

func runTreeRaw(ao drive.AnalyzeOut, src drive.Sources, ctx context.Context, limit uint) drive.Outcome {
	exec := drive.TreeExec{L: &drive.Log{}, Src: src}
	var c context.Context = ctx
	i := hms.Run(limit, ao.Modules, "main", exec, exec.TreeScope(nil), &c)
	return drive.TreeOutcome(i)
}
