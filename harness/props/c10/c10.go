// Package c10 checks property C10: cancellation always stops execution promptly.
//
// A counting context cancels at an exact poll index k (the code only calls Done() and
// context.Cause()). For every program and every k the monitor checks: the wait returns, with a
// termination interrupt or the program's own outcome; no core executes more than B steps after the
// cancelling poll (step hook, decided by steps, not time); no goroutine stays inside Core.Run.
package c10

import (
	"context"
	"fmt"
	goruntime "runtime"
	"strings"
	"sync"
	"sync/atomic"
	"time"

	hms "github.com/smarthome-go/homescript/v3/homescript"
	"github.com/smarthome-go/homescript/v3/homescript/interpreter"
	"github.com/smarthome-go/homescript/v3/homescript/runtime"

	"hv/drive"
	"hv/fw"
	"hv/util"
)

type c10 struct{}

func init() { fw.Register(c10{}) }

func (c10) ID() string { return "C10" }

// preCancelSteps: if poll k is not reached after this many steps, the context is cancelled anyway.
const preCancelSteps = 400000

// StepBound B: steps a core may execute after the cancelling poll (DESIGN.md §3 C10).
const StepBound = 10000

func (c10) Info(tier string) fw.Info {
	return fw.Info{
		Level: "exploration",
		Rule: "for each of the listed programs (straight-line, empty and working infinite loops, recursion, try/catch with throws, blocking builtin, 1-4 spawned cores, a core failing) and each backend, the context is cancelled at the k-th poll for every k in 1..Kmax (VM: every k; interpreter: every k up to 60, then strides); " +
			"oracle: wait/run returns a termination interrupt or the program's own outcome (known from an uncancelled run when the program is finite); every core stops within B=10000 steps after the cancelling poll (step hook); after return no goroutine has a frame in Core.Run (stack samples until 5 identical ones); race log empty. " +
			"non-trivial = the cancellation actually fired during the run; distinct = (program, backend, k)",
		Assumptions: []string{
			"host builtins that ignore the context are the host's responsibility (the harness builtin vsleep polls it)",
			"a wait that neither returns nor steps is decided by goroutine state samples (all homescript goroutines blocked for 50 consecutive samples), otherwise by the per-case watchdog (inconclusive)",
		},
		Exhaustive:   true,
		CaseTimeoutS: 40,
		BatchSize:    60,
		Race:         true,
	}
}

type program struct {
	name     string
	src      string
	infinite bool
	kmaxVM   int
	kmaxTree int
	multi    bool // spawns cores: VM only
}

var programs = []program{
	{name: "straight", src: `fn main() { let a = 1; let b = a + 2; println(b); println(b * 2); }`, kmaxVM: 6, kmaxTree: 40},
	{name: "loop-empty", src: `fn main() { loop { } }`, infinite: true, kmaxVM: 12, kmaxTree: 40},
	{name: "while-true-empty", src: `fn main() { while true { } }`, infinite: true, kmaxVM: 12, kmaxTree: 40},
	{name: "loop-work", src: `fn main() { let i = 0; loop { i += 1; let l = [i, i + 1]; l.push(i); } }`, infinite: true, kmaxVM: 30, kmaxTree: 120},
	{name: "for-work", src: `fn main() { let s = 0; for i in 0..400 { s += i * 2; } println(s); }`, kmaxVM: 60, kmaxTree: 300},
	{name: "nested-loops", src: `fn main() { let s = 0; for i in 0..30 { let j = 0; while j < 10 { j += 1; s += j; } } println(s); }`, kmaxVM: 80, kmaxTree: 300},
	{name: "recursion", src: "fn f(n: int) -> int { if n <= 0 { 0 } else { 1 + f(n - 1) } }\nfn main() { println(f(150)); println(f(150)); }", kmaxVM: 80, kmaxTree: 300},
	{name: "recursion-infinite", src: "fn f(n: int) -> int { f(n + 1) }\nfn main() { println(f(0)); }", kmaxVM: 30, kmaxTree: 200},
	{name: "try-throw-loop", src: `fn main() { let i = 0; loop { i += 1; try { if i % 2 == 0 { throw("x"); } let y = i * 2; } catch e { let z = e.message; } } }`, infinite: true, kmaxVM: 40, kmaxTree: 200},
	{name: "try-finite", src: `fn main() { for i in 0..40 { try { throw(i); } catch e { println(e.message); } } println("done"); }`, kmaxVM: 50, kmaxTree: 300},
	{name: "catch-heavy", src: `fn main() { try { throw("a"); } catch e { let i = 0; while i < 300 { i += 1; } println(i); } println("after"); }`, kmaxVM: 60, kmaxTree: 300},
	{name: "throw-across-calls", src: "fn g(n: int) { if n == 0 { throw(\"deep\"); } g(n - 1); }\nfn main() { let i = 0; while i < 30 { i += 1; try { g(5); } catch e { let m = e.message; } } println(i); }", kmaxVM: 80, kmaxTree: 300},
	{name: "vsleep", src: `fn main() { println("a"); vsleep(500); println("b"); vsleep(500); println("c"); }`, kmaxVM: 40, kmaxTree: 60},
	{name: "vsleep-loop", src: `fn main() { loop { vsleep(3); } }`, infinite: true, kmaxVM: 40, kmaxTree: 80},
	{name: "strings", src: `fn main() { let s = ""; for i in 0..60 { s += i.to_string(); } println(s.len()); }`, kmaxVM: 40, kmaxTree: 200},
	{name: "match-loop", src: `fn main() { let i = 0; loop { i += 1; let r = match i % 3 { 0 => 1, 1 => 2, _ => 3 }; } }`, infinite: true, kmaxVM: 30, kmaxTree: 150},
	{name: "uncaught-throw", src: `fn main() { let i = 0; while i < 200 { i += 1; } throw("bye"); }`, kmaxVM: 40, kmaxTree: 200},
	{name: "fatal-index", src: `fn main() { let l = [1]; let i = 0; while i < 200 { i += 1; } println(l[5]); }`, kmaxVM: 40, kmaxTree: 200},
	{name: "for-empty-huge", src: `fn main() { for i in 0..9000000000000000000 { } }`, infinite: true, kmaxVM: 12, kmaxTree: 30},
	{name: "for-call-empty", src: "fn nop() { }\nfn main() { for i in 0..9000000000000000000 { nop(); } }", infinite: true, kmaxVM: 20, kmaxTree: 60},
	{name: "retry-loop", src: "fn flaky(n: int) { if n % 2 == 0 { throw(\"flaky\"); } }\nfn main() { let attempts = 0; loop { try { flaky(attempts); flaky(attempts + 1); } catch e { attempts += 1; } } }", infinite: true, kmaxVM: 40, kmaxTree: 150},
	{name: "spawn-1", src: "fn w(n: int) { let i = 0; while i < n { i += 1; } println(\"w\", n); }\nfn main() { spawn w(300); let j = 0; while j < 300 { j += 1; } println(\"main\"); }", multi: true, kmaxVM: 60},
	{name: "spawn-3-inf", src: "fn w(n: int) { loop { let x = n + 1; } }\nfn main() { spawn w(1); spawn w(2); spawn w(3); loop { } }", multi: true, infinite: true, kmaxVM: 40},
	{name: "spawn-4-mixed", src: "fn w(n: int) { let i = 0; while i < n { i += 1; } println(\"w\", n); }\nfn main() { spawn w(10); spawn w(2000); spawn w(50); spawn w(4000); println(\"main\"); }", multi: true, kmaxVM: 120},
	{name: "spawn-fail", src: "fn bad(n: int) { let i = 0; while i < n { i += 1; } let l = [1]; println(l[7]); }\nfn w(n: int) { loop { let x = n; } }\nfn main() { spawn w(1); spawn bad(400); spawn w(2); loop { } }", multi: true, infinite: true, kmaxVM: 60},
	{name: "spawn-early-finish", src: "fn w(n: int) { println(\"w\", n); }\nfn main() { spawn w(1); spawn w(2); let i = 0; while i < 1500 { i += 1; } println(\"main\"); }", multi: true, kmaxVM: 60},
}

// Payload of a cancellation case.
type Payload struct {
	Prog int `json:"prog"`
	// Name of the program (takes precedence over Prog when set; used by pinned witnesses).
	Name    string `json:"name,omitempty"`
	Backend string `json:"backend"` // vm | tree
	K       int64  `json:"k"`
	// ArmEarly: count polls from the creation of the VM (includes @init) instead of after NewVM.
	ArmEarly bool `json:"arm_early,omitempty"`
}

func (c10) Cases(tier string, seed uint64) []fw.Case {
	var cases []fw.Case
	for pi, p := range programs {
		for k := 1; k <= p.kmaxVM+1; k++ {
			cases = append(cases, fw.MkCase(fmt.Sprintf("c10-%s-vm-%d", p.name, k), "cancel", Payload{Prog: pi, Backend: "vm", K: int64(k)}))
		}
		if p.multi {
			continue
		}
		for k := 1; k <= p.kmaxTree+1; k++ {
			if k > 60 && k%7 != 0 && tier != "thorough" {
				continue
			}
			tags := []string{}
			if strings.Contains(p.name, "empty") {
				tags = append(tags, "empty-loop")
			}
			cases = append(cases, fw.MkCase(fmt.Sprintf("c10-%s-tree-%d", p.name, k), "cancel", Payload{Prog: pi, Backend: "tree", K: int64(k)}, tags...))
		}
	}
	// cancellation during @init (NewVM): poisoned by KF-vm-newvm-panics-on-cancel
	for pi, p := range programs[:3] {
		cases = append(cases, fw.MkCase(fmt.Sprintf("c10-%s-vm-init-1", p.name), "cancel-init", Payload{Prog: pi, Backend: "vm", K: 1, ArmEarly: true}, "cancel-during-init"))
	}
	return cases
}

func resolve(p Payload) int {
	if p.Name != "" {
		for i, pg := range programs {
			if pg.name == p.Name {
				return i
			}
		}
		panic("c10: unknown program " + p.Name)
	}
	return p.Prog
}

// countingCtx cancels itself at the k-th poll of Done() once armed.
type countingCtx struct {
	mu     sync.Mutex
	k      int64
	polls  int64
	armed  bool
	ch     chan struct{}
	closed atomic.Bool
}

func newCountingCtx(k int64) *countingCtx { return &countingCtx{k: k, ch: make(chan struct{})} }

func (c *countingCtx) Deadline() (time.Time, bool) { return time.Time{}, false }
func (c *countingCtx) Done() <-chan struct{} {
	c.mu.Lock()
	if c.armed && !c.closed.Load() {
		c.polls++
		if c.polls >= c.k {
			c.closed.Store(true)
			close(c.ch)
		}
	}
	c.mu.Unlock()
	return c.ch
}
func (c *countingCtx) Err() error {
	if c.closed.Load() {
		return context.Canceled
	}
	return nil
}
func (c *countingCtx) Value(any) any { return nil }
func (c *countingCtx) cancelNow() {
	c.mu.Lock()
	if !c.closed.Load() {
		c.closed.Store(true)
		close(c.ch)
	}
	c.mu.Unlock()
}
func (c *countingCtx) arm() { c.mu.Lock(); c.armed = true; c.mu.Unlock() }

// runState is the monitor state of the current VM run. The hook callbacks are installed once per
// process (writing the hook variables while cores of an earlier run may still read them would be a
// data race of the harness itself) and reach the current run through an atomic pointer.
type runState struct {
	cc       *countingCtx
	mu       sync.Mutex
	after    map[uint]int64
	maxAfter int64
	total    atomic.Int64
}

var (
	cur       atomic.Pointer[runState]
	hooksOnce sync.Once
)

func installHooks() {
	hooksOnce.Do(func() {
		runtime.VerifStep = func(c *runtime.Core) {
			st := cur.Load()
			if st == nil {
				return
			}
			if !st.cc.closed.Load() {
				// the k-th poll was not reached within the step budget (the core may have stopped
				// polling): the host cancels asynchronously, "at any moment of the run"
				if st.total.Add(1) == preCancelSteps && st.cc.k < 1<<50 {
					st.cc.cancelNow()
				}
				return
			}
			st.mu.Lock()
			st.after[c.Corenum]++
			n := st.after[c.Corenum]
			if n > st.maxAfter {
				st.maxAfter = n
			}
			st.mu.Unlock()
			if n > StepBound {
				panic(fw.StepBudgetMsg)
			}
		}
	})
}

// coreRunGoroutines counts goroutines with a frame in runtime.(*Core).Run.
func coreRunGoroutines() (n int, blockedDump string) {
	buf := make([]byte, 1<<20)
	m := goruntime.Stack(buf, true)
	for _, g := range strings.Split(string(buf[:m]), "\n\n") {
		if strings.Contains(g, "homescript/runtime.(*Core).Run") {
			n++
			blockedDump += g + "\n\n"
		}
	}
	return
}

func stableCoreGoroutines() (n int, dump string, stable bool) {
	last, same := -1, 0
	for i := 0; i < 400; i++ {
		n, dump = coreRunGoroutines()
		if n == last {
			same++
			if same >= 5 {
				return n, dump, true
			}
		} else {
			last, same = n, 0
		}
		goruntime.Gosched()
		time.Sleep(500 * time.Microsecond)
	}
	return n, dump, false
}

func (c10) Run(c fw.Case) fw.Result {
	var p Payload
	fw.Decode(c, &p)
	p.Prog = resolve(p)
	pg := programs[p.Prog]
	src := drive.Sources{"main": pg.src}
	res := fw.Result{Verdict: fw.Held, Cover: []string{"prog:" + pg.name, "backend:" + p.Backend}}
	ao := drive.Analyze(src, "main", true)
	if ao.Errors > 0 {
		res.Verdict, res.Sig, res.Why = fw.Violated, "harness:program-rejected", "listed program rejected: "+ao.ErrorSummary()
		return res
	}
	if p.Backend == "tree" {
		return runTree(p, pg, ao, src, res)
	}
	return runVM(p, pg, ao, src, res)
}

func runTree(p Payload, pg program, ao drive.AnalyzeOut, src drive.Sources, res fw.Result) fw.Result {
	// own outcome of finite programs
	var own drive.Outcome
	if !pg.infinite {
		own = drive.RunTree(ao.Modules, src, "main", drive.TreeOpts{StepBudget: 5_000_000, CallLimit: 100}).Outcome
	}
	cc := newCountingCtx(p.K)
	cc.arm()
	var after, total int64
	exceeded := false
	interpreter.VerifStep = func() {
		total++
		if total == preCancelSteps && !cc.closed.Load() {
			// the k-th poll was not reached within the step budget (the code may not poll at all):
			// the host cancels asynchronously, "at any moment of the run"
			cc.cancelNow()
		}
		if cc.closed.Load() {
			after++
			if after > StepBound {
				exceeded = true
				panic(fw.StepBudgetMsg)
			}
		}
	}
	defer func() { interpreter.VerifStep = nil }()
	var out drive.Outcome
	func() {
		defer func() {
			if r := recover(); r != nil {
				out = drive.Outcome{Class: "go-panic", Message: fmt.Sprint(r)}
			}
		}()
		// not drive.RunTree: it installs its own step hook
		tr := runTreeRaw(ao, src, cc, 100)
		out = tr
	}()
	res.Nontrivial = cc.closed.Load()
	res.Obs = map[string]int64{"polls": cc.polls, "steps_after_cancel": after}
	switch {
	case exceeded:
		res.Verdict, res.Sig = fw.Violated, "tree:no-stop-within-bound"
		res.Why = fmt.Sprintf("interpreter executed more than %d steps after the context was cancelled at poll %d (program %s)", StepBound, p.K, pg.name)
	case out.Class == "go-panic":
		res.Verdict, res.Sig = fw.Violated, "tree:go-panic:"+util.NormPanic(out.Message)
		res.Why = fmt.Sprintf("interpreter panicked: %s (program %s, k=%d)", out.Message, pg.name, p.K)
	case cc.closed.Load() && out.Class != "terminate" && (pg.infinite || !sameOutcome(out, own)):
		res.Verdict, res.Sig = fw.Violated, "tree:wrong-outcome:"+out.Class
		res.Why = fmt.Sprintf("after cancellation at poll %d the interpreter returned %s (own outcome %s) for program %s", p.K, out, own, pg.name)
	case !cc.closed.Load() && !pg.infinite && !sameOutcome(out, own):
		res.Verdict, res.Sig = fw.Violated, "tree:outcome-changed-without-cancel"
		res.Why = fmt.Sprintf("without cancellation the interpreter returned %s, expected %s", out, own)
	}
	return res
}

func sameOutcome(a, b drive.Outcome) bool {
	return a.Class == b.Class && a.Kind == b.Kind && drive.FirstLine(a.Message) == drive.FirstLine(b.Message)
}

func runVM(p Payload, pg program, ao drive.AnalyzeOut, src drive.Sources, res fw.Result) fw.Result {
	prog, err := drive.Compile(ao.Modules, "main")
	if err != nil {
		res.Verdict, res.Sig, res.Why = fw.Violated, "harness:compile", err.Error()
		return res
	}
	limits := runtime.CoreLimits{CallStackMaxSize: 100, StackMaxSize: 500, MaxMemorySize: 10000}
	var own drive.Outcome
	if !pg.infinite {
		// uncancelled reference run with the same (once installed) hooks
		installHooks()
		cur.Store(&runState{cc: newCountingCtx(1 << 60), after: map[uint]int64{}})
		bg := context.Background()
		var noCancel context.CancelFunc = func() {}
		ex := drive.VMExec{L: &drive.Log{}, Src: src}
		func() {
			defer func() {
				if r := recover(); r != nil {
					own = drive.Outcome{Class: "go-panic", Message: fmt.Sprint(r)}
				}
			}()
			vm0 := runtime.NewVM(prog, ex, &bg, &noCancel, ex.VMScope(), limits)
			vm0.SpawnAsync(runtime.MainFn(), nil, nil, nil)
			_, i := vm0.Wait()
			own = drive.VMOutcome(i)
		}()
		stableCoreGoroutines()
	}
	cc := newCountingCtx(p.K)
	if p.ArmEarly {
		cc.arm()
	}
	st := &runState{cc: cc, after: map[uint]int64{}}
	installHooks()
	cur.Store(st)
	mu := &st.mu
	var ctx context.Context = cc
	var cancel context.CancelFunc = cc.cancelNow
	log := &drive.Log{}
	exec := drive.VMExec{L: log, Src: src}
	var out drive.Outcome
	newVMPanic := ""
	func() {
		defer func() {
			if r := recover(); r != nil {
				newVMPanic = fmt.Sprint(r)
			}
		}()
		vm := runtime.NewVM(prog, exec, &ctx, &cancel, exec.VMScope(), limits)
		cc.arm()
		vm.SpawnAsync(runtime.MainFn(), nil, nil, nil)
		// the wait runs on its own goroutine so that a wait that never returns can be observed
		done := make(chan drive.Outcome, 1)
		go func() {
			_, i := vm.Wait()
			done <- drive.VMOutcome(i)
		}()
		blockedSamples := 0
		for i := 0; ; i++ {
			select {
			case out = <-done:
				return
			default:
			}
			time.Sleep(200 * time.Microsecond)
			if i%50 == 49 {
				if allBlocked() {
					blockedSamples++
					if blockedSamples >= 50 {
						out = drive.Outcome{Class: "deadlock", Message: "the wait does not return: every homescript goroutine is blocked"}
						return
					}
				} else {
					blockedSamples = 0
				}
			}
		}
	}()
	res.Nontrivial = cc.closed.Load()
	mu.Lock()
	maxAfter := st.maxAfter
	res.Obs = map[string]int64{"polls": cc.polls, "max_steps_after_cancel": maxAfter}
	mu.Unlock()
	fail := func(sig, why string) {
		if res.Verdict == fw.Violated {
			res.More = append(res.More, fw.SubViolation{Sig: sig, Why: why})
			return
		}
		res.Verdict, res.Sig, res.Why = fw.Violated, sig, why
	}
	if newVMPanic != "" {
		fail("vm:newvm-panic:"+util.NormPanic(newVMPanic), fmt.Sprintf("NewVM panicked on the host's goroutine: %s (program %s, k=%d)", newVMPanic, pg.name, p.K))
		return res
	}
	switch {
	case out.Class == "deadlock":
		fail("vm:wait-never-returns", fmt.Sprintf("%s (program %s, k=%d)", out.Message, pg.name, p.K))
		return res
	case cc.closed.Load() && out.Class != "terminate" && (pg.infinite || (!pg.multi && !sameOutcome(out, own)) || (pg.multi && out.Class != own.Class)):
		fail("vm:wrong-outcome:"+out.Class, fmt.Sprintf("after cancellation at poll %d the wait returned %s (own outcome %s) for program %s", p.K, out, own, pg.name))
	case !cc.closed.Load() && !pg.infinite && out.Class != own.Class:
		fail("vm:outcome-changed-without-cancel", fmt.Sprintf("without cancellation the wait returned %s, expected %s", out, own))
	}
	// leak check
	n, dump, stable := stableCoreGoroutines()
	if !stable {
		res.Cover = append(res.Cover, "leak-sample-unstable")
	} else if n != 0 {
		fail("vm:core-goroutine-left", fmt.Sprintf("%d goroutine(s) still inside Core.Run after the wait returned (program %s, k=%d):\n%s", n, pg.name, p.K, util.Clip(dump, 1500)))
	}
	if p.K == 3 {
		res.Sample = map[string]any{"program": pg.name, "src": pg.src, "backend": "vm", "k": p.K, "outcome": out.String(), "polls": cc.polls, "max_steps_after_cancel": maxAfter}
	}
	return res
}

// allBlocked: every goroutine that has a homescript frame is blocked on a channel or a lock.
func allBlocked() bool {
	buf := make([]byte, 1<<20)
	m := goruntime.Stack(buf, true)
	any := false
	for _, g := range strings.Split(string(buf[:m]), "\n\n") {
		if !strings.Contains(g, "smarthome-go/homescript/v3/homescript/runtime.") {
			continue
		}
		any = true
		head := g
		if i := strings.Index(g, "\n"); i > 0 {
			head = g[:i]
		}
		if !(strings.Contains(head, "[chan send") || strings.Contains(head, "[chan receive") || strings.Contains(head, "[semacquire") || strings.Contains(head, "[sync.") || strings.Contains(head, "[select")) {
			return false
		}
	}
	return any
}

func (c10) OnCrash(c fw.Case, cr fw.Crash) fw.Result {
	var p Payload
	fw.Decode(c, &p)
	pg := programs[resolve(p)]
	switch cr.Kind {
	case "watchdog", "killed":
		return fw.Result{Verdict: fw.Inconclusive, Why: fmt.Sprintf("%s: %s (program %s, backend %s, k=%d)", cr.Kind, cr.Message, pg.name, p.Backend, p.K)}
	case "step-budget":
		return fw.Result{Verdict: fw.Violated, Nontrivial: true, Sig: p.Backend + ":no-stop-within-bound",
			Why: fmt.Sprintf("a core executed more than %d steps after the context was cancelled at poll %d (program %s)", StepBound, p.K, pg.name)}
	}
	return fw.Result{Verdict: fw.Violated, Nontrivial: true,
		Sig: fmt.Sprintf("%s:crash:%s:%s:%s", p.Backend, cr.Kind, util.NormPanic(cr.Message), cr.TopFrame),
		Why: fmt.Sprintf("worker died (%s: %s) at %s (program %s, k=%d)\n%s", cr.Kind, util.Clip(cr.Message, 300), cr.TopFrame, pg.name, p.K, util.Clip(cr.StderrTail, 1500))}
}

func runTreeRaw(ao drive.AnalyzeOut, src drive.Sources, ctx context.Context, limit uint) drive.Outcome {
	exec := drive.TreeExec{L: &drive.Log{}, Src: src}
	var c context.Context = ctx
	i := hms.Run(limit, ao.Modules, "main", exec, exec.TreeScope(nil), &c)
	return drive.TreeOutcome(i)
}
